(* C20e: the nondeterministic mirror of steiner_tree (Model/SteinerM.v) under SOk:
   it is total, and every possible result is a subgraph, a tree, holds the terminals and has only
   terminal leaves (clauses 1-4 of steiner_check). *)
From Coq Require Import Lia ZArith Bool Permutation.
From PG Require Import Lib.Io Model.View Model.Traversal Model.ShortestM Model.UnionFindM Model.MstM Model.MiscM Model.SteinerM
  Spec.Partition Spec.Forest Spec.MiscSpec Spec.Paths Spec.EPaths
  Proofs.UnionFindH Proofs.ForestP Proofs.MstP Proofs.PrimP Proofs.FloydP Proofs.FloydCompleteP Proofs.DijkstraP
  Proofs.MiscSteinerP1 Proofs.MiscSteinerP2 Proofs.SteinerMP1 Proofs.SteinerMP2 Proofs.SteinerMP3.
Local Open Scope nat_scope.

(* ------------------------------------------------------------------ *)
(* the setting                                                          *)

(* v: what every petgraph graph shows (MOk), nodes 0 .. node_count-1 (FOk), out-lists and
   edge_references describing the same weighted steps (ERefsOk, VOk), distinct edge ids, no negative
   weight, no simple path as heavy as i64::MAX (floyd_warshall's and dijkstra's sums do not overflow);
   terms: at least two distinct nodes of v, inside the visit map, mutually reachable. *)
Record SOk (v : view) (terms : list nat) : Prop := {
  so_mok : MOk v;
  so_fok : FOk v;
  so_vok : VOk v;
  so_refs : ERefsOk v;
  so_ids : NoDup (map id4 (verefs v));
  so_nonneg : forall a b w, estep v a b w -> (0 <= w)%Z;
  so_max : forall i p j, ewalk v i p j -> esimple i p -> (ecost p < KMAX)%Z;
  so_nodup : NoDup terms;
  so_two : 2 <= length terms;
  so_nodes : incl terms (vnodes v);
  so_cap : forall t, In t terms -> in_cap v t;
  so_conn : forall s t, In s terms -> In t terms -> ereachable v s t
}.

(* (nodes, es) is the result of the mirror for some minimum spanning tree of the metric closure *)
Definition SteinerRun (v : view) (terms nodes : list nat) (es : list (nat * nat * Z)) : Prop :=
  exists cl d prev tree,
    metric_closure v terms = Ok cl /\ floyd_warshall KMIN KMAX v = Ok (Some (d, prev)) /\
    In tree (closure_msts (vbound v) (length terms) cl) /\
    steiner_for v terms prev tree = Ok (nodes, es).

Lemma outputs_iff v terms outs : steiner_outputs v terms = Ok outs ->
  forall nodes es, In (nodes, es) outs <-> SteinerRun v terms nodes es.
Proof.
  unfold steiner_outputs, SteinerRun. intros E nodes es.
  destruct (metric_closure v terms) as [cl| |]; cbn [rbind] in E; try discriminate E.
  destruct (floyd_warshall KMIN KMAX v) as [[[d prev]|]| |]; cbn [rbind] in E; try discriminate E.
  destruct (rmapm_In _ _ _ E) as [H1 H2]. split.
  - intros Hin. destruct (H1 _ Hin) as [tree [Ht Et]]. exists cl, d, prev, tree. repeat split; assumption.
  - intros [cl' [d' [prev' [tree [E1 [E2 [Ht Et]]]]]]]. injection E1 as <-. injection E2 as <- <-.
    destruct (H2 tree Ht) as [y [Hy Ey]]. rewrite Et in Ey. injection Ey as <-. exact Hy.
Qed.

(* ------------------------------------------------------------------ *)
(* walks without negative weights                                       *)

Lemma ecost_nonneg v : (forall a b w, estep v a b w -> (0 <= w)%Z) ->
  forall i p j, ewalk v i p j -> (0 <= ecost p)%Z.
Proof.
  intros Hn i p j W. induction W as [a | a b w p c Hs Hp IH]; cbn [ecost snd]; [lia|].
  pose proof (Hn a b w Hs). lia.
Qed.

Lemma sok_nonneg v terms : SOk v terms -> nonneg v.
Proof.
  intros H a e He. apply (so_nonneg v terms H a (tgt e) (ewgt e)).
  apply (so_refs v terms H). exists e. repeat split; auto.
Qed.

(* floyd_warshall succeeds, with exact distances and a predecessor chain for every pair of terminals *)
Lemma sok_floyd v terms : SOk v terms ->
  exists d prev, floyd_warshall KMIN KMAX v = Ok (Some (d, prev)) /\
    (forall s t, In s terms -> In t terms ->
       exists q, fw_chain (vnode_count v) prev s t = Some (map fst q) /\ ewalk v s q t /\ esimple s q /\
                 ecost q = dm d s t /\ edist v s t (dm d s t)).
Proof.
  intros H.
  assert (HNN : ~ eneg_cycle v).
  { intros [a [c [W Hc]]]. pose proof (ecost_nonneg v (so_nonneg v terms H) a c a W). lia. }
  destruct (fw_path_spec KMIN KMAX v (so_fok v terms H) HNN (so_max v terms H)) as [d [p [E [_ [_ [Hex HPS]]]]]].
  { intros i p k q j W1 W2. pose proof (ecost_nonneg v (so_nonneg v terms H) _ _ _ W1).
    pose proof (ecost_nonneg v (so_nonneg v terms H) _ _ _ W2). unfold KMIN. lia. }
  exists d, p. split; [exact E|]. intros s t Hs Ht.
  assert (Ls : s < vnode_count v) by (apply (fk_lt (so_fok v terms H)), (so_nodes v terms H), Hs).
  assert (Lt : t < vnode_count v) by (apply (fk_lt (so_fok v terms H)), (so_nodes v terms H), Ht).
  pose proof (so_conn v terms H s t Hs Ht) as Hr.
  destruct HPS as [_ [_ [_ Hch]]]. destruct (Hch s t Ls Lt Hr) as [l [q [Ec [W [El [Hsim Hc]]]]]].
  exists q. rewrite El. split; [exact Ec|]. split; [exact W|]. split; [exact Hsim|]. split; [exact Hc|].
  apply (Hex s t Ls Lt), Hr.
Qed.

Lemma sok_paths v terms d prev : SOk v terms -> floyd_warshall KMIN KMAX v = Ok (Some (d, prev)) ->
  PathsOk v terms prev.
Proof.
  intros H E s t Hs Ht. destruct (sok_floyd v terms H) as [d' [prev' [E' Hp]]].
  rewrite E in E'. injection E' as <- <-.
  destruct (Hp s t Hs Ht) as [q [Ec [W _]]]. exists q. split; assumption.
Qed.

(* ------------------------------------------------------------------ *)
(* the metric closure                                                   *)

Lemma pairs_after_In : forall l a b, In (a, b) (pairs_after l) -> In a l /\ In b l.
Proof.
  induction l as [|x t IH]; intros a b Hin; [destruct Hin|]. cbn [pairs_after] in Hin.
  apply in_app_iff in Hin. destruct Hin as [Hin|Hin].
  - apply in_map_iff in Hin. destruct Hin as [y [Ey Hy]]. injection Ey as <- <-. split; [left; reflexivity | right; exact Hy].
  - destruct (IH a b Hin). split; right; assumption.
Qed.

Definition mc_entry (v : view) : nat * nat -> res (nat * nat * Z) :=
  fun '(a, b) => rbind (dijkstra v a (Some b)) (fun m =>
           match sget m b with Some d => Ok (a, b, d) | None => Panic end).

Lemma mc_entry_fst v x y : mc_entry v x = Ok y -> fst y = x.
Proof.
  destruct x as [a b]. cbn [mc_entry]. destruct (dijkstra v a (Some b)) as [m| |]; cbn [rbind]; try discriminate.
  destruct (sget m b); [|discriminate]. intros E. injection E as <-. reflexivity.
Qed.

Lemma rmapm_inv {A B} (f : A -> res B) (g : B -> A) : (forall x y, f x = Ok y -> g y = x) ->
  forall l ys, rmapm f l = Ok ys -> map g ys = l.
Proof.
  intros Hg. induction l as [|x t IH]; intros ys E; cbn [rmapm] in E.
  - injection E as <-. reflexivity.
  - destruct (f x) as [y0| |] eqn:Ex; cbn [rbind] in E; try discriminate E.
    destruct (rmapm f t) as [ys0| |] eqn:Et; cbn [rbind] in E; try discriminate E.
    injection E as <-. cbn [map]. rewrite (Hg x y0 Ex), (IH ys0 eq_refl). reflexivity.
Qed.

Lemma metric_closure_ends v terms cl : metric_closure v terms = Ok cl -> ends cl = pairs_after terms.
Proof. intros E. apply (rmapm_inv (mc_entry v) fst (mc_entry_fst v) _ _ E). Qed.

Lemma metric_closure_total v terms : SOk v terms -> exists cl, metric_closure v terms = Ok cl.
Proof.
  intros H. apply (rmapm_total (mc_entry v)). intros [a b] Hin.
  apply pairs_after_In in Hin. destruct Hin as [Ha Hb].
  destruct (dijkstra_goal b (so_vok v terms H) (sok_nonneg v terms H) (so_cap v terms H a Ha)) as [m [E [_ [Hg _]]]].
  destruct (sok_floyd v terms H) as [d [prev [_ Hp]]].
  destruct (Hp a b Ha Hb) as [q [_ [_ [_ [_ Hd]]]]].
  apply (edist_iff a b (dm d a b) (so_refs v terms H)) in Hd. apply Hg in Hd.
  cbn [mc_entry]. rewrite E. cbn [rbind]. rewrite Hd. eexists. reflexivity.
Qed.

(* ------------------------------------------------------------------ *)
(* the spanning trees of the closure                                    *)

Lemma acyclic_b_fold bound es : SteinerM.acyclic_edges bound es = fst (fold_left tc_step es (true, uf_new bound)).
Proof. reflexivity. Qed.

Lemma closure_msts_sub bound k cl tree : In tree (closure_msts bound k cl) -> In tree (closure_trees bound k cl).
Proof.
  unfold closure_msts. destruct (closure_trees bound k cl) as [|t0 ts]; [intros []|].
  intros Hin. apply filter_In in Hin. tauto.
Qed.

Lemma closure_tree_spec bound terms cl tree : NoDup terms -> terms <> [] -> (forall t, In t terms -> t < bound) ->
  ends cl = pairs_after terms -> In tree (closure_trees bound (length terms) cl) ->
  incl tree cl /\ IsTree terms (ends tree).
Proof.
  intros ND Hne Hb Ecl Hin. unfold closure_trees in Hin. apply filter_In in Hin. destruct Hin as [Hs Hc].
  apply andb_true_iff in Hc. destruct Hc as [Hlen Hac]. apply Nat.eqb_eq in Hlen.
  apply subseqs_In_st in Hs. pose proof (sublist_incl _ _ Hs) as Hi. split; [exact Hi|].
  assert (He : forall a b w, In (a, b, w) tree -> In a terms /\ In b terms).
  { intros a b w Hab. apply pairs_after_In. rewrite <- Ecl. apply ends_In. exists w. apply Hi, Hab. }
  apply (tree_check_tree terms tree bound ND He Hb Hne).
  rewrite tree_check_fold. destruct terms as [|t0 ts]; [exfalso; apply Hne; reflexivity|].
  rewrite acyclic_b_fold in Hac. rewrite Hac, andb_true_r. apply Nat.eqb_eq. exact Hlen.
Qed.

(* a spanning tree of the closure exists: the star at the first terminal *)
Lemma star_acyclic t0 : forall rest prev, NoDup rest -> ~ In t0 rest ->
  (forall a b, In (a, b) prev -> ~ In a rest /\ ~ In b rest) -> acyclic_from prev (map (pair t0) rest).
Proof.
  induction rest as [|r rest IH]; intros prev ND Ht0 Hp; [exact I|].
  inversion ND as [|x l Hr Hl]; subst. cbn [map acyclic_from]. split.
  - intros C. destruct (conn_inside (fun x => ~ In x (r :: rest)) prev Hp t0 r C) as [E|[_ H2]].
    + apply Ht0. left. symmetry. exact E.
    + apply H2. left. reflexivity.
  - apply IH; [exact Hl | intros Hin; apply Ht0; right; exact Hin|].
    intros a b [E|Hin].
    + injection E as <- <-. split; [intros Hin; apply Ht0; right; exact Hin | exact Hr].
    + destruct (Hp a b Hin) as [H1 H2]. split; intros Hx; [apply H1 | apply H2]; right; exact Hx.
Qed.

Lemma rmapm_app {A B} (f : A -> res B) : forall l1 l2 ys, rmapm f (l1 ++ l2) = Ok ys ->
  exists ys1 ys2, ys = ys1 ++ ys2 /\ rmapm f l1 = Ok ys1 /\ rmapm f l2 = Ok ys2.
Proof.
  induction l1 as [|x t IH]; intros l2 ys E; cbn [app] in E.
  - exists [], ys. repeat split. exact E.
  - cbn [rmapm] in E |- *. destruct (f x) as [y0| |]; cbn [rbind] in E |- *; try discriminate E.
    destruct (rmapm f (t ++ l2)) as [ys0| |] eqn:Et; cbn [rbind] in E; try discriminate E.
    injection E as <-. destruct (IH l2 ys0 Et) as [ys1 [ys2 [-> [E1 E2]]]].
    exists (y0 :: ys1), ys2. rewrite E1. cbn [rbind]. repeat split. exact E2.
Qed.

Lemma sublist_app_l {A} (l1 l2 : list A) : sublist l1 (l1 ++ l2).
Proof.
  induction l1 as [|x t IH]; cbn [app].
  - induction l2 as [|y l2 IH2]; [constructor | apply sl_skip, IH2].
  - apply sl_take, IH.
Qed.

Lemma closure_trees_nonempty v terms cl : SOk v terms -> metric_closure v terms = Ok cl ->
  closure_trees (vbound v) (length terms) cl <> [].
Proof.
  intros H E. pose proof (so_nodup v terms H) as ND. pose proof (so_two v terms H) as H2.
  destruct terms as [|t0 rest] eqn:Et; [cbn [length] in H2; lia|].
  unfold metric_closure in E. cbn [pairs_after] in E.
  change (rmapm _ (map (pair t0) rest ++ pairs_after rest)) with
    (rmapm (mc_entry v) (map (pair t0) rest ++ pairs_after rest)) in E.
  destruct (rmapm_app _ _ _ _ E) as [ys1 [ys2 [-> [E1 E2]]]].
  pose proof (rmapm_inv (mc_entry v) fst (mc_entry_fst v) _ _ E1) as Eends. fold (ends ys1) in Eends.
  assert (Hin : In ys1 (closure_trees (vbound v) (length (t0 :: rest)) (ys1 ++ ys2))).
  { unfold closure_trees. apply filter_In. split; [apply subseqs_In_st, sublist_app_l|].
    apply andb_true_iff. split.
    - apply Nat.eqb_eq. rewrite <- (ends_length ys1), Eends, map_length. reflexivity.
    - rewrite acyclic_b_fold. apply (tc_fold_spec (vbound v) ys1 _ [] (abs_new (vbound v))).
      inversion ND as [|x l Hx Hl]; subst. split.
      + intros a b w Hab. assert (Hp : In (a, b) (map (pair t0) rest)).
        { rewrite <- Eends. apply ends_In. exists w. exact Hab. }
        apply in_map_iff in Hp. destruct Hp as [y [Ey Hy]]. injection Ey as <- <-.
        destruct (so_mok v _ H) as [_ [Hb _]].
        split; apply Hb, (so_nodes v _ H); [left; reflexivity | right; exact Hy].
      + rewrite Eends. apply star_acyclic; [exact Hl | exact Hx | intros a b []]. }
  intros E0. rewrite E0 in Hin. destruct Hin.
Qed.

Lemma fold_min_attained {A} (f : A -> Z) : forall l b,
  let m := fold_left (fun b t => Z.min b (f t)) l b in m = b \/ exists t, In t l /\ f t = m.
Proof.
  induction l as [|x t IH]; intros b; cbn [fold_left]; [left; reflexivity|].
  destruct (IH (Z.min b (f x))) as [E|[y [Hy Ey]]].
  - destruct (Z.min_spec b (f x)) as [[_ Em]|[_ Em]].
    + left. cbn zeta in E. rewrite E. exact Em.
    + right. exists x. split; [left; reflexivity|]. cbn zeta in E. rewrite E. symmetry. exact Em.
  - right. exists y. split; [right; exact Hy | exact Ey].
Qed.

Lemma closure_msts_nonempty bound k cl : closure_trees bound k cl <> [] -> closure_msts bound k cl <> [].
Proof.
  unfold closure_msts. destruct (closure_trees bound k cl) as [|t0 ts]; [congruence|]. intros _.
  set (m := fold_left (fun b t => Z.min b (sumw t)) (t0 :: ts) (sumw t0)).
  assert (Hex : exists t, In t (t0 :: ts) /\ sumw t = m).
  { destruct (fold_min_attained sumw (t0 :: ts) (sumw t0)) as [E|Hx]; [|exact Hx].
    exists t0. split; [left; reflexivity|]. symmetry. exact E. }
  destruct Hex as [t [Ht Em]]. intros E0.
  assert (Hin : In t (filter (fun t => Z.eqb (sumw t) m) (t0 :: ts))).
  { apply filter_In. split; [exact Ht|]. apply Z.eqb_eq. exact Em. }
  rewrite E0 in Hin. destruct Hin.
Qed.

(* ------------------------------------------------------------------ *)
(* the theorems                                                         *)

Lemma sok_terms_bound v terms : SOk v terms -> forall t, In t terms -> t < vbound v.
Proof. intros H t Ht. destruct (so_mok v terms H) as [_ [Hb _]]. apply Hb, (so_nodes v terms H), Ht. Qed.

Lemma sok_terms_ne v terms : SOk v terms -> terms <> [].
Proof. intros H E. pose proof (so_two v terms H) as H2. rewrite E in H2. cbn [length] in H2. lia. Qed.

Lemma sok_tree v terms cl tree : SOk v terms -> metric_closure v terms = Ok cl ->
  In tree (closure_msts (vbound v) (length terms) cl) -> incl tree cl /\ IsTree terms (ends tree).
Proof.
  intros H E Hin. apply closure_msts_sub in Hin.
  apply (closure_tree_spec (vbound v) terms cl tree (so_nodup v terms H) (sok_terms_ne v terms H)
           (sok_terms_bound v terms H) (metric_closure_ends v terms cl E) Hin).
Qed.

(* one run of the mirror: everything about its result *)
Theorem steiner_run_spec v terms nodes es : SOk v terms -> SteinerRun v terms nodes es ->
  incl nodes (vnodes v) /\
  (forall a b w, In (a, b, w) es -> exists i, In (i, a, b, w) (verefs v)) /\
  IsTree nodes (ends es) /\ tree_check nodes es (vbound v) = true /\
  incl terms nodes /\
  (forall x, In x nodes -> degree x es = 1 -> In x terms).
Proof.
  intros H [cl [d [prev [tree [E1 [E2 [Ht Es]]]]]]].
  destruct (sok_tree v terms cl tree H E1 Ht) as [_ HT].
  destruct (steiner_for_spec v terms prev tree (so_mok v terms H) (so_ids v terms H)
              (sok_paths v terms d prev H E2) (so_nodes v terms H) (so_two v terms H) HT)
    as [nodes' [es' [Es' Hall]]].
  rewrite Es in Es'. injection Es' as <- <-. exact Hall.
Qed.

(* S1: the mirror is total and has at least one result *)
Theorem steiner_outputs_total v terms : SOk v terms ->
  exists outs, steiner_outputs v terms = Ok outs /\ outs <> [].
Proof.
  intros H. unfold steiner_outputs.
  destruct (metric_closure_total v terms H) as [cl E1]. rewrite E1. cbn [rbind].
  destruct (sok_floyd v terms H) as [d [prev [E2 _]]]. rewrite E2. cbn [rbind].
  destruct (rmapm_total (steiner_for v terms prev) (closure_msts (vbound v) (length terms) cl)) as [outs Eo].
  { intros tree Ht. destruct (sok_tree v terms cl tree H E1 Ht) as [_ HT].
    destruct (steiner_for_spec v terms prev tree (so_mok v terms H) (so_ids v terms H)
                (sok_paths v terms d prev H E2) (so_nodes v terms H) (so_two v terms H) HT)
      as [nodes [es [Es _]]]. eexists. exact Es. }
  exists outs. split; [exact Eo|]. intros E0.
  pose proof (rmapm_length _ _ _ Eo) as El. rewrite E0 in El. cbn [length] in El.
  apply (closure_msts_nonempty (vbound v) (length terms) cl (closure_trees_nonempty v terms cl H E1)).
  destruct (closure_msts (vbound v) (length terms) cl); [reflexivity | discriminate El].
Qed.

(* the clauses of steiner_check *)
Theorem steiner_run_clauses v terms nodes es : SOk v terms -> SteinerRun v terms nodes es ->
  St1 v nodes es /\ St2 nodes es /\ St3 terms nodes /\ St4 terms nodes es.
Proof.
  intros H HR. destruct (steiner_run_spec v terms nodes es H HR) as [H1 [H2 [H3 [_ [H5 H6]]]]].
  split; [|split; [|split]].
  - split; [exact H1|]. intros a b w Hin. destruct (H2 a b w Hin) as [i Hi]. exists i. left. exact Hi.
  - right. exact H3.
  - exact H5.
  - intros _ x Hx Hd. apply (H6 x Hx Hd).
Qed.

Lemma list_eqbn_eq : forall a b, list_eqbn a b = true -> a = b.
Proof.
  induction a as [|x a IH]; intros [|y b] E; cbn [list_eqbn] in E; try discriminate E; [reflexivity|].
  apply andb_true_iff in E. destruct E as [E1 E2]. apply Nat.eqb_eq in E1. subst y. rewrite (IH b E2). reflexivity.
Qed.

Lemma list_eqb3_eq : forall a b, list_eqb3 a b = true -> a = b.
Proof.
  induction a as [|[[x1 y1] w1] a IH]; intros [|[[x2 y2] w2] b] E; cbn [list_eqb3] in E; try discriminate E; [reflexivity|].
  apply andb_true_iff in E. destruct E as [E1 E2]. apply andb_true_iff in E1. destruct E1 as [Ex Ey].
  apply andb_true_iff in E2. destruct E2 as [Ew E2].
  apply Nat.eqb_eq in Ex. apply Nat.eqb_eq in Ey. apply Z.eqb_eq in Ew. subst. rewrite (IH b E2). reflexivity.
Qed.

Lemma possible_run v terms nodes es : SOk v terms -> length terms <= 5 ->
  steiner_possible v terms nodes es = true -> SteinerRun v terms nodes es.
Proof.
  intros H H5 E. unfold steiner_possible in E.
  assert (C1 : Nat.ltb 5 (length terms) = false) by (apply Nat.ltb_ge; exact H5).
  assert (C2 : MiscM.nodupb terms = true) by (apply nodupb_iff, (so_nodup v terms H)).
  rewrite C1, C2 in E. cbn [negb orb] in E.
  destruct (steiner_outputs v terms) as [outs| |] eqn:Eo; try discriminate E.
  apply existsb_exists in E. destruct E as [[ns ee] [Hin Eq]]. apply andb_true_iff in Eq. destruct Eq as [En Ee].
  apply list_eqbn_eq in En. apply list_eqb3_eq in Ee. subst.
  apply (outputs_iff v terms outs Eo). exact Hin.
Qed.

(* S7 *)
Theorem possible_implies_check v terms nodes es : SOk v terms -> length terms <= 5 ->
  steiner_possible v terms nodes es = true ->
  (St1 v nodes es /\ St2 nodes es /\ St3 terms nodes /\ St4 terms nodes es) /\
  (steiner_check v terms nodes es = 0 \/ steiner_check v terms nodes es = 5).
Proof.
  intros H H5 E. pose proof (steiner_run_clauses v terms nodes es H (possible_run v terms nodes es H H5 E)) as C.
  split; [exact C|]. destruct C as [C1 [C2 [C3 C4]]].
  destruct (steiner_check_verdicts v terms nodes es (so_mok v terms H)) as [Hle [V0 [V1 [V2 [V3 [V4 V5]]]]]].
  destruct (steiner_check v terms nodes es) as [|[|[|[|[|[|n]]]]]] eqn:Ec; auto; exfalso.
  - apply (proj1 V1); [reflexivity | exact C1].
  - destruct (proj1 V2 eq_refl) as [_ N]. apply N, C2.
  - destruct (proj1 V3 eq_refl) as [_ [_ N]]. apply N, C3.
  - destruct (proj1 V4 eq_refl) as [_ [_ [_ N]]]. apply N, C4.
  - lia.
Qed.

(* the whole view connected suffices for the last clause of SOk *)
Lemma connected_terms v terms : incl terms (vnodes v) ->
  (forall i j, In i (vnodes v) -> In j (vnodes v) -> ereachable v i j) ->
  forall s t, In s terms -> In t terms -> ereachable v s t.
Proof. intros Hi Hc s t Hs Ht. apply Hc; apply Hi; assumption. Qed.

(* ------------------------------------------------------------------ *)
(* the statements of Props/C20e.v, for one closure tree                 *)

Section PerTree.
  Variables (v : view) (terms : list nat) (cl : list (nat * nat * Z)) (d : list (list Z))
            (prev : list (list (option nat))) (tree : list (nat * nat * Z)) (nodes : list nat) (es : list (nat * nat * Z)).
  Hypothesis H : SOk v terms.
  Hypothesis E1 : metric_closure v terms = Ok cl.
  Hypothesis E2 : floyd_warshall KMIN KMAX v = Ok (Some (d, prev)).
  Hypothesis Ht : In tree (closure_msts (vbound v) (length terms) cl).
  Hypothesis Es : steiner_for v terms prev tree = Ok (nodes, es).

  Lemma per_tree_run : SteinerRun v terms nodes es.
  Proof. exists cl, d, prev, tree. repeat split; assumption. Qed.

  Lemma per_tree_subgraph :
    incl nodes (vnodes v) /\
    (forall a b w, In (a, b, w) es -> exists i, In (i, a, b, w) (verefs v)) /\
    (forall a b w, In (a, b, w) es -> In a nodes /\ In b nodes).
  Proof.
    destruct (steiner_run_spec v terms nodes es H per_tree_run) as [H1 [H2 [H3 _]]].
    split; [exact H1|]. split; [exact H2|]. intros a b w Hin.
    destruct H3 as [_ [_ [He _]]]. apply He. apply ends_In. exists w. exact Hin.
  Qed.

  Lemma per_tree_is_tree : NoDup nodes /\ tree_check nodes es (vbound v) = true /\ IsTree nodes (ends es).
  Proof.
    destruct (steiner_run_spec v terms nodes es H per_tree_run) as [_ [_ [H3 [H4 _]]]].
    split; [destruct H3 as [_ [ND _]]; exact ND|]. split; assumption.
  Qed.

  Lemma per_tree_terminals : incl terms nodes.
  Proof. destruct (steiner_run_spec v terms nodes es H per_tree_run) as [_ [_ [_ [_ [H5 _]]]]]. exact H5. Qed.

  Lemma per_tree_leaves : forall x, In x nodes -> degree x es = 1 -> In x terms.
  Proof. destruct (steiner_run_spec v terms nodes es H per_tree_run) as [_ [_ [_ [_ [_ H6]]]]]. exact H6. Qed.
End PerTree.
