(* T3: remove_edge.  Unlinking through change_edge_links, Vec::swap_remove, and re-pointing
   the links of the moved edge, described on the explicit adjacency lists. *)
From PG Require Import Lib.ListArr Lib.Walk Model.GraphM Proofs.GraphP.
Set Implicit Arguments.

(* ------------------------------------------------------------------ *)
(* Generic list facts                                                  *)

Lemma list_rev_case {A} (l : list A) : l = [] \/ exists l' p, l = l' ++ [p].
Proof.
  destruct l as [|x l] using rev_ind; [left; auto|right; eauto].
Qed.

Lemma map_upd_same {A B} (f : A -> B) (l : list A) i v x :
  nth_error l i = Some x -> f v = f x -> map f (upd l i v) = map f l.
Proof.
  revert i; induction l as [|h t IH]; intros [|i] H E; simpl in *; try discriminate.
  - injection H as ->. congruence.
  - f_equal. eapply IH; eauto.
Qed.

Lemma map_eq_nth {A B} (f : A -> B) (l l' : list A) i x :
  map f l' = map f l -> nth_error l i = Some x ->
  exists x', nth_error l' i = Some x' /\ f x' = f x.
Proof.
  intros E H.
  assert (H1 : nth_error (map f l) i = Some (f x)) by (rewrite nth_error_map, H; reflexivity).
  rewrite <- E, nth_error_map in H1.
  destruct (nth_error l' i) as [x'|]; simpl in H1; [|discriminate].
  injection H1 as H1. eauto.
Qed.

Lemma map_eq_length {A B} (f : A -> B) (l l' : list A) : map f l' = map f l -> length l' = length l.
Proof. intros E. apply (f_equal (@length B)) in E. rewrite !map_length in E. auto. Qed.

Lemma swap_remove_snoc {A} (l : list A) z i :
  swap_remove (l ++ [z]) i = if Nat.eqb i (length l) then l else removelast (upd (l ++ [z]) i z).
Proof.
  unfold swap_remove. rewrite rev_app_distr. simpl.
  rewrite app_length. simpl. replace (length l + 1 - 1) with (length l) by lia.
  destruct (Nat.eqb i (length l)); auto. apply removelast_last.
Qed.

Lemma upd_app1 {A} (l1 l2 : list A) i v : i < length l1 -> upd (l1 ++ l2) i v = upd l1 i v ++ l2.
Proof.
  revert i; induction l1 as [|h t IH]; intros [|i] H; simpl in *; try lia; auto.
  f_equal. apply IH. lia.
Qed.

Lemma swap_remove_snoc_lt {A} (l : list A) z i :
  i < length l -> swap_remove (l ++ [z]) i = upd l i z.
Proof.
  intros H. rewrite swap_remove_snoc. destruct (Nat.eqb_spec i (length l)); [lia|].
  rewrite upd_app1 by auto. apply removelast_last.
Qed.

Lemma swap_remove_snoc_eq {A} (l : list A) z : swap_remove (l ++ [z]) (length l) = l.
Proof. rewrite swap_remove_snoc, Nat.eqb_refl. reflexivity. Qed.

Lemma map_upd {A B} (f : A -> B) (l : list A) i v : map f (upd l i v) = upd (map f l) i (f v).
Proof.
  revert i; induction l as [|h t IH]; intros [|i]; simpl; auto. f_equal. auto.
Qed.

Lemma swap_remove_snoc_gt {A} (l : list A) z i : length l < i -> swap_remove (l ++ [z]) i = l.
Proof.
  intros H. rewrite swap_remove_snoc. destruct (Nat.eqb_spec i (length l)); [lia|].
  rewrite upd_oob by (rewrite app_length; simpl; lia). apply removelast_last.
Qed.

Lemma map_swap_remove {A B} (f : A -> B) (l : list A) i :
  map f (swap_remove l i) = swap_remove (map f l) i.
Proof.
  destruct (list_rev_case l) as [->|[l' [z ->]]]; [reflexivity|].
  rewrite map_app. cbn [map].
  destruct (Nat.lt_total i (length l')) as [H|[H|H]].
  - rewrite !swap_remove_snoc_lt by (rewrite ?map_length; auto). apply map_upd.
  - subst i. rewrite swap_remove_snoc_eq.
    pose proof (swap_remove_snoc_eq (map f l') (f z)) as E. rewrite map_length in E.
    rewrite E. reflexivity.
  - rewrite !swap_remove_snoc_gt by (rewrite ?map_length; auto). reflexivity.
Qed.

Lemma swap_remove_length {A} (l : list A) i : i < length l -> length (swap_remove l i) = length l - 1.
Proof.
  destruct (list_rev_case l) as [->|[l' [z ->]]]; [simpl; lia|].
  rewrite app_length. simpl. intros H.
  destruct (Nat.eq_dec i (length l')) as [->|Hne].
  - rewrite swap_remove_snoc_eq. lia.
  - rewrite swap_remove_snoc_lt by lia. rewrite upd_length. lia.
Qed.

Lemma swap_remove_nth {A} (l : list A) i x : i < length l ->
  nth_error (swap_remove l i) x =
    if Nat.eqb x i then (if Nat.eqb i (length l - 1) then None else nth_error l (length l - 1))
    else if Nat.ltb x (length l - 1) then nth_error l x else None.
Proof.
  destruct (list_rev_case l) as [->|[l' [z ->]]]; [simpl; lia|].
  rewrite app_length. simpl. replace (length l' + 1 - 1) with (length l') by lia. intros H.
  destruct (Nat.eq_dec i (length l')) as [->|Hne].
  - rewrite swap_remove_snoc_eq, Nat.eqb_refl.
    destruct (Nat.eqb_spec x (length l')) as [->|Hx].
    + apply nth_error_None. lia.
    + destruct (Nat.ltb_spec x (length l')).
      * rewrite nth_error_app1; auto.
      * apply nth_error_None. lia.
  - rewrite swap_remove_snoc_lt by lia. rewrite nth_error_upd.
    destruct (Nat.eqb_spec i (length l')); [lia|].
    rewrite (Nat.eqb_sym x i).
    destruct (Nat.eqb_spec i x) as [->|Hx].
    + destruct (Nat.ltb_spec x (length l')); [|lia].
      rewrite nth_error_app2 by lia. rewrite Nat.sub_diag. reflexivity.
    + destruct (Nat.ltb_spec x (length l')).
      * rewrite nth_error_app1; auto.
      * apply nth_error_None. lia.
Qed.

Lemma swap_remove_nth_in {A} (l : list A) i x v : i < length l ->
  nth_error (swap_remove l i) x = Some v -> exists y, nth_error l y = Some v.
Proof.
  intros Hi. rewrite swap_remove_nth by auto.
  destruct (Nat.eqb x i).
  - destruct (Nat.eqb i (length l - 1)); [discriminate|eauto].
  - destruct (Nat.ltb x (length l - 1)); [eauto|discriminate].
Qed.

Section GraphRE.
  Context {NW EW : Type}.
  Variable cap : nat.
  Variable debug : bool.

  Notation node := (node NW).
  Notation edge := (edge EW).
  Notation graph := (graph NW EW).
  Notation adj := (@adj NW EW cap).
  Notation GInv := (@GInv NW EW cap).

  (* ------------------------------------------------------------------ *)
  (* Heads, per-direction sameness, data sameness                        *)

  Definition hdn (ns : list node) (k i : nat) : option nat :=
    option_map (fun n => sel (nnext n) k) (nth_error ns i).

  Lemma adj_hdn (g : graph) k i l :
    adj g k i l <-> exists h, hdn (gnodes g) k i = Some h /\ lseg (nxe (gedges g) k) h l cap.
  Proof.
    unfold GraphP.adj, hdn. split.
    - intros [n [Hn H]]. exists (sel (nnext n) k). rewrite Hn. auto.
    - intros [h [Hh H]]. destruct (nth_error (gnodes g) i) as [n|]; simpl in Hh; [|discriminate].
      injection Hh as <-. eauto.
  Qed.

  Definition dir_same (k : nat) (g g' : graph) : Prop :=
    (forall j, hdn (gnodes g') k j = hdn (gnodes g) k j) /\
    (forall x, nxe (gedges g') k x = nxe (gedges g) k x).

  Definition data_eq (g g' : graph) : Prop :=
    map (@nwt NW) (gnodes g') = map (@nwt NW) (gnodes g) /\
    map (@ewt EW) (gedges g') = map (@ewt EW) (gedges g) /\
    map (@enode EW) (gedges g') = map (@enode EW) (gedges g).

  Lemma dir_same_refl k g : dir_same k g g.
  Proof. split; auto. Qed.

  Lemma dir_same_trans k g1 g2 g3 : dir_same k g1 g2 -> dir_same k g2 g3 -> dir_same k g1 g3.
  Proof. intros [A1 A2] [B1 B2]. split; intros; congruence. Qed.

  Lemma dir_same_sym k g1 g2 : dir_same k g1 g2 -> dir_same k g2 g1.
  Proof. intros [A1 A2]. split; intros; congruence. Qed.

  Lemma dir_same_lseg k g g' h l t :
    dir_same k g g' -> lseg (nxe (gedges g) k) h l t -> lseg (nxe (gedges g') k) h l t.
  Proof. intros [_ A] H. eapply lseg_ext; eauto. Qed.

  Lemma dir_same_adj k g g' i l : dir_same k g g' -> adj g k i l -> adj g' k i l.
  Proof.
    intros D H. apply adj_hdn in H. destruct H as [h [Hh H]]. apply adj_hdn.
    exists h. split; [rewrite (proj1 D); auto|eapply dir_same_lseg; eauto].
  Qed.

  Lemma data_eq_refl g : data_eq g g.
  Proof. repeat split. Qed.

  Lemma data_eq_trans g1 g2 g3 : data_eq g1 g2 -> data_eq g2 g3 -> data_eq g1 g3.
  Proof. intros [A1 [A2 A3]] [B1 [B2 B3]]. repeat split; congruence. Qed.

  Lemma data_eq_nlen g g' : data_eq g g' -> length (gnodes g') = length (gnodes g).
  Proof. intros [A _]. eapply map_eq_length; eauto. Qed.

  Lemma data_eq_elen g g' : data_eq g g' -> length (gedges g') = length (gedges g).
  Proof. intros [_ [A _]]. eapply map_eq_length; eauto. Qed.

  Lemma epo_map (es : list edge) k x :
    epo es k x = option_map (fun p => sel p k) (nth_error (map (@enode EW) es) x).
  Proof. unfold epo. rewrite nth_error_map. destruct (nth_error es x); reflexivity. Qed.

  Lemma data_eq_epo g g' k x : data_eq g g' -> epo (gedges g') k x = epo (gedges g) k x.
  Proof. intros [_ [_ A]]. rewrite !epo_map, A. reflexivity. Qed.

  (* ------------------------------------------------------------------ *)
  (* Setting one head / one next field                                   *)

  Definition set_hd (ns : list node) (k i v : nat) : list node :=
    match nth_error ns i with
    | Some n => upd ns i (set_nnext n (setp (nnext n) k v))
    | None => ns
    end.
  Definition set_nx (es : list edge) (k p v : nat) : list edge :=
    match nth_error es p with
    | Some ed => upd es p (set_enext ed (setp (enext ed) k v))
    | None => es
    end.

  Lemma sel_setp_same p k v : sel (setp p k v) k = v.
  Proof. destruct k; reflexivity. Qed.

  Lemma sel_setp_other p k v : sel (setp p k v) (1 - k) = sel p (1 - k).
  Proof. destruct k; reflexivity. Qed.

  Lemma nxe_set_nx_same es k p v : p < length es -> nxe (set_nx es k p v) k p = Some v.
  Proof.
    intros H. destruct (nth_error_lt_Some es H) as [ed E]. unfold set_nx, nxe. rewrite E.
    rewrite nth_error_upd_eq by auto. simpl. rewrite sel_setp_same. reflexivity.
  Qed.

  Lemma nxe_set_nx_neq es k k' p v x : x <> p -> nxe (set_nx es k p v) k' x = nxe es k' x.
  Proof.
    intros H. unfold set_nx, nxe. destruct (nth_error es p) as [ed|]; auto.
    rewrite nth_error_upd_neq by auto. reflexivity.
  Qed.

  Lemma nxe_set_nx_other es k p v x : nxe (set_nx es k p v) (1 - k) x = nxe es (1 - k) x.
  Proof.
    destruct (Nat.eq_dec x p) as [->|Hne]; [|apply nxe_set_nx_neq; auto].
    unfold set_nx. destruct (nth_error es p) as [ed|] eqn:E; [|reflexivity].
    unfold nxe. rewrite nth_error_upd_eq by (eapply nth_error_Some_lt; eauto). rewrite E. simpl.
    rewrite sel_setp_other. reflexivity.
  Qed.

  Lemma set_nx_ewt es k p v : map (@ewt EW) (set_nx es k p v) = map (@ewt EW) es.
  Proof.
    unfold set_nx. destruct (nth_error es p) as [ed|] eqn:E; auto.
    eapply map_upd_same; eauto.
  Qed.

  Lemma set_nx_enode es k p v : map (@enode EW) (set_nx es k p v) = map (@enode EW) es.
  Proof.
    unfold set_nx. destruct (nth_error es p) as [ed|] eqn:E; auto.
    eapply map_upd_same; eauto.
  Qed.

  Lemma hdn_set_hd_same ns k i v : i < length ns -> hdn (set_hd ns k i v) k i = Some v.
  Proof.
    intros H. destruct (nth_error_lt_Some ns H) as [n E]. unfold set_hd, hdn. rewrite E.
    rewrite nth_error_upd_eq by auto. simpl. rewrite sel_setp_same. reflexivity.
  Qed.

  Lemma hdn_set_hd_neq ns k k' i v j : j <> i -> hdn (set_hd ns k i v) k' j = hdn ns k' j.
  Proof.
    intros H. unfold set_hd, hdn. destruct (nth_error ns i) as [n|]; auto.
    rewrite nth_error_upd_neq by auto. reflexivity.
  Qed.

  Lemma hdn_set_hd_other ns k i v j : hdn (set_hd ns k i v) (1 - k) j = hdn ns (1 - k) j.
  Proof.
    destruct (Nat.eq_dec j i) as [->|Hne]; [|apply hdn_set_hd_neq; auto].
    unfold set_hd. destruct (nth_error ns i) as [n|] eqn:E; [|reflexivity].
    unfold hdn. rewrite nth_error_upd_eq by (eapply nth_error_Some_lt; eauto). rewrite E. simpl.
    rewrite sel_setp_other. reflexivity.
  Qed.

  Lemma set_hd_nwt ns k i v : map (@nwt NW) (set_hd ns k i v) = map (@nwt NW) ns.
  Proof.
    unfold set_hd. destruct (nth_error ns i) as [n|] eqn:E; auto.
    eapply map_upd_same; eauto.
  Qed.

  (* ------------------------------------------------------------------ *)
  (* relink_walk and change_links_dir                                    *)

  Lemma nxe_Some_nth' (es : list edge) k h y :
    nxe es k h = Some y -> exists ed, nth_error es h = Some ed /\ sel (enext ed) k = y.
  Proof.
    unfold nxe. destruct (nth_error es h) as [ed|]; simpl; [|discriminate].
    intros [= <-]. eauto.
  Qed.

  Lemma relink_walk_spec (es : list edge) k e repl : forall l p h fuel,
    lseg (nxe es k) h (l ++ [p]) e -> ~ In e (l ++ [p]) -> length l < fuel ->
    relink_walk fuel es h k e repl = Ok (set_nx es k p repl).
  Proof.
    induction l as [|x l IH]; intros p h fuel H Hn Hf;
      (destruct fuel as [|f]; [simpl in Hf; lia|]); cbn [relink_walk].
    - simpl in H. apply lseg_cons_inv in H. destruct H as [-> [h' [Hh Hl]]].
      apply lseg_nil_inv in Hl. subst h'.
      destruct (nxe_Some_nth' _ _ _ Hh) as [ed [E1 E2]]. rewrite E1, E2, Nat.eqb_refl.
      unfold set_nx. rewrite E1. reflexivity.
    - simpl in H. apply lseg_cons_inv in H. destruct H as [-> [h' [Hh Hl]]].
      destruct (nxe_Some_nth' _ _ _ Hh) as [ed [E1 E2]]. rewrite E1, E2.
      assert (Hh' : In h' (l ++ [p])).
      { destruct (lseg_head_in Hl) as [l' E]; [destruct l; discriminate|]. rewrite E. simpl; auto. }
      destruct (Nat.eqb_spec h' e) as [->|Hne].
      + exfalso. apply Hn. simpl. auto.
      + apply IH; auto.
        * intros Hin. apply Hn. simpl. auto.
        * simpl in Hf. lia.
  Qed.

  (* One direction of change_edge_links: the pointer that reaches [e] after the prefix l1 of the
     list of node [sel enod k] is redirected to [sel enxt k], from where l2 is walked. *)
  Lemma cld_phase (g : graph) k enod e enxt n l1 l2 :
    nth_error (gnodes g) (sel enod k) = Some n ->
    lseg (nxe (gedges g) k) (sel (nnext n) k) l1 e -> ~ In e l1 ->
    lseg (nxe (gedges g) k) (sel enxt k) l2 cap ->
    NoDup (l1 ++ l2) ->
    exists g', change_links_dir debug g enod e enxt k = Ok (g', true) /\
      data_eq g g' /\ dir_same (1 - k) g g' /\
      adj g' k (sel enod k) (l1 ++ l2) /\
      (forall j l, j <> sel enod k -> adj g k j l ->
                   (forall x, In x l1 -> ~ In x l) -> adj g' k j l).
  Proof.
    intros Hn H1 Hne H2 Hnd.
    assert (Hi : sel enod k < length (gnodes g)) by (eapply nth_error_Some_lt; eauto).
    unfold change_links_dir. rewrite Hn.
    destruct (list_rev_case l1) as [->|[l [p ->]]].
    - (* the head of the node points to e *)
      apply lseg_nil_inv in H1. rewrite H1, Nat.eqb_refl.
      eexists; split; [reflexivity|].
      assert (Eg : upd (gnodes g) (sel enod k) (set_nnext n (setp (nnext n) k (sel enxt k)))
                   = set_hd (gnodes g) k (sel enod k) (sel enxt k)).
      { unfold set_hd. rewrite Hn. reflexivity. }
      rewrite Eg. split; [|split; [|split]].
      + repeat split; simpl; auto. apply set_hd_nwt.
      + split; simpl; auto. intros j. apply hdn_set_hd_other.
      + apply adj_hdn. simpl. exists (sel enxt k). split; auto. apply hdn_set_hd_same; auto.
      + intros j l Hj Hl _. apply adj_hdn in Hl. destruct Hl as [h [Hh Hl]].
        apply adj_hdn. simpl. exists h. split; auto. rewrite hdn_set_hd_neq; auto.
    - (* the pointer is the next field of slot p *)
      assert (Hhd : In (sel (nnext n) k) (l ++ [p])).
      { destruct (lseg_head_in H1) as [l' E]; [destruct l; discriminate|]. rewrite E. simpl; auto. }
      destruct (Nat.eqb_spec (sel (nnext n) k) e) as [E|_]; [rewrite E in Hhd; contradiction|].
      assert (Hnd1 : NoDup (l ++ [p])) by (eapply NoDup_app_l; eauto).
      assert (Hpl : ~ In p l).
      { apply NoDup_remove_2 in Hnd1. rewrite app_nil_r in Hnd1. auto. }
      assert (Hp2 : ~ In p l2).
      { rewrite <- app_assoc in Hnd. apply NoDup_remove_2 in Hnd.
        intros Hin. apply Hnd. apply in_or_app. auto. }
      assert (Hplt : p < length (gedges g)).
      { apply (lseg_nxe_lt p H1). apply in_or_app. simpl; auto. }
      rewrite (@relink_walk_spec (gedges g) k e (sel enxt k) l p); auto.
      + cbn [rmap]. eexists; split; [reflexivity|]. split; [|split; [|split]].
        * repeat split; simpl; auto; [apply set_nx_ewt|apply set_nx_enode].
        * split; simpl; auto. intros x. apply nxe_set_nx_other.
        * exists n. split; auto. simpl.
          eapply lseg_redirect; eauto.
          -- apply nxe_set_nx_same; auto.
          -- intros x Hx. apply nxe_set_nx_neq; auto.
        * intros j lj Hj [nj [Hnj Hlj]] Hdis. exists nj. split; auto. simpl.
          eapply lseg_frame; eauto. intros x Hx. apply nxe_set_nx_neq.
          intros ->. apply (Hdis p); auto. apply in_or_app. simpl; auto.
      + assert (length (l ++ [p]) <= length (gedges g)).
        { apply NoDup_bounded_length; auto. intros x Hx. apply (lseg_nxe_lt x H1 Hx). }
        rewrite app_length in H. simpl in H. unfold fuel_of. lia.
  Qed.

  (* change_edge_links = direction 0 then direction 1 *)
  Lemma cel_both (g g1 g2 : graph) enod e enxt :
    change_links_dir debug g enod e enxt 0 = Ok (g1, true) ->
    change_links_dir debug g1 enod e enxt 1 = Ok (g2, true) ->
    change_edge_links debug g enod e enxt = Ok g2.
  Proof. intros H0 H1. unfold change_edge_links. rewrite H0. cbn [rbind]. rewrite H1. reflexivity. Qed.

  (* ------------------------------------------------------------------ *)
  (* The two uses of a phase, per direction                              *)

  Section Phases.
    Variable g : graph.
    Hypothesis I : GInv g.
    Variable e : nat.
    Let m := length (gedges g) - 1.

    (* unlink e from the direction-k list it sits in *)
    Lemma unlink_dir (gA : graph) k enod enxt :
      dir_same k g gA -> data_eq g gA ->
      epo (gedges g) k e = Some (sel enod k) ->
      nxe (gedges g) k e = Some (sel enxt k) ->
      exists gB, change_links_dir debug gA enod e enxt k = Ok (gB, true) /\
        data_eq gA gB /\ dir_same (1 - k) gA gB /\
        (forall j l, adj g k j l -> adj gB k j (remove Nat.eq_dec e l)).
    Proof.
      intros D Dt Hep Hnx.
      assert (He : e < length (gedges g)) by (eapply epo_Some; eauto).
      assert (Hi : sel enod k < length (gnodes g)).
      { unfold epo in Hep. destruct (nth_error (gedges g) e) as [ed|] eqn:E; [|discriminate].
        simpl in Hep. injection Hep as <-. destruct (gi_ends I _ E). destruct k; simpl; auto. }
      destruct (gi_adj I k Hi) as [L [HL CL]].
      assert (HeL : In e L) by (apply CL; auto).
      pose proof (adj_NoDup (gi_ecap I) HL) as HndL.
      apply in_split in HeL. destruct HeL as [l1 [l2 EL]]. subst L.
      destruct (NoDup_split_notin _ _ _ HndL) as [N1 N2].
      pose proof (dir_same_adj D HL) as HLA.
      destruct HLA as [n [Hn HlA]].
      apply lseg_split in HlA. destruct HlA as [mid [Hl1 Hl2]].
      apply lseg_cons_inv in Hl2. destruct Hl2 as [<- [y [Hy Hl2]]].
      rewrite (proj2 D) in Hy. rewrite Hnx in Hy. injection Hy as <-.
      destruct (@cld_phase gA k enod e enxt n l1 l2 Hn Hl1 N1 Hl2) as [gB [Hc [Dt' [Do [Hself Hoth]]]]].
      { eapply NoDup_remove_1; eauto. }
      exists gB. split; auto. split; auto. split; auto.
      intros j l Hl.
      destruct (Nat.eq_dec j (sel enod k)) as [->|Hj].
      - rewrite (adj_det (gi_ecap I) Hl HL). rewrite remove_split; auto.
      - assert (Hdis : forall x, In x (l1 ++ e :: l2) -> ~ In x l).
        { intros x Hx Hx'. apply Hj. eapply GInv_adj_disjoint; eauto. }
        rewrite remove_notin.
        + apply Hoth; auto.
          * apply (dir_same_adj D); auto.
          * intros x Hx. apply Hdis. apply in_or_app; auto.
        + apply Hdis. apply in_or_app. simpl; auto.
    Qed.

    (* after swap_remove, redirect the pointer to the vanished slot m towards e *)
    Lemma rename_dir (gC gD : graph) k enod :
      e < m ->
      data_eq g gC ->
      (forall j l, adj g k j l -> adj gC k j (remove Nat.eq_dec e l)) ->
      dir_same k (mkGraph (gnodes gC) (swap_remove (gedges gC) e)) gD ->
      epo (gedges g) k m = Some (sel enod k) ->
      exists gE, change_links_dir debug gD enod m (e, e) k = Ok (gE, true) /\
        data_eq gD gE /\ dir_same (1 - k) gD gE /\
        (forall j l, adj g k j l -> adj gE k j (map (ren m e) (remove Nat.eq_dec e l))).
    Proof.
      intros Hem Dt HC D Hep.
      set (g3 := mkGraph (gnodes gC) (swap_remove (gedges gC) e)) in *.
      assert (Hlen : length (gedges gC) = length (gedges g)) by (apply data_eq_elen; auto).
      assert (HeC : e < length (gedges gC)) by (unfold m in Hem; lia).
      assert (Hi : sel enod k < length (gnodes g)).
      { unfold epo in Hep. destruct (nth_error (gedges g) m) as [ed|] eqn:E; [|discriminate].
        simpl in Hep. injection Hep as <-. destruct (gi_ends I _ E). destruct k; simpl; auto. }
      (* nxe after the swap_remove *)
      assert (N3 : forall x, x <> e -> x < m -> nxe (gedges g3) k x = nxe (gedges gC) k x).
      { intros x Hxe Hxm. unfold nxe. simpl. rewrite swap_remove_nth by auto.
        destruct (Nat.eqb_spec x e); [contradiction|].
        rewrite Hlen. fold m. destruct (Nat.ltb_spec x m); [reflexivity|lia]. }
      assert (N3e : nxe (gedges g3) k e = nxe (gedges gC) k m).
      { unfold nxe. simpl. rewrite swap_remove_nth by auto. rewrite Nat.eqb_refl.
        rewrite Hlen. fold m. destruct (Nat.eqb_spec e m); [lia|reflexivity]. }
      assert (F3 : forall h l t, lseg (nxe (gedges gC) k) h l t -> ~ In e l -> ~ In m l ->
                                 lseg (nxe (gedges g3) k) h l t).
      { intros h l t H He Hm. eapply lseg_frame; eauto. intros x Hx. apply N3.
        - intros ->; contradiction.
        - pose proof (lseg_nxe_lt _ H Hx). assert (x <> m) by (intros ->; contradiction).
          unfold m in *. lia. }
      (* the list that contains m *)
      destruct (gi_adj I k Hi) as [M [HM CM]].
      assert (HmM : In m M) by (apply CM; auto).
      pose proof (adj_NoDup (gi_ecap I) HM) as HndM.
      assert (HmR : In m (remove Nat.eq_dec e M)) by (apply in_in_remove; auto; lia).
      assert (HndR : NoDup (remove Nat.eq_dec e M)).
      { clear - HndM. induction HndM as [|x l Hx Hl IH]; simpl; [constructor|].
        destruct (Nat.eq_dec e x); auto. constructor; auto.
        intros Hin. apply in_remove in Hin. tauto. }
      assert (HeR : ~ In e (remove Nat.eq_dec e M)) by apply remove_In.
      pose proof (HC _ _ HM) as HMC.
      apply in_split in HmR. destruct HmR as [l1 [l2 ER]]. rewrite ER in *.
      destruct (NoDup_split_notin _ _ _ HndR) as [Nm1 Nm2].
      assert (Ne1 : ~ In e l1) by (intros Hin; apply HeR; apply in_or_app; auto).
      assert (Ne2 : ~ In e l2) by (intros Hin; apply HeR; apply in_or_app; simpl; auto).
      destruct HMC as [n [Hn HlC]].
      apply lseg_split in HlC. destruct HlC as [mid [Hl1 Hl2]].
      apply lseg_cons_inv in Hl2. destruct Hl2 as [<- [y [Hy Hl2]]].
      assert (HnD : exists nD, nth_error (gnodes gD) (sel enod k) = Some nD /\
                               sel (nnext nD) k = sel (nnext n) k).
      { pose proof (proj1 D (sel enod k)) as Hh. unfold hdn in Hh. simpl in Hh. rewrite Hn in Hh.
        destruct (nth_error (gnodes gD) (sel enod k)) as [nD|]; simpl in Hh; [|discriminate].
        injection Hh as Hh. eauto. }
      destruct HnD as [nD [HnD HhD]].
      assert (P1 : lseg (nxe (gedges gD) k) (sel (nnext nD) k) l1 m).
      { rewrite HhD. apply (dir_same_lseg D). apply F3; auto. }
      assert (P2 : lseg (nxe (gedges gD) k) (sel (e, e) k) (e :: l2) cap).
      { assert (Es : sel (e, e) k = e) by (destruct k; reflexivity). rewrite Es.
        apply (dir_same_lseg D). econstructor.
        - rewrite N3e. eauto.
        - apply F3; auto. }
      assert (Hnd' : NoDup (l1 ++ e :: l2)).
      { apply NoDup_remove_1 in HndR. apply NoDup_insert; auto. }
      destruct (@cld_phase gD k enod m (e, e) nD l1 (e :: l2) HnD P1 Nm1 P2 Hnd')
        as [gE [Hc [Dt' [Do [Hself Hoth]]]]].
      exists gE. split; auto. split; auto. split; auto.
      intros j l Hl.
      destruct (Nat.eq_dec j (sel enod k)) as [->|Hj].
      - rewrite (adj_det (gi_ecap I) Hl HM). rewrite ER. rewrite map_ren_split; auto.
      - assert (Hdis : forall x, In x M -> ~ In x l).
        { intros x Hx Hx'. apply Hj. eapply GInv_adj_disjoint; eauto. }
        assert (HmL : ~ In m (remove Nat.eq_dec e l)).
        { intros Hin. apply in_remove in Hin. apply (Hdis m); tauto. }
        rewrite map_ren_notin by auto.
        apply Hoth; auto.
        + apply (dir_same_adj D).
          destruct (HC _ _ Hl) as [nj [Hnj Hlj]]. exists nj. split; auto. simpl.
          apply F3; auto. apply remove_In.
        + intros x Hx Hx'. apply in_remove in Hx'. apply (Hdis x); [|tauto].
          assert (Hx2 : In x (remove Nat.eq_dec e M)) by (rewrite ER; apply in_or_app; auto).
          apply in_remove in Hx2. tauto.
    Qed.
  End Phases.

  (* ------------------------------------------------------------------ *)
  (* The invariant after the renumbering                                 *)

  Lemma map_ren_same m l : map (ren m m) l = l.
  Proof. induction l as [|x l IH]; simpl; auto. rewrite ren_same, IH. reflexivity. Qed.

  Lemma swap_GInv (g g' : graph) e :
    GInv g -> e < length (gedges g) ->
    length (gnodes g') = length (gnodes g) ->
    map (@enode EW) (gedges g') = swap_remove (map (@enode EW) (gedges g)) e ->
    (forall k i l, adj g k i l ->
       adj g' k i (map (ren (length (gedges g) - 1) e) (remove Nat.eq_dec e l))) ->
    GInv g'.
  Proof.
    intros I He Hnl Hen Hadj.
    set (m := length (gedges g) - 1) in *.
    assert (Hel : length (gedges g') = m).
    { rewrite <- (map_length (@enode EW)), Hen, swap_remove_length, map_length; auto.
      rewrite map_length; auto. }
    assert (Hepo : forall k x, epo (gedges g') k x =
              if Nat.eqb x e then (if Nat.eqb e m then None else epo (gedges g) k m)
              else if Nat.ltb x m then epo (gedges g) k x else None).
    { intros k x. rewrite !epo_map, Hen. rewrite swap_remove_nth by (rewrite map_length; auto).
      rewrite map_length. fold m.
      destruct (Nat.eqb x e).
      - destruct (Nat.eqb e m); reflexivity.
      - destruct (Nat.ltb x m); reflexivity. }
    constructor.
    - rewrite Hnl. apply (gi_ncap I).
    - pose proof (gi_ecap I). lia.
    - intros x ed' Hx. rewrite Hnl.
      assert (H1 : nth_error (map (@enode EW) (gedges g')) x = Some (enode ed')).
      { rewrite nth_error_map, Hx. reflexivity. }
      rewrite Hen in H1. apply swap_remove_nth_in in H1; [|rewrite map_length; auto].
      destruct H1 as [y Hy]. rewrite nth_error_map in Hy.
      destruct (nth_error (gedges g) y) as [edy|] eqn:Ey; simpl in Hy; [|discriminate].
      injection Hy as Hy. rewrite <- Hy. apply (gi_ends I _ Ey).
    - intros k i Hi. rewrite Hnl in Hi.
      destruct (gi_adj I k Hi) as [l [Hl C]].
      eexists; split; [apply Hadj; eauto|].
      intros x. rewrite Hepo. split.
      + intros Hin. apply in_map_iff in Hin. destruct Hin as [y [Hy Hin]].
        apply in_remove in Hin. destruct Hin as [Hin Hye].
        pose proof (proj1 (C y) Hin) as Hyi.
        pose proof (epo_Some _ _ _ Hyi) as Hyl.
        unfold ren in Hy. destruct (Nat.eqb_spec y m) as [Eym|Hym].
        * subst x. rewrite Nat.eqb_refl. rewrite Eym in Hyi, Hye.
          destruct (Nat.eqb_spec e m); [congruence|auto].
        * subst x. destruct (Nat.eqb_spec y e); [contradiction|].
          destruct (Nat.ltb_spec y m); [auto|unfold m in *; lia].
      + intros Hx. apply in_map_iff.
        destruct (Nat.eqb_spec x e) as [Exe|Hxe].
        * subst x. destruct (Nat.eqb_spec e m) as [|Hem]; [discriminate|].
          exists m. split; [unfold ren; rewrite Nat.eqb_refl; auto|].
          apply in_in_remove; auto. apply C; auto.
        * destruct (Nat.ltb_spec x m) as [Hxm|]; [|discriminate].
          exists x. split.
          -- unfold ren. destruct (Nat.eqb_spec x m); [lia|auto].
          -- apply in_in_remove; auto. apply C; auto.
  Qed.

  (* ------------------------------------------------------------------ *)
  (* T3                                                                  *)

  Theorem remove_edge_oob (g : graph) e :
    length (gedges g) <= e -> remove_edge debug g e = Ok (None, g).
  Proof.
    intros H. unfold remove_edge. rewrite (proj2 (nth_error_None (gedges g) e)); auto.
  Qed.

  Theorem remove_edge_spec (g : graph) e :
    GInv g -> e < length (gedges g) ->
    exists ed g', nth_error (gedges g) e = Some ed /\
      remove_edge debug g e = Ok (Some (ewt ed), g') /\
      GInv g' /\
      map (@nwt NW) (gnodes g') = map (@nwt NW) (gnodes g) /\
      map (@ewt EW) (gedges g') = swap_remove (map (@ewt EW) (gedges g)) e /\
      map (@enode EW) (gedges g') = swap_remove (map (@enode EW) (gedges g)) e /\
      (forall k i l, adj g k i l ->
         adj g' k i (map (ren (length (gedges g) - 1) e) (remove Nat.eq_dec e l))).
  Proof.
    intros I He. destruct (nth_error_lt_Some _ He) as [ed Hed]. exists ed.
    set (m := length (gedges g) - 1).
    (* unlink in both directions *)
    destruct (@unlink_dir g I e g 0 (enode ed) (enext ed) (dir_same_refl 0 g) (data_eq_refl g)
                (epo_nth _ 0 _ Hed) (nxe_nth _ 0 _ Hed)) as [g1 [C0 [Dt1 [Do1 H1]]]].
    destruct (@unlink_dir g I e g1 1 (enode ed) (enext ed) Do1 Dt1
                (epo_nth _ 1 _ Hed) (nxe_nth _ 1 _ Hed)) as [g2 [C1 [Dt2 [Do2 H2]]]].
    pose proof (cel_both _ _ _ _ C0 C1) as CEL.
    assert (Dt02 : data_eq g g2) by (eapply data_eq_trans; eauto).
    assert (HC : forall k j l, adj g k j l -> adj g2 k j (remove Nat.eq_dec e l)).
    { intros [|k] j l Hl.
      - apply (dir_same_adj Do2). apply H1; auto.
      - exact (H2 j l Hl). }
    unfold remove_edge. rewrite Hed, CEL. cbn [rbind]. unfold remove_edge_adjust_indices.
    destruct (@map_eq_nth _ _ (@ewt EW) (gedges g) (gedges g2) e ed (proj1 (proj2 Dt02)) Hed) as [removed [Hrem Hw]].
    rewrite Hrem, Hw.
    assert (Hlen2 : length (gedges g2) = length (gedges g)) by (apply data_eq_elen; auto).
    assert (He2 : e < length (gedges g2)) by lia.
    set (g3 := mkGraph (gnodes g2) (swap_remove (gedges g2) e)).
    assert (Hw3 : map (@ewt EW) (gedges g3) = swap_remove (map (@ewt EW) (gedges g)) e).
    { simpl. rewrite map_swap_remove. rewrite (proj1 (proj2 Dt02)). reflexivity. }
    assert (Hn3 : map (@enode EW) (gedges g3) = swap_remove (map (@enode EW) (gedges g)) e).
    { simpl. rewrite map_swap_remove. rewrite (proj2 (proj2 Dt02)). reflexivity. }
    destruct (Nat.eq_dec e m) as [Eem|Nem].
    - (* the last edge: nothing moves *)
      assert (E3 : nth_error (swap_remove (gedges g2) e) e = None).
      { rewrite swap_remove_nth by auto. rewrite Nat.eqb_refl, Hlen2. fold m.
        destruct (Nat.eqb_spec e m); [reflexivity|contradiction]. }
      rewrite E3. exists g3. split; auto. split; [reflexivity|].
      assert (Hadj : forall k i l, adj g k i l ->
                adj g3 k i (map (ren m e) (remove Nat.eq_dec e l))).
      { intros k i l Hl. rewrite Eem, map_ren_same. rewrite <- Eem.
        destruct (HC _ _ _ Hl) as [n [Hn Hl2]]. exists n. split; auto. simpl.
        eapply lseg_frame; eauto. intros x Hx. unfold nxe.
        rewrite swap_remove_nth by auto.
        assert (x <> e) by (intros ->; revert Hx; apply remove_In).
        pose proof (lseg_nxe_lt _ Hl2 Hx).
        destruct (Nat.eqb_spec x e); [contradiction|].
        destruct (Nat.ltb_spec x (length (gedges g2) - 1)); [reflexivity|unfold m in *; lia]. }
      split; [|split; [exact (proj1 Dt02)|split; [exact Hw3|split; [exact Hn3|exact Hadj]]]].
      eapply swap_GInv; eauto. simpl. apply data_eq_nlen; auto.
    - (* the last edge m moves into slot e *)
      assert (Hem : e < m) by (unfold m in *; lia).
      assert (E3 : nth_error (swap_remove (gedges g2) e) e = nth_error (gedges g2) m).
      { rewrite swap_remove_nth by auto. rewrite Nat.eqb_refl, Hlen2. fold m.
        destruct (Nat.eqb_spec e m); [contradiction|reflexivity]. }
      assert (Hm2 : m < length (gedges g2)) by (unfold m; lia).
      destruct (nth_error_lt_Some _ Hm2) as [sw Hsw].
      rewrite E3, Hsw.
      assert (Hl3 : length (swap_remove (gedges g2) e) = m).
      { rewrite swap_remove_length by auto. unfold m. lia. }
      rewrite Hl3.
      assert (Hep : forall k, epo (gedges g) k m = Some (sel (enode sw) k)).
      { intros k. rewrite <- (data_eq_epo k m Dt02). apply epo_nth; auto. }
      destruct (@rename_dir g I e g2 g3 0 (enode sw) Hem Dt02 (HC 0) (dir_same_refl 0 g3) (Hep 0))
        as [g4 [C3 [Dt4 [Do4 H4]]]].
      destruct (@rename_dir g I e g2 g4 1 (enode sw) Hem Dt02 (HC 1) Do4 (Hep 1))
        as [g5 [C4 [Dt5 [Do5 H5]]]].
      pose proof (cel_both _ _ _ _ C3 C4) as CEL2. fold m in CEL2.
      rewrite CEL2. cbn [rmap].
      exists g5. split; auto. split; [reflexivity|].
      assert (Dt35 : data_eq g3 g5) by (eapply data_eq_trans; eauto).
      assert (Hadj : forall k i l, adj g k i l ->
                adj g5 k i (map (ren m e) (remove Nat.eq_dec e l))).
      { intros [|k] i l Hl.
        - apply (dir_same_adj Do5). apply H4; auto.
        - exact (H5 i l Hl). }
      assert (Hnw : map (@nwt NW) (gnodes g5) = map (@nwt NW) (gnodes g)).
      { rewrite (proj1 Dt35). simpl. exact (proj1 Dt02). }
      assert (Hw5 : map (@ewt EW) (gedges g5) = swap_remove (map (@ewt EW) (gedges g)) e).
      { rewrite (proj1 (proj2 Dt35)). exact Hw3. }
      assert (Hn5 : map (@enode EW) (gedges g5) = swap_remove (map (@enode EW) (gedges g)) e).
      { rewrite (proj2 (proj2 Dt35)). exact Hn3. }
      split; [|split; [exact Hnw|split; [exact Hw5|split; [exact Hn5|exact Hadj]]]].
      eapply swap_GInv; eauto. eapply map_eq_length; eauto.
  Qed.
End GraphRE.
