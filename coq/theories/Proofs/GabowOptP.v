(* maximum_matching (Gabow) returns a MAXIMUM matching (C15b, G1).

   The search from a free vertex [start] that ends with an empty queue leaves a certificate
   (GabowCertP.v): every edge out of an outer vertex leads to the mate of an outer vertex or stays
   inside a blossom (same first_inner).  The closure is an invariant (K1, K2) of scan_edge over the
   queue; it needs the view to list every edge from both ends (vsymmetric).  Hence no matching
   covers [start] and every matched vertex, and this stays true when the matching grows.  At the end
   no free vertex can be added to the covered set, and by Berge's theorem (BergeP.v) the matching
   is maximum. *)
From PG Require Import Lib.Io Model.View Model.Traversal Model.MatchM Spec.Reach Spec.MatchSpec Spec.BergeSpec
  Proofs.TravBase Proofs.MatchAccP Proofs.MatchOptP Proofs.MatchGreedyP Proofs.MatchShapeP
  Proofs.MatchAugP Proofs.MatchFlipP Proofs.MatchInvP Proofs.MatchSeqP Proofs.MatchJoinP
  Proofs.MatchBlossomP Proofs.MatchMaxP Proofs.MatchFindJoinP Proofs.MatchTotalP
  Proofs.BergeP Proofs.GabowCertP Proofs.GabowJoinP.

Lemma nth_error_eq_nth {A} (l : list A) i j d : nth_error l i = nth_error l j -> nth i l d = nth j l d.
Proof.
  intros H. destruct (nth_error l i) as [a|] eqn:Ei.
  - rewrite (nth_error_nth l i d Ei). symmetry in H. rewrite (nth_error_nth l j d H). reflexivity.
  - symmetry in H. apply nth_error_None in Ei. apply nth_error_None in H.
    rewrite !nth_overflow by assumption. reflexivity.
Qed.

(* some matching of the view covers u and every vertex matched in the mate vector m *)
Definition mext (v : view) (m : list (option nat)) (u : nat) : Prop :=
  exists N, is_matching (vnodes v) (vadj v) N /\
            (forall x, m_mate m x <> None -> In x (endpoints N)) /\ In u (endpoints N).

Lemma mext_mono v m m' u : (forall x, m_mate m x <> None -> m_mate m' x <> None) ->
  mext v m' u -> mext v m u.
Proof.
  intros Hc [N [H1 [H2 H3]]]. exists N. split; [exact H1|]. split; [|exact H3].
  intros x Hx. apply H2, Hc, Hx.
Qed.

(* persistence: what cannot be covered now cannot be covered once more vertices are matched *)
Lemma no_ext_persists v m m' u : (forall x, m_mate m x <> None -> m_mate m' x <> None) ->
  ~ mext v m u -> ~ mext v m' u.
Proof. intros Hc Hn He. exact (Hn (mext_mono v m m' u Hc He)). Qed.

Lemma mext_ext v m m' u : (forall x, m_mate m' x = m_mate m x) -> mext v m' u -> mext v m u.
Proof. intros He. apply mext_mono. intros x. rewrite He. auto. Qed.

Lemma extends_mext v m u : msym m -> extends (vnodes v) (vadj v) (m_edges m) u -> mext v m u.
Proof.
  intros Hs [N [H1 [H2 H3]]]. exists N. split; [exact H1|]. split; [|exact H3].
  intros x Hx. apply H2. apply (m_nodes_endpoints m x Hs). apply m_nodes_spec.
  destruct (m_mate m x) as [j|]; [eauto | contradiction].
Qed.

Section Complete.
Variable v : view.
Hypothesis HM : MOk v.
Hypothesis HE : EidOk v.
Hypothesis HC : CapOk v.
Hypothesis HS : vsymmetric v.

Let FJ := find_join_preserves_ok v HE.

(* ------------------------------------------------------------------ *)
(* one edge of the scan                                                *)

(* the edge x y has been dealt with: y is the mate of an outer vertex, or x and y are in one blossom *)
Definition Done (s : mst) (x y : nat) : Prop :=
  (~ outerv (lab s) y /\ exists mv, m_mate (mate s) y = Some mv /\ outerv (lab s) mv) \/
  (outerv (lab s) y /\ nth_error (fin s) x = nth_error (fin s) y).

Record Tr (s s' : mst) (cur y : nat) : Prop := {
  tr_mate : mate s' = mate s;
  tr_outer : forall u, outerv (lab s) u -> outerv (lab s') u;
  tr_queue : forall x, In x (queue s) -> In x (queue s');
  tr_vis : forall x, In x (vis s) -> In x (vis s');
  tr_new : forall u, outerv (lab s') u -> ~ outerv (lab s) u -> In u (queue s') /\ In u (vis s');
  tr_fin : forall x y, outerv (lab s) x -> outerv (lab s) y ->
             nth_error (fin s) x = nth_error (fin s) y -> nth_error (fin s') x = nth_error (fin s') y;
  tr_done : y = cur \/ Done s' cur y
}.
Arguments tr_mate {s s' cur y}.
Arguments tr_outer {s s' cur y}.
Arguments tr_queue {s s' cur y}.
Arguments tr_vis {s s' cur y}.
Arguments tr_new {s s' cur y}.
Arguments tr_fin {s s' cur y}.
Arguments tr_done {s s' cur y}.

Lemma scan_edge_tr start cur s e s' :
  SInv v start s -> VI s -> outerv (lab s) cur -> In e (out_edges v cur) ->
  scan_edge v start cur s e = Ok (false, s') -> Tr s s' cur (tgt e).
Proof.
  intros [pth [rk I]] HV Hout He H. pose proof (si_lab _ _ _ _ _ I) as HL.
  assert (Hnb : In (tgt e) (neighbors v cur)) by (unfold neighbors; apply in_map; exact He).
  unfold scan_edge in H. destruct (Nat.eqb_spec (tgt e) cur) as [Heq|Hneq].
  - injection H as <-. constructor; auto. intros u H1 H2; contradiction.
  - rb H as E1 mo. apply getp_ok in E1.
    assert (Hmo : m_mate (mate s) (tgt e) = mo) by (unfold m_mate; rewrite E1; reflexivity).
    destruct (match mo with None => true | Some _ => false end && negb (Nat.eqb (tgt e) start)) eqn:Ec.
    + rb H as E2 m1. rb H as E3 m2. discriminate H.
    + rb H as E2 lo. apply getp_ok in E2. destruct (is_outer lo) eqn:Elo.
      * rb H as E3 s2. injection H as <-.
        assert (Hoo : outerv (lab s) (tgt e)) by (exists lo; auto).
        destruct (FJ start s (eid e) cur (tgt e) e s2 (ex_intro _ pth (ex_intro _ rk I)) Hout Hoo He
                    eq_refl eq_refl (not_eq_sym Hneq) E3) as [_ Hmono].
        destruct (find_join_facts v start s pth rk I (eid e) cur (tgt e) e He eq_refl eq_refl Hout Hoo HV
                    s2 (not_eq_sym Hneq) E3) as [F1 [F2 [F3 [F4 [F5 F6]]]]].
        constructor; auto. right. right. split; [apply Hmono, Hoo | exact F6].
      * assert (Hno : ~ outerv (lab s) (tgt e)).
        { intros [lb [H1 H2]]. rewrite E2 in H1. injection H1 as <-. congruence. }
        destruct mo as [mv|].
        2:{ exfalso. cbn [andb] in Ec. apply negb_false_iff, Nat.eqb_eq in Ec.
            apply Hno. rewrite Ec. exists LStart. split; [apply (si_start _ _ _ _ _ I) | reflexivity]. }
        rb H as E3 lm. apply getp_ok in E3. rb H as E4 s1. rb H as E5 s2. injection H as <-.
        apply label_visit_facts in E5. destruct E5 as [Q1 [Q2 [Q3 [Q4 [Q5 [Q6 [Q7 Q8]]]]]]].
        destruct (lo_sym HL (tgt e) mv Hmo) as [Hmv Hne2].
        destruct (is_outer lm) eqn:Elm.
        -- injection E4 as <-.
           assert (Hmvo : outerv (lab s) mv) by (exists lm; auto).
           constructor.
           ++ exact Q1.
           ++ intros u Hu. rewrite Q2. exact Hu.
           ++ exact Q5.
           ++ exact Q6.
           ++ intros u H1 H2. rewrite Q2 in H1. contradiction.
           ++ intros x y _ _ Hxy. rewrite Q3. exact Hxy.
           ++ right. left. rewrite Q1, Q2. split; [exact Hno|]. exists mv. auto.
        -- assert (Hnm : ~ outerv (lab s) mv).
           { intros [lb [H1 H2]]. rewrite E3 in H1. injection H1 as <-. congruence. }
           rb E4 as E6 lab'. rb E4 as E7 fin'. injection E4 as <-.
           apply setp_ok in E6. destruct E6 as [Hl6 ->]. apply setp_ok in E7. destruct E7 as [Hl7 ->].
           cbn [mate lab fin nedges queue vis] in *.
           assert (Hnv : ~ In mv (vis s)) by (intros Hin; apply Hnm, (proj2 HV mv Hin)).
           assert (Hout' : forall u, outerv (lab s2) u <-> u = mv \/ outerv (lab s) u).
           { intros u. rewrite Q2. rewrite outerv_upd by exact Hl6. cbn [is_outer]. split.
             - intros [[H1 _]|[_ H1]]; auto.
             - intros [->|H1]; [left; auto|]. right. split; [intros ->; contradiction | exact H1]. }
           constructor.
           ++ exact Q1.
           ++ intros u Hu. apply Hout'. right; exact Hu.
           ++ exact Q5.
           ++ exact Q6.
           ++ intros u Hu Hnu. apply Hout' in Hu. destruct Hu as [->|Hu]; [|contradiction].
              split; [|exact Q8]. destruct (Q7 mv Q8) as [Hin|Hin]; [contradiction | exact Hin].
           ++ intros x y Hx Hy Hxy. rewrite Q3.
              rewrite !nth_error_upd_neq; [exact Hxy | intros ->; contradiction | intros ->; contradiction].
           ++ right. left. split.
              ** intros Ho. apply Hout' in Ho. destruct Ho as [E|Ho]; [apply Hne2; exact E | contradiction].
              ** exists mv. rewrite Q1. split; [exact Hmo | apply Hout'; left; reflexivity].
Qed.

(* an augmentation keeps every matched vertex matched, and matches the start *)
Lemma scan_edge_aug start cur s e s' :
  SInv v start s -> outerv (lab s) cur -> In e (out_edges v cur) ->
  scan_edge v start cur s e = Ok (true, s') ->
  (forall x, m_mate (mate s) x <> None -> m_mate (mate s') x <> None) /\
  m_mate (mate s') start <> None.
Proof.
  intros [pth [rk I]] Hout He H. pose proof (si_lab _ _ _ _ _ I) as HL.
  assert (Hnb : In (tgt e) (neighbors v cur)) by (unfold neighbors; apply in_map; exact He).
  unfold scan_edge in H. destruct (Nat.eqb_spec (tgt e) cur) as [Heq|Hneq]; [discriminate H|].
  rb H as E1 mo. apply getp_ok in E1.
  assert (Hmo : m_mate (mate s) (tgt e) = mo) by (unfold m_mate; rewrite E1; reflexivity).
  destruct (match mo with None => true | Some _ => false end && negb (Nat.eqb (tgt e) start)) eqn:Ec.
  2:{ exfalso. rb H as E2 lo. destruct (is_outer lo).
      - rb H as E3 s2. discriminate H.
      - rb H as E3 lm. rb H as E4 s1. destruct mo as [mv|]; [rb H as E5 s2; discriminate H | discriminate H]. }
  apply andb_true_iff in Ec. destruct Ec as [Ec1 Ec2]. destruct mo as [x|]; [discriminate|].
  apply negb_true_iff, Nat.eqb_neq in Ec2.
  rb H as E2 m1. apply setp_ok in E2. destruct E2 as [_ ->]. rb H as E3 m2. injection H as <-. cbn [mate].
  assert (Hnotin : ~ In (tgt e) (pth cur)).
  { intros Hin. destruct (SI_tree _ _ _ _ _ cur (tgt e) I Hout Hin) as [Ho|[o [H1 _]]]; [|congruence].
    apply (SI_outer_matched _ _ _ _ _ (tgt e) I Ho Ec2). exact Hmo. }
  destruct (lo_hd HL cur Hout) as [rest Hrest].
  assert (Hlen : length (mate s) = S (vbound v)) by apply (lo_len HL).
  assert (Hor : tgt e < vbound v) by (apply (nb_lt v HM cur), Hnb).
  set (m1 := upd (mate s) (tgt e) (Some cur)) in *.
  assert (Hm1 : forall k, m_mate m1 k = if Nat.eqb (tgt e) k then Some cur else m_mate (mate s) k).
  { intros k. unfold m1. rewrite m_mate_upd. rewrite (proj2 (Nat.ltb_lt _ _)) by lia. reflexivity. }
  destruct (aug_ok v (mate s) (lab s) pth rk HL (S (S (4 * (4 * (vbound v + 2))))) cur (tgt e) m1 (pth cur) [])
    as [m2' [E2' F2]].
  - exact Hout.
  - pose proof (si_rk _ _ _ _ _ I cur Hout). pose proof (nout_le (lab s)).
    rewrite (si_lablen _ _ _ _ _ I) in *. lia.
  - rewrite app_nil_r. reflexivity.
  - destruct (lo_odd HL cur Hout) as [k Hk]. exists k; exact Hk.
  - intros k Hk. rewrite Hm1. destruct (Nat.eqb_spec (tgt e) k) as [<-|_]; [contradiction | reflexivity].
  - unfold m1. rewrite upd_length. exact Hlen.
  - rewrite Hm1. destruct (Nat.eqb_spec (tgt e) (vbound v)) as [E|_]; [lia | apply (lo_dummy HL)].
  - exact Hnotin.
  - left; reflexivity.
  - rewrite E3 in E2'. injection E2' as <-.
    pose proof F2 as [L2 [R2 [F0 F1]]].
    assert (Hm2u : m_mate m2 cur = Some (tgt e)) by (apply F0; rewrite Hrest; reflexivity).
    assert (Hpath : forall k, In k (pth cur) -> m_mate m2 k <> None).
    { intros k Hk. destruct (Nat.eq_dec k cur) as [->|Hne]; [rewrite Hm2u; discriminate|].
      destruct (flipped_partner v (mate s) (lab s) pth rk HL cur Hout m1 (tgt e) m2 k F2 Hk Hne)
        as [y [_ [H1 _]]]. rewrite H1. discriminate. }
    split.
    + intros k Hk. destruct (in_dec Nat.eq_dec k (pth cur)) as [Hin|Hnin]; [apply Hpath, Hin|].
      rewrite R2 by exact Hnin. rewrite Hm1. destruct (Nat.eqb_spec (tgt e) k); [discriminate | exact Hk].
    + apply Hpath. set (st := last (pth cur) 0).
      assert (Hstin : In st (pth cur)) by (apply last_In_ne; rewrite Hrest; discriminate).
      assert (Hstfree : m_mate (mate s) st = None)
        by apply (path_last_unmatched v (mate s) (lab s) pth rk HL cur Hout).
      destruct (SI_tree _ _ _ _ _ cur st I Hout Hstin) as [Ho|[o [H1 _]]]; [|congruence].
      destruct (Nat.eq_dec st start) as [<-|Hne]; [exact Hstin|].
      exfalso. apply (SI_outer_matched _ _ _ _ _ st I Ho Hne). exact Hstfree.
Qed.

(* ------------------------------------------------------------------ *)
(* the closure invariant                                               *)

(* every outer vertex has been marked (and so queued) *)
Definition K1 (s : mst) : Prop := forall x, outerv (lab s) x -> In x (vis s).

(* the edge x y is still to be scanned from x *)
Definition Pend (s : mst) (cur : nat) (rem : list eref) (x y : nat) : Prop :=
  In x (queue s) \/ (x = cur /\ In y (map tgt rem)).

Definition K2 (s : mst) (cur : nat) (rem : list eref) : Prop :=
  forall x y, outerv (lab s) x -> In y (neighbors v x) -> y <> x ->
    Pend s cur rem x y \/ Pend s cur rem y x \/ Done s x y.

(* between two scans *)
Definition K2q (s : mst) : Prop :=
  forall x y, outerv (lab s) x -> In y (neighbors v x) -> y <> x ->
    In x (queue s) \/ In y (queue s) \/ Done s x y.

Lemma scan_step s s' cur e rem :
  K1 s -> K2 s cur (e :: rem) -> (forall x, In x (queue s) -> outerv (lab s) x) -> outerv (lab s) cur ->
  Tr s s' cur (tgt e) -> K1 s' /\ K2 s' cur rem.
Proof.
  intros H1 H2 Hq Hcur T. split.
  - intros x Hx. destruct (outerv_dec (lab s) x) as [Hx0|Hx0].
    + apply (tr_vis T), H1, Hx0.
    + apply (tr_new T x Hx Hx0).
  - intros x y Hx Hy Hne.
    destruct (outerv_dec (lab s) x) as [Hx0|Hx0].
    2:{ left. left. apply (tr_new T x Hx Hx0). }
    assert (Hpx : Pend s cur (e :: rem) x y -> Pend s' cur rem x y \/ Done s' x y).
    { intros [Hin|[-> Hin]]; [left; left; apply (tr_queue T), Hin|].
      cbn [map] in Hin. destruct Hin as [<-|Hin]; [|left; right; auto].
      destruct (tr_done T) as [E|HD]; [congruence | right; exact HD]. }
    destruct (outerv_dec (lab s') y) as [Hy'|Hy'].
    + destruct (outerv_dec (lab s) y) as [Hy0|Hy0].
      2:{ right. left. left. apply (tr_new T y Hy' Hy0). }
      destruct (H2 x y Hx0 Hy Hne) as [HP|[HP|HD]].
      * destruct (Hpx HP); auto.
      * destruct HP as [Hin|[-> Hin]]; [right; left; left; apply (tr_queue T), Hin|].
        cbn [map] in Hin. destruct Hin as [<-|Hin]; [|right; left; right; auto].
        destruct (tr_done T) as [E|[[Hn _]|[_ Hf]]]; [congruence | contradiction|].
        right. right. right. split; [exact Hy' | symmetry; exact Hf].
      * right. right. destruct HD as [[Hn _]|[_ Hf]]; [contradiction|].
        right. split; [exact Hy' | apply (tr_fin T); assumption].
    + assert (Hy0 : ~ outerv (lab s) y) by (intros H; apply Hy', (tr_outer T), H).
      destruct (H2 x y Hx0 Hy Hne) as [HP|[HP|HD]].
      * destruct (Hpx HP); auto.
      * exfalso. destruct HP as [Hin|[-> _]]; [apply Hy0, Hq, Hin | exact (Hy0 Hcur)].
      * right. right. destruct HD as [[_ [mv [Hm Ho]]]|[Ho _]]; [|contradiction].
        left. split; [exact Hy'|]. exists mv. rewrite (tr_mate T). split; [exact Hm | apply (tr_outer T), Ho].
Qed.

Lemma scan_edges_K start cur : forall es s b s',
  SInv v start s -> VI s -> outerv (lab s) cur -> (forall e, In e es -> In e (out_edges v cur)) ->
  K1 s -> K2 s cur es -> scan_edges v start cur s es = Ok (b, s') ->
  (b = false -> SInv v start s' /\ VI s' /\ K1 s' /\ K2 s' cur [] /\ mate s' = mate s) /\
  (b = true -> (forall x, m_mate (mate s) x <> None -> m_mate (mate s') x <> None) /\
               m_mate (mate s') start <> None).
Proof.
  induction es as [|e rest IH]; intros s b s' SI0 V0 Hout Hes H1 H2 H; cbn [scan_edges] in H.
  - injection H as <- <-. split; [auto | discriminate].
  - rb H as E1 [found s1].
    pose proof (Hes e (or_introl eq_refl)) as He.
    destruct found.
    + injection H as <- <-. split; [discriminate|]. intros _.
      apply (scan_edge_aug start cur s e s1 SI0 Hout He E1).
    + destruct (scan_edge_ok v HM FJ start cur s e false s1 SI0 Hout He E1) as [_ Hf].
      destruct (Hf eq_refl) as [SI1 Hmono].
      destruct (scan_edge_full v HM HE HC start cur s e SI0 V0 Hout He) as [b' [s1' [E1' Hv]]].
      rewrite E1 in E1'. injection E1' as <- <-. destruct (Hv eq_refl) as [V1 _].
      pose proof (scan_edge_tr start cur s e s1 SI0 V0 Hout He E1) as T.
      assert (Hq : forall x, In x (queue s) -> outerv (lab s) x).
      { destruct SI0 as [pth [rk I]]. apply (si_queue _ _ _ _ _ I). }
      destruct (scan_step s s1 cur e rest H1 H2 Hq Hout T) as [H1' H2'].
      destruct (IH s1 b s' SI1 V1 (Hmono cur Hout)) as [Rf Rt]; auto.
      { intros e' He'. apply Hes. right; exact He'. }
      rewrite (tr_mate T) in Rf, Rt. split; assumption.
Qed.

(* ------------------------------------------------------------------ *)
(* the end of a search without augmentation                            *)

Lemma search_end start s : SInv v start s -> queue s = [] -> K2q s -> ~ mext v (mate s) start.
Proof.
  intros [pth [rk I]] Hq HK [N [[HN HNe] [Hcov Hst]]].
  pose proof (si_lab _ _ _ _ _ I) as HL.
  assert (Hst_out : outerv (lab s) start)
    by (exists LStart; split; [apply (si_start _ _ _ _ _ I) | reflexivity]).
  assert (Hob : forall u, outb (lab s) u = false -> ~ outerv (lab s) u).
  { intros u H1 H2. apply outerv_outb in H2. congruence. }
  assert (Hsomefin : forall u, outerv (lab s) u -> exists c, nth_error (fin s) u = Some c).
  { intros u Hu. eexists. apply (xs_hd v start s pth rk I u Hu). }
  refine (cert_no_cover (vbound v) (m_mate (mate s)) (outb (lab s)) (fun x => nth x (fin s) 0) start
            (fun x y => In y (neighbors v x)) _ _ _ _ _ _ _ _ N HN _ Hcov Hst).
  - apply (lo_sym HL).
  - intros i j Hij. apply (GM_lt v (mate s) i j (SI_GM _ _ _ _ _ I) Hij).
  - intros x Hx. apply outerv_outb in Hx. pose proof (outerv_lt _ _ Hx) as Hlt.
    rewrite (si_lablen _ _ _ _ _ I) in Hlt.
    assert (x <> vbound v) by (intros ->; exact (dummy_not_outer v start s pth rk I Hx)). lia.
  - apply outerv_outb. exact Hst_out.
  - apply (si_start_free _ _ _ _ _ I).
  - pose proof (lo_start HL start (si_start _ _ _ _ _ I)) as Hp.
    pose proof (si_fin _ _ _ _ _ I start [] start [] Hst_out Hp Hst_out) as Hf. cbn [fno] in Hf.
    apply (nth_error_nth _ _ 0 Hf).
  - intros u Hu Hne. apply outerv_outb in Hu.
    destruct (lo_hd HL u Hu) as [rest Hrest].
    pose proof (lo_mate HL u 0 u Hu) as Hm. change (2 * 0) with 0 in Hm. rewrite Hrest in Hm. cbn [nth_error] in Hm.
    specialize (Hm eq_refl).
    pose proof (SI_outer_matched _ _ _ _ _ u I Hu Hne) as Hmat.
    destruct rest as [|w rest']; [cbn [nth_error] in Hm; congruence|]. cbn [nth_error] in Hm.
    exists w. split; [exact Hm|].
    pose proof (si_fin _ _ _ _ _ I u [] u (w :: rest') Hu Hrest Hu) as Hfu. cbn [fno] in Hfu.
    destruct (outb (lab s) w) eqn:Ew.
    + left. split; [reflexivity|]. apply outerv_outb in Ew.
      pose proof (si_fin _ _ _ _ _ I u [u] w rest' Hu Hrest Ew) as Hfw.
      rewrite (nth_error_nth _ _ 0 Hfu), (nth_error_nth _ _ 0 Hfw). reflexivity.
    + right. split; [reflexivity|]. apply (nth_error_nth _ _ 0 Hfu).
  - intros x y Hx Hy Hne. apply outerv_outb in Hx.
    destruct (HK x y Hx Hy Hne) as [Hin|[Hin|HD]]; [rewrite Hq in Hin; destruct Hin | rewrite Hq in Hin; destruct Hin|].
    destruct HD as [[Hn [mv [Hm Ho]]]|[Ho Hf]].
    + left. split.
      * destruct (outb (lab s) y) eqn:Ey; [|reflexivity]. exfalso. apply Hn, outerv_outb, Ey.
      * exists mv. split; [exact Hm | apply outerv_outb, Ho].
    + right. split; [apply outerv_outb, Ho | apply nth_error_eq_nth, Hf].
  - intros i j Hij. destruct (HNe i j Hij) as [_ [_ Hu]]. unfold uadj, vadj in Hu.
    apply orb_true_iff in Hu. rewrite !mem_In in Hu.
    destruct Hu as [Hu|Hu]; split; auto.
Qed.

(* ------------------------------------------------------------------ *)
(* a whole search                                                      *)

(* the matching is unchanged and the start cannot be added to the covered set; or the covered set
   has grown and contains the start *)
Definition SRes (start : nat) (m0 : list (option nat)) (s' : mst) : Prop :=
  (mate s' = m0 /\ ~ mext v m0 start) \/
  ((forall x, m_mate m0 x <> None -> m_mate (mate s') x <> None) /\ m_mate (mate s') start <> None).

Lemma search_K start : forall fuel s s',
  SInv v start s -> VI s -> K1 s -> K2q s -> search v fuel start s = Ok s' -> SRes start (mate s) s'.
Proof.
  induction fuel as [|f IH]; intros s s' SI0 V0 H1 H2 H; cbn [search] in H; [discriminate|].
  destruct (queue s) as [|cur q] eqn:Eq.
  - injection H as <-. left. split; [reflexivity | apply (search_end start s SI0 Eq H2)].
  - rb H as E1 [found s1]. pose proof SI0 as [pth [rk I]].
    assert (Hout : outerv (lab s) cur) by (apply (si_queue _ _ _ _ _ I); rewrite Eq; left; reflexivity).
    set (sq := mkMst (mate s) (lab s) (fin s) (vis s) q (nedges s)) in *.
    assert (SIq : SInv v start sq).
    { exists pth, rk. apply (SI_same v start s sq pth rk); cbn [mate lab fin nedges queue sq]; auto.
      intros x Hx. apply (si_queue _ _ _ _ _ I). rewrite Eq. right; exact Hx. }
    assert (Vq : VI sq) by exact V0.
    assert (K1q : K1 sq) by exact H1.
    assert (K2s : K2 sq cur (out_edges v cur)).
    { intros x y Hx Hy Hne. unfold Pend. cbn [queue lab sq] in *.
      destruct (H2 x y Hx Hy Hne) as [Hin|[Hin|HD]].
      - rewrite Eq in Hin. destruct Hin as [<-|Hin]; [left; right; split; [reflexivity | exact Hy] | left; left; exact Hin].
      - rewrite Eq in Hin. destruct Hin as [<-|Hin]; [|right; left; left; exact Hin].
        right. left. right. split; [reflexivity | apply HS, Hy].
      - right. right. exact HD. }
    destruct (scan_edges_K start cur (out_edges v cur) sq found s1 SIq Vq Hout (fun e He => He) K1q K2s E1)
      as [Rf Rt].
    destruct found.
    + injection H as <-. right. apply Rt. reflexivity.
    + destruct (Rf eq_refl) as [SI1 [V1 [K11 [K21 Em]]]]. cbn [mate sq] in Em.
      rewrite <- Em. apply (IH s1 s' SI1 V1 K11); [|exact H].
      intros x y Hx Hy Hne. destruct (K21 x y Hx Hy Hne) as [[Hin|[_ []]]|[[Hin|[_ []]]|HD]]; auto.
Qed.

(* ------------------------------------------------------------------ *)
(* the loop over the start vertices                                    *)

Definition LI (k : nat) (s : mst) : Prop :=
  BInv v s /\ forall u, u < k -> m_mate (mate s) u = None -> ~ mext v (mate s) u.

(* one search from a free vertex k: it augments, and then k is matched; or it leaves the matching as
   it is, and then no matching covers k and every matched vertex *)
Lemma try_start_res k s s' : BInv v s -> k < vbound v -> m_mate (mate s) k = None ->
  try_start v s k = Ok s' -> SRes k (mate s) s'.
Proof.
  intros B Hk Hm H.
  unfold try_start in H. rb H as E1 m. apply getp_ok in E1.
  assert (Hm' : m_mate (mate s) k = m) by (unfold m_mate; rewrite E1; reflexivity).
  rewrite Hm in Hm'. subst m.
  rb H as E2 lab1. rb H as E3 fin1. rb H as E4 [b vis1]. rb H as E5 s1. injection H as <-.
  apply setp_ok in E2. destruct E2 as [Hl2 ->]. apply setp_ok in E3. destruct E3 as [_ ->].
  apply visit_sound in E4. cbn [mem negb] in E4. destruct E4 as [_ ->].
  pose proof (init_SInv v k s _ [k] B Hk Hm eq_refl) as I0.
  pose proof B as [_ [_ [Hlab _]]].
  set (s0 := mkMst (mate s) (upd (lab s) k LStart) (upd (fin s) k (vbound v)) [k] [k] (nedges s)) in *.
  assert (Hout0 : forall u, outerv (lab s0) u <-> u = k).
  { intros u. cbn [lab s0]. rewrite outerv_upd by exact Hl2. split.
    - intros [[E _]|[_ Hu]]; [exact E|]. apply outerv_outb in Hu. unfold outb in Hu.
      rewrite Hlab, repeat_LNone_nth in Hu. discriminate.
    - intros ->. left. auto. }
  assert (V0 : VI s0).
  { split; cbn [vis s0]; [repeat constructor; intros []|]. intros x [<-|[]]. apply Hout0. reflexivity. }
  assert (K10 : K1 s0) by (intros x Hx; apply Hout0 in Hx; subst x; left; reflexivity).
  assert (K20 : K2q s0) by (intros x y Hx _ _; apply Hout0 in Hx; subst x; left; left; reflexivity).
  pose proof (search_K k _ s0 s1 I0 V0 K10 K20 E5) as R. cbn [mate s0] in R.
  unfold SRes in *. cbn [mate]. exact R.
Qed.

Lemma try_start_LI k s s' : LI k s -> k < vbound v -> try_start v s k = Ok s' -> LI (S k) s'.
Proof.
  intros [B HL] Hk H. split; [apply (try_start_ok v HM FJ s k s' B Hk H)|].
  destruct (m_mate (mate s) k) as [x|] eqn:Hm.
  - assert (Es : s' = s).
    { unfold try_start in H. pose proof B as [[Lm _] _].
      rewrite getp_mate in H by lia. rewrite Hm in H. cbn [rbind] in H. congruence. }
    subst s'. intros u Hu Hfree. apply HL; [|exact Hfree].
    destruct (Nat.eq_dec u k) as [->|Hne]; [congruence | lia].
  - pose proof (try_start_res k s s' B Hk Hm H) as R.
    intros u Hu Hfree. destruct R as [[Em Hno]|[Hcov Hkc]].
    + rewrite Em in *. destruct (Nat.eq_dec u k) as [->|Hne]; [exact Hno | apply HL; [lia | exact Hfree]].
    + assert (Huk : u <> k) by (intros ->; contradiction).
      assert (Hfree0 : m_mate (mate s) u = None).
      { destruct (m_mate (mate s) u) as [j|] eqn:Ej; [|reflexivity]. exfalso.
        apply (Hcov u); [rewrite Ej; discriminate | exact Hfree]. }
      intros Hext. apply (HL u); [lia | exact Hfree0 | apply (mext_mono v (mate s) (mate s') u Hcov Hext)].
Qed.

Lemma try_fold_LI : forall len k s s', LI k s -> k + len <= vbound v ->
  fold_left (fun acc start => rbind acc (fun s => try_start v s start)) (seq k len) (Ok s) = Ok s' ->
  LI (k + len) s'.
Proof.
  induction len as [|len IH]; intros k s s' L Hle H; cbn [seq fold_left] in H.
  - injection H as <-. rewrite Nat.add_0_r. exact L.
  - cbn [rbind] in H. destruct (try_start v s k) as [s1| |] eqn:E.
    + replace (k + S len) with (S k + len) by lia. apply (IH (S k) s1 s'); [|lia | exact H].
      apply (try_start_LI k s s1 L); [lia | exact E].
    + exfalso. clear -H. induction (seq (S k) len) as [|b t IHt]; cbn [fold_left rbind] in H; [discriminate | auto].
    + exfalso. clear -H. induction (seq (S k) len) as [|b t IHt]; cbn [fold_left rbind] in H; [discriminate | auto].
Qed.

(* no free vertex can be added to the set of matched vertices *)
Theorem maximum_matching_no_ext_sec debug m n : maximum_matching v debug = Ok (m, n) ->
  forall u, m_mate m u = None -> ~ mext v m u.
Proof.
  intros H. unfold maximum_matching in H.
  destruct (greedy_inner_valid v HM) as [m0 [n0 [Eg [Hl0 [Hs0 [Hj0 Hn0]]]]]]. rewrite Eg in H. cbn [rbind] in H.
  destruct (debug && negb (Nat.eqb (length (m0 ++ [None])) (S (vbound v)))); [discriminate|].
  rb H as E s. injection H as <- <-.
  assert (Hsym : msym (m0 ++ [None])).
  { intros i j. rewrite !m_mate_app_None. apply Hs0. }
  apply (try_fold_LI (vbound v) 0) in E; [|split; [|intros u Hu; lia] | lia].
  - destruct E as [[[Lm [Hd _]] _] HL]. cbn [Nat.add] in HL.
    assert (Hlast : m_mate (mate s) (length (mate s) - 1) = None).
    { rewrite Lm. replace (S (vbound v) - 1) with (vbound v) by lia. exact Hd. }
    intros u Hfree Hext. rewrite m_mate_removelast in Hfree by exact Hlast.
    assert (Hext' : mext v (mate s) u).
    { apply (mext_ext v (mate s) (removelast (mate s)) u); [|exact Hext].
      intros x. apply m_mate_removelast. exact Hlast. }
    destruct (Nat.lt_ge_cases u (vbound v)) as [Hlt|Hge]; [exact (HL u Hlt Hfree Hext')|].
    destruct Hext as [N [HN [_ Hu]]]. apply (matching_endpoints HN) in Hu.
    destruct HM as [_ Hb]. apply Hb in Hu. lia.
  - split; cbn [mate lab fin nedges]; [split; [|split; [|split]]|split; [|split]].
    + rewrite app_length, Hl0. cbn [length]. lia.
    + rewrite m_mate_app_None. unfold m_mate. rewrite (proj2 (nth_error_None m0 (vbound v))) by lia. reflexivity.
    + exact Hsym.
    + intros i j. rewrite m_mate_app_None. intros Hij. apply (Hj0 i j Hij).
    + rewrite csum_app_None, (msym_csum m0 Hs0), Hn0. reflexivity.
    + reflexivity.
    + rewrite repeat_length. reflexivity.
Qed.

End Complete.

(* ------------------------------------------------------------------ *)
(* G1: the result of maximum_matching is a maximum matching            *)

Theorem maximum_matching_no_ext v debug m n :
  MOk v -> EidOk v -> CapOk v -> vsymmetric v -> maximum_matching v debug = Ok (m, n) ->
  forall u, m_mate m u = None -> ~ mext v m u.
Proof. intros HM HE HC HS. apply maximum_matching_no_ext_sec; assumption. Qed.

Theorem maximum_matching_maximum v debug m n :
  MOk v -> EidOk v -> CapOk v -> vsymmetric v -> maximum_matching v debug = Ok (m, n) ->
  valid_matching v m n /\ n = max_matching_size (vnodes v) (vadj v).
Proof.
  intros HM HE HC HS H. pose proof (maximum_matching_valid v debug m n HM HE H) as Hv.
  split; [exact Hv|]. apply (no_extension_is_maximum v m n (proj1 HM) Hv).
  intros u Hu Hext. apply (maximum_matching_no_ext v debug m n HM HE HC HS H u Hu).
  destruct Hv as [_ [Hs _]]. apply extends_mext; assumption.
Qed.

(* the search is complete: no augmenting path is left *)
Theorem maximum_matching_no_augmenting v debug m n :
  MOk v -> EidOk v -> CapOk v -> vsymmetric v -> maximum_matching v debug = Ok (m, n) ->
  forall l, ~ vaugmenting v m l.
Proof.
  intros HM HE HC HS H. destruct (maximum_matching_maximum v debug m n HM HE HC HS H) as [Hv Hn].
  apply (maximum_no_augmenting v m n (proj1 HM) Hv Hn).
Qed.

(* everything together: maximum_matching is total and what it returns is a maximum matching *)
Theorem maximum_matching_total_maximum v debug :
  MOk v -> EidOk v -> CapOk v -> vsymmetric v ->
  exists m n, maximum_matching v debug = Ok (m, n) /\ valid_matching v m n /\
    n = max_matching_size (vnodes v) (vadj v) /\
    is_maximum (vnodes v) (vadj v) (m_edges m) /\
    (forall m' n', valid_matching v m' n' -> n' <= n) /\
    (forall l, ~ vaugmenting v m l).
Proof.
  intros HM HE HC HS. destruct (maximum_matching_total v debug HM HE HC) as [m [n [E Hv]]].
  exists m, n. destruct (maximum_matching_maximum v debug m n HM HE HC HS E) as [_ Hn].
  split; [exact E|]. split; [exact Hv|]. split; [exact Hn|].
  destruct (valid_is_matching v m n (proj1 HM) Hv) as [HMm HL].
  split; [apply mms_is_maximum; [exact HMm | congruence]|].
  split; [apply (valid_max_is_maximum v m n (proj1 HM) Hv Hn)|].
  apply (maximum_no_augmenting v m n (proj1 HM) Hv Hn).
Qed.

Print Assumptions maximum_matching_maximum.
Print Assumptions maximum_matching_no_augmenting.
Print Assumptions maximum_matching_total_maximum.
