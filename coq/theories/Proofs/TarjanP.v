(* TarjanScc (algo/mod.rs, Pearce's variant with one rootindex array): the components it
   reports partition the nodes.  Every node is given a visit index once, and leaves the
   computation either on the stack or inside a reported component; a visit started with
   nothing open and an empty stack has index 1, the smallest value any entry can hold, so it
   ends as a root and empties the stack. *)
From Coq Require Import NArith.
From PG Require Import Lib.Io Model.View Model.Traversal Model.AlgoBasic Spec.Reach
                       Proofs.TravBase Proofs.ToposortP.

(* ------------------------------------------------------------------ *)
(* Array access                                                        *)

Lemma tj_get_ok t x r : nth_error (tnodes t) x = Some r -> tj_get t x = Ok r.
Proof. intros H. unfold tj_get. rewrite H. reflexivity. Qed.

Lemma tj_set_ok t x r : x < length (tnodes t) ->
  tj_set t x r = Ok (mkTj (tindex t) (tcc t) (upd (tnodes t) x r) (tstack t)).
Proof.
  intros H. unfold tj_set. destruct (nth_error (tnodes t) x) eqn:E; [reflexivity|].
  apply nth_error_None in E. lia.
Qed.

Lemma nth_error_upd_at {A} (l : list A) x r n : x < length l ->
  nth_error (upd l x r) n = if Nat.eqb x n then Some r else nth_error l n.
Proof.
  intros H. rewrite nth_error_upd. destruct (Nat.eqb x n); [|reflexivity].
  destruct (Nat.ltb_spec x (length l)); [reflexivity | lia].
Qed.

Lemma nodup_app_l {A} (l1 l2 : list A) : NoDup (l1 ++ l2) -> NoDup l1.
Proof.
  induction l1 as [|a t IH]; intros H; [constructor|]. cbn [app] in H.
  inversion H as [|a' t' Ha Ht]; subst. constructor; [|apply IH; exact Ht].
  intros Hin. apply Ha, in_or_app; left; exact Hin.
Qed.

Lemma mem_ext m m' a : (forall b, In b m <-> In b m') -> mem a m = mem a m'.
Proof.
  intros H. destruct (mem a m') eqn:E.
  - apply mem_In. apply H. apply mem_In. exact E.
  - apply mem_false. intros Hin. apply H in Hin. apply mem_In in Hin. congruence.
Qed.

Lemma usum_ext f m m' l : (forall b, In b m <-> In b m') -> usum f m l = usum f m' l.
Proof.
  intros H. induction l as [|a t IH]; cbn [usum]; [reflexivity|].
  rewrite (mem_ext m m' a H), IH. reflexivity.
Qed.

Lemma length_concat_ne (ls : list (list nat)) :
  Forall (fun c => c <> []) ls -> length ls <= length (concat ls).
Proof.
  induction 1 as [|c t Hc Ht IH]; cbn [concat length]; [lia|].
  rewrite app_length. destruct c as [|a c']; [contradiction|]. cbn [length]. lia.
Qed.

(* ------------------------------------------------------------------ *)
(* Unfolding the two mutually recursive functions by one step          *)

Lemma tj_visit_eq f v debug t x out :
  tj_visit (S f) v debug t x out =
  rbind (tj_get t x) (fun r0 =>
    if andb debug (match r0 with Some _ => true | None => false end) then Panic else
    rbind (tj_set t x (Some (tindex t))) (fun t0 =>
    rbind (tj_neighbors f v debug (mkTj (N.succ (tindex t)) (tcc t0) (tnodes t0) (tstack t0)) x
                        (neighbors v x) true out) (fun '(t2, is_root, out2) =>
      if is_root then
        rbind (tj_get t2 x) (fun rv =>
        rbind (tj_pop_component t2 rv (Some (tcc t2)) (tstack t2) 1%N []) (fun '(t3, rest, adj, comp) =>
        rbind (tj_set t3 x (Some (tcc t2))) (fun t4 =>
          Ok (mkTj (tindex t4 - adj)%N (tcc t4 - 1)%N (tnodes t4) rest, out2 ++ [comp ++ [x]]))))
      else Ok (mkTj (tindex t2) (tcc t2) (tnodes t2) (x :: tstack t2), out2)))).
Proof. reflexivity. Qed.

Lemma tj_neighbors_eq f v debug t x w rest is_root out :
  tj_neighbors (S f) v debug t x (w :: rest) is_root out =
  rbind (tj_get t w) (fun rw =>
  rbind (match rw with None => tj_visit f v debug t w out | Some _ => Ok (t, out) end) (fun '(t1, out1) =>
  rbind (tj_get t1 w) (fun rw1 =>
  rbind (tj_get t1 x) (fun rx1 =>
    if opt_lt rw1 rx1
    then rbind (tj_set t1 x rw1) (fun t2 => tj_neighbors f v debug t2 x rest false out1)
    else tj_neighbors f v debug t1 x rest is_root out1)))).
Proof. reflexivity. Qed.

(* ------------------------------------------------------------------ *)
(* Popping a component                                                 *)

Lemma pop_spec : forall stack t vroot c adj comp,
  (forall w, In w stack -> w < length (tnodes t)) ->
  exists popped rest t',
    stack = popped ++ rest /\
    tj_pop_component t vroot c stack adj comp =
      Ok (t', rest, (adj + N.of_nat (length popped))%N, rev popped ++ comp) /\
    tindex t' = tindex t /\ tcc t' = tcc t /\ length (tnodes t') = length (tnodes t) /\
    (forall n, nth_error (tnodes t') n = if mem n popped then Some c else nth_error (tnodes t) n) /\
    (NoDup stack ->
     (forall w rw, In w stack -> nth_error (tnodes t) w = Some rw -> opt_lt rw vroot = false) ->
     rest = []).
Proof.
  induction stack as [|w st IH]; intros t vroot c adj comp Hlt.
  - exists [], [], t. split; [reflexivity|]. split.
    + cbn [tj_pop_component length rev app]. rewrite N.add_0_r. reflexivity.
    + repeat split; auto.
  - assert (Hw : w < length (tnodes t)) by (apply Hlt; left; reflexivity).
    destruct (nth_error_lt_Some (tnodes t) Hw) as [rw Erw].
    cbn [tj_pop_component]. rewrite (tj_get_ok t w rw Erw). cbn [rbind].
    destruct (opt_lt rw vroot) eqn:Elt.
    + exists [], (w :: st), t. split; [reflexivity|]. split.
      * cbn [length rev app]. rewrite N.add_0_r. reflexivity.
      * split; [reflexivity|]. split; [reflexivity|]. split; [reflexivity|]. split; [intros n; reflexivity|].
        intros _ Hall. specialize (Hall w rw (or_introl eq_refl) Erw). congruence.
    + rewrite (tj_set_ok t w c Hw). cbn [rbind].
      set (t1 := mkTj (tindex t) (tcc t) (upd (tnodes t) w c) (tstack t)).
      destruct (IH t1 vroot c (N.succ adj) (w :: comp)) as [popped [rest [t' [Est [E [Hi [Hc [Hl [Hn Hall]]]]]]]]].
      { intros w' Hw'. cbn [t1 tnodes]. rewrite upd_length. apply Hlt; right; exact Hw'. }
      exists (w :: popped), rest, t'. split; [rewrite Est; reflexivity|]. split.
      * rewrite E. cbn [length rev]. rewrite <- app_assoc. cbn [app].
        replace (N.succ adj + N.of_nat (length popped))%N with (adj + N.of_nat (S (length popped)))%N by lia.
        reflexivity.
      * split; [exact Hi|]. split; [exact Hc|].
        split; [rewrite Hl; cbn [t1 tnodes]; apply upd_length|]. split.
        -- intros n. rewrite Hn. cbn [mem t1 tnodes]. rewrite (nth_error_upd_at (tnodes t) w c n Hw).
           destruct (mem n popped); [rewrite orb_true_r; reflexivity|]. rewrite orb_false_r. reflexivity.
        -- intros Hnd Hcond. inversion Hnd as [|w' st' Hwn Hnd']; subst. apply (Hall Hnd').
           intros w' rw' Hw' Erw'. cbn [t1 tnodes] in Erw'. rewrite (nth_error_upd_at (tnodes t) w c w' Hw) in Erw'.
           destruct (Nat.eqb_spec w w') as [->|Hne]; [contradiction|].
           apply (Hcond w' rw' (or_intror Hw') Erw').
Qed.

(* ------------------------------------------------------------------ *)
(* The invariant                                                       *)

Section Tarjan.
Variable v : view.
Variable debug : bool.
Hypothesis Hv : VOk v.
Hypothesis Hbound : forall n, In n (vnodes v) -> n < vbound v.
Hypothesis Hsmall : (N.of_nat (length (vnodes v)) < USIZE_MAX)%N.

(* nodes with an entry: on the stack, open (being visited), or reported *)
Definition tvis (t : tarjan) (O : list nat) (out : list (list nat)) : list nat :=
  tstack t ++ O ++ concat out.

Record TInv (t : tarjan) (O : list nat) (out : list (list nat)) : Prop := {
  t_len : length (tnodes t) = vbound v;
  t_vis : forall n, n < vbound v -> (nth_error (tnodes t) n = Some None <-> ~ In n (tvis t O out));
  t_nd : NoDup (tvis t O out);
  t_in : forall n, In n (tvis t O out) -> In n (vnodes v);
  t_pos : forall n k, nth_error (tnodes t) n = Some (Some k) -> (1 <= k)%N;
  t_idx : tindex t = N.of_nat (1 + length (tstack t) + length O);
  t_cc : tcc t = (USIZE_MAX - N.of_nat (length out))%N;
  t_ne : Forall (fun c => c <> []) out
}.

Definition pot (m : list nat) : nat := usum (fun n => S (outdeg v n)) m (vnodes v).

Lemma tinv_out_small t O out : TInv t O out -> length out <= length (tvis t O out) /\
  length (tvis t O out) <= length (vnodes v).
Proof.
  intros I. split.
  - pose proof (length_concat_ne out (t_ne _ _ _ I)). unfold tvis. rewrite !app_length. lia.
  - apply NoDup_incl_length; [apply (t_nd _ _ _ I)|]. intros n Hn. apply (t_in _ _ _ I n Hn).
Qed.

(* a visited node has a positive entry *)
Lemma tinv_entry t O out n : TInv t O out -> In n (tvis t O out) ->
  exists k, nth_error (tnodes t) n = Some (Some k) /\ (1 <= k)%N.
Proof.
  intros I Hn. assert (Hb : n < vbound v) by (apply Hbound, (t_in _ _ _ I n Hn)).
  assert (Hl : n < length (tnodes t)) by (rewrite (t_len _ _ _ I); exact Hb).
  destruct (nth_error_lt_Some (tnodes t) Hl) as [r Er]. destruct r as [k|].
  - exists k. split; [exact Er | apply (t_pos _ _ _ I n k Er)].
  - exfalso. apply (t_vis _ _ _ I n Hb) in Er. exact (Er Hn).
Qed.

(* same entries, same set of visited nodes, same counters *)
Lemma tinv_reshape t O out t' O' out' :
  TInv t O out ->
  tnodes t' = tnodes t ->
  (forall n, In n (tvis t' O' out') <-> In n (tvis t O out)) ->
  length (tvis t' O' out') = length (tvis t O out) ->
  tindex t' = N.of_nat (1 + length (tstack t') + length O') ->
  tcc t' = (USIZE_MAX - N.of_nat (length out'))%N ->
  Forall (fun c => c <> []) out' ->
  TInv t' O' out'.
Proof.
  intros I En Hset Hlen Hi Hc Hne. constructor.
  - rewrite En. apply (t_len _ _ _ I).
  - intros n Hb. rewrite En, Hset. apply (t_vis _ _ _ I n Hb).
  - apply (NoDup_incl_NoDup (t_nd _ _ _ I)); [lia|]. intros n Hn. apply Hset; exact Hn.
  - intros n Hn. apply (t_in _ _ _ I). apply Hset; exact Hn.
  - intros n k. rewrite En. apply (t_pos _ _ _ I).
  - exact Hi.
  - exact Hc.
  - exact Hne.
Qed.

(* ------------------------------------------------------------------ *)
(* visit and the loop over the neighbours, by induction on the fuel    *)

Definition visit_ok_at (fuel : nat) : Prop :=
  forall t O x out, TInv t O out -> In x (vnodes v) -> nth_error (tnodes t) x = Some None ->
    pot (tvis t O out) < fuel ->
    exists t' out', tj_visit fuel v debug t x out = Ok (t', out') /\ TInv t' O out' /\
      In x (tvis t' O out') /\
      (forall n, In n O -> nth_error (tnodes t') n = nth_error (tnodes t) n) /\
      pot (tvis t' O out') <= pot (tvis t O out) /\
      (forall n, In n (tvis t O out) -> In n (tvis t' O out')) /\
      (O = [] -> tstack t = [] -> tstack t' = []).

Definition nbrs_ok_at (fuel : nat) : Prop :=
  forall t O x ws r out, TInv t (x :: O) out -> (forall w, In w ws -> In w (vnodes v)) ->
    length ws + pot (tvis t (x :: O) out) < fuel ->
    exists t' r' out', tj_neighbors fuel v debug t x ws r out = Ok (t', r', out') /\
      TInv t' (x :: O) out' /\
      (forall n, In n O -> nth_error (tnodes t') n = nth_error (tnodes t) n) /\
      pot (tvis t' (x :: O) out') <= pot (tvis t (x :: O) out) /\
      (forall n, In n (tvis t (x :: O) out) -> In n (tvis t' (x :: O) out')) /\
      (nth_error (tnodes t) x = Some (Some 1%N) -> nth_error (tnodes t') x = Some (Some 1%N) /\ r' = r).

Lemma nbrs_step f : visit_ok_at f -> nbrs_ok_at f -> nbrs_ok_at (S f).
Proof.
  intros HV HN t O x ws r out I Hws Hf. destruct ws as [|w rest].
  - exists t, r, out. split; [reflexivity|]. split; [exact I|]. split; [auto|]. split; [lia|].
    split; [auto|]. intros H; split; [exact H | reflexivity].
  - rewrite tj_neighbors_eq. cbn [length] in Hf.
    assert (Nw : In w (vnodes v)) by (apply Hws; left; reflexivity).
    assert (Hrest : forall w', In w' rest -> In w' (vnodes v)) by (intros w' Hw'; apply Hws; right; exact Hw').
    assert (Hwl : w < length (tnodes t)) by (rewrite (t_len _ _ _ I); apply Hbound; exact Nw).
    destruct (nth_error_lt_Some (tnodes t) Hwl) as [rw Erw].
    rewrite (tj_get_ok t w rw Erw). cbn [rbind].
    (* the state after w has been dealt with *)
    assert (Hmid : exists t1 out1,
              (match rw with None => tj_visit f v debug t w out | Some _ => Ok (t, out) end) = Ok (t1, out1) /\
              TInv t1 (x :: O) out1 /\ In w (tvis t1 (x :: O) out1) /\
              (forall n, In n (x :: O) -> nth_error (tnodes t1) n = nth_error (tnodes t) n) /\
              pot (tvis t1 (x :: O) out1) <= pot (tvis t (x :: O) out) /\
              (forall n, In n (tvis t (x :: O) out) -> In n (tvis t1 (x :: O) out1))).
    { destruct rw as [k|].
      - exists t, out. split; [reflexivity|]. split; [exact I|]. split; [|split; [auto|split; [lia|auto]]].
        destruct (in_dec Nat.eq_dec w (tvis t (x :: O) out)) as [Hin|Hout]; [exact Hin|]. exfalso.
        apply (t_vis _ _ _ I w (Hbound w Nw)) in Hout. congruence.
      - destruct (HV t (x :: O) w out I Nw Erw) as [t1 [out1 [E [I1 [Hin [Hfr [Hp [Hm _]]]]]]]]; [lia|].
        exists t1, out1. split; [exact E|]. split; [exact I1|]. split; [exact Hin|]. split; [exact Hfr|].
        split; [exact Hp | exact Hm]. }
    destruct Hmid as [t1 [out1 [E1 [I1 [Hw1 [Hfr1 [Hp1 Hm1]]]]]]]. rewrite E1. cbn [rbind].
    destruct (tinv_entry t1 (x :: O) out1 w I1 Hw1) as [k1 [Ek1 Hk1]].
    assert (Hx1 : In x (tvis t1 (x :: O) out1)).
    { unfold tvis. apply in_or_app; right. left; reflexivity. }
    destruct (tinv_entry t1 (x :: O) out1 x I1 Hx1) as [kx [Ekx Hkx]].
    rewrite (tj_get_ok t1 w _ Ek1). cbn [rbind]. rewrite (tj_get_ok t1 x _ Ekx). cbn [rbind].
    assert (Hxl : x < length (tnodes t1)).
    { rewrite (t_len _ _ _ I1). apply Hbound. apply (t_in _ _ _ I1 x Hx1). }
    destruct (opt_lt (Some k1) (Some kx)) eqn:Elt.
    + rewrite (tj_set_ok t1 x (Some k1) Hxl). cbn [rbind].
      set (t2 := mkTj (tindex t1) (tcc t1) (upd (tnodes t1) x (Some k1)) (tstack t1)).
      assert (I2 : TInv t2 (x :: O) out1).
      { constructor; cbn [t2 tnodes tstack tindex tcc tvis].
        - rewrite upd_length. apply (t_len _ _ _ I1).
        - intros n Hb. rewrite (nth_error_upd_at (tnodes t1) x (Some k1) n Hxl).
          destruct (Nat.eqb_spec x n) as [<-|Hne].
          + split; [intros H; discriminate H | intros H; exfalso; apply H; exact Hx1].
          + apply (t_vis _ _ _ I1 n Hb).
        - apply (t_nd _ _ _ I1).
        - apply (t_in _ _ _ I1).
        - intros n k. rewrite (nth_error_upd_at (tnodes t1) x (Some k1) n Hxl).
          destruct (Nat.eqb x n); [intros H; injection H as <-; exact Hk1 | apply (t_pos _ _ _ I1)].
        - apply (t_idx _ _ _ I1).
        - apply (t_cc _ _ _ I1).
        - apply (t_ne _ _ _ I1). }
      destruct (HN t2 O x rest false out1 I2 Hrest) as [t' [r' [out' [E' [I' [Hfr' [Hp' [Hm' _]]]]]]]].
      { change (tvis t2 (x :: O) out1) with (tvis t1 (x :: O) out1). lia. }
      exists t', r', out'. split; [exact E'|]. split; [exact I'|]. split; [|split; [|split]].
      * intros n Hn. rewrite (Hfr' n Hn). cbn [t2 tnodes].
        rewrite (nth_error_upd_at (tnodes t1) x (Some k1) n Hxl).
        destruct (Nat.eqb_spec x n) as [<-|Hne]; [|apply Hfr1; right; exact Hn].
        exfalso. pose proof (t_nd _ _ _ I1) as Hnd. unfold tvis in Hnd.
        apply NoDup_remove_2 in Hnd. apply Hnd. apply in_or_app; right. apply in_or_app; left; exact Hn.
      * change (tvis t2 (x :: O) out1) with (tvis t1 (x :: O) out1) in Hp'. lia.
      * intros n Hn. apply Hm'. change (tvis t2 (x :: O) out1) with (tvis t1 (x :: O) out1). apply Hm1; exact Hn.
      * intros H1. exfalso. rewrite <- (Hfr1 x (or_introl eq_refl)) in H1. rewrite Ekx in H1.
        injection H1 as ->. cbn [opt_lt] in Elt. apply N.ltb_lt in Elt. lia.
    + destruct (HN t1 O x rest r out1 I1 Hrest) as [t' [r' [out' [E' [I' [Hfr' [Hp' [Hm' H1']]]]]]]]; [lia|].
      exists t', r', out'. split; [exact E'|]. split; [exact I'|]. split; [|split; [|split]].
      * intros n Hn. rewrite (Hfr' n Hn). apply Hfr1; right; exact Hn.
      * lia.
      * intros n Hn. apply Hm', Hm1, Hn.
      * intros H1. apply H1'. rewrite (Hfr1 x (or_introl eq_refl)). exact H1.
Qed.

Lemma visit_step f : nbrs_ok_at f -> visit_ok_at (S f).
Proof.
  intros HN t O x out I Nx Ex Hf. rewrite tj_visit_eq.
  rewrite (tj_get_ok t x None Ex). cbn [rbind]. rewrite andb_false_r.
  assert (Hxb : x < vbound v) by (apply Hbound; exact Nx).
  assert (Hxl : x < length (tnodes t)) by (rewrite (t_len _ _ _ I); exact Hxb).
  assert (Hxv : ~ In x (tvis t O out)) by (apply (t_vis _ _ _ I x Hxb); exact Ex).
  rewrite (tj_set_ok t x (Some (tindex t)) Hxl). cbn [rbind tcc tnodes tstack].
  set (t1 := mkTj (N.succ (tindex t)) (tcc t) (upd (tnodes t) x (Some (tindex t))) (tstack t)).
  assert (Hset1 : forall n, In n (tvis t1 (x :: O) out) <-> n = x \/ In n (tvis t O out)).
  { intros n. unfold tvis. cbn [t1 tstack]. rewrite !in_app_iff. cbn [In]. split.
    - intros [H|[[H|H]|H]]; [right; left; exact H | left; symmetry; exact H | right; right; left; exact H
                            | right; right; right; exact H].
    - intros [H|[H|[H|H]]]; [right; left; left; symmetry; exact H | left; exact H | right; left; right; exact H
                            | right; right; exact H]. }
  assert (I1 : TInv t1 (x :: O) out).
  { constructor; cbn [t1 tnodes tstack tindex tcc].
    - rewrite upd_length. apply (t_len _ _ _ I).
    - intros n Hb. fold t1. rewrite (Hset1 n). rewrite (nth_error_upd_at (tnodes t) x _ n Hxl).
      destruct (Nat.eqb_spec x n) as [<-|Hne].
      + split; [intros H; discriminate H | intros H; exfalso; apply H; left; reflexivity].
      + rewrite (t_vis _ _ _ I n Hb). split; [intros H [H2|H2]; [apply Hne; symmetry; exact H2 | exact (H H2)] | intros H H2; apply H; right; exact H2].
    - fold t1. apply (@NoDup_incl_NoDup _ (x :: tvis t O out)).
      + constructor; [exact Hxv | apply (t_nd _ _ _ I)].
      + unfold tvis. cbn [t1 tstack length]. rewrite ?app_length. cbn [length]. rewrite ?app_length. lia.
      + intros n [<-|Hn]; apply Hset1; [left; reflexivity | right; exact Hn].
    - fold t1. intros n Hn. apply Hset1 in Hn. destruct Hn as [->|Hn]; [exact Nx | apply (t_in _ _ _ I n Hn)].
    - intros n k. rewrite (nth_error_upd_at (tnodes t) x _ n Hxl).
      destruct (Nat.eqb x n); [|apply (t_pos _ _ _ I)].
      intros H; injection H as <-. rewrite (t_idx _ _ _ I). lia.
    - rewrite (t_idx _ _ _ I). cbn [length]. lia.
    - apply (t_cc _ _ _ I).
    - apply (t_ne _ _ _ I). }
  assert (Hpot1 : pot (tvis t1 (x :: O) out) + S (outdeg v x) <= pot (tvis t O out)).
  { unfold pot. rewrite (usum_ext _ (tvis t1 (x :: O) out) (x :: tvis t O out)).
    - apply (usum_mark_in (fun n => S (outdeg v n)) (tvis t O out) x (vnodes v) Nx).
      apply mem_false; exact Hxv.
    - intros n. rewrite Hset1. cbn [In]. split; [intros [->|H]; auto | intros [<-|H]; auto]. }
  assert (Hnb : forall w, In w (neighbors v x) -> In w (vnodes v)).
  { intros w Hw. destruct Hv as [_ [Hn _]]. apply (Hn x w Hw). }
  destruct (HN t1 O x (neighbors v x) true out I1 Hnb) as [t2 [r2 [out2 [E2 [I2 [Hfr2 [Hp2 [Hm2 H12]]]]]]]].
  { unfold outdeg in Hpot1. lia. }
  fold t1. rewrite E2. cbn [rbind].
  assert (Hx2 : In x (tvis t2 (x :: O) out2)) by (apply Hm2, Hset1; left; reflexivity).
  assert (Hxl2 : x < length (tnodes t2)) by (rewrite (t_len _ _ _ I2); exact Hxb).
  assert (HxO : ~ In x O).
  { intros H. apply Hxv. unfold tvis. apply in_or_app; right. apply in_or_app; left; exact H. }
  assert (Hfr1 : forall n, In n O -> nth_error (tnodes t1) n = nth_error (tnodes t) n).
  { intros n Hn. cbn [t1 tnodes]. rewrite (nth_error_upd_at (tnodes t) x _ n Hxl).
    destruct (Nat.eqb_spec x n) as [<-|Hne]; [contradiction | reflexivity]. }
  destruct r2.
  - (* x is the root of a component *)
    destruct (tinv_entry t2 (x :: O) out2 x I2 Hx2) as [kx [Ekx Hkx]].
    rewrite (tj_get_ok t2 x _ Ekx). cbn [rbind].
    assert (Hstk : forall w, In w (tstack t2) -> w < length (tnodes t2)).
    { intros w Hw. rewrite (t_len _ _ _ I2). apply Hbound. apply (t_in _ _ _ I2).
      unfold tvis. apply in_or_app; left; exact Hw. }
    destruct (pop_spec (tstack t2) t2 (Some kx) (Some (tcc t2)) 1%N [] Hstk)
      as [popped [rest [t3 [Est [E3 [Hi3 [Hc3 [Hl3 [Hn3 Hall3]]]]]]]]].
    rewrite E3. cbn [rbind].
    assert (Hxl3 : x < length (tnodes t3)) by (rewrite Hl3; exact Hxl2).
    rewrite (tj_set_ok t3 x (Some (tcc t2)) Hxl3). cbn [rbind tindex tcc tnodes].
    set (t' := mkTj (tindex t3 - (1 + N.of_nat (length popped)))%N (tcc t3 - 1)%N
                    (upd (tnodes t3) x (Some (tcc t2))) rest).
    set (out' := out2 ++ [(rev popped ++ []) ++ [x]]).
    assert (Hcat : concat out' = concat out2 ++ rev popped ++ [x]).
    { unfold out'. rewrite concat_app. cbn [concat]. rewrite !app_nil_r. reflexivity. }
    assert (Hset' : forall n, In n (tvis t' O out') <-> In n (tvis t2 (x :: O) out2)).
    { intros n. unfold tvis. cbn [t' tstack]. rewrite Hcat, Est. rewrite !in_app_iff. cbn [In].
      rewrite <- in_rev. tauto. }
    assert (Hlen' : length (tvis t' O out') = length (tvis t2 (x :: O) out2)).
    { unfold tvis. cbn [t' tstack]. rewrite Hcat, Est. rewrite !app_length. cbn [length].
      rewrite rev_length. lia. }
    destruct (tinv_out_small t2 (x :: O) out2 I2) as [Ho1 Ho2].
    assert (Hcc : (1 <= tcc t2)%N) by (rewrite (t_cc _ _ _ I2); lia).
    assert (Hpop_in : forall n, In n popped -> In n (tstack t2)).
    { intros n Hn. rewrite Est. apply in_or_app; left; exact Hn. }
    assert (I' : TInv t' O out').
    { constructor.
      - cbn [t' tnodes]. rewrite upd_length, Hl3. apply (t_len _ _ _ I2).
      - intros n Hb. rewrite Hset'. cbn [t' tnodes]. rewrite (nth_error_upd_at (tnodes t3) x _ n Hxl3).
        destruct (Nat.eqb_spec x n) as [<-|Hne].
        + split; [intros H; discriminate H | intros H; exfalso; exact (H Hx2)].
        + rewrite Hn3. destruct (mem n popped) eqn:Em.
          * split; [intros H; discriminate H|]. intros H. exfalso. apply H.
            unfold tvis. apply in_or_app; left. apply Hpop_in. apply mem_In; exact Em.
          * apply (t_vis _ _ _ I2 n Hb).
      - apply (NoDup_incl_NoDup (t_nd _ _ _ I2)); [lia|]. intros n Hn. apply Hset'; exact Hn.
      - intros n Hn. apply (t_in _ _ _ I2). apply Hset'; exact Hn.
      - intros n k. cbn [t' tnodes]. rewrite (nth_error_upd_at (tnodes t3) x _ n Hxl3).
        destruct (Nat.eqb x n); [intros H; injection H as <-; exact Hcc|].
        rewrite Hn3. destruct (mem n popped); [intros H; injection H as <-; exact Hcc | apply (t_pos _ _ _ I2)].
      - cbn [t' tindex tstack]. rewrite Hi3, (t_idx _ _ _ I2), Est, app_length. cbn [length]. lia.
      - cbn [t' tcc]. rewrite Hc3, (t_cc _ _ _ I2). unfold out'. rewrite app_length. cbn [length]. lia.
      - unfold out'. apply Forall_app. split; [apply (t_ne _ _ _ I2)|]. constructor; [|constructor].
        intros H. apply app_eq_nil in H. destruct H as [_ H]. discriminate H. }
    replace (1 + N.of_nat (length popped))%N with (1 + N.of_nat (length popped))%N by reflexivity.
    exists t', out'. split; [reflexivity|]. split; [exact I'|]. split; [apply Hset'; exact Hx2|].
    split; [|split; [|split]].
    + intros n Hn. cbn [t' tnodes]. rewrite (nth_error_upd_at (tnodes t3) x _ n Hxl3).
      destruct (Nat.eqb_spec x n) as [<-|Hne]; [contradiction|].
      rewrite Hn3. destruct (mem n popped) eqn:Em.
      * exfalso. apply mem_In in Em. apply Hpop_in in Em.
        pose proof (t_nd _ _ _ I2) as Hnd. unfold tvis in Hnd.
        apply (nodup_app_disj (tstack t2) ((x :: O) ++ concat out2) n Hnd Em).
        apply in_or_app; left; right; exact Hn.
      * rewrite (Hfr2 n Hn). apply Hfr1; exact Hn.
    + unfold pot. rewrite (usum_ext _ (tvis t' O out') (tvis t2 (x :: O) out2) (vnodes v) Hset').
      unfold pot in Hp2, Hpot1. lia.
    + intros n Hn. apply Hset', Hm2, Hset1. right; exact Hn.
    + intros HO Hs. cbn [t' tstack]. subst O.
      assert (Hidx : tindex t = 1%N) by (rewrite (t_idx _ _ _ I), Hs; reflexivity).
      assert (E1x : nth_error (tnodes t1) x = Some (Some 1%N)).
      { cbn [t1 tnodes]. rewrite (nth_error_upd_at (tnodes t) x _ x Hxl), Nat.eqb_refl, Hidx. reflexivity. }
      destruct (H12 E1x) as [E2x _]. rewrite Ekx in E2x. injection E2x as ->.
      apply Hall3.
      * apply (nodup_app_l _ _ (t_nd _ _ _ I2)).
      * intros w rw Hw Erw.
        assert (Hwv : In w (tvis t2 [x] out2)) by (unfold tvis; apply in_or_app; left; exact Hw).
        destruct (tinv_entry t2 [x] out2 w I2 Hwv) as [k [Ek Hk]]. rewrite Erw in Ek. injection Ek as ->.
        cbn [opt_lt]. apply N.ltb_ge. exact Hk.
  - (* x stays on the stack *)
    set (t' := mkTj (tindex t2) (tcc t2) (tnodes t2) (x :: tstack t2)).
    assert (Hset' : forall n, In n (tvis t' O out2) <-> In n (tvis t2 (x :: O) out2)).
    { intros n. unfold tvis. cbn [t' tstack]. cbn [app In]. rewrite ?in_app_iff. cbn [In]. rewrite ?in_app_iff. tauto. }
    assert (I' : TInv t' O out2).
    { apply (tinv_reshape t2 (x :: O) out2 t' O out2 I2); [reflexivity | exact Hset' | | | apply (t_cc _ _ _ I2) | apply (t_ne _ _ _ I2)].
      - unfold tvis. cbn [t' tstack]. rewrite ?app_length. cbn [length]. rewrite ?app_length. cbn [length]. lia.
      - cbn [t' tindex tstack]. rewrite (t_idx _ _ _ I2). cbn [length]. lia. }
    exists t', out2. split; [reflexivity|]. split; [exact I'|]. split; [apply Hset'; exact Hx2|].
    split; [|split; [|split]].
    + intros n Hn. cbn [t' tnodes]. rewrite (Hfr2 n Hn). apply Hfr1; exact Hn.
    + unfold pot. rewrite (usum_ext _ (tvis t' O out2) (tvis t2 (x :: O) out2) (vnodes v) Hset').
      unfold pot in Hp2, Hpot1. lia.
    + intros n Hn. apply Hset', Hm2, Hset1. right; exact Hn.
    + intros HO Hs. exfalso. subst O.
      assert (Hidx : tindex t = 1%N) by (rewrite (t_idx _ _ _ I), Hs; reflexivity).
      assert (E1x : nth_error (tnodes t1) x = Some (Some 1%N)).
      { cbn [t1 tnodes]. rewrite (nth_error_upd_at (tnodes t) x _ x Hxl), Nat.eqb_refl, Hidx. reflexivity. }
      destruct (H12 E1x) as [_ Hr]. discriminate Hr.
Qed.

Lemma tarjan_both : forall fuel, visit_ok_at fuel /\ nbrs_ok_at fuel.
Proof.
  induction fuel as [|f [IHv IHn]].
  - split.
    + intros t O x out I Nx Ex Hf. lia.
    + intros t O x ws r out I Hws Hf. lia.
  - split; [apply visit_step; exact IHn | apply nbrs_step; assumption].
Qed.

(* ------------------------------------------------------------------ *)
(* The outer loop and the result                                       *)

Lemma usum_succ (f : nat -> nat) : forall l, usum (fun n => S (f n)) [] l = length l + usum f [] l.
Proof. induction l as [|a l IH]; cbn [usum mem length]; [reflexivity | rewrite IH; lia]. Qed.

Lemma pot_bound m : pot m < trav_fuel v.
Proof.
  unfold pot. pose proof (usum_nil_le (fun n => S (outdeg v n)) m (vnodes v)) as H.
  rewrite (usum_succ (outdeg v)), usum_outdeg_all in H.
  unfold trav_fuel, vnode_count. lia.
Qed.

Lemma tj_run_loop_ok : forall ids t out,
  TInv t [] out -> tstack t = [] -> (forall n, In n ids -> In n (vnodes v)) ->
  exists t' out', tj_run_loop v debug ids t out = Ok (t', out') /\ TInv t' [] out' /\ tstack t' = [] /\
    (forall n, In n ids \/ In n (concat out) -> In n (concat out')).
Proof.
  induction ids as [|n rest IH]; intros t out I Hs Hids; cbn [tj_run_loop].
  - exists t, out. split; [reflexivity|]. split; [exact I|]. split; [exact Hs|]. intros n [[]|H]; exact H.
  - assert (Nn : In n (vnodes v)) by (apply Hids; left; reflexivity).
    assert (Hrest : forall m, In m rest -> In m (vnodes v)) by (intros m Hm; apply Hids; right; exact Hm).
    assert (Hnl : n < length (tnodes t)) by (rewrite (t_len _ _ _ I); apply Hbound; exact Nn).
    destruct (nth_error_lt_Some (tnodes t) Hnl) as [r Er]. rewrite (tj_get_ok t n r Er). cbn [rbind].
    assert (Hvis : forall t0 out0, tstack t0 = [] -> forall m, In m (tvis t0 [] out0) <-> In m (concat out0)).
    { intros t0 out0 H0 m. unfold tvis. rewrite H0. cbn [app]. reflexivity. }
    destruct r as [k|].
    + destruct (IH t out I Hs Hrest) as [t' [out' [E [I' [Hs' Hm']]]]].
      exists t', out'. split; [exact E|]. split; [exact I'|]. split; [exact Hs'|].
      intros m [[<-|Hm]|Hm]; apply Hm'; [right | left; exact Hm | right; exact Hm].
      apply (Hvis t out Hs).
      destruct (in_dec Nat.eq_dec n (tvis t [] out)) as [Hin|Hout]; [exact Hin|]. exfalso.
      apply (t_vis _ _ _ I n (Hbound n Nn)) in Hout. congruence.
    + destruct (proj1 (tarjan_both (4 * trav_fuel v)) t [] n out I Nn Er) as [t1 [out1 [E1 [I1 [Hin1 [_ [_ [Hm1 Hs1]]]]]]]].
      { pose proof (pot_bound (tvis t [] out)). lia. }
      rewrite E1. cbn [rbind]. specialize (Hs1 eq_refl Hs).
      destruct (IH t1 out1 I1 Hs1 Hrest) as [t' [out' [E [I' [Hs' Hm']]]]].
      exists t', out'. split; [exact E|]. split; [exact I'|]. split; [exact Hs'|].
      intros m [[<-|Hm]|Hm]; apply Hm'; [right | left; exact Hm | right].
      * apply (Hvis t1 out1 Hs1). exact Hin1.
      * apply (Hvis t1 out1 Hs1), Hm1, (Hvis t out Hs). exact Hm.
Qed.

Lemma tinv_init : TInv (mkTj 1%N USIZE_MAX (repeat None (vbound v)) []) [] [].
Proof.
  constructor; cbn [tnodes tstack tindex tcc tvis app concat length].
  - apply repeat_length.
  - intros n Hb. split; [intros _ [] | intros _; apply nth_error_repeat; exact Hb].
  - constructor.
  - intros n [].
  - intros n k H. apply nth_error_In in H. apply repeat_spec in H. discriminate H.
  - reflexivity.
  - rewrite N.sub_0_r. reflexivity.
  - constructor.
Qed.

Theorem tarjan_partition :
  exists ls, tarjan_scc v debug = Ok ls /\ NoDup (concat ls) /\
             (forall x, In x (concat ls) <-> In x (vnodes v)) /\ Forall (fun c => c <> []) ls.
Proof.
  unfold tarjan_scc, tarjan_run.
  destruct (tj_run_loop_ok (vnodes v) _ [] tinv_init eq_refl (fun n H => H)) as [t [out [E [I [Hs Hm]]]]].
  rewrite E. cbn [rbind]. rewrite Hs, andb_false_r. cbn [rmap snd].
  exists out. split; [reflexivity|].
  pose proof (t_nd _ _ _ I) as Hnd. unfold tvis in Hnd. rewrite Hs in Hnd. cbn [app] in Hnd.
  split; [exact Hnd|]. split; [|apply (t_ne _ _ _ I)].
  intros x. split.
  - intros Hx. apply (t_in _ _ _ I). unfold tvis. rewrite Hs. exact Hx.
  - intros Hx. apply Hm. left; exact Hx.
Qed.

End Tarjan.
