(* C20b: the concrete views of the examples, and that they satisfy the hypotheses. *)
From Coq Require Import QArith Permutation Lia List.
From PG Require Import Lib.Io Model.View Model.PageRankM Spec.ViewIso Spec.PageRankSpec
                       Proofs.IsoP Proofs.PageRankP Proofs.PageRankIsoP.
Import ListNotations.
Local Open Scope nat_scope.

(* 0 -> 1 -> 2 -> 0 *)
Definition ex_cycle3 : view :=
  mkView true 3 (Some 3) [0;1;2]
    [(0, [(0,1,1%Z)]); (1, [(1,2,1%Z)]); (2, [(2,0,1%Z)])]
    [(0, [(2,2,1%Z)]); (1, [(0,0,1%Z)]); (2, [(1,1,1%Z)])] 3 3
    [(0,0,1,1%Z); (1,1,2,1%Z); (2,2,0,1%Z)].

(* 0 -> 1 -> 2 *)
Definition ex_path3 : view :=
  mkView true 3 (Some 3) [0;1;2]
    [(0, [(0,1,1%Z)]); (1, [(1,2,1%Z)]); (2, [])]
    [(0, []); (1, [(0,0,1%Z)]); (2, [(1,1,1%Z)])] 2 2
    [(0,0,1,1%Z); (1,1,2,1%Z)].

(* the same path stored as 2 -> 0 -> 1, other edge ids, other node order *)
Definition ex_tw (x : nat) : nat := match x with 0 => 2 | 1 => 0 | 2 => 1 | _ => x end.
Definition ex_path3' : view :=
  mkView true 3 (Some 3) [1;0;2]
    [(0, [(5,1,1%Z)]); (2, [(4,0,1%Z)]); (1, [])]
    [(0, [(4,2,1%Z)]); (1, [(5,0,1%Z)]); (2, [])] 2 6
    [(5,0,1,1%Z); (4,2,0,1%Z)].

(* the rotation of the cycle *)
Definition ex_rot (x : nat) : nat := match x with 0 => 1 | 1 => 2 | 2 => 0 | _ => x end.

(* two nodes, no edge *)
Definition ex_two0 : view := mkView true 2 (Some 2) [0;1] [] [] 0 0 [].

(* one node with an out-entry whose target is not a node (not a view of a petgraph graph) *)
Definition ex_dangling : view := mkView true 1 (Some 1) [0] [(0, [(0,5,1%Z)])] [] 1 1 [].

(* 0 -> 1 <-> 2: nothing points at 0 and no node has out-degree 0 *)
Definition ex_src3 : view :=
  mkView true 3 (Some 3) [0;1;2]
    [(0, [(0,1,1%Z)]); (1, [(1,2,1%Z)]); (2, [(2,1,1%Z)])]
    [(0, []); (1, [(0,0,1%Z); (2,2,1%Z)]); (2, [(1,1,1%Z)])] 3 3
    [(0,0,1,1%Z); (1,1,2,1%Z); (2,2,1,1%Z)].

Ltac pr_view_tac :=
  split; [|split];
  [ intros x; cbn; lia
  | reflexivity
  | cbn; repeat constructor; cbn; lia ].

Lemma ex_cycle3_pr_view : pr_view ex_cycle3.
Proof. pr_view_tac. Qed.
Lemma ex_path3_pr_view : pr_view ex_path3.
Proof. pr_view_tac. Qed.
Lemma ex_path3'_pr_view : pr_view ex_path3'.
Proof. pr_view_tac. Qed.
Lemma ex_two0_pr_view : pr_view ex_two0.
Proof. pr_view_tac. Qed.
Lemma ex_dangling_pr_view : pr_view ex_dangling.
Proof. pr_view_tac. Qed.
Lemma ex_src3_pr_view : pr_view ex_src3.
Proof. pr_view_tac. Qed.

Lemma ex_twin_iso : view_iso ex_tw ex_path3 ex_path3'.
Proof. apply view_iso_b_ok. vm_compute. reflexivity. Qed.

Lemma ex_rot_auto : view_iso ex_rot ex_cycle3 ex_cycle3.
Proof. apply view_iso_b_ok. vm_compute. reflexivity. Qed.

Definition targets_in_b (v : view) (n : nat) : bool :=
  forallb (fun w => forallb (fun e => Nat.ltb (tgt e) n) (out_edges v w)) (seq 0 n).

Lemma targets_in_b_ok v n : targets_in_b v n = true -> targets_in v n.
Proof.
  unfold targets_in_b. rewrite forallb_forall. intros H w e Hw He.
  assert (Hs : In w (seq 0 n)) by (apply in_seq; lia).
  specialize (H w Hs). rewrite forallb_forall in H. apply Nat.ltb_lt. apply (H e He).
Qed.

Ltac targets_tac := apply targets_in_b_ok; vm_compute; reflexivity.

Lemma ex_cycle3_targets : targets_in ex_cycle3 (vnode_count ex_cycle3).
Proof. targets_tac. Qed.
Lemma ex_path3_targets : targets_in ex_path3 (vnode_count ex_path3).
Proof. targets_tac. Qed.
Lemma ex_src3_targets : targets_in ex_src3 (vnode_count ex_src3).
Proof. targets_tac. Qed.
Lemma ex_two0_targets : targets_in ex_two0 (vnode_count ex_two0).
Proof. targets_tac. Qed.
Lemma ex_dangling_not_targets : ~ targets_in ex_dangling (vnode_count ex_dangling).
Proof.
  intros H. specialize (H 0 (0, 5, 1%Z)). vm_compute in H.
  assert (6 <= 1) by (apply H; [lia|left; reflexivity]). lia.
Qed.
