(* steiner_tree checker (C20), part 1: tree_check decides "forest with |V| - 1 edges, indices in range",
   which on a node set holding the endpoints is "tree"; steiner_check decides the five clauses St1..St5. *)
From Coq Require Import Lia ZArith Bool.
From PG Require Import Lib.Io Model.View Model.UnionFindM Model.MstM Model.MiscM
  Spec.Partition Spec.Forest Spec.Reach Spec.MiscSpec
  Proofs.UnionFindP Proofs.UnionFindH Proofs.AlgoUfP Proofs.ForestP.

(* ------------------------------------------------------------------ *)
(* acyclic_from depends on prev only through its connectivity          *)

Lemma conn_cons_equiv p p' e :
  (forall a b, conn p a b <-> conn p' a b) -> forall a b, conn (e :: p) a b <-> conn (e :: p') a b.
Proof.
  intros He a b. split; apply AlgoUfP.conn_sub; intros x y [E|Hin].
  - subst e. apply c_base; left; reflexivity.
  - apply conn_weaken, He, c_base, Hin.
  - subst e. apply c_base; left; reflexivity.
  - apply conn_weaken, He, c_base, Hin.
Qed.

Lemma acyclic_from_equiv : forall es p p',
  (forall a b, conn p a b <-> conn p' a b) -> acyclic_from p es -> acyclic_from p' es.
Proof.
  induction es as [|[x y] t IH]; intros p p' He Hac; cbn [acyclic_from] in *; [exact I|].
  destruct Hac as [Hn Hac]. split.
  - intros C. apply Hn. apply He. exact C.
  - apply (IH ((x, y) :: p)); [apply conn_cons_equiv; exact He | exact Hac].
Qed.

(* ------------------------------------------------------------------ *)
(* the fold of tree_check                                              *)

Definition tc_step : bool * uf -> nat * nat * Z -> bool * uf :=
  fun '(ok, u) '(a, b, _) =>
    match union u a b with
    | (Ok true, u') => (ok, u')
    | (_, u') => (false, u')
    end.

Lemma tc_fold_false : forall es u, fst (fold_left tc_step es (false, u)) = false.
Proof.
  induction es as [|[[a b] w] t IH]; intros u; cbn [fold_left]; [reflexivity|].
  cbn [tc_step]. destruct (union u a b) as [[[|]| |] u']; apply IH.
Qed.

(* union outside the range, on two different indices, panics *)
Lemma union_out u n prs x y : Abs u (n, prs) -> x <> y -> ~ (x < n /\ y < n) ->
  exists u', union u x y = (Panic, u').
Proof.
  intros A Hxy Hr. pose proof A as [I [L _]]. cbn [fst] in L.
  destruct (try_union_spec x y I) as [r [u' [E P]]].
  unfold union. rewrite E.
  destruct P as [u' Hxy' Hu | u' Hxy' Hbx Hu | u' Hxy' Hbx Hby I' L' RP | u' Hxy' Hbx Hby S I' L' RP
                | u' rx ry Hxy' Hbx Hby Hrx Hry Hne I' L' K].
  - exfalso. apply Hxy. exact Hxy'.
  - exists u'. reflexivity.
  - exists u'. reflexivity.
  - exfalso. apply Hr. lia.
  - exfalso. apply Hr. lia.
Qed.

Lemma union_out' u n prs x y : Abs u (n, prs) -> ~ (x < n /\ y < n) ->
  exists r u', union u x y = (r, u') /\ r <> Ok true.
Proof.
  intros A Hr. destruct (Nat.eq_dec x y) as [->|Hne].
  - exists (Ok false), u. split; [|discriminate]. unfold union, try_union. rewrite Nat.eqb_refl. reflexivity.
  - destruct (@union_out u n prs x y A Hne Hr) as [u' E]. exists Panic, u'. split; [exact E | discriminate].
Qed.

Definition in_range3 (n : nat) (es : list (nat * nat * Z)) : Prop :=
  forall a b w, In (a, b, w) es -> a < n /\ b < n.

Lemma tc_fold_spec n : forall es u prs, Abs u (n, prs) ->
  (fst (fold_left tc_step es (true, u)) = true <-> in_range3 n es /\ acyclic_from prs (ends es)).
Proof.
  induction es as [|[[x y] w] t IH]; intros u prs A.
  - cbn [fold_left fst ends map acyclic_from]. split; [|reflexivity].
    intros _. split; [intros a b w [] | exact I].
  - cbn [fold_left]. cbn [tc_step].
    change (ends ((x, y, w) :: t)) with ((x, y) :: ends t). cbn [acyclic_from].
    destruct (Nat.lt_ge_cases x n) as [Hx|Hx]; [destruct (Nat.lt_ge_cases y n) as [Hy|Hy]|].
    + destruct (union_step A Hx Hy) as [b0 [u1 [E [A1 Hb]]]]. rewrite E.
      destruct b0.
      * assert (Hn : ~ conn prs x y) by (intros C; apply Hb in C; discriminate C).
        assert (Hne : Nat.eqb x y = false).
        { apply Nat.eqb_neq. intros ->. apply Hn, c_refl. }
        rewrite Hne in A1. rewrite (IH u1 _ A1). split.
        -- intros [Hr Hac]. split; [|split; [exact Hn | exact Hac]].
           intros a b w' [Ein|Hin]; [injection Ein as <- <- <-; split; assumption | apply (Hr a b w'), Hin].
        -- intros [Hr [_ Hac]]. split; [|exact Hac].
           intros a b w' Hin. apply (Hr a b w'). right; exact Hin.
      * rewrite tc_fold_false. split; [discriminate|].
        intros [_ [Hn _]]. exfalso. apply Hn. apply Hb. reflexivity.
    + destruct (@union_out' u n prs x y A) as [r [u' [E Hr']]]; [lia|]. rewrite E.
      assert (G : fst (fold_left tc_step t match r with Ok true => (true, u') | _ => (false, u') end) = false).
      { destruct r as [[|]| |]; [exfalso; apply Hr'; reflexivity| | |]; apply tc_fold_false. }
      rewrite G. split; [discriminate|].
      intros [Hr _]. exfalso.
      destruct (Hr x y w (or_introl eq_refl)) as [_ Hy']. lia.
    + destruct (@union_out' u n prs x y A) as [r [u' [E Hr']]]; [lia|]. rewrite E.
      assert (G : fst (fold_left tc_step t match r with Ok true => (true, u') | _ => (false, u') end) = false).
      { destruct r as [[|]| |]; [exfalso; apply Hr'; reflexivity| | |]; apply tc_fold_false. }
      rewrite G. split; [discriminate|].
      intros [Hr _]. exfalso.
      destruct (Hr x y w (or_introl eq_refl)) as [Hx' _]. lia.
Qed.

Lemma tree_check_fold nodes es bound :
  tree_check nodes es bound =
  match nodes with
  | [] => match es with [] => true | _ => false end
  | _ => andb (Nat.eqb (S (length es)) (length nodes)) (fst (fold_left tc_step es (true, uf_new bound)))
  end.
Proof.
  unfold tree_check. destruct nodes as [|n0 nodes]; [reflexivity|].
  reflexivity.
Qed.

(* A. what tree_check computes *)
Theorem tree_check_iff nodes es bound :
  tree_check nodes es bound = true <->
  ((nodes = [] /\ es = []) \/
   (nodes <> [] /\ S (length es) = length nodes /\
    (forall a b w, In (a, b, w) es -> a < bound /\ b < bound) /\ acyclic_edges (ends es))).
Proof.
  rewrite tree_check_fold. destruct nodes as [|n0 nodes].
  - destruct es as [|e es].
    + split; [intros _; left; split; reflexivity | reflexivity].
    + split; [discriminate|]. intros [[_ E]|[Hne _]]; [discriminate E | exfalso; apply Hne; reflexivity].
  - rewrite andb_true_iff, Nat.eqb_eq, (tc_fold_spec bound es _ _ (abs_new bound)). unfold acyclic_edges, in_range3. split.
    + intros [El [Hr Hac]]. right. split; [discriminate|]. split; [exact El|]. split; [exact Hr | exact Hac].
    + intros [[E _]|[_ [El [Hr Hac]]]]; [discriminate E|]. split; [exact El|]. split; [exact Hr | exact Hac].
Qed.

(* ------------------------------------------------------------------ *)
(* one class <-> connected                                              *)

Lemma ncl_one_conn V prs : ncl V prs = 1 -> forall x y, In x V -> In y V -> conn prs x y.
Proof.
  unfold ncl, distinct. intros H x y Hx Hy.
  destruct (nodup Nat.eq_dec (map (qf prs) V)) as [|c [|d r]] eqn:E; cbn [length] in H; try discriminate H.
  assert (Gx : In (qf prs x) (nodup Nat.eq_dec (map (qf prs) V))) by (apply nodup_In, in_map; exact Hx).
  assert (Gy : In (qf prs y) (nodup Nat.eq_dec (map (qf prs) V))) by (apply nodup_In, in_map; exact Hy).
  rewrite E in Gx, Gy. destruct Gx as [Gx|[]]. destruct Gy as [Gy|[]].
  apply qf_conn. rewrite <- Gx, <- Gy. reflexivity.
Qed.

Lemma conn_ncl_one V prs : V <> [] -> (forall x y, In x V -> In y V -> conn prs x y) -> ncl V prs = 1.
Proof.
  unfold ncl, distinct. intros Hne H.
  destruct V as [|x0 V']; [exfalso; apply Hne; reflexivity|].
  set (V := x0 :: V') in *.
  assert (G : forall c, In c (nodup Nat.eq_dec (map (qf prs) V)) -> c = qf prs x0).
  { intros c Hc. apply nodup_In, in_map_iff in Hc. destruct Hc as [z [<- Hz]].
    apply qf_conn. apply H; [exact Hz | left; reflexivity]. }
  assert (G0 : In (qf prs x0) (nodup Nat.eq_dec (map (qf prs) V))).
  { apply nodup_In, in_map. left; reflexivity. }
  pose proof (NoDup_nodup Nat.eq_dec (map (qf prs) V)) as ND.
  destruct (nodup Nat.eq_dec (map (qf prs) V)) as [|c [|d r]]; [destruct G0 | reflexivity |].
  exfalso. inversion ND as [|c' r' Hc Hr]; subst. apply Hc.
  rewrite (G c (or_introl eq_refl)), (G d (or_intror (or_introl eq_refl))). left; reflexivity.
Qed.

(* a tree on V has |V| - 1 edges; a forest on V with |V| - 1 edges is a tree *)
Lemma IsTree_count V prs : IsTree V prs -> S (length prs) = length V.
Proof.
  intros [Hne [ND [He [Hac Hc]]]].
  pose proof (forest_count V prs ND He Hac) as E.
  rewrite (conn_ncl_one V prs Hne Hc) in E. lia.
Qed.

Lemma forest_count_tree V prs : V <> [] -> NoDup V -> ends_in V prs -> acyclic_edges prs ->
  S (length prs) = length V -> IsTree V prs.
Proof.
  intros Hne ND He Hac El. split; [exact Hne|]. split; [exact ND|]. split; [exact He|]. split; [exact Hac|].
  apply ncl_one_conn. pose proof (forest_count V prs ND He Hac) as E. lia.
Qed.

Lemma ends_length es : length (ends es) = length es.
Proof. apply map_length. Qed.

Lemma ends_In a b es : In (a, b) (ends es) <-> exists w, In (a, b, w) es.
Proof.
  unfold ends. rewrite in_map_iff. split.
  - intros [[[a' b'] w] [E Hin]]. cbn [fst] in E. injection E as -> ->. exists w; exact Hin.
  - intros [w Hin]. exists (a, b, w). split; [reflexivity | exact Hin].
Qed.

(* B. on a node set that holds the endpoints, tree_check decides "tree" *)
Theorem tree_check_tree nodes es bound :
  NoDup nodes -> (forall a b w, In (a, b, w) es -> In a nodes /\ In b nodes) ->
  (forall a, In a nodes -> a < bound) -> nodes <> [] ->
  (tree_check nodes es bound = true <-> IsTree nodes (ends es)).
Proof.
  intros ND He Hb Hne.
  assert (He' : ends_in nodes (ends es)).
  { intros a b Hin. apply ends_In in Hin. destruct Hin as [w Hin]. apply (He a b w), Hin. }
  rewrite tree_check_iff. split.
  - intros [[E _]|[_ [El [_ Hac]]]]; [exfalso; apply Hne, E|].
    apply forest_count_tree; try assumption. rewrite ends_length. exact El.
  - intros HT. right. split; [exact Hne|]. split; [|split].
    + rewrite <- (ends_length es). apply IsTree_count, HT.
    + intros a b w Hin. destruct (He a b w Hin) as [Ha Hb']. split; apply Hb; assumption.
    + destruct HT as [_ [_ [_ [Hac _]]]]. exact Hac.
Qed.

(* ------------------------------------------------------------------ *)
(* the tests of steiner_check, one by one                               *)

Lemma nodupb_iff l : MiscM.nodupb l = true <-> NoDup l.
Proof.
  induction l as [|h t IH]; cbn [MiscM.nodupb].
  - split; [intros _; constructor | reflexivity].
  - rewrite andb_true_iff, negb_true_iff, mem_false, IH. split.
    + intros [Hh Ht]. constructor; assumption.
    + intros H. inversion H as [|h' t' Hh Ht]; subst. split; assumption.
Qed.

Lemma forallb_mem_incl l m : forallb (fun a => mem a m) l = true <-> incl l m.
Proof.
  rewrite forallb_forall. unfold incl. split; intros H a Ha.
  - apply mem_In, H, Ha.
  - apply mem_In, H, Ha.
Qed.

Definition sc_b1 (v : view) (nodes : list nat) (es : list (nat * nat * Z)) : bool :=
  andb (forallb (fun a => mem a (vnodes v)) nodes)
       (forallb (fun '(a, b, w) => existsb (fun '(_, s, t, w') =>
          andb (Z.eqb w w') (orb (andb (Nat.eqb s a) (Nat.eqb t b)) (andb (Nat.eqb s b) (Nat.eqb t a)))) (verefs v)) es).
Definition sc_b2 (v : view) (nodes : list nat) (es : list (nat * nat * Z)) : bool :=
  andb (MiscM.nodupb nodes) (andb (tree_check nodes es (vbound v))
       (forallb (fun '(a, b, _) => andb (mem a nodes) (mem b nodes)) es)).
Definition sc_b3 (T nodes : list nat) : bool := forallb (fun t => mem t nodes) T.
Definition sc_b4 (T nodes : list nat) (es : list (nat * nat * Z)) : bool :=
  negb (forallb (fun x => orb (mem x T) (negb (Nat.eqb (degree x es) 1))) nodes) && Nat.ltb 1 (length nodes).
Definition sc_r5 (v : view) (T : list nat) (es : list (nat * nat * Z)) : nat :=
  match steiner_opt v T with
  | Some opt => if Z.ltb (2 * opt) (sumw es) then 5 else 0
  | None => 0
  end.

Lemma steiner_check_unfold v T nodes es :
  steiner_check v T nodes es =
  if negb (sc_b1 v nodes es) then 1 else if negb (sc_b2 v nodes es) then 2
  else if negb (sc_b3 T nodes) then 3 else if sc_b4 T nodes es then 4 else sc_r5 v T es.
Proof. reflexivity. Qed.

Lemma sc_b1_iff v nodes es : sc_b1 v nodes es = true <-> St1 v nodes es.
Proof.
  unfold sc_b1, St1. rewrite andb_true_iff, forallb_mem_incl, forallb_forall.
  split; intros [Hn He]; (split; [exact Hn|]).
  - intros a b w Hin. specialize (He (a, b, w) Hin). cbn beta iota in He.
    apply existsb_exists in He. destruct He as [[[[i s] t] w'] [Hr Ht]].
    apply andb_true_iff in Ht. destruct Ht as [Hw Ho]. apply Z.eqb_eq in Hw. subst w'.
    exists i. apply orb_true_iff in Ho. destruct Ho as [Ho|Ho]; apply andb_true_iff in Ho; destruct Ho as [H1 H2];
      apply Nat.eqb_eq in H1, H2; subst s t; [left | right]; exact Hr.
  - intros [[a b] w] Hin. destruct (He a b w Hin) as [i [Hr|Hr]]; apply existsb_exists.
    + exists (i, a, b, w). split; [exact Hr|]. rewrite Z.eqb_refl, !Nat.eqb_refl. reflexivity.
    + exists (i, b, a, w). split; [exact Hr|]. rewrite Z.eqb_refl, !Nat.eqb_refl. cbn [andb]. apply orb_true_r.
Qed.

Lemma ends_forallb nodes (es : list (nat * nat * Z)) :
  forallb (fun '(a, b, _) => andb (mem a nodes) (mem b nodes)) es = true <->
  (forall a b w, In (a, b, w) es -> In a nodes /\ In b nodes).
Proof.
  rewrite forallb_forall. split.
  - intros H a b w Hin. specialize (H (a, b, w) Hin). cbn beta iota in H.
    apply andb_true_iff in H. destruct H as [H1 H2]. split; apply mem_In; assumption.
  - intros H [[a b] w] Hin. destruct (H a b w Hin) as [H1 H2].
    apply andb_true_iff. split; apply mem_In; assumption.
Qed.

Lemma sc_b2_iff v nodes es : MOk v -> St1 v nodes es -> (sc_b2 v nodes es = true <-> St2 nodes es).
Proof.
  intros [_ [Hb _]] [Hn _]. unfold sc_b2, St2.
  rewrite !andb_true_iff, nodupb_iff, ends_forallb.
  assert (Hlt : forall a, In a nodes -> a < vbound v) by (intros a Ha; apply Hb, Hn, Ha).
  split.
  - intros [ND [Ht He]]. destruct nodes as [|n0 nodes'] eqn:En.
    + left. apply tree_check_iff in Ht. destruct Ht as [[_ E]|[Hne _]]; [split; [reflexivity | exact E]|].
      exfalso; apply Hne; reflexivity.
    + right. rewrite <- En in *. apply (tree_check_tree nodes es (vbound v)); try assumption.
      rewrite En; discriminate.
  - intros [[-> ->]|HT].
    + split; [constructor|]. split; [reflexivity|]. intros a b w [].
    + pose proof HT as [Hne [ND [He _]]].
      assert (He' : forall a b w, In (a, b, w) es -> In a nodes /\ In b nodes).
      { intros a b w Hin. apply He. apply ends_In. exists w; exact Hin. }
      split; [exact ND|]. split; [|exact He'].
      apply (tree_check_tree nodes es (vbound v)); assumption.
Qed.

Lemma sc_b3_iff T nodes : sc_b3 T nodes = true <-> St3 T nodes.
Proof. apply forallb_mem_incl. Qed.

Lemma sc_b4_iff T nodes es : sc_b4 T nodes es = false <-> St4 T nodes es.
Proof.
  unfold sc_b4, St4. rewrite andb_false_iff, negb_false_iff, forallb_forall, Nat.ltb_ge. split.
  - intros [H|H] Hl; [|lia]. intros x Hx Hd. specialize (H x Hx).
    apply orb_true_iff in H. destruct H as [H|H]; [apply mem_In; exact H|].
    rewrite Hd in H. discriminate H.
  - intros H. destruct (Nat.le_gt_cases (length nodes) 1) as [Hl|Hl]; [right; exact Hl|].
    left. intros x Hx. destruct (mem x T) eqn:Em; [reflexivity|]. cbn [orb].
    destruct (Nat.eqb_spec (degree x es) 1) as [Hd|Hd]; [|reflexivity].
    exfalso. apply mem_false in Em. apply Em. apply H; [lia | exact Hx | exact Hd].
Qed.

Lemma sc_r5_iff v T es : (sc_r5 v T es = 0 <-> St5 v T es) /\ (sc_r5 v T es = 0 \/ sc_r5 v T es = 5).
Proof.
  unfold sc_r5, St5. destruct (steiner_opt v T) as [opt|].
  - destruct (Z.ltb_spec (2 * opt) (sumw es)) as [Hl|Hl].
    + split; [|right; reflexivity]. split; [discriminate|]. intros H. specialize (H opt eq_refl). lia.
    + split; [|left; reflexivity]. split; [|reflexivity]. intros _ o E. injection E as <-. exact Hl.
  - split; [|left; reflexivity]. split; [|reflexivity]. intros _ o E. discriminate E.
Qed.

Lemma verdict_table (b1 b2 b3 b4 : bool) (r5 : nat) (P1 P2 P3 P4 P5 : Prop) :
  (b1 = true <-> P1) -> (P1 -> (b2 = true <-> P2)) -> (b3 = true <-> P3) -> (b4 = false <-> P4) ->
  (r5 = 0 <-> P5) -> (r5 = 0 \/ r5 = 5) ->
  forall r, r = (if negb b1 then 1 else if negb b2 then 2 else if negb b3 then 3 else if b4 then 4 else r5) ->
  r <= 5 /\
  (r = 0 <-> P1 /\ P2 /\ P3 /\ P4 /\ P5) /\
  (r = 1 <-> ~ P1) /\
  (r = 2 <-> P1 /\ ~ P2) /\
  (r = 3 <-> P1 /\ P2 /\ ~ P3) /\
  (r = 4 <-> P1 /\ P2 /\ P3 /\ ~ P4) /\
  (r = 5 <-> P1 /\ P2 /\ P3 /\ P4 /\ ~ P5).
Proof.
  intros H1 H2 H3 H4 H5 H5' r ->.
  destruct b1; cbn [negb]; [destruct b2; cbn [negb]; [destruct b3; cbn [negb]; [destruct b4|]|]|].
  - assert (Q1 : P1) by (apply H1; reflexivity). assert (Q2 : P2) by (apply (H2 Q1); reflexivity).
    assert (Q3 : P3) by (apply H3; reflexivity). assert (Q4 : ~ P4) by (intros Q; apply H4 in Q; discriminate Q).
    repeat split; try lia; try tauto; intros; exfalso; tauto.
  - assert (Q1 : P1) by (apply H1; reflexivity). assert (Q2 : P2) by (apply (H2 Q1); reflexivity).
    assert (Q3 : P3) by (apply H3; reflexivity). assert (Q4 : P4) by (apply H4; reflexivity).
    destruct H5' as [E|E]; rewrite E in *.
    + assert (Q5 : P5) by (apply H5; reflexivity).
      repeat split; try lia; try tauto; intros; exfalso; tauto.
    + assert (Q5 : ~ P5) by (intros Q; apply H5 in Q; discriminate Q).
      repeat split; try lia; try tauto; intros; exfalso; tauto.
  - assert (Q1 : P1) by (apply H1; reflexivity). assert (Q2 : P2) by (apply (H2 Q1); reflexivity).
    assert (Q3 : ~ P3) by (intros Q; apply H3 in Q; discriminate Q).
    repeat split; try lia; try tauto; intros; exfalso; tauto.
  - assert (Q1 : P1) by (apply H1; reflexivity).
    assert (Q2 : ~ P2) by (intros Q; apply (H2 Q1) in Q; discriminate Q).
    repeat split; try lia; try tauto; intros; exfalso; tauto.
  - assert (Q1 : ~ P1) by (intros Q; apply H1 in Q; discriminate Q).
    repeat split; try lia; try tauto; intros; exfalso; tauto.
Qed.

(* C. the verdict is the number of the first failing clause *)
Theorem steiner_check_verdicts v T nodes es : MOk v ->
  steiner_check v T nodes es <= 5 /\
  (steiner_check v T nodes es = 0 <->
     St1 v nodes es /\ St2 nodes es /\ St3 T nodes /\ St4 T nodes es /\ St5 v T es) /\
  (steiner_check v T nodes es = 1 <-> ~ St1 v nodes es) /\
  (steiner_check v T nodes es = 2 <-> St1 v nodes es /\ ~ St2 nodes es) /\
  (steiner_check v T nodes es = 3 <-> St1 v nodes es /\ St2 nodes es /\ ~ St3 T nodes) /\
  (steiner_check v T nodes es = 4 <-> St1 v nodes es /\ St2 nodes es /\ St3 T nodes /\ ~ St4 T nodes es) /\
  (steiner_check v T nodes es = 5 <->
     St1 v nodes es /\ St2 nodes es /\ St3 T nodes /\ St4 T nodes es /\ ~ St5 v T es).
Proof.
  intros Hok.
  exact (verdict_table (sc_b1 v nodes es) (sc_b2 v nodes es) (sc_b3 T nodes) (sc_b4 T nodes es) (sc_r5 v T es)
           _ _ _ _ _
           (sc_b1_iff v nodes es) (sc_b2_iff v nodes es Hok) (sc_b3_iff T nodes) (sc_b4_iff T nodes es)
           (proj1 (sc_r5_iff v T es)) (proj2 (sc_r5_iff v T es))
           (steiner_check v T nodes es) (steiner_check_unfold v T nodes es)).
Qed.

Theorem steiner_check_iff v T nodes es : MOk v ->
  (steiner_check v T nodes es = 0 <->
   St1 v nodes es /\ St2 nodes es /\ St3 T nodes /\ St4 T nodes es /\ St5 v T es).
Proof. intros Hok. exact (proj1 (proj2 (steiner_check_verdicts v T nodes es Hok))). Qed.

(* the same, with the clauses spelled out *)
Theorem steiner_check_sound v T nodes es : MOk v -> steiner_check v T nodes es = 0 ->
  (incl nodes (vnodes v) /\
   forall a b w, In (a, b, w) es -> exists i, In (i, a, b, w) (verefs v) \/ In (i, b, a, w) (verefs v)) /\
  ((nodes = [] /\ es = []) \/ IsTree nodes (ends es)) /\
  incl T nodes /\
  (2 <= length nodes -> forall x, In x nodes -> degree x es = 1 -> In x T) /\
  (forall opt, steiner_opt v T = Some opt -> (sumw es <= 2 * opt)%Z).
Proof. intros Hok H. exact (proj1 (steiner_check_iff v T nodes es Hok) H). Qed.
