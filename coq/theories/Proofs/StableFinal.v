(* The C02 theorems in explicit form (records unfolded), the meaning of the invariant, the walks
   of the iterators, and a concrete reachable state with vacancies. *)
From PG Require Import Lib.ListArr Lib.ListExtra Lib.Walk Model.GraphM Model.StableM Model.StableIO
  Proofs.GraphP Proofs.GraphQ Proofs.GraphRE Proofs.StableP Proofs.StableE Proofs.StableRE
  Proofs.StableRN Proofs.StableT Proofs.StableH.

Section Final.
  Variable cap : nat.
  Variable capcheck : bool.
  Variable debug : bool.

  Notation adj := (@adj (option nat) (option nat) cap).
  Notation SInv := (SInv cap).

  (* what the invariant says *)
  Theorem SInv_meaning s :
    SInv s <->
    (length (gnodes (sg s)) <= cap /\ length (gedges (sg s)) <= cap /\
     (forall k x i, ewo (sg s) x <> None -> epo (gedges (sg s)) k x = Some i -> nwo (sg s) i <> None) /\
     (forall k i, nwo (sg s) i <> None ->
        exists l, adj (sg s) k i l /\
                  forall x, In x l <-> (ewo (sg s) x <> None /\ epo (gedges (sg s)) k x = Some i)) /\
     ncount s = nsome (map (@nwt _) (gnodes (sg s))) /\
     ecount s = nsome (map (@ewt _) (gedges (sg s))) /\
     (exists l, lseg (fnx (sg s)) (free_node s) l cap /\ bkp (sg s) cap l /\
                forall i, In i l <-> (i < length (gnodes (sg s)) /\ nwo (sg s) i = None)) /\
     (exists l, lseg (fex (sg s)) (free_edge s) l cap /\
                forall x, In x l <-> (x < length (gedges (sg s)) /\ ewo (sg s) x = None))).
  Proof.
    split.
    - intros I. pose proof (si_g I) as G.
      split; [apply (sgi_ncap G)|]. split; [apply (sgi_ecap G)|]. split; [|split; [|split; [|split; [|split]]]].
      + intros k x i Hx Hep. apply lv_None. apply (sgi_ends G k x); auto.
      + intros k i Hi. apply (sgi_adj G). apply lv_None. auto.
      + rewrite (si_nc I). simpl. lia.
      + apply (si_ec I).
      + destruct (si_fn I) as [l [H1 [H2 H3]]]. exists l. split; auto. split; auto.
        intros i. rewrite H3. split; [tauto|]. intros [A B]. split; auto. split; auto. discriminate.
      + apply (si_fe I).
    - intros [H1 [H2 [H3 [H4 [H5 [H6 [[l [H7 [H8 H9]]] H10]]]]]]]. constructor.
      + constructor; auto.
        * intros k x i Hx Hep. apply lv_None. eapply H3; eauto.
        * intros k i Hi. apply H4. apply lv_None. auto.
      + intros a Ha. discriminate.
      + rewrite H5. simpl. lia.
      + exact H6.
      + exists l. split; auto. split; auto.
        intros i. rewrite H9. split; [|tauto]. intros [A B]. split; auto. split; auto. discriminate.
      + exact H10.
  Qed.

  Theorem F_add_node s w :
    SInv s ->
    (capcheck = false -> free_node s = cap -> length (gnodes (sg s)) < cap) ->
    exists r s', s_try_add_node cap capcheck debug s w = Ok (r, s') /\ SInv s' /\
      match r with
      | inl e => e = NodeIxLimit /\ s' = s /\
                 free_node s = cap /\ capcheck = true /\ length (gnodes (sg s)) = cap
      | inr i => i = (if Nat.eqb (free_node s) cap then length (gnodes (sg s)) else free_node s) /\
                 nwo (sg s) i = None /\ nwo (sg s') i = Some w /\
                 (forall j, j <> i -> nwo (sg s') j = nwo (sg s) j) /\
                 gedges (sg s') = gedges (sg s) /\
                 (forall k j l, nwo (sg s) j <> None -> adj (sg s) k j l -> adj (sg s') k j l) /\
                 (forall k, adj (sg s') k i []) /\
                 ncount s' = S (ncount s) /\ ecount s' = ecount s
      end.
  Proof.
    intros I Hroom.
    destruct (@s_try_add_node_total cap capcheck debug s w I Hroom) as [r [s' [Hrun [I' P]]]].
    exists r, s'. split; auto. split; auto. destruct r as [e|i]; auto.
    destruct P as [Hi P]. split; auto.
    split; [apply (an_fresh P)|]. split; [apply (an_new P)|]. split; [apply (an_old P)|].
    split; [apply (an_edges P)|]. split; [apply (an_adj_old P)|]. split; [apply (an_adj_new P)|].
    split; [apply (an_nc P)|apply (an_ec P)].
  Qed.

  Theorem F_add_node_limit s w :
    free_node s = cap -> capcheck = true -> length (gnodes (sg s)) = cap ->
    s_try_add_node cap capcheck debug s w = Ok (inl NodeIxLimit, s).
  Proof. apply add_node_limit. Qed.

  Theorem F_fresh_node_index s w i s' :
    SInv s ->
    (capcheck = false -> free_node s = cap -> length (gnodes (sg s)) < cap) ->
    s_try_add_node cap capcheck debug s w = Ok (inr i, s') ->
    nwo (sg s) i = None /\ nwo (sg s') i = Some w /\
    (forall j w', nwo (sg s) j = Some w' -> j <> i /\ nwo (sg s') j = Some w').
  Proof.
    intros I Hroom Hrun.
    destruct (@s_try_add_node_total cap capcheck debug s w I Hroom) as [r [s1 [Hrun1 [I' P]]]].
    rewrite Hrun in Hrun1. injection Hrun1 as <- <-. destruct P as [_ P].
    split; [apply (an_fresh P)|]. split; [apply (an_new P)|].
    intros j w' Hj. assert (Hne : j <> i).
    { intros ->. rewrite (an_fresh P) in Hj. discriminate. }
    split; auto. rewrite (an_old P); auto.
  Qed.

  Theorem F_add_edge s a b w :
    SInv s ->
    (capcheck = false -> free_edge s = cap -> length (gedges (sg s)) < cap) ->
    exists r s', s_try_add_edge cap capcheck debug s a b w = Ok (r, s') /\ SInv s' /\
      match r with
      | inl e => s' = s /\
          ((e = EdgeIxLimit /\ free_edge s = cap /\ capcheck = true /\ length (gedges (sg s)) = cap) \/
           (exists i, e = NodeMissed i /\ wrong_index (sg s) a b = Some i /\
                      (i = a \/ i = b) /\ nwo (sg s) i = None /\
                      ~ (free_edge s = cap /\ capcheck = true /\ length (gedges (sg s)) = cap)))
      | inr x => nwo (sg s) a <> None /\ nwo (sg s) b <> None /\
                 x = (if Nat.eqb (free_edge s) cap then length (gedges (sg s)) else free_edge s) /\
                 ewo (sg s) x = None /\ ewo (sg s') x = Some w /\
                 (forall k, epo (gedges (sg s')) k x = Some (sel (a, b) k)) /\
                 (forall y, y <> x -> ewo (sg s') y = ewo (sg s) y) /\
                 (forall k y, y <> x -> epo (gedges (sg s')) k y = epo (gedges (sg s)) k y) /\
                 (forall j, nwo (sg s') j = nwo (sg s) j) /\
                 (forall k i l, nwo (sg s) i <> None -> adj (sg s) k i l ->
                    adj (sg s') k i (if Nat.eqb i (sel (a, b) k) then x :: l else l)) /\
                 ncount s' = ncount s /\ ecount s' = S (ecount s)
      end.
  Proof.
    intros I Hroom.
    destruct (@s_try_add_edge_total cap capcheck debug s a b w I Hroom) as [r [s' [Hrun [I' P]]]].
    exists r, s'. split; auto. split; auto. destruct r as [e|x]; auto.
    destruct P as [La [Lb [Hx P]]]. split; auto. split; auto. split; auto.
    split; [apply (ae_fresh P)|]. split; [apply (ae_new P)|]. split; [apply (ae_new_ends P)|].
    split; [apply (ae_old P)|]. split; [apply (ae_old_ends P)|]. split; [apply (ae_nodes P)|].
    split; [apply (ae_adj P)|]. split; [apply (ae_nc P)|apply (ae_ec P)].
  Qed.

  Theorem F_fresh_edge_index s a b w x s' :
    SInv s ->
    (capcheck = false -> free_edge s = cap -> length (gedges (sg s)) < cap) ->
    s_try_add_edge cap capcheck debug s a b w = Ok (inr x, s') ->
    ewo (sg s) x = None /\ ewo (sg s') x = Some w /\
    (forall y w', ewo (sg s) y = Some w' ->
       y <> x /\ ewo (sg s') y = Some w' /\
       forall k, epo (gedges (sg s')) k y = epo (gedges (sg s)) k y).
  Proof.
    intros I Hroom Hrun.
    destruct (@s_try_add_edge_total cap capcheck debug s a b w I Hroom) as [r [s1 [Hrun1 [I' P]]]].
    rewrite Hrun in Hrun1. injection Hrun1 as <- <-. destruct P as [_ [_ [_ P]]].
    split; [apply (ae_fresh P)|]. split; [apply (ae_new P)|].
    intros y w' Hy. assert (Hne : y <> x).
    { intros ->. rewrite (ae_fresh P) in Hy. discriminate. }
    split; auto. split; [rewrite (ae_old P); auto|]. intros k. apply (ae_old_ends P). auto.
  Qed.

  Theorem F_add_edge_errors s a b w :
    (free_edge s = cap -> capcheck = true -> length (gedges (sg s)) = cap ->
       s_try_add_edge cap capcheck debug s a b w = Ok (inl EdgeIxLimit, s)) /\
    (forall i, wrong_index (sg s) a b = Some i ->
       (free_edge s <> cap \/ capcheck = false \/ length (gedges (sg s)) <> cap) ->
       s_try_add_edge cap capcheck debug s a b w = Ok (inl (NodeMissed i), s)).
  Proof.
    split.
    - apply add_edge_limit.
    - intros i. apply add_edge_missing.
  Qed.

  Theorem F_remove_edge s e :
    SInv s ->
    (ewo (sg s) e = None -> s_remove_edge cap debug s e = Ok (None, s)) /\
    (forall w, ewo (sg s) e = Some w ->
       exists s', s_remove_edge cap debug s e = Ok (Some w, s') /\ SInv s' /\
         S (ecount s') = ecount s /\ ncount s' = ncount s /\
         length (gnodes (sg s')) = length (gnodes (sg s)) /\
         length (gedges (sg s')) = length (gedges (sg s)) /\
         (forall j, nwo (sg s') j = nwo (sg s) j) /\
         (forall x, ewo (sg s') x = if Nat.eqb x e then None else ewo (sg s) x) /\
         (forall k x, x <> e -> epo (gedges (sg s')) k x = epo (gedges (sg s)) k x) /\
         (forall k i l, nwo (sg s) i <> None -> adj (sg s) k i l ->
            adj (sg s') k i (filter (fun x => negb (Nat.eqb x e)) l))).
  Proof.
    intros I. split; [apply s_remove_edge_none|].
    intros w Hw.
    destruct (@s_remove_edge_spec cap debug None s e w I Hw) as [s' [Hrun [I' [R Hec]]]].
    exists s'. split; auto. split; auto. split; auto.
    split; [apply (rm_nc R)|]. split; [apply (rm_nlen R)|]. split; [apply (rm_elen R)|].
    split; [apply (rm_nodes R)|]. split; [apply (rm_ewo R)|]. split.
    - intros k x Hx. apply (rm_epo R). apply Nat.eqb_neq. auto.
    - intros k i l Li Hl. apply (rm_adj R); auto. apply lv_None. auto.
  Qed.

  Theorem F_remove_node s a :
    SInv s ->
    (nwo (sg s) a = None -> s_remove_node cap debug s a = Ok (None, s)) /\
    (forall w, nwo (sg s) a = Some w ->
       exists s', s_remove_node cap debug s a = Ok (Some w, s') /\ SInv s' /\
         S (ncount s') = ncount s /\
         length (gnodes (sg s')) = length (gnodes (sg s)) /\
         length (gedges (sg s')) = length (gedges (sg s)) /\
         (forall j, nwo (sg s') j = if Nat.eqb j a then None else nwo (sg s) j) /\
         (forall x, ewo (sg s') x = if incb (sg s) a x then None else ewo (sg s) x) /\
         (forall k x, incb (sg s) a x = false -> epo (gedges (sg s')) k x = epo (gedges (sg s)) k x) /\
         (forall k i l, i <> a -> nwo (sg s) i <> None -> adj (sg s) k i l ->
            adj (sg s') k i (filter (fun x => negb (incb (sg s) a x)) l))).
  Proof.
    intros I. split; [apply s_remove_node_none|].
    intros w Hw.
    destruct (@s_remove_node_spec cap debug s a w I Hw) as [s' [Hrun [I' P]]].
    exists s'. split; auto. split; auto.
    split; [apply (rn_nc P)|]. split; [apply (rn_nlen P)|]. split; [apply (rn_elen P)|].
    split; [apply (rn_nodes P)|]. split; [apply (rn_ewo P)|]. split; [apply (rn_epo P)|apply (rn_adj P)].
  Qed.

  Theorem F_counts s :
    SInv s ->
    ncount s = length (live_nodes s) /\ ecount s = length (live_edges s) /\
    (forall i w, In (i, w) (live_nodes s) <-> nwo (sg s) i = Some w) /\
    (forall x nd w, In (x, nd, w) (live_edges s) <->
       (ewo (sg s) x = Some w /\ epo (gedges (sg s)) 0 x = Some (fst nd) /\
        epo (gedges (sg s)) 1 x = Some (snd nd))) /\
    (forall i, nwo (sg s) i <> None -> i < node_bound s) /\
    (node_bound s = 0 \/ nwo (sg s) (node_bound s - 1) <> None) /\
    (forall x, ewo (sg s) x <> None -> x < edge_bound s) /\
    (edge_bound s = 0 \/ ewo (sg s) (edge_bound s - 1) <> None) /\
    check_free_lists cap s = true /\ checked cap debug s = Ok s.
  Proof.
    intros I.
    split; [rewrite live_nodes_length, (si_nc I); simpl; lia|].
    split; [rewrite live_edges_length; apply (si_ec I)|].
    split; [apply live_nodes_In|]. split; [apply live_edges_In|].
    split; [apply (proj1 (node_bound_spec s))|]. split; [apply (proj2 (node_bound_spec s))|].
    split; [apply (proj1 (edge_bound_spec s))|]. split; [apply (proj2 (edge_bound_spec s))|].
    split; [apply check_free_lists_ok; auto|apply checked_ok; auto].
  Qed.

  (* the walks performed by the neighbor / edge iterators read exactly the adjacency lists *)
  Theorem F_walks s k i :
    SInv s ->
    (forall l, nwo (sg s) i <> None -> adj (sg s) k i l ->
       chain (fuel_of (sg s)) (gedges (sg s)) (sel (s_next cap s i) k) k = Ok l /\
       NoDup l /\ forall x, In x l <-> (ewo (sg s) x <> None /\ epo (gedges (sg s)) k x = Some i)) /\
    (nwo (sg s) i = None ->
       chain (fuel_of (sg s)) (gedges (sg s)) (sel (s_next cap s i) k) k = Ok []).
  Proof.
    intros I. pose proof (si_g I) as G. split.
    - intros l Li Hl. split; [|split].
      + assert (E : s_next cap s i = node_next cap (sg s) i).
        { unfold s_next, get_node, node_next, nwo in *.
          destruct (nth_error (gnodes (sg s)) i) as [n|]; [|congruence].
          destruct (nwt n); [reflexivity|congruence]. }
        rewrite E. apply (chain_adj (sgi_ecap G) Hl).
      + apply (GI_adj_NoDup G Hl).
      + intros x. apply (GI_adj_in x G (proj2 (lv_None (sg s) i) Li) Hl).
    - intros Hv. assert (E : s_next cap s i = (cap, cap)).
      { unfold s_next, get_node, nwo in *.
        destruct (nth_error (gnodes (sg s)) i) as [n|]; [|reflexivity]. rewrite Hv. reflexivity. }
      rewrite E. assert (Es : sel (cap, cap) k = cap) by (destruct k; reflexivity). rewrite Es.
      unfold fuel_of. apply chain_cap. apply (sgi_ecap G).
  Qed.

  Theorem F_reverse s :
    SInv s ->
    SInv (s_reverse s) /\
    free_node (s_reverse s) = free_node s /\ free_edge (s_reverse s) = free_edge s /\
    ncount (s_reverse s) = ncount s /\ ecount (s_reverse s) = ecount s /\
    (forall j, nwo (sg (s_reverse s)) j = nwo (sg s) j) /\
    (forall x, ewo (sg (s_reverse s)) x = ewo (sg s) x) /\
    (forall k x, ewo (sg s) x <> None ->
       epo (gedges (sg (s_reverse s))) k x = epo (gedges (sg s)) (opk k) x) /\
    (forall k i l, nwo (sg s) i <> None -> adj (sg s) (opk k) i l -> adj (sg (s_reverse s)) k i l) /\
    (forall j, nwo (sg s) j = None ->
       nth_error (gnodes (sg (s_reverse s))) j = nth_error (gnodes (sg s)) j) /\
    (forall x, ewo (sg s) x = None ->
       nth_error (gedges (sg (s_reverse s))) x = nth_error (gedges (sg s)) x).
  Proof.
    intros I. split; [apply reverse_SInv; auto|].
    split; [reflexivity|]. split; [reflexivity|]. split; [reflexivity|]. split; [reflexivity|].
    split; [apply rev_nwo|]. split; [apply rev_ewo|]. split; [apply rev_epo|].
    split; [intros k i l; apply rev_adj; auto|].
    split; [apply reverse_vacant_nodes|apply reverse_vacant_edges].
  Qed.

  Theorem F_clear_edges s :
    SInv s ->
    SInv (s_clear_edges cap s) /\
    ecount (s_clear_edges cap s) = 0 /\ gedges (sg (s_clear_edges cap s)) = [] /\
    ncount (s_clear_edges cap s) = ncount s /\ free_node (s_clear_edges cap s) = free_node s /\
    (forall j, nwo (sg (s_clear_edges cap s)) j = nwo (sg s) j) /\
    (forall k i, nwo (sg s) i <> None -> adj (sg (s_clear_edges cap s)) k i []).
  Proof.
    intros I. split; [apply clear_edges_SInv; auto|].
    split; [reflexivity|]. split; [reflexivity|]. split; [reflexivity|]. split; [reflexivity|].
    split; [apply clr_nwo|apply clr_adj].
  Qed.

  Theorem F_init_add_node :
    SInv (sg_empty cap) /\
    forall s w,
    SInv s ->
    (capcheck = false -> free_node s = cap -> length (gnodes (sg s)) < cap) ->
    exists r s', s_try_add_node cap capcheck debug s w = Ok (r, s') /\ SInv s' /\
      match r with
      | inl e => e = NodeIxLimit /\ s' = s /\
                 free_node s = cap /\ capcheck = true /\ length (gnodes (sg s)) = cap
      | inr i => i = (if Nat.eqb (free_node s) cap then length (gnodes (sg s)) else free_node s) /\
                 nwo (sg s) i = None /\ nwo (sg s') i = Some w /\
                 (forall j, j <> i -> nwo (sg s') j = nwo (sg s) j) /\
                 gedges (sg s') = gedges (sg s) /\
                 (forall k j l, nwo (sg s) j <> None -> adj (sg s) k j l -> adj (sg s') k j l) /\
                 (forall k, adj (sg s') k i []) /\
                 ncount s' = S (ncount s) /\ ecount s' = ecount s
      end.
  Proof. split; [apply SInv_empty|]. intros s w. apply F_add_node. Qed.

  Theorem F_reverse_clear s :
    SInv s -> SInv (s_reverse s) /\ SInv (s_clear_edges cap s).
  Proof. intros I. split; [apply reverse_SInv; auto|apply clear_edges_SInv; auto]. Qed.

  Theorem F_retain_nodes keep s :
    SInv s ->
    exists s', s_retain_nodes cap debug keep s = Ok s' /\ SInv s' /\
      let D := fun a => match nwo (sg s) a with Some w => negb (keep w) | None => false end in
      (forall j, nwo (sg s') j = if D j then None else nwo (sg s) j) /\
      (forall x, ewo (sg s') x = if incG D (sg s) x then None else ewo (sg s) x) /\
      (forall k x, ewo (sg s') x <> None -> epo (gedges (sg s')) k x = epo (gedges (sg s)) k x) /\
      length (gnodes (sg s')) = length (gnodes (sg s)) /\
      length (gedges (sg s')) = length (gedges (sg s)).
  Proof.
    intros I. destruct (@s_retain_nodes_ok cap debug keep s I) as [s' [Hrun [I' Q]]].
    exists s'. split; auto. split; auto. cbv zeta.
    split; [apply (rq_nodes Q)|]. split; [apply (rq_edges Q)|]. split; [apply (rq_epo Q)|].
    split; [apply (rq_nlen Q)|apply (rq_elen Q)].
  Qed.
End Final.

(* A reachable state with two node vacancies and edge vacancies, obtained through the proved steps *)
Definition demo_ops : list sop :=
  [OAddNode 10; OAddNode 11; OAddNode 12; OAddNode 13; OAddNode 14;
   OAddEdge 0 1 100; OAddEdge 1 2 101; OAddEdge 2 3 102; OAddEdge 3 3 103; OAddEdge 0 4 104;
   OAddEdge 7 0 105; ORemoveNode 1; ORemoveNode 3; ORemoveEdge 9; OReverse;
   OAddEdge 4 0 106; OAddEdge 2 2 107].

Lemma demo_reachable :
  exists s, srun 8 true true (sg_empty 8) demo_ops = Ok s /\ SInv 8 s /\
    live_nodes s = [(0, 10); (2, 12); (4, 14)] /\
    live_edges s = [(2, (4, 0), 106); (3, (2, 2), 107); (4, (4, 0), 104)] /\
    (ncount s, ecount s, node_bound s, edge_bound s) = (3, 3, 5, 5) /\
    (length (gnodes (sg s)), length (gedges (sg s))) = (5, 5) /\
    (free_node s, free_edge s) = (3, 0) /\
    map (@nwt _) (gnodes (sg s)) = [Some 10; None; Some 12; None; Some 14] /\
    map (@ewt _) (gedges (sg s)) = [None; None; Some 106; Some 107; Some 104] /\
    check_free_lists 8 s = true.
Proof.
  destruct (@history_ok 8 true true demo_ops) as [s [Hrun I]]; [discriminate|].
  exists s. split; [exact Hrun|]. split; [exact I|].
  clear I. vm_compute in Hrun. injection Hrun as <-. vm_compute. repeat split.
Qed.

(* the same history, step by step, with the value every call returns *)
Fixpoint souts (cap : nat) (capcheck debug : bool) (s : sgraph) (ops : list sop) : list (option sout) :=
  match ops with
  | [] => []
  | o :: rest =>
      match sstep cap capcheck debug s o with
      | Ok (r, s') => Some r :: souts cap capcheck debug s' rest
      | _ => [None]
      end
  end.

Lemma demo_outputs :
  souts 8 true true (sg_empty 8) demo_ops =
    map Some [RIdx (inr 0); RIdx (inr 1); RIdx (inr 2); RIdx (inr 3); RIdx (inr 4);
              RIdx (inr 0); RIdx (inr 1); RIdx (inr 2); RIdx (inr 3); RIdx (inr 4);
              RIdx (inl (NodeMissed 7)); RWt (Some 11); RWt (Some 13); RWt None; RUnit;
              RIdx (inr 2); RIdx (inr 3)].
Proof. vm_compute. reflexivity. Qed.
