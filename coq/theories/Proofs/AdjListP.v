(* Proofs about the adj::List model: search, edge-index stability, parallel
   edges, panics, and the refinement to the insertion log. *)
From PG Require Import Lib.ListExtra Lib.Io Model.AdjListM Spec.AdjListSpec.
Set Implicit Arguments.

(* ------------------------------------------------------------------ *)
(* find_suc                                                            *)

Lemma find_suc_shift r b k : find_suc r b (S k) = option_map S (find_suc r b k).
Proof.
  revert k; induction r as [|[s w] t IH]; intros k; cbn [find_suc]; auto.
  destruct (Nat.eqb s b); auto.
Qed.

Lemma first_pos_cons_hit b w t : first_pos ((b, w) :: t) b 0.
Proof. split; [exists w; reflexivity | intros j s w' Hj; lia]. Qed.

Lemma first_pos_cons_miss s w t b i : s <> b -> (first_pos t b i <-> first_pos ((s, w) :: t) b (S i)).
Proof.
  intros Hne; split; intros [[w0 Hw0] Hlo]; split.
  - exists w0; exact Hw0.
  - intros [|j] s' w' Hj Hn; cbn [nth_error] in Hn.
    + inversion Hn; subst; auto.
    + eapply Hlo; [|eauto]. lia.
  - exists w0; exact Hw0.
  - intros j s' w' Hj Hn. apply (Hlo (S j) s' w'); [lia|exact Hn].
Qed.

Lemma find_suc_spec r b :
  match find_suc r b 0 with
  | Some i => first_pos r b i
  | None => forall j s w, nth_error r j = Some (s, w) -> s <> b
  end.
Proof.
  induction r as [|[s w] t IH]; cbn [find_suc].
  - intros [|j] s w; discriminate.
  - destruct (Nat.eqb_spec s b) as [->|Hne].
    + apply first_pos_cons_hit.
    + rewrite find_suc_shift. destruct (find_suc t b 0) as [i|]; cbn [option_map].
      * apply first_pos_cons_miss; auto.
      * intros [|j] s' w' Hn; cbn [nth_error] in Hn.
        -- inversion Hn; subst; auto.
        -- eapply IH; eauto.
Qed.

Lemma first_pos_unique r b i j : first_pos r b i -> first_pos r b j -> i = j.
Proof.
  intros [[w Hw] Hlo] [[w' Hw'] Hlo'].
  destruct (Nat.lt_trichotomy i j) as [L|[E|L]]; auto; exfalso.
  - apply (Hlo' _ _ _ L Hw); reflexivity.
  - apply (Hlo _ _ _ L Hw'); reflexivity.
Qed.

Lemma find_suc_iff r b i : find_suc r b 0 = Some i <-> first_pos r b i.
Proof.
  pose proof (find_suc_spec r b) as H. split.
  - intros E. rewrite E in H. exact H.
  - intros F. destruct (find_suc r b 0) as [k|].
    + f_equal. eapply first_pos_unique; eauto.
    + exfalso. destruct F as [[w Hw] _]. apply (H _ _ _ Hw); reflexivity.
Qed.

Lemma find_suc_none_iff r b : find_suc r b 0 = None <-> ~ exists i, first_pos r b i.
Proof.
  split.
  - intros E [i F]. apply find_suc_iff in F. congruence.
  - intros H. destruct (find_suc r b 0) as [i|] eqn:E; auto.
    exfalso. apply H. exists i. apply find_suc_iff; auto.
Qed.

(* ------------------------------------------------------------------ *)
(* find_edge, contains_edge                                            *)

Theorem al_find_edge_iff g a b e :
  al_find_edge g a b = Some e <->
  exists r i, e = (a, i) /\ nth_error g a = Some r /\ first_pos r b i.
Proof.
  unfold al_find_edge. destruct (nth_error g a) as [r|].
  - split.
    + destruct (find_suc r b 0) as [i|] eqn:E; cbn [option_map]; [|discriminate].
      intros H; inversion H; subst. exists r, i. splits; auto. apply find_suc_iff; auto.
    + intros [r' [i [-> [Hr F]]]]. inversion Hr; subst r'.
      apply find_suc_iff in F. rewrite F. reflexivity.
  - split; [discriminate|]. intros [r [i [_ [Hr _]]]]; discriminate.
Qed.

Theorem al_contains_edge_iff g a b :
  al_contains_edge g a b = true <-> exists r i, nth_error g a = Some r /\ first_pos r b i.
Proof.
  unfold al_contains_edge. destruct (nth_error g a) as [r|].
  - destruct (find_suc r b 0) as [i|] eqn:E.
    + split; auto. intros _. exists r, i. split; auto. apply find_suc_iff; auto.
    + split; [discriminate|]. intros [r' [i [Hr F]]]. inversion Hr; subst r'.
      apply find_suc_iff in F. congruence.
  - split; [discriminate|]. intros [r [i [Hr _]]]; discriminate.
Qed.

Theorem al_contains_edge_get g a b :
  al_contains_edge g a b = true <-> exists i w, al_get_edge g (a, i) = Some (b, w).
Proof.
  rewrite al_contains_edge_iff. unfold al_get_edge; cbn [fst snd]. split.
  - intros [r [i [Hr [[w Hw] _]]]]. exists i, w. rewrite Hr. exact Hw.
  - intros [i [w H]]. destruct (nth_error g a) as [r|]; [|discriminate].
    exists r. destruct (find_suc r b 0) as [k|] eqn:E.
    + exists k. split; auto. apply find_suc_iff; auto.
    + exfalso. pose proof (find_suc_spec r b) as S. rewrite E in S. apply (S _ _ _ H); reflexivity.
Qed.

(* ------------------------------------------------------------------ *)
(* add_edge: parallel edges are kept, old indices stay valid           *)

Lemma get_edge_upd g a r r' e : nth_error g a = Some r ->
  al_get_edge (upd g a r') e = if Nat.eqb a (fst e) then nth_error r' (snd e) else al_get_edge g e.
Proof.
  intros Hr. unfold al_get_edge. rewrite nth_error_upd.
  destruct (Nat.eqb_spec a (fst e)) as [E|E]; auto.
  apply nth_error_Some_lt in Hr. destruct (Nat.ltb_spec a (length g)); try lia. reflexivity.
Qed.

Theorem al_add_edge_panics g a b w :
  (length g <= a \/ length g <= b) <-> al_add_edge g a b w = Panic.
Proof.
  unfold al_add_edge. destruct (Nat.leb_spec (length g) b) as [Hb|Hb].
  - split; auto.
  - destruct (nth_error g a) as [r|] eqn:Hr.
    + split; [|discriminate]. apply nth_error_Some_lt in Hr. lia.
    + split; auto. intros _. apply nth_error_None in Hr. auto.
Qed.

Theorem al_add_edge_ok g a b w : a < length g -> b < length g ->
  exists r, nth_error g a = Some r /\
    al_add_edge g a b w = Ok ((a, length r), upd g a (r ++ [(b, w)])).
Proof.
  intros Ha Hb. destruct (nth_error_lt_Some g Ha) as [r Hr]. exists r. split; auto.
  unfold al_add_edge. destruct (Nat.leb_spec (length g) b); try lia. rewrite Hr. reflexivity.
Qed.

(* what a successful add_edge does *)
Theorem al_add_edge_spec g a b w e g' : al_add_edge g a b w = Ok (e, g') ->
  exists r, nth_error g a = Some r /\ e = (a, length r) /\
    nth_error g' a = Some (r ++ [(b, w)]) /\
    length g' = length g /\
    (forall a', a' <> a -> nth_error g' a' = nth_error g a') /\
    al_get_edge g' e = Some (b, w) /\
    (forall e0 p, al_get_edge g e0 = Some p -> al_get_edge g' e0 = Some p).
Proof.
  unfold al_add_edge. destruct (Nat.leb (length g) b); [discriminate|].
  destruct (nth_error g a) as [r|] eqn:Hr; [|discriminate].
  intros H; inversion H; subst e g'. clear H.
  pose proof (nth_error_Some_lt _ _ Hr) as Ha.
  exists r. splits; auto.
  - apply nth_error_upd_eq; auto.
  - apply upd_length.
  - intros a' Hne. apply nth_error_upd_neq; auto.
  - rewrite (@get_edge_upd g _ _ _ _ Hr). cbn [fst snd]. rewrite Nat.eqb_refl.
    rewrite nth_error_app2, Nat.sub_diag by lia. reflexivity.
  - intros e0 p H0. rewrite (@get_edge_upd g _ _ _ _ Hr).
    destruct (Nat.eqb_spec a (fst e0)) as [E|E]; auto.
    unfold al_get_edge in H0. rewrite <- E, Hr in H0.
    rewrite nth_error_app1; auto. eapply nth_error_Some_lt; eauto.
Qed.

(* ------------------------------------------------------------------ *)
(* update_edge, set_edge_weight                                        *)

Theorem al_update_edge_panics g a b w :
  (length g <= a \/ length g <= b) <-> al_update_edge g a b w = Panic.
Proof.
  unfold al_update_edge. destruct (Nat.leb_spec (length g) b) as [Hb|Hb].
  - split; auto.
  - destruct (nth_error g a) as [r|] eqn:Hr.
    + split; [apply nth_error_Some_lt in Hr; lia|].
      destruct (find_suc r b 0); discriminate.
    + split; auto. intros _. apply nth_error_None in Hr. auto.
Qed.

(* update_edge overwrites the first a -> b edge, or behaves as add_edge *)
Theorem al_update_edge_spec g a b w e g' : al_update_edge g a b w = Ok (e, g') ->
  (al_find_edge g a b = Some e /\
   al_get_edge g' e = Some (b, w) /\
   (forall e0, e0 <> e -> al_get_edge g' e0 = al_get_edge g e0) /\
   (forall e0, al_edge_endpoints g' e0 = al_edge_endpoints g e0) /\
   length g' = length g) \/
  (al_find_edge g a b = None /\ al_add_edge g a b w = Ok (e, g')).
Proof.
  unfold al_update_edge, al_add_edge, al_find_edge.
  destruct (Nat.leb (length g) b); [discriminate|].
  destruct (nth_error g a) as [r|] eqn:Hr; [|discriminate].
  destruct (find_suc r b 0) as [i|] eqn:E; cbn [option_map]; intros H; inversion H; subst e g'; clear H.
  - left. apply find_suc_iff in E. destruct E as [[w0 Hw0] Hlo].
    pose proof (nth_error_Some_lt _ _ Hw0) as Hi.
    assert (G : forall e0, al_get_edge (upd g a (upd r i (b, w))) e0 =
                  if Nat.eqb a (fst e0) && Nat.eqb i (snd e0) then Some (b, w) else al_get_edge g e0).
    { intros e0. rewrite (@get_edge_upd g _ _ _ _ Hr).
      destruct (Nat.eqb_spec a (fst e0)) as [Ea|Ea]; cbn [andb]; auto.
      rewrite nth_error_upd. destruct (Nat.eqb_spec i (snd e0)) as [Ei|Ei].
      - destruct (Nat.ltb_spec i (length r)); try lia. reflexivity.
      - unfold al_get_edge. rewrite <- Ea, Hr. reflexivity. }
    splits; auto.
    + rewrite G. cbn [fst snd]. rewrite !Nat.eqb_refl. reflexivity.
    + intros [x k] Hne. rewrite G. cbn [fst snd].
      destruct (Nat.eqb_spec a x); destruct (Nat.eqb_spec i k); cbn [andb]; auto. congruence.
    + intros [x k]. unfold al_edge_endpoints. rewrite G. cbn [fst snd].
      destruct (Nat.eqb_spec a x); destruct (Nat.eqb_spec i k); cbn [andb]; auto.
      subst. unfold al_get_edge; cbn [fst snd]. rewrite Hr, Hw0. reflexivity.
    + apply upd_length.
  - right. auto.
Qed.

Theorem al_set_edge_weight_spec g e v ok g' : al_set_edge_weight g e v = (ok, g') ->
  (ok = false /\ g' = g /\ al_get_edge g e = None) \/
  (ok = true /\ (exists s w0, al_get_edge g e = Some (s, w0) /\ al_get_edge g' e = Some (s, v)) /\
   (forall e0, e0 <> e -> al_get_edge g' e0 = al_get_edge g e0) /\
   (forall e0, al_edge_endpoints g' e0 = al_edge_endpoints g e0) /\
   length g' = length g).
Proof.
  unfold al_set_edge_weight.
  destruct (nth_error g (fst e)) as [r|] eqn:Hr.
  2: { intros H; inversion H; subst. left. unfold al_get_edge. rewrite Hr. auto. }
  destruct (nth_error r (snd e)) as [[s w0]|] eqn:Hi.
  2: { intros H; inversion H; subst. left. unfold al_get_edge. rewrite Hr, Hi. auto. }
  intros H; inversion H; subst ok g'; clear H. right.
  pose proof (nth_error_Some_lt _ _ Hi) as Hlt.
  assert (G : forall e0, al_get_edge (upd g (fst e) (upd r (snd e) (s, v))) e0 =
                if Nat.eqb (fst e) (fst e0) && Nat.eqb (snd e) (snd e0) then Some (s, v) else al_get_edge g e0).
  { intros e0. rewrite (@get_edge_upd g _ _ _ _ Hr).
    destruct (Nat.eqb_spec (fst e) (fst e0)) as [Ea|Ea]; cbn [andb]; auto.
    rewrite nth_error_upd. destruct (Nat.eqb_spec (snd e) (snd e0)) as [Ei|Ei].
    - destruct (Nat.ltb_spec (snd e) (length r)); try lia. reflexivity.
    - unfold al_get_edge. rewrite <- Ea, Hr. reflexivity. }
  splits; auto.
  - exists s, w0. split.
    + unfold al_get_edge. rewrite Hr. exact Hi.
    + rewrite G, !Nat.eqb_refl. reflexivity.
  - intros e0 Hne. rewrite G.
    destruct (Nat.eqb_spec (fst e) (fst e0)); destruct (Nat.eqb_spec (snd e) (snd e0)); cbn [andb]; auto.
    destruct e, e0; cbn [fst snd] in *; congruence.
  - intros e0. unfold al_edge_endpoints. rewrite G.
    destruct (Nat.eqb_spec (fst e) (fst e0)) as [E1|E1];
      destruct (Nat.eqb_spec (snd e) (snd e0)) as [E2|E2]; cbn [andb]; auto.
    unfold al_get_edge. rewrite <- E1, <- E2, Hr, Hi. reflexivity.
  - apply upd_length.
Qed.

(* ------------------------------------------------------------------ *)
(* Edge-index stability over histories without clear                   *)

Lemma get_edge_app g x e p : al_get_edge g e = Some p -> al_get_edge (g ++ x) e = Some p.
Proof.
  unfold al_get_edge. destruct (nth_error g (fst e)) as [r|] eqn:Hr; [|discriminate].
  rewrite nth_error_app1 by (eapply nth_error_Some_lt; eauto). rewrite Hr. auto.
Qed.

Lemma endpoints_of_get g e p : al_get_edge g e = Some p ->
  al_edge_endpoints g e = Some (fst e, fst p).
Proof. intros H. unfold al_edge_endpoints. rewrite H. reflexivity. Qed.

Lemma step_endpoints g o e p : fst o <> 3 ->
  al_edge_endpoints g e = Some p -> al_edge_endpoints (fst (step g o)) e = Some p.
Proof.
  intros H3 H. destruct o as [code x]. cbn [fst] in H3. unfold step.
  assert (K : forall g', (forall e0 q, al_get_edge g e0 = Some q -> al_get_edge g' e0 = Some q) ->
              al_edge_endpoints g' e = Some p).
  { intros g' G. unfold al_edge_endpoints in *.
    destruct (al_get_edge g e) as [q|] eqn:E; [|discriminate]. rewrite (G _ _ E). exact H. }
  destruct code as [|[|[|[|[|[|[|[|[|[|[|[|c]]]]]]]]]]]]; try exact H; try congruence.
  - cbn [al_add_node fst]. apply K. intros e0 q. apply get_edge_app.
  - destruct (al_add_edge g (arg x 0) (arg x 1) (arg x 2)) as [[[y i] g']| |] eqn:E; try exact H.
    cbn [fst]. apply al_add_edge_spec in E. destruct E as [r [_ [_ [_ [_ [_ [_ G]]]]]]]. apply K; auto.
  - destruct (al_update_edge g (arg x 0) (arg x 1) (arg x 2)) as [[[y i] g']| |] eqn:E; try exact H.
    cbn [fst]. apply al_update_edge_spec in E. destruct E as [[_ [_ [_ [G _]]]]|[_ E]].
    + rewrite G. exact H.
    + apply al_add_edge_spec in E. destruct E as [r [_ [_ [_ [_ [_ [_ G]]]]]]]. apply K; auto.
  - destruct (al_set_edge_weight g (arg x 0, arg x 1) (arg x 2)) as [ok g'] eqn:E. cbn [fst].
    apply al_set_edge_weight_spec in E. destruct E as [[_ [-> _]]|[_ [_ [_ [G _]]]]]; auto.
    rewrite G. exact H.
  - cbn [al_add_node_from_edges fst]. apply K. intros e0 q. apply get_edge_app.
Qed.

Theorem al_endpoints_stable ops : no_clear ops -> forall g e p,
  al_edge_endpoints g e = Some p -> al_edge_endpoints (al_final g ops) e = Some p.
Proof.
  induction 1 as [|o rest Ho Hrest IH]; intros g e p H; [exact H|].
  change (al_final g (o :: rest)) with (al_final (fst (step g o)) rest).
  apply IH. apply step_endpoints; auto.
Qed.

(* The weight of an existing edge changes only through update_edge on its
   endpoints (when it is the first such edge) or set_edge_weight on its index. *)
Theorem al_weight_stable g o e w : fst o <> 3 ->
  al_edge_weight g e = Some w ->
  al_edge_weight (fst (step g o)) e = Some w \/
  (fst o = 2 /\ al_find_edge g (arg (snd o) 0) (arg (snd o) 1) = Some e /\
   al_edge_weight (fst (step g o)) e = Some (arg (snd o) 2)) \/
  (fst o = 8 /\ e = (arg (snd o) 0, arg (snd o) 1) /\
   al_edge_weight (fst (step g o)) e = Some (arg (snd o) 2)).
Proof.
  intros H3 H. destruct o as [code x]. cbn [fst snd] in *. unfold step.
  assert (K : forall g', (forall e0 q, al_get_edge g e0 = Some q -> al_get_edge g' e0 = Some q) ->
              al_edge_weight g' e = Some w).
  { intros g' G. unfold al_edge_weight in *.
    destruct (al_get_edge g e) as [q|] eqn:E; [|discriminate]. rewrite (G _ _ E). exact H. }
  destruct code as [|[|[|[|[|[|[|[|[|[|[|[|c]]]]]]]]]]]]; try (left; exact H); try congruence.
  - left. cbn [al_add_node fst]. apply K. intros e0 q. apply get_edge_app.
  - left. destruct (al_add_edge g (arg x 0) (arg x 1) (arg x 2)) as [[[y i] g']| |] eqn:E; try exact H.
    cbn [fst]. apply al_add_edge_spec in E. destruct E as [r [_ [_ [_ [_ [_ [_ G]]]]]]]. apply K; auto.
  - destruct (al_update_edge g (arg x 0) (arg x 1) (arg x 2)) as [[[y i] g']| |] eqn:E;
      try (left; exact H).
    cbn [fst]. apply al_update_edge_spec in E. destruct E as [[F [G1 [G2 _]]]|[_ E]].
    + destruct e as [ea ei]. destruct (Nat.eq_dec ea y) as [->|Hne]; [destruct (Nat.eq_dec ei i) as [->|Hne]|].
      * right; left. splits; auto. unfold al_edge_weight. rewrite G1. reflexivity.
      * left. unfold al_edge_weight in *. rewrite G2; auto. congruence.
      * left. unfold al_edge_weight in *. rewrite G2; auto. congruence.
    + left. apply al_add_edge_spec in E. destruct E as [r [_ [_ [_ [_ [_ [_ G]]]]]]]. apply K; auto.
  - destruct (al_set_edge_weight g (arg x 0, arg x 1) (arg x 2)) as [ok g'] eqn:E. cbn [fst].
    apply al_set_edge_weight_spec in E. destruct E as [[_ [-> _]]|[_ [[s [w0 [_ G1]]] [G2 _]]]]; auto.
    destruct (Nat.eq_dec (fst e) (arg x 0)) as [E1|E1]; [destruct (Nat.eq_dec (snd e) (arg x 1)) as [E2|E2]|].
    + right; right. assert (Ee : e = (arg x 0, arg x 1)) by (destruct e; cbn [fst snd] in *; congruence).
      splits; auto. unfold al_edge_weight. rewrite Ee, G1. reflexivity.
    + left. unfold al_edge_weight in *. rewrite G2; auto. intros ->. cbn [snd] in E2. congruence.
    + left. unfold al_edge_weight in *. rewrite G2; auto. intros ->. cbn [fst] in E1. congruence.
  - left. cbn [al_add_node_from_edges fst]. apply K. intros e0 q. apply get_edge_app.
Qed.
