(* C13b: the mirror of Model/Vf2M.v validated against the reference of Model/IsoM.v by computation:
   on each pair the mappings of the iterator, sorted, are exactly sub_isos, and the boolean
   wrappers answer as is_iso / is_sub_iso.  (The exact order of the yields is compared with the
   crate by the differential harness; three order examples are pinned at the end.) *)
From PG Require Import Lib.Io Model.IsoM Model.Vf2M.

Fixpoint lex_ltb (a b : list nat) : bool :=
  match a, b with
  | [], [] => false
  | [], _ :: _ => true
  | _ :: _, [] => false
  | x :: a', y :: b' => if Nat.ltb x y then true else if Nat.ltb y x then false else lex_ltb a' b'
  end.
Fixpoint insert (x : list nat) (l : list (list nat)) : list (list nat) :=
  match l with
  | [] => [x]
  | h :: t => if lex_ltb h x then h :: insert x t else x :: l
  end.
Definition sort (l : list (list nat)) : list (list nat) := fold_right insert [] l.

(* the iterator (subgraph matching), sorted, is the reference; the four boolean wrappers agree with
   the reference; when the orders are equal, so does the isomorphism variant of the iterator *)
Definition agrees (nm em : Z) (g0 g1 : sgraph6) : Prop :=
  rmap sort (vf2_all true nm em g0 g1) = Ok (sub_isos nm em g0 g1) /\
  vf2_is_sub_iso nm em g0 g1 = Ok (is_sub_iso nm em g0 g1) /\
  vf2_is_iso nm em g0 g1 = Ok (is_iso nm em g0 g1) /\
  vf2_is_sub_iso_plain g0 g1 = Ok (is_sub_iso 0 0 g0 g1) /\
  vf2_is_iso_plain g0 g1 = Ok (is_iso 0 0 g0 g1) /\
  (s_n g0 = s_n g1 -> rmap sort (vf2_all false nm em g0 g1) = Ok (sub_isos nm em g0 g1)).

Ltac agree := vm_compute; repeat split; intros; try reflexivity; try discriminate.

Definition mkg (dir : bool) (n : nat) (es : list (nat * nat)) : sgraph6 :=
  mkSg dir (repeat 0%Z n) (map (fun st => (fst st, snd st, 0%Z)) es).

(* ---- undirected ---- *)
Definition e0 := mkg false 0 [].
Definition k1 := mkg false 1 [].
Definition l1 := mkg false 1 [(0,0)].
Definition e3 := mkg false 3 [].
Definition k2 := mkg false 2 [(0,1)].
Definition p3 := mkg false 3 [(0,1);(1,2)].
Definition p3b := mkg false 3 [(0,2);(2,1)].
Definition k3 := mkg false 3 [(0,1);(1,2);(2,0)].
Definition p4 := mkg false 4 [(0,1);(1,2);(2,3)].
Definition c4 := mkg false 4 [(0,1);(1,2);(2,3);(3,0)].
Definition star3 := mkg false 4 [(0,1);(0,2);(0,3)].
Definition paw := mkg false 4 [(0,1);(1,2);(2,0);(2,3)].
Definition diamond := mkg false 4 [(0,1);(1,2);(2,3);(3,0);(0,2)].
Definition k4 := mkg false 4 [(0,1);(0,2);(0,3);(1,2);(1,3);(2,3)].
Definition c5 := mkg false 5 [(0,1);(1,2);(2,3);(3,4);(4,0)].
Definition twok2 := mkg false 4 [(0,1);(2,3)].
Definition k1k2 := mkg false 3 [(1,2)].
Definition tree5 := mkg false 5 [(0,1);(1,4);(0,2);(2,3)].
Definition bull := mkg false 5 [(0,1);(1,2);(2,0);(0,3);(1,4)].
Definition k33 := mkg false 6 [(0,3);(0,4);(0,5);(1,3);(1,4);(1,5);(2,3);(2,4);(2,5)].
Definition prism := mkg false 6 [(0,1);(1,2);(2,0);(3,4);(4,5);(5,3);(0,3);(1,4);(2,5)].
Definition loops4 := mkg false 4 [(0,1);(1,1);(1,2);(2,3);(3,3)].
Definition loop_p3 := mkg false 3 [(0,1);(1,2);(1,1)].

Example vf2_t01 : agrees 0 0 p3 c5. Proof. agree. Qed.
Example vf2_t02 : agrees 0 0 k3 c5. Proof. agree. Qed.                 (* no triangle in C5 *)
Example vf2_t03 : agrees 0 0 p3 k3. Proof. agree. Qed.                 (* not induced *)
Example vf2_t04 : agrees 0 0 k3 k3. Proof. agree. Qed.
Example vf2_t05 : agrees 0 0 p3b tree5. Proof. agree. Qed.
Example vf2_t06 : agrees 0 0 p4 c5. Proof. agree. Qed.
Example vf2_t07 : agrees 0 0 c4 diamond. Proof. agree. Qed.            (* a subgraph, not induced *)
Example vf2_t08 : agrees 0 0 star3 k4. Proof. agree. Qed.
Example vf2_t09 : agrees 0 0 k3 paw. Proof. agree. Qed.
Example vf2_t10 : agrees 0 0 paw bull. Proof. agree. Qed.
Example vf2_t11 : agrees 0 0 k33 prism. Proof. agree. Qed.             (* two cubic graphs *)
Example vf2_t12 : agrees 0 0 k33 k33. Proof. agree. Qed.               (* 72 automorphisms *)
Example vf2_t13 : agrees 0 0 prism prism. Proof. agree. Qed.
Example vf2_t14 : agrees 0 0 twok2 c5. Proof. agree. Qed.              (* disconnected pattern *)
Example vf2_t15 : agrees 0 0 k1k2 twok2. Proof. agree. Qed.            (* isolated node in the pattern *)
Example vf2_t16 : agrees 0 0 e3 c5. Proof. agree. Qed.                 (* independent sets *)
Example vf2_t17 : agrees 0 0 e3 k4. Proof. agree. Qed.
Example vf2_t18 : agrees 0 0 l1 loops4. Proof. agree. Qed.             (* self-loops *)
Example vf2_t19 : agrees 0 0 k1 loops4. Proof. agree. Qed.             (* a loop-free node *)
Example vf2_t20 : agrees 0 0 loop_p3 loops4. Proof. agree. Qed.
Example vf2_t21 : agrees 0 0 k2 k2. Proof. agree. Qed.
Example vf2_t22 : agrees 0 0 e0 c5. Proof. agree. Qed.                 (* the empty first graph *)
Example vf2_t23 : agrees 0 0 e0 e0. Proof. agree. Qed.
Example vf2_t24 : agrees 0 0 c5 p3. Proof. agree. Qed.                 (* early rejection *)
Example vf2_t25 : agrees 0 0 c4 p4. Proof. agree. Qed.                 (* edge-count rejection *)
Example vf2_t26 : agrees 0 0 c4 twok2. Proof. agree. Qed.

(* ---- directed ---- *)
Definition dk1 := mkg true 1 [].
Definition dl1 := mkg true 1 [(0,0)].
Definition de := mkg true 2 [(0,1)].
Definition d2c := mkg true 2 [(0,1);(1,0)].
Definition dc3 := mkg true 3 [(0,1);(1,2);(2,0)].
Definition dt3 := mkg true 3 [(0,1);(1,2);(0,2)].
Definition dp3 := mkg true 3 [(0,1);(1,2)].
Definition dv_in := mkg true 3 [(0,2);(1,2)].
Definition dv_out := mkg true 3 [(2,0);(2,1)].
Definition dg4 := mkg true 4 [(3,1);(1,0);(2,0);(0,3)].
Definition dt4 := mkg true 4 [(0,1);(0,2);(0,3);(1,2);(1,3);(2,3)].
Definition dmix := mkg true 5 [(0,1);(1,0);(1,2);(2,2);(3,2);(3,4);(4,0)].
Definition dtwo := mkg true 4 [(0,1);(2,3)].

Example vf2_t27 : agrees 0 0 dc3 dt3. Proof. agree. Qed.
Example vf2_t28 : agrees 0 0 dc3 dc3. Proof. agree. Qed.
Example vf2_t29 : agrees 0 0 dp3 dt4. Proof. agree. Qed.               (* transitive: no induced path *)
Example vf2_t30 : agrees 0 0 dt3 dt4. Proof. agree. Qed.
Example vf2_t31 : agrees 0 0 de dg4. Proof. agree. Qed.
Example vf2_t32 : agrees 0 0 dp3 dg4. Proof. agree. Qed.
Example vf2_t33 : agrees 0 0 dv_in dg4. Proof. agree. Qed.             (* only incoming frontier *)
Example vf2_t34 : agrees 0 0 dv_out dt4. Proof. agree. Qed.
Example vf2_t35 : agrees 0 0 d2c dmix. Proof. agree. Qed.              (* 2-cycle *)
Example vf2_t36 : agrees 0 0 de dmix. Proof. agree. Qed.               (* a 2-cycle is not an induced edge *)
Example vf2_t37 : agrees 0 0 dl1 dmix. Proof. agree. Qed.
Example vf2_t38 : agrees 0 0 dk1 dmix. Proof. agree. Qed.
Example vf2_t39 : agrees 0 0 dtwo dmix. Proof. agree. Qed.             (* disconnected pattern *)
Example vf2_t40 : agrees 0 0 dmix dmix. Proof. agree. Qed.
Example vf2_t41 : agrees 0 0 dt4 dt4. Proof. agree. Qed.

(* ---- weights: node and edge predicates modulo nm / em ---- *)
Definition tri (nw : list Z) (ew : list Z) : sgraph6 :=
  mkSg false nw [(0, 1, nth 0 ew 0%Z); (1, 2, nth 1 ew 0%Z); (2, 0, nth 2 ew 0%Z)].
Definition wp3 := mkSg false [1;2;3]%Z [(0,1,5%Z);(1,2,8%Z)].
Definition wc5 := mkSg false [7;4;1;6;2]%Z [(0,1,1%Z);(1,2,2%Z);(2,3,3%Z);(3,4,4%Z);(4,0,6%Z)].
Definition wd3 := mkSg true [0;1;1]%Z [(0,1,3%Z);(0,2,4%Z)].
Definition wd4 := mkSg true [2;3;5;4]%Z [(0,1,1%Z);(0,2,2%Z);(3,0,7%Z);(3,1,9%Z);(3,2,6%Z)].
Definition wl2 := mkSg false [0;1]%Z [(0,0,1%Z);(0,1,2%Z)].
Definition wl3 := mkSg false [4;3;2]%Z [(0,1,4%Z);(1,1,3%Z);(2,2,5%Z);(1,2,7%Z)].

Example vf2_t42 : agrees 2 0 (tri [1;3;2]%Z [0;0;0]%Z) (tri [5;7;4]%Z [0;0;0]%Z). Proof. agree. Qed.
Example vf2_t43 : agrees 0 2 (tri [0;0;0]%Z [1;2;2]%Z) (tri [0;0;0]%Z [5;4;8]%Z). Proof. agree. Qed.
Example vf2_t44 : agrees 2 2 (tri [1;3;2]%Z [1;2;2]%Z) (tri [5;7;4]%Z [5;4;8]%Z). Proof. agree. Qed.
Example vf2_t45 : agrees 2 0 (tri [1;3;2]%Z [0;0;0]%Z) (tri [4;6;8]%Z [0;0;0]%Z). Proof. agree. Qed.
Example vf2_t46 : agrees 2 0 wp3 wc5. Proof. agree. Qed.
Example vf2_t47 : agrees 0 2 wp3 wc5. Proof. agree. Qed.
Example vf2_t48 : agrees 2 2 wp3 wc5. Proof. agree. Qed.
Example vf2_t49 : agrees 2 2 wd3 wd4. Proof. agree. Qed.
Example vf2_t50 : agrees 0 2 wd3 wd4. Proof. agree. Qed.
Example vf2_t51 : agrees 2 0 wd3 wd4. Proof. agree. Qed.
Example vf2_t52 : agrees 2 2 wl2 wl3. Proof. agree. Qed.
Example vf2_t53 : agrees 0 2 wl2 wl3. Proof. agree. Qed.
Example vf2_t54 : agrees 2 0 wl2 wl3. Proof. agree. Qed.

(* ---- the order of the yields (not the order of the reference) ---- *)
Example vf2_order_1 :
  vf2_all true 0 0 p3b tree5 = Ok [[0;4;1]; [0;3;2]; [1;2;0]; [2;1;0]; [3;0;2]; [4;0;1]] /\
  sub_isos 0 0 p3b tree5 = [[0;3;2]; [0;4;1]; [1;2;0]; [2;1;0]; [3;0;2]; [4;0;1]].
Proof. vm_compute. auto. Qed.

Example vf2_order_2 :
  vf2_all true 0 0 p3 c5 =
  Ok [[0;1;2]; [0;4;3]; [1;0;4]; [1;2;3]; [2;1;0]; [2;3;4]; [3;2;1]; [3;4;0]; [4;0;1]; [4;3;2]].
Proof. vm_compute. auto. Qed.

Example vf2_order_3 :
  vf2_all true 0 0 (mkg true 3 [(0,2);(2,1)]) (mkg true 5 [(0,1);(1,4);(0,2);(2,3)]) =
  Ok [[0;4;1]; [0;3;2]].
Proof. vm_compute. auto. Qed.

(* the repaired behaviour for an empty first graph: the empty mapping, once *)
Example vf2_empty_once :
  vf2_all true 0 0 e0 c5 = Ok [[]] /\ vf2_all false 0 0 e0 e0 = Ok [[]] /\
  vf2_sub_iter 0 0 e0 c5 = Ok (Some [[]]) /\ vf2_sub_iter 0 0 c5 p3 = Ok None.
Proof. vm_compute. auto. Qed.

(* the raw iterator in isomorphism mode between graphs of different orders (no public function
   builds it: is_isomorphic* reject unequal node counts first) yields embeddings of the smaller
   graph, and not all of them *)
Example vf2_raw_iso_mode :
  vf2_all false 0 0 k1 (mkg false 2 []) = Ok [[0]; [1]] /\
  vf2_all false 0 0 (mkg false 2 []) (mkg false 3 [(0,1)]) = Ok [[2;0]; [2;1]] /\
  sub_isos 0 0 (mkg false 2 []) (mkg false 3 [(0,1)]) = [[0;2]; [1;2]; [2;0]; [2;1]] /\
  vf2_is_iso 0 0 k1 (mkg false 2 []) = Ok false.
Proof. vm_compute. auto. Qed.

(* the line grammar of Model/IsoM.v answered by the mirror: on this script (where the order of the
   yields happens to be the lexicographic one) the same observations as the reference *)
Example vf2_run_case_ex :
  let ops := [(0, [0;0;0]%Z); (1, [0;1;0; 1;2;0]%Z); (2, [0;0;0;0;0]%Z);
              (3, [0;1;0; 1;2;0; 2;3;0; 3;4;0; 4;0;0]%Z);
              (10, []); (11, [0;0]%Z); (12, []); (13, [2;2]%Z); (14, [0;0]%Z)] in
  vf2_run_case [0;0]%Z ops = run_case [0;0]%Z ops.
Proof. vm_compute. reflexivity. Qed.
