(* C20g, part 1: the doubled-tree tour without Euler tours.
   For a distance D (zero on the diagonal, symmetric, triangle inequality) on a domain Dm, every tree (N, E)
   whose edges (a, b, w) satisfy D a b <= w, and every non-empty duplicate-free S inside N, there is an
   arrangement of S in a cycle of cost at most 2 * weight E  (cycle_tour).  Induction on the number of edges,
   removing a leaf: a tree with an edge has a leaf (handshake count), and removing a leaf keeps a tree. *)
From Coq Require Import Lia ZArith List Bool Permutation.
From PG Require Import Lib.Io Model.View Model.MiscM
  Spec.Partition Spec.Forest Spec.MiscSpec
  Proofs.ForestP Proofs.PrimP Proofs.MiscSteinerP1 Proofs.MiscSteinerP2 Proofs.SteinerMP1 Proofs.SteinerMP2.
Import ListNotations.
Local Open Scope nat_scope.

(* ------------------------------------------------------------------ *)
(* leaves of a tree                                                     *)

Definition inc (x : nat) : nat * nat * Z -> bool := fun '(a, b, _) => orb (Nat.eqb a x) (Nat.eqb b x).
Definition rmv (l : nat) (N : list nat) : list nat := filter (fun n => negb (mem n [l])) N.
Definition drop (l : nat) (E : list (nat * nat * Z)) : list (nat * nat * Z) := filter (fun e => negb (inc l e)) E.

Lemma degree_inc x es : degree x es = length (filter (inc x) es).
Proof. reflexivity. Qed.

Lemma rmv_In l N x : In x (rmv l N) <-> In x N /\ x <> l.
Proof.
  unfold rmv. rewrite filter_In, negb_true_iff, mem_false. cbn [In]. split.
  - intros [H1 H2]. split; [exact H1|]. intros E. apply H2. left. symmetry. exact E.
  - intros [H1 H2]. split; [exact H1|]. intros [E|[]]. apply H2. symmetry. exact E.
Qed.

Lemma rmv_length l N : NoDup N -> In l N -> S (length (rmv l N)) = length N.
Proof.
  intros ND Hl. assert (N1 : NoDup [l]) by (constructor; [intros [] | constructor]).
  assert (I1 : incl [l] N) by (intros x [<-|[]]; exact Hl).
  pose proof (filter_notin_length N [l] ND N1 I1) as E. cbn [length] in E. unfold rmv. lia.
Qed.

Lemma rmv_nodup l N : NoDup N -> NoDup (rmv l N).
Proof. intros ND. apply NoDup_filter, ND. Qed.

Lemma rmv_perm l N : NoDup N -> In l N -> Permutation N (l :: rmv l N).
Proof.
  intros ND Hl. apply NoDup_Permutation; [exact ND | |].
  - constructor; [|apply rmv_nodup, ND]. intros Hin. apply rmv_In in Hin. destruct Hin as [_ Hne]. apply Hne. reflexivity.
  - intros x. cbn [In]. rewrite rmv_In. split.
    + intros Hx. destruct (Nat.eq_dec l x) as [E|E]; [left; exact E | right; split; [exact Hx | congruence]].
    + intros [<-|[Hx _]]; assumption.
Qed.

Lemma drop_In l E a b w : In (a, b, w) (drop l E) <-> In (a, b, w) E /\ a <> l /\ b <> l.
Proof.
  unfold drop. rewrite filter_In, negb_true_iff. cbn [inc]. rewrite orb_false_iff, !Nat.eqb_neq. reflexivity.
Qed.

Lemma drop_length l E : length (drop l E) + degree l E = length E.
Proof. pose proof (filter_len_split (inc l) E) as H. rewrite degree_inc. unfold drop. lia. Qed.

Lemma acyclic3_filter (f : nat * nat * Z -> bool) : forall l prev, acyclic_from prev (ends l) -> acyclic_from prev (ends (filter f l)).
Proof.
  induction l as [|[[a b] w] t IH]; intros prev Hac; [exact Hac|].
  change (ends ((a, b, w) :: t)) with ((a, b) :: ends t) in Hac. cbn [acyclic_from] in Hac.
  destruct Hac as [Hn Hac]. cbn [filter]. destruct (f (a, b, w)).
  - change (ends ((a, b, w) :: filter f t)) with ((a, b) :: ends (filter f t)). cbn [acyclic_from].
    split; [exact Hn | apply IH, Hac].
  - apply IH. apply (acyclic_from_weaken _ ((a, b) :: prev)); [|exact Hac]. intros p Hp. right. exact Hp.
Qed.

Lemma filter_nil_false {A} (f : A -> bool) l : filter f l = [] -> forall e, In e l -> f e = false.
Proof.
  intros E e He. destruct (f e) eqn:Ef; [|reflexivity].
  assert (Hin : In e (filter f l)) by (apply filter_In; split; assumption). rewrite E in Hin. destruct Hin.
Qed.

(* the handshake count *)
Lemma deg_cons n a b w t :
  degree n ((a, b, w) :: t) = (if orb (Nat.eqb a n) (Nat.eqb b n) then 1 else 0) + degree n t.
Proof. unfold degree. cbn [filter]. destruct (orb (Nat.eqb a n) (Nat.eqb b n)); reflexivity. Qed.

Lemma ind_sum0 a : forall N, ~ In a N -> list_sum (map (fun n => if Nat.eqb a n then 1 else 0) N) = 0.
Proof.
  induction N as [|n N IH]; intros Hn; [reflexivity|]. cbn [map]. rewrite list_sum_cons.
  destruct (Nat.eqb_spec a n) as [E|E]; [exfalso; apply Hn; left; symmetry; exact E|].
  rewrite IH; [reflexivity|]. intros Hin. apply Hn. right. exact Hin.
Qed.

Lemma ind_sum1 a : forall N, NoDup N -> In a N -> list_sum (map (fun n => if Nat.eqb a n then 1 else 0) N) = 1.
Proof.
  induction N as [|n N IH]; intros ND Hin; [destruct Hin|]. inversion ND as [|x r Hx Hr]; subst.
  cbn [map]. rewrite list_sum_cons. destruct (Nat.eqb_spec a n) as [E|E].
  - subst n. rewrite (ind_sum0 a N Hx). reflexivity.
  - destruct Hin as [Hin|Hin]; [exfalso; apply E; symmetry; exact Hin|]. rewrite (IH Hr Hin). reflexivity.
Qed.

Lemma list_sum_zero {A} (l : list A) : list_sum (map (fun _ => 0) l) = 0.
Proof. induction l as [|h t IH]; [reflexivity|]. cbn [map]. rewrite list_sum_cons, IH. reflexivity. Qed.

Lemma handshake N : NoDup N -> forall E,
  (forall a b w, In (a, b, w) E -> In a N /\ In b N /\ a <> b) ->
  list_sum (map (fun n => degree n E) N) = 2 * length E.
Proof.
  intros ND. induction E as [|[[a b] w] t IH]; intros HE.
  - cbn [length]. rewrite Nat.mul_0_r. apply (list_sum_zero N).
  - destruct (HE a b w (or_introl eq_refl)) as [Ha [Hb Hab]].
    rewrite (map_ext _ _ (fun n => deg_cons n a b w t)), list_sum_add.
    rewrite IH; [|intros a' b' w' Hin; apply (HE a' b' w'); right; exact Hin].
    assert (Ex : forall n, (if orb (Nat.eqb a n) (Nat.eqb b n) then 1 else 0) =
                           (if Nat.eqb a n then 1 else 0) + (if Nat.eqb b n then 1 else 0)).
    { intros n. destruct (Nat.eqb_spec a n) as [E1|E1]; destruct (Nat.eqb_spec b n) as [E2|E2]; cbn [orb]; try reflexivity.
      exfalso. apply Hab. congruence. }
    rewrite (map_ext _ _ Ex), list_sum_add, (ind_sum1 a N ND Ha), (ind_sum1 b N ND Hb). cbn [length]. lia.
Qed.

Lemma sum_ge2 (f : nat -> nat) : forall N, (forall x, In x N -> 2 <= f x) -> 2 * length N <= list_sum (map f N).
Proof.
  induction N as [|n N IH]; intros H; [cbn; lia|]. cbn [map length]. rewrite list_sum_cons.
  pose proof (H n (or_introl eq_refl)). assert (2 * length N <= list_sum (map f N)) by (apply IH; intros x Hx; apply H; right; exact Hx).
  lia.
Qed.

Lemma find_one (f : nat -> nat) : forall N, (exists x, In x N /\ f x = 1) \/ (forall x, In x N -> f x <> 1).
Proof.
  induction N as [|n N IH]; [right; intros x []|].
  destruct (Nat.eq_dec (f n) 1) as [E|E]; [left; exists n; split; [left; reflexivity | exact E]|].
  destruct IH as [[x [Hx Ex]]|IH]; [left; exists x; split; [right; exact Hx | exact Ex]|].
  right. intros x [<-|Hx]; [exact E | apply IH, Hx].
Qed.

Lemma tree_edges_ok N E : IsTree N (ends E) -> forall a b w, In (a, b, w) E -> In a N /\ In b N /\ a <> b.
Proof.
  intros [_ [_ [He [Hac _]]]] a b w Hin.
  assert (Hab : In (a, b) (ends E)) by (apply ends_In; exists w; exact Hin).
  destruct (He a b Hab) as [Ha Hb]. split; [exact Ha|]. split; [exact Hb|].
  intros E0. subst b. apply (acyclic_from_no_loop (ends E) [] a Hac Hab).
Qed.

Lemma tree_deg_pos N E x : IsTree N (ends E) -> 2 <= length N -> In x N -> 1 <= degree x E.
Proof.
  intros HT H2 Hx. destruct (degree x E) as [|d] eqn:Ed; [exfalso | lia].
  rewrite degree_inc in Ed. apply length_zero_iff_nil in Ed.
  pose proof (filter_nil_false (inc x) E Ed) as Hf.
  destruct HT as [_ [ND [_ [_ Hc]]]].
  assert (Hy : exists y, In y N /\ y <> x).
  { destruct N as [|n1 [|n2 r]]; cbn [length] in H2; try lia.
    inversion ND as [|u r' Hu Hr]; subst.
    destruct (Nat.eq_dec n1 x) as [E1|E1].
    - exists n2. split; [right; left; reflexivity|]. intros E2. apply Hu. left. congruence.
    - exists n1. split; [left; reflexivity | exact E1]. }
  destruct Hy as [y [Hy Hne]].
  pose proof (Hc x y Hx Hy) as C.
  assert (Hcl : forall u v, In (u, v) (ends E) -> (u = x <-> v = x)).
  { intros u v Huv. apply ends_In in Huv. destruct Huv as [w Hin]. specialize (Hf _ Hin). cbn [inc] in Hf.
    apply orb_false_iff in Hf. destruct Hf as [F1 F2]. apply Nat.eqb_neq in F1. apply Nat.eqb_neq in F2. tauto. }
  pose proof (conn_respects (fun z => z = x) (ends E) Hcl x y C) as [H1 _]. apply Hne. apply H1. reflexivity.
Qed.

Lemma tree_leaf N E : IsTree N (ends E) -> 2 <= length N -> exists l, In l N /\ degree l E = 1.
Proof.
  intros HT H2. destruct (find_one (fun n => degree n E) N) as [H|H]; [exact H|]. exfalso.
  pose proof (IsTree_count N (ends E) HT) as Ec. rewrite ends_length in Ec.
  pose proof HT as [_ [ND _]].
  pose proof (handshake N ND E (tree_edges_ok N E HT)) as Eh.
  assert (G : 2 * length N <= list_sum (map (fun n => degree n E) N)).
  { apply sum_ge2. intros x Hx. pose proof (tree_deg_pos N E x HT H2 Hx). specialize (H x Hx). cbn beta in H. lia. }
  lia.
Qed.

Lemma leaf_edge l E : degree l E = 1 -> exists a b w, filter (inc l) E = [(a, b, w)].
Proof.
  rewrite degree_inc. destruct (filter (inc l) E) as [|[[a b] w] [|e r]]; cbn [length]; intros H; try discriminate H.
  exists a, b, w. reflexivity.
Qed.

Lemma weight_split (f : nat * nat * Z -> bool) : forall E,
  weight E = (weight (filter f E) + weight (filter (fun e => negb (f e)) E))%Z.
Proof.
  unfold weight. induction E as [|e t IH]; [reflexivity|]. cbn [filter map fold_right].
  destruct (f e); cbn [negb map fold_right]; lia.
Qed.

Lemma tree_remove_leaf N E l : IsTree N (ends E) -> In l N -> degree l E = 1 ->
  IsTree (rmv l N) (ends (drop l E)).
Proof.
  intros HT Hl Hd.
  pose proof (IsTree_count N (ends E) HT) as Ec. rewrite ends_length in Ec.
  pose proof HT as [_ [ND [He [Hac _]]]].
  pose proof (rmv_length l N ND Hl) as E1. pose proof (drop_length l E) as E2.
  apply forest_count_tree.
  - intros E0. rewrite E0 in E1. cbn [length] in E1. lia.
  - apply rmv_nodup, ND.
  - intros a b Hab. apply ends_In in Hab. destruct Hab as [w Hin]. apply drop_In in Hin. destruct Hin as [Hin [Ha Hb]].
    destruct (He a b) as [Ia Ib]; [apply ends_In; exists w; exact Hin|].
    split; apply rmv_In; split; assumption.
  - apply acyclic3_filter, Hac.
  - rewrite ends_length. lia.
Qed.

(* ------------------------------------------------------------------ *)
(* cyclic arrangements under a metric                                   *)

Section Metric.
  Local Open Scope Z_scope.
  Variable Dm : nat -> Prop.
  Variable D : nat -> nat -> Z.
  Hypothesis D_refl : forall a, Dm a -> D a a = 0.
  Hypothesis D_sym : forall a b, Dm a -> Dm b -> D a b = D b a.
  Hypothesis D_tri : forall a b c, Dm a -> Dm b -> Dm c -> D a c <= D a b + D b c.

  Definition AllDm (l : list nat) : Prop := forall x, In x l -> Dm x.

  Lemma D_nonneg a b : Dm a -> Dm b -> 0 <= D a b.
  Proof.
    intros Ha Hb. pose proof (D_tri a b a Ha Hb Ha) as H. rewrite (D_refl a Ha), (D_sym b a Hb Ha) in H. lia.
  Qed.

  (* the cost of the path x1 - x2 - ... - xk *)
  Fixpoint pcost (l : list nat) : Z :=
    match l with
    | [] => 0
    | x :: t => match t with [] => 0 | y :: _ => D x y + pcost t end
    end.
  (* the cost of the cycle x1 - x2 - ... - xk - x1 *)
  Definition closed (l : list nat) : Z := pcost (l ++ [hd 0%nat l]).

  Lemma pcost_cons x y t : pcost (x :: y :: t) = D x y + pcost (y :: t).
  Proof. reflexivity. Qed.
  Lemma pcost_one x : pcost [x] = 0.
  Proof. reflexivity. Qed.

  Lemma pcost_app : forall l1 x l2, pcost (l1 ++ x :: l2) = pcost (l1 ++ [x]) + pcost (x :: l2).
  Proof.
    induction l1 as [|a l1 IH]; intros x l2.
    - cbn [app]. rewrite pcost_one. lia.
    - destruct l1 as [|b r].
      + cbn [app]. rewrite !pcost_cons, pcost_one. lia.
      + specialize (IH x l2). cbn [app] in IH |- *. rewrite (pcost_cons a b), (pcost_cons a b), IH. lia.
  Qed.

  Lemma pcost_app' a l1 x l2 : pcost (a :: l1 ++ x :: l2) = pcost (a :: l1 ++ [x]) + pcost (x :: l2).
  Proof. exact (pcost_app (a :: l1) x l2). Qed.

  Lemma closed_cons a l : closed (a :: l) = pcost (a :: l ++ [a]).
  Proof. reflexivity. Qed.

  Lemma closed_rot l1 l2 : closed (l1 ++ l2) = closed (l2 ++ l1).
  Proof.
    destruct l1 as [|a l1]; [rewrite app_nil_r; reflexivity|].
    destruct l2 as [|b l2]; [rewrite app_nil_r; reflexivity|].
    cbn [app]. rewrite !closed_cons, <- !app_assoc. cbn [app].
    rewrite (pcost_app' a l1 b (l2 ++ [a])), (pcost_app' b l2 a (l1 ++ [b])). lia.
  Qed.

  Lemma pcost_head x p m : Dm x -> Dm p -> AllDm m -> pcost (x :: m) <= D x p + pcost (p :: m).
  Proof.
    intros Hx Hp Hm. destruct m as [|y r].
    - rewrite !pcost_one. pose proof (D_nonneg x p Hx Hp). lia.
    - rewrite !pcost_cons. pose proof (D_tri x p y Hx Hp (Hm y (or_introl eq_refl))). lia.
  Qed.

  Lemma pcost_last x p : Dm x -> Dm p -> forall m, AllDm m -> pcost (m ++ [x]) <= pcost (m ++ [p]) + D p x.
  Proof.
    intros Hx Hp. induction m as [|a m IH]; intros Hm.
    - cbn [app]. rewrite !pcost_one. pose proof (D_nonneg p x Hp Hx). lia.
    - assert (Hm' : AllDm m) by (intros z Hz; apply Hm; right; exact Hz). specialize (IH Hm').
      destruct m as [|b r].
      + cbn [app]. rewrite !pcost_cons, !pcost_one. pose proof (D_tri a p x (Hm a (or_introl eq_refl)) Hp Hx). lia.
      + cbn [app] in IH |- *. rewrite (pcost_cons a b), (pcost_cons a b). lia.
  Qed.

  Lemma pcost_snoc_ge h : Dm h -> forall m, AllDm m -> pcost m <= pcost (m ++ [h]).
  Proof.
    intros Hh. induction m as [|a m IH]; intros Hm; [cbn; lia|].
    assert (Hm' : AllDm m) by (intros z Hz; apply Hm; right; exact Hz). specialize (IH Hm').
    destruct m as [|b r].
    - cbn [app]. rewrite pcost_cons, !pcost_one. pose proof (D_nonneg a h (Hm a (or_introl eq_refl)) Hh). lia.
    - cbn [app] in IH |- *. rewrite (pcost_cons a b), (pcost_cons a b). lia.
  Qed.

  Lemma pcost_le_closed l : AllDm l -> pcost l <= closed l.
  Proof.
    intros Hl. destruct l as [|a l]; [cbn; lia|]. unfold closed. cbn [hd].
    apply pcost_snoc_ge; [apply Hl; left; reflexivity | exact Hl].
  Qed.

  (* a new node l right after p *)
  Lemma closed_insert p l m : Dm p -> Dm l -> AllDm m -> closed (p :: l :: m) <= closed (p :: m) + 2 * D p l.
  Proof.
    intros Hp Hl Hm. rewrite !closed_cons. cbn [app]. rewrite pcost_cons.
    assert (Hm' : AllDm (m ++ [p])).
    { intros z Hz. apply in_app_iff in Hz. destruct Hz as [Hz|[<-|[]]]; [apply Hm, Hz | exact Hp]. }
    pose proof (pcost_head l p (m ++ [p]) Hl Hp Hm'). rewrite (D_sym l p Hl Hp) in H. lia.
  Qed.

  (* l in the place of p *)
  Lemma closed_replace p l m : Dm p -> Dm l -> AllDm m -> closed (l :: m) <= closed (p :: m) + 2 * D p l.
  Proof.
    intros Hp Hl Hm. rewrite !closed_cons.
    assert (Hlm : AllDm (l :: m)) by (intros z [<-|Hz]; [exact Hl | apply Hm, Hz]).
    pose proof (pcost_last l p Hl Hp (l :: m) Hlm) as H1. cbn [app] in H1.
    assert (Hm' : AllDm (m ++ [p])).
    { intros z Hz. apply in_app_iff in Hz. destruct Hz as [Hz|[<-|[]]]; [apply Hm, Hz | exact Hp]. }
    pose proof (pcost_head l p (m ++ [p]) Hl Hp Hm') as H2. rewrite (D_sym l p Hl Hp) in H2. lia.
  Qed.

  Lemma rotate_to L p : In p L -> exists m, Permutation (p :: m) L /\ closed (p :: m) = closed L.
  Proof.
    intros Hin. destruct (in_split p L Hin) as [l1 [l2 ->]]. exists (l2 ++ l1). split.
    - apply (Permutation_app_comm (p :: l2) l1).
    - apply (closed_rot (p :: l2) l1).
  Qed.

  (* ---------------------------------------------------------------- *)
  (* the tour                                                          *)

  Definition EdgeOk (E : list (nat * nat * Z)) : Prop := forall a b w, In (a, b, w) E -> D a b <= w.

  Theorem cycle_tour : forall n N E S, length E = n -> IsTree N (ends E) -> AllDm N -> EdgeOk E ->
    NoDup S -> S <> [] -> incl S N -> exists L, Permutation L S /\ closed L <= 2 * weight E.
  Proof.
    induction n as [|n IH]; intros N E S El HT HD HE NS Sne Si.
    - pose proof (IsTree_count N (ends E) HT) as Ec. rewrite ends_length, El in Ec.
      pose proof HT as [_ [ND _]].
      pose proof (NoDup_incl_length NS Si) as Hle.
      destruct S as [|x [|y r]]; [exfalso; apply Sne; reflexivity | | cbn [length] in Hle; lia].
      exists [x]. split; [apply Permutation_refl|].
      apply length_zero_iff_nil in El. subst E.
      unfold closed, weight. cbn [hd app map fold_right]. rewrite pcost_cons, pcost_one.
      rewrite (D_refl x); [lia|]. apply HD, Si. left. reflexivity.
    - pose proof (IsTree_count N (ends E) HT) as Ec. rewrite ends_length, El in Ec.
      pose proof HT as [_ [ND _]].
      destruct (tree_leaf N E HT) as [l [Hl Hd]]; [lia|].
      destruct (leaf_edge l E Hd) as [a [b [w Hf]]].
      assert (Hin : In (a, b, w) E /\ inc l (a, b, w) = true).
      { apply filter_In. rewrite Hf. left. reflexivity. }
      destruct Hin as [Hin Hinc].
      destruct (tree_edges_ok N E HT a b w Hin) as [Ha [Hb Hab]].
      assert (Hp : exists p, In p N /\ p <> l /\ D p l <= w).
      { cbn [inc] in Hinc. apply orb_true_iff in Hinc. destruct Hinc as [E0|E0]; apply Nat.eqb_eq in E0; subst l.
        - exists b. split; [exact Hb|]. split; [congruence|].
          rewrite (D_sym b a (HD b Hb) (HD a Ha)). apply (HE a b w Hin).
        - exists a. split; [exact Ha|]. split; [exact Hab|]. apply (HE a b w Hin). }
      destruct Hp as [p [Hp [Hpl Hw]]].
      assert (Dp : Dm p) by (apply HD, Hp). assert (Dl : Dm l) by (apply HD, Hl).
      pose proof (D_nonneg p l Dp Dl) as Hpos.
      assert (Ew : weight E = w + weight (drop l E)).
      { rewrite (weight_split (inc l) E), Hf. unfold weight at 1. cbn [map snd fold_right]. unfold drop. lia. }
      pose proof (tree_remove_leaf N E l HT Hl Hd) as HT'.
      assert (El' : length (drop l E) = n) by (pose proof (drop_length l E); lia).
      assert (HD' : AllDm (rmv l N)) by (intros x Hx; apply rmv_In in Hx; apply HD, Hx).
      assert (HE' : EdgeOk (drop l E)).
      { intros a' b' w' Hin'. apply drop_In in Hin'. apply (HE a' b' w'), Hin'. }
      destruct (in_dec Nat.eq_dec l S) as [HlS|HlS].
      + pose proof (rmv_perm l S NS HlS) as PS.
        assert (I0 : incl (rmv l S) (rmv l N)).
        { intros x Hx. apply rmv_In in Hx. apply rmv_In. split; [apply Si, Hx | apply Hx]. }
        destruct (in_dec Nat.eq_dec p S) as [HpS|HpS].
        * assert (HpS0 : In p (rmv l S)) by (apply rmv_In; split; assumption).
          destruct (IH (rmv l N) (drop l E) (rmv l S) El' HT' HD' HE' (rmv_nodup l S NS)) as [L' [PL Hc]].
          { intros E0. rewrite E0 in HpS0. destruct HpS0. }
          { exact I0. }
          destruct (rotate_to L' p) as [m [Pm Em]]; [apply (Permutation_in p (Permutation_sym PL)), HpS0|].
          exists (p :: l :: m). split.
          -- apply (perm_trans (perm_swap l p m)). apply Permutation_sym. apply (perm_trans PS).
             apply perm_skip. apply Permutation_sym. apply (perm_trans Pm PL).
          -- assert (Hm : AllDm m).
             { intros x Hx. apply HD, Si. apply (Permutation_in x (Permutation_sym PS)). right.
               apply (Permutation_in x PL), (Permutation_in x Pm). right. exact Hx. }
             pose proof (closed_insert p l m Dp Dl Hm). lia.
        * destruct (IH (rmv l N) (drop l E) (p :: rmv l S) El' HT' HD' HE') as [L' [PL Hc]].
          { constructor; [|apply rmv_nodup, NS]. intros Hx. apply rmv_In in Hx. apply HpS, Hx. }
          { discriminate. }
          { intros x [<-|Hx]; [apply rmv_In; split; assumption | apply I0, Hx]. }
          destruct (rotate_to L' p) as [m [Pm Em]]; [apply (Permutation_in p (Permutation_sym PL)); left; reflexivity|].
          assert (Pm' : Permutation m (rmv l S)) by (apply (Permutation_cons_inv (a := p)), (perm_trans Pm PL)).
          exists (l :: m). split.
          -- apply Permutation_sym. apply (perm_trans PS). apply perm_skip. apply Permutation_sym. exact Pm'.
          -- assert (Hm : AllDm m).
             { intros x Hx. apply HD, Si. apply (Permutation_in x (Permutation_sym PS)). right.
               apply (Permutation_in x Pm'). exact Hx. }
             pose proof (closed_replace p l m Dp Dl Hm). lia.
      + destruct (IH (rmv l N) (drop l E) S El' HT' HD' HE' NS Sne) as [L' [PL Hc]].
        { intros x Hx. apply rmv_In. split; [apply Si, Hx|]. intros E0. subst x. apply HlS, Hx. }
        exists L'. split; [exact PL | lia].
  Qed.
End Metric.
