(* The results on the basic algorithms in the form the property file C09 states them. *)
From Coq Require Import Permutation NArith.
From PG Require Import Lib.Io Model.View Model.Traversal Model.AlgoBasic Spec.Reach Spec.Partition
                       Spec.AlgoSpec Proofs.AlgoBasicP Proofs.AlgoUfP Proofs.ToposortP Proofs.CyclicP
                       Proofs.KosarajuP Proofs.BipartiteP Proofs.TarjanP.

(* ------------------------------------------------------------------ has_path_connecting *)

Theorem has_path_all v a b : VOk v -> in_cap v a ->
  (has_path_connecting v a b = Ok true <-> reachable v a b) /\
  (has_path_connecting v a b = Ok false <-> ~ reachable v a b) /\
  (exists r, has_path_connecting v a b = Ok r).
Proof.
  intros Hv Ha. destruct (@has_path_iff v a b Hv Ha) as [H1 H2]. split; [exact H1|]. split; [exact H2|].
  destruct (@has_path_spec v a b Hv Ha) as [r [E _]]. exists r; exact E.
Qed.

(* ------------------------------------------------------------------ toposort *)

Theorem toposort_total v : VOk v -> exists r, toposort v = Ok r.
Proof. intros Hv. destruct (@toposort_spec v Hv) as [r [E _]]. exists r; exact E. Qed.

Theorem toposort_ok_sound v l : VOk v -> toposort v = Ok (inr l) ->
  NoDup l /\ (forall x, In x l <-> In x (vnodes v)) /\
  (NoDup (vnodes v) -> Permutation l (vnodes v)) /\
  (forall l1 u l2 w, l = l1 ++ u :: l2 -> step v u w -> In w l2) /\
  acyclic v.
Proof.
  intros Hv E. pose proof (@toposort_ok_acyclic v l Hv E) as Hac.
  destruct (@toposort_spec v Hv) as [r [E' Hr]]. rewrite E in E'. injection E' as <-.
  destruct Hr as [Hnd [Hln Hf]].
  split; [exact Hnd|]. split; [exact Hln|]. split; [|split; [exact Hf | exact Hac]].
  intros Hndv. apply NoDup_Permutation; assumption.
Qed.

Theorem toposort_cycle v n : VOk v -> toposort v = Ok (inl n) -> In n (vnodes v) /\ on_cycle v n.
Proof.
  intros Hv E. destruct (@toposort_spec v Hv) as [r [E' Hr]]. rewrite E in E'. injection E' as <-. exact Hr.
Qed.

Theorem toposort_iff v : VOk v ->
  ((exists l, toposort v = Ok (inr l)) <-> acyclic v) /\
  ((exists n, toposort v = Ok (inl n)) <-> exists n, In n (vnodes v) /\ on_cycle v n).
Proof.
  intros Hv. split; split.
  - intros [l E]. apply (@toposort_ok_acyclic v l Hv E).
  - apply (@toposort_complete v Hv).
  - intros [n E]. exists n. apply (toposort_cycle v n Hv E).
  - intros [n [_ Hc]]. destruct (@toposort_spec v Hv) as [r [E Hr]]. destruct r as [m|l].
    + exists m; exact E.
    + exfalso. apply (@toposort_ok_acyclic v l Hv E n Hc).
Qed.

(* a self-loop is a cycle: toposort reports one *)
Theorem toposort_selfloop v n : VOk v -> In n (vnodes v) -> step v n n ->
  exists m, toposort v = Ok (inl m) /\ In m (vnodes v) /\ on_cycle v m.
Proof.
  intros Hv Nn Hs. destruct (toposort_iff v Hv) as [_ [_ H]].
  destruct H as [m E].
  - exists n. split; [exact Nn|]. exists n. split; [exact Hs | apply reach_refl].
  - exists m. split; [exact E | apply (toposort_cycle v m Hv E)].
Qed.

(* the Dfs handed over in a DfsSpace is reset before use: what it held is irrelevant *)
Lemma dfsspace_reuse v order d : topo_pass2 v order (dfs_reset d) = topo_pass2 v order dfs_empty.
Proof. reflexivity. Qed.

Lemma toposort_twice debug v a :
  exists l, algo_query debug v (22, a) = [l] /\ algo_query debug v (23, a) = [l; l].
Proof. eexists. split; reflexivity. Qed.

(* ------------------------------------------------------------------ is_cyclic_directed *)

Theorem is_cyclic_directed_all v debug : VOk v ->
  (is_cyclic_directed v debug = Ok true <-> exists n, In n (vnodes v) /\ on_cycle v n) /\
  (is_cyclic_directed v debug = Ok false <-> acyclic v) /\
  (exists b, is_cyclic_directed v debug = Ok b).
Proof.
  intros Hv. destruct (is_cyclic_directed_spec v debug Hv) as [b [E Hb]]. rewrite E.
  split; [|split; [|exists b; reflexivity]].
  - split; [intros H; injection H as ->; apply Hb; reflexivity | intros H; apply Hb in H; rewrite H; reflexivity].
  - split.
    + intros H c Hc. injection H as ->. destruct Hc as [c' [Hs R]].
      assert (Ht : false = true); [|discriminate Ht].
      apply Hb. exists c. split; [|exists c'; split; assumption].
      destruct Hv as [_ [Hn _]]. apply (Hn c c' Hs).
    + intros Ha. destruct b; [|reflexivity]. exfalso.
      destruct (proj1 Hb eq_refl) as [n [_ Hc]]. exact (Ha n Hc).
Qed.

(* ------------------------------------------------------------------ kosaraju_scc *)

Theorem kosaraju_all v : VOk v ->
  exists ls, kosaraju_scc v = Ok ls /\
    NoDup (concat ls) /\ (forall x, In x (concat ls) <-> In x (vnodes v)) /\
    (NoDup (vnodes v) -> Permutation (concat ls) (vnodes v)) /\
    Forall (scc_class v) ls /\ no_later_reach v ls.
Proof.
  intros Hv. destruct (kosaraju_spec v Hv) as [ls [E [Hnd [Hin [Hcl Hor]]]]].
  exists ls. split; [exact E|]. split; [exact Hnd|]. split; [exact Hin|].
  split; [|split; [exact Hcl | exact Hor]].
  intros Hndv. apply NoDup_Permutation; assumption.
Qed.

Theorem kosaraju_order v ls : VOk v -> kosaraju_scc v = Ok ls ->
  Forall (scc_class v) ls /\ no_later_reach v ls.
Proof.
  intros Hv E. destruct (kosaraju_spec v Hv) as [ls' [E' [_ [_ [Hcl Hor]]]]].
  rewrite E in E'. injection E' as <-. split; [exact Hcl | exact Hor].
Qed.

(* ------------------------------------------------------------------ is_bipartite_undirected *)

Theorem is_bipartite_all v s : VOk v -> in_cap v s ->
  (is_bipartite_undirected v s = Ok true <-> two_colourable v s) /\
  (is_bipartite_undirected v s = Ok false <-> ~ two_colourable v s) /\
  (exists b, is_bipartite_undirected v s = Ok b).
Proof.
  intros Hv Hs. destruct (is_bipartite_spec v Hv s Hs) as [b [E Hb]]. rewrite E.
  split; [|split; [|exists b; reflexivity]].
  - split; [intros H; injection H as ->; apply Hb; reflexivity | intros H; apply Hb in H; rewrite H; reflexivity].
  - split.
    + intros H T. injection H as ->. apply Hb in T. discriminate T.
    + intros H. destruct b; [exfalso; apply H, Hb; reflexivity | reflexivity].
Qed.

(* ------------------------------------------------------------------ tarjan_scc *)

Theorem tarjan_partition_all v debug :
  VOk v -> (forall n, In n (vnodes v) -> n < vbound v) ->
  (N.of_nat (length (vnodes v)) < USIZE_MAX)%N ->
  exists ls, tarjan_scc v debug = Ok ls /\
    NoDup (concat ls) /\ (forall x, In x (concat ls) <-> In x (vnodes v)) /\
    (NoDup (vnodes v) -> Permutation (concat ls) (vnodes v)) /\
    Forall (fun c => c <> []) ls.
Proof.
  intros Hv Hb Hs. destruct (tarjan_partition v debug Hv Hb Hs) as [ls [E [Hnd [Hin Hne]]]].
  exists ls. split; [exact E|]. split; [exact Hnd|]. split; [exact Hin|]. split; [|exact Hne].
  intros Hndv. apply NoDup_Permutation; assumption.
Qed.

(* both SCC functions return the nodes of the view, each exactly once *)
Theorem scc_is_partition v debug :
  VOk v -> (forall n, In n (vnodes v) -> n < vbound v) ->
  (N.of_nat (length (vnodes v)) < USIZE_MAX)%N ->
  exists lk lt, kosaraju_scc v = Ok lk /\ tarjan_scc v debug = Ok lt /\
    NoDup (concat lk) /\ NoDup (concat lt) /\
    (forall x, In x (concat lk) <-> In x (vnodes v)) /\
    (forall x, In x (concat lt) <-> In x (vnodes v)) /\
    Permutation (concat lk) (concat lt).
Proof.
  intros Hv Hb Hs.
  destruct (kosaraju_spec v Hv) as [lk [Ek [Nk [Ik _]]]].
  destruct (tarjan_partition v debug Hv Hb Hs) as [lt [Et [Nt [It _]]]].
  exists lk, lt. split; [exact Ek|]. split; [exact Et|]. split; [exact Nk|]. split; [exact Nt|].
  split; [exact Ik|]. split; [exact It|].
  apply NoDup_Permutation; [exact Nk | exact Nt|]. intros x. rewrite Ik, It. reflexivity.
Qed.
