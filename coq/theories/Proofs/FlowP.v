(* ford_fulkerson (FlowM.v) is total and returns a maximum flow with a minimum-cut
   certificate (C15, F3). *)
From PG Require Import Lib.Io Model.View Model.MatchM Model.FlowM Spec.Reach Spec.FlowSpec
  Proofs.TravBase Proofs.FlowSpecP.
Open Scope Z_scope.

(* ------------------------------------------------------------------ *)
(* Small facts about the checked accessors                             *)

Lemma getp_f_of flows i : (i < length flows)%nat -> getp flows i = Ok (f_of flows i).
Proof.
  intros Hi. unfold getp, f_of. destruct (nth_error flows i) as [x|] eqn:E.
  - rewrite (nth_error_nth flows i 0 E). reflexivity.
  - apply nth_error_None in E. lia.
Qed.

Lemma getp_nth {A} (l : list A) i x : nth_error l i = Some x -> getp l i = Ok x.
Proof. intros H. unfold getp. rewrite H. reflexivity. Qed.

Lemma setp_ok {A} (l : list A) i x : (i < length l)%nat -> setp l i x = Ok (upd l i x).
Proof. intros H. unfold setp. destruct (Nat.ltb_spec i (length l)); [reflexivity | lia]. Qed.

(* ------------------------------------------------------------------ *)
(* Residual edges                                                      *)

(* the residual capacity of e for a push that arrives at its endpoint y *)
Definition rcap (f : nat -> Z) (e : fedge) (y : nat) : Z :=
  if Nat.eqb y (fe_src e) then f (fe_id e) else fe_cap e - f (fe_id e).

(* e joins p to y (in either direction), p <> y *)
Definition link (e : fedge) (p y : nat) : Prop :=
  p <> y /\ ((fe_src e = p /\ fe_tgt e = y) \/ (fe_tgt e = p /\ fe_src e = y)).

Lemma other_endpoint_inc e x : fe_src e = x \/ fe_tgt e = x ->
  exists next, other_endpoint e x = Ok next /\ (next = fe_src e \/ next = fe_tgt e) /\
               (forall y, link e x y -> y = next) /\ (next <> x -> link e x next).
Proof.
  intros Hx. unfold other_endpoint. destruct (Nat.eqb_spec x (fe_src e)) as [Hs|Hs].
  - exists (fe_tgt e). split; [reflexivity|]. split; [right; reflexivity|]. split.
    + intros y [Hne [[_ H]|[H1 H2]]]; [symmetry; exact H|]. exfalso; apply Hne. congruence.
    + intros Hne. split; [congruence|]. left. split; [congruence | reflexivity].
  - assert (Ht : fe_tgt e = x) by (destruct Hx as [Hx|Hx]; [exfalso; apply Hs; symmetry; exact Hx | exact Hx]).
    destruct (Nat.eqb_spec x (fe_tgt e)) as [_|Hn]; [|exfalso; apply Hn; symmetry; exact Ht].
    exists (fe_src e). split; [reflexivity|]. split; [left; reflexivity|]. split.
    + intros y [Hne [[H1 _]|[_ H2]]]; [exfalso; apply Hs; symmetry; exact H1 | symmetry; exact H2].
    + intros Hne. split; [congruence|]. right. split; [exact Ht | reflexivity].
Qed.

Lemma link_other e p y : link e p y -> other_endpoint e y = Ok p.
Proof.
  intros [Hne [[H1 H2]|[H1 H2]]]; unfold other_endpoint.
  - destruct (Nat.eqb_spec y (fe_src e)) as [Hs|Hs]; [exfalso; apply Hne; congruence|].
    destruct (Nat.eqb_spec y (fe_tgt e)) as [_|Hn]; [rewrite H1; reflexivity | exfalso; apply Hn; symmetry; exact H2].
  - destruct (Nat.eqb_spec y (fe_src e)) as [_|Hs]; [rewrite H1; reflexivity | exfalso; apply Hs; symmetry; exact H2].
Qed.

Lemma residual_capacity_ok f e y : y = fe_src e \/ y = fe_tgt e ->
  residual_capacity e y (f (fe_id e)) = Ok (rcap f e y).
Proof.
  intros Hy. unfold residual_capacity, rcap. destruct (Nat.eqb_spec y (fe_src e)) as [_|Hs]; [reflexivity|].
  destruct (Nat.eqb_spec y (fe_tgt e)) as [_|Hn]; [reflexivity|]. exfalso; destruct Hy; contradiction.
Qed.

Lemma link_endpoint e p y : link e p y -> y = fe_src e \/ y = fe_tgt e.
Proof. intros [_ [[_ H]|[_ H]]]; [right | left]; symmetry; exact H. Qed.

Lemma link_src_tgt e p y : link e p y ->
  (fe_src e = p /\ fe_tgt e = y) \/ (fe_src e = y /\ fe_tgt e = p).
Proof. intros [_ [[H1 H2]|[H1 H2]]]; [left | right]; split; assumption. Qed.

Lemma adjust_ok e p y fl delta : link e p y ->
  adjust_residual_flow e y fl delta = Ok (fl + (if Nat.eqb y (fe_src e) then - delta else delta)).
Proof.
  intros Hl. unfold adjust_residual_flow. destruct (Nat.eqb_spec y (fe_src e)) as [_|Hs]; [f_equal; lia|].
  destruct (link_endpoint e p y Hl) as [H|H]; [contradiction|].
  destruct (Nat.eqb_spec y (fe_tgt e)) as [_|Hn]; [reflexivity | contradiction].
Qed.

(* ------------------------------------------------------------------ *)

Section Flow.
Variable v : view.
Hypothesis Hv : FOk v.
Variables s t : nat.
Hypothesis Hs : In s (vnodes v).
Hypothesis Ht : In t (vnodes v).
Hypothesis Hst : s <> t.
Local Notation E := (fedges v).

Lemma E_ids : NoDup (map fe_id E).
Proof. exact (fok_ids v Hv). Qed.

Lemma E_nodes e : In e E -> In (fe_src e) (vnodes v) /\ In (fe_tgt e) (vnodes v).
Proof. intros H. split; [apply (fok_src v e Hv H) | apply (fok_tgt v Hv e H)]. Qed.

(* ------------------------------------------------------------------ *)
(* The search tree stored in edge_to                                   *)

(* m lists the visited nodes, newest first; every node but the root s was entered through a
   residual edge from an older node, recorded in edge_to *)
Inductive vtree (to : list (option fedge)) (f : nat -> Z) : list nat -> Prop :=
| vt_root : nth_error to s = Some None -> vtree to f [s]
| vt_cons y m e p : vtree to f m -> ~ In y m -> nth_error to y = Some (Some e) -> In e E ->
    In p m -> link e p y -> 0 < rcap f e y -> vtree to f (y :: m).

(* the walk back from y to s along edge_to *)
Inductive chain (to : list (option fedge)) : nat -> list (nat * fedge) -> Prop :=
| ch_nil : nth_error to s = Some None -> chain to s []
| ch_cons y e p rest : nth_error to y = Some (Some e) -> In e E -> link e p y ->
    chain to p rest -> chain to y ((y, e) :: rest).

Lemma vtree_root to f m : vtree to f m -> nth_error to s = Some None.
Proof. induction 1; assumption. Qed.

Lemma vtree_s to f m : vtree to f m -> In s m.
Proof. induction 1; [left; reflexivity | right; assumption]. Qed.

Lemma vtree_nodup to f m : vtree to f m -> NoDup m.
Proof. induction 1; [constructor; [intros []|constructor] | constructor; assumption]. Qed.

Lemma vtree_upd to f m y x : vtree to f m -> ~ In y m -> vtree (upd to y x) f m.
Proof.
  induction 1 as [Hr | y' m e p Hm IH Hy' Hto He Hp Hl Hrc]; intros Hy.
  - apply vt_root. rewrite nth_error_upd_neq; [exact Hr|]. intros ->. apply Hy. left; reflexivity.
  - apply vt_cons with (e := e) (p := p); auto.
    + apply IH. intros H; apply Hy; right; exact H.
    + rewrite nth_error_upd_neq; [exact Hto|]. intros ->. apply Hy. left; reflexivity.
Qed.

Definition pids (p : list (nat * fedge)) : list nat := map (fun ye => fe_id (snd ye)) p.

Definition chain_ok (f : nat -> Z) (m : list nat) (p : list (nat * fedge)) : Prop :=
  forall y e, In (y, e) p -> In e E /\ In (fe_src e) m /\ In (fe_tgt e) m /\ 0 < rcap f e y.

Lemma vtree_chain to f m : vtree to f m -> forall y, In y m ->
  exists p, chain to y p /\ (length p < length m)%nat /\ chain_ok f m p /\ NoDup (pids p).
Proof.
  induction 1 as [Hr | y' m e p Hm IH Hy' Hto He Hp Hl Hrc]; intros y Hy.
  - destruct Hy as [<-|[]]. exists []. split; [apply ch_nil; exact Hr|]. split; [cbn; lia|].
    split; [intros y e []|constructor].
  - assert (Hwk : forall q, chain_ok f m q -> chain_ok f (y' :: m) q).
    { intros q Hq y0 e0 Hin. destruct (Hq y0 e0 Hin) as [H1 [H2 [H3 H4]]].
      split; [exact H1|]. split; [right; exact H2|]. split; [right; exact H3 | exact H4]. }
    destruct Hy as [<-|Hy].
    + destruct (IH p Hp) as [q [Hc [Hlen [Hok Hnd]]]].
      exists ((y', e) :: q). split; [apply ch_cons with (p := p); assumption|].
      split; [cbn [length]; lia|]. split.
      * intros y0 e0 [Heq|Hin]; [|apply (Hwk q Hok y0 e0 Hin)].
        injection Heq as <- <-. split; [exact He|].
        destruct (link_src_tgt e p y' Hl) as [[H1 H2]|[H1 H2]]; rewrite H1, H2.
        -- split; [right; exact Hp|]. split; [left; reflexivity | exact Hrc].
        -- split; [left; reflexivity|]. split; [right; exact Hp | exact Hrc].
      * unfold pids. cbn [map snd]. constructor; [|exact Hnd].
        intros Hin. apply in_map_iff in Hin. destruct Hin as [[y0 e0] [Hid Hin]]. cbn [snd] in Hid.
        destruct (Hok y0 e0 Hin) as [H1 [H2 [H3 _]]].
        assert (e0 = e) by (apply (ids_inj E e0 e E_ids H1 He Hid)). subst e0.
        apply Hy'. destruct (link_endpoint e p y' Hl) as [->| ->]; assumption.
    + destruct (IH y Hy) as [q [Hc [Hlen [Hok Hnd]]]]. exists q.
      split; [exact Hc|]. split; [cbn [length]; lia|]. split; [apply Hwk; exact Hok | exact Hnd].
Qed.

(* ------------------------------------------------------------------ *)
(* has_augmented_path                                                  *)

Section Bfs.
Variable flows : list Z.
Hypothesis Hfl : length flows = vebound v.
Local Notation f := (f_of flows).

Record binv (st : bst) : Prop := {
  bi_tree : vtree (b_to st) f (b_vis st);
  bi_len : length (b_to st) = vbound v;
  bi_nodes : forall x, In x (b_vis st) -> In x (vnodes v);
  bi_dest : ~ In t (b_vis st);
  bi_queue : forall x, In x (b_queue st) -> In x (b_vis st)
}.

Definition bmeas (st : bst) : nat :=
  (length (b_queue st) + usum (fun _ => 1%nat) (b_vis st) (vnodes v))%nat.

(* every residual edge out of x leads to a member of m *)
Definition done_at (m : list nat) (x : nat) : Prop :=
  forall e y, In e E -> link e x y -> 0 < rcap f e y -> In y m.

Lemma done_at_mono m m' x : incl m m' -> done_at m x -> done_at m' x.
Proof. intros Hi Hd e y He Hl Hr. apply Hi, (Hd e y He Hl Hr). Qed.

Definition grows (st st' : bst) : Prop :=
  incl (b_vis st) (b_vis st') /\ incl (b_queue st) (b_queue st') /\
  (forall x, In x (b_vis st') -> In x (b_vis st) \/ In x (b_queue st')) /\
  (bmeas st' <= bmeas st)%nat.

Lemma grows_refl st : grows st st.
Proof. split; [apply incl_refl|]. split; [apply incl_refl|]. split; [intros x Hx; left; exact Hx | lia]. Qed.

Lemma grows_trans a b c : grows a b -> grows b c -> grows a c.
Proof.
  intros [A1 [A2 [A3 A4]]] [B1 [B2 [B3 B4]]]. split; [eapply incl_tran; eauto|].
  split; [eapply incl_tran; eauto|]. split; [|lia].
  intros x Hx. destruct (B3 x Hx) as [H|H]; [|right; exact H].
  destruct (A3 x H) as [H'|H']; [left; exact H' | right; apply B2; exact H'].
Qed.

(* what a successful search leaves behind *)
Definition found_ok (to' : list (option fedge)) : Prop :=
  length to' = vbound v /\ exists m', vtree to' f (t :: m') /\ forall x, In x m' -> In x (vnodes v).

Lemma bfs_edge_spec vertex st e :
  binv st -> In vertex (b_vis st) -> In e E -> (fe_src e = vertex \/ fe_tgt e = vertex) ->
  exists found st', bfs_edge v t vertex flows st e = Ok (found, st') /\
    (found = false -> binv st' /\ grows st st' /\
                      forall y, link e vertex y -> 0 < rcap f e y -> In y (b_vis st')) /\
    (found = true -> found_ok (b_to st')).
Proof.
  intros Hinv Hvx He Hend. unfold bfs_edge.
  destruct (other_endpoint_inc e vertex Hend) as [next [Eo [Hne [Huniq Hlink]]]].
  rewrite Eo. cbn [rbind].
  rewrite (getp_f_of flows (fe_id e)) by (rewrite Hfl; apply (fok_eid v Hv e He)). cbn [rbind].
  rewrite (residual_capacity_ok f e next Hne). cbn [rbind].
  assert (Hnn : In next (vnodes v)).
  { destruct (E_nodes e He) as [H1 H2]. destruct Hne as [->| ->]; assumption. }
  unfold is_visited. destruct (mem next (b_vis st)) eqn:Em; cbn [negb andb].
  - (* already visited *)
    apply mem_In in Em. exists false, st. split; [reflexivity|]. split; [|discriminate].
    intros _. split; [exact Hinv|]. split; [apply grows_refl|].
    intros y Hl _. rewrite (Huniq y Hl). exact Em.
  - apply mem_false in Em. destruct (Z.ltb_spec 0 (rcap f e next)) as [Hrc|Hrc].
    + (* a new node *)
      assert (Hnv : next <> vertex) by (intros ->; apply Em; exact Hvx).
      specialize (Hlink Hnv).
      rewrite (visit_ok v (b_vis st) next (fok_cap v Hv next Hnn)). cbn [rbind].
      assert (Em' : mem next (b_vis st) = false) by (apply mem_false; exact Em). rewrite Em'.
      rewrite setp_ok by (rewrite (bi_len st Hinv); apply (fok_bound v Hv next Hnn)). cbn [rbind].
      assert (Htree : vtree (upd (b_to st) next (Some e)) f (next :: b_vis st)).
      { apply vt_cons with (e := e) (p := vertex); auto.
        - apply vtree_upd; [apply (bi_tree st Hinv) | exact Em].
        - apply nth_error_upd_eq. rewrite (bi_len st Hinv). apply (fok_bound v Hv next Hnn). }
      destruct (Nat.eqb_spec t next) as [Htn|Htn].
      * exists true, (mkBst (next :: b_vis st) (b_queue st) (upd (b_to st) next (Some e))).
        split; [reflexivity|]. split; [discriminate|]. intros _. cbn [b_to]. split.
        -- rewrite upd_length. apply (bi_len st Hinv).
        -- exists (b_vis st). rewrite Htn. split; [exact Htree | apply (bi_nodes st Hinv)].
      * exists false, (mkBst (next :: b_vis st) (b_queue st ++ [next]) (upd (b_to st) next (Some e))).
        split; [reflexivity|]. split; [|discriminate]. intros _. split; [|split].
        -- constructor; cbn [b_to b_vis b_queue].
           ++ exact Htree.
           ++ rewrite upd_length. apply (bi_len st Hinv).
           ++ intros x [<-|Hx]; [exact Hnn | apply (bi_nodes st Hinv x Hx)].
           ++ intros [H|H]; [apply Htn; symmetry; exact H | apply (bi_dest st Hinv H)].
           ++ intros x Hx. apply in_app_or in Hx. destruct Hx as [Hx|[<-|[]]].
              ** right. apply (bi_queue st Hinv x Hx).
              ** left; reflexivity.
        -- unfold grows, bmeas. cbn [b_to b_vis b_queue]. split; [intros x Hx; right; exact Hx|].
           split; [intros x Hx; apply in_or_app; left; exact Hx|]. split.
           ++ intros x [<-|Hx]; [right; apply in_or_app; right; left; reflexivity | left; exact Hx].
           ++ rewrite app_length. cbn [length].
              pose proof (usum_mark_in (fun _ => 1%nat) (b_vis st) next (vnodes v) Hnn Em') as Hu. cbv beta in Hu. lia.
        -- intros y Hl _. cbn [b_vis]. left. symmetry. apply (Huniq y Hl).
    + (* no residual capacity *)
      exists false, st. split; [reflexivity|]. split; [|discriminate].
      intros _. split; [exact Hinv|]. split; [apply grows_refl|].
      intros y Hl Hpos. rewrite (Huniq y Hl) in Hpos. lia.
Qed.

Lemma binv_vertex_mono st st' x : grows st st' -> In x (b_vis st) -> In x (b_vis st').
Proof. intros [H _] Hx. apply H, Hx. Qed.

Lemma bfs_edges_spec vertex : forall es st,
  binv st -> In vertex (b_vis st) ->
  (forall e, In e es -> In e E /\ (fe_src e = vertex \/ fe_tgt e = vertex)) ->
  exists found st', bfs_edges v t vertex flows st es = Ok (found, st') /\
    (found = false -> binv st' /\ grows st st' /\
        forall e y, In e es -> link e vertex y -> 0 < rcap f e y -> In y (b_vis st')) /\
    (found = true -> found_ok (b_to st')).
Proof.
  induction es as [|e rest IH]; intros st Hinv Hvx Hes; cbn [bfs_edges].
  - exists false, st. split; [reflexivity|]. split; [|discriminate]. intros _.
    split; [exact Hinv|]. split; [apply grows_refl|]. intros e y [].
  - destruct (Hes e (or_introl eq_refl)) as [He Hend].
    destruct (bfs_edge_spec vertex st e Hinv Hvx He Hend) as [found [st1 [E1 [Hf Ht']]]].
    rewrite E1. cbn [rbind]. destruct found.
    + exists true, st1. split; [reflexivity|]. split; [discriminate|]. intros _. apply Ht'; reflexivity.
    + destruct (Hf eq_refl) as [Hinv1 [Hg1 Hcl1]].
      destruct (IH st1 Hinv1 (binv_vertex_mono st st1 vertex Hg1 Hvx)
                   (fun e' He' => Hes e' (or_intror He'))) as [found [st2 [E2 [Hf2 Ht2]]]].
      exists found, st2. split; [exact E2|]. split; [|exact Ht2].
      intros Hfalse. destruct (Hf2 Hfalse) as [Hinv2 [Hg2 Hcl2]].
      split; [exact Hinv2|]. split; [eapply grows_trans; eauto|].
      intros e' y [<-|He'] Hl Hr; [|apply (Hcl2 e' y He' Hl Hr)].
      apply (binv_vertex_mono st1 st2 y Hg2). apply (Hcl1 y Hl Hr).
Qed.

(* the certificate left by a failed search *)
Definition cut_ok : Prop :=
  exists m, In s m /\ ~ In t m /\ forall x, In x m -> done_at m x.

Lemma bfs_loop_spec : forall fuel st,
  binv st -> (bmeas st < fuel)%nat ->
  (forall x, In x (b_vis st) -> ~ In x (b_queue st) -> done_at (b_vis st) x) ->
  exists b to', bfs_loop fuel v t flows st = Ok (b, to') /\
    length to' = vbound v /\ nth_error to' s = Some None /\
    (b = false -> cut_ok) /\ (b = true -> found_ok to').
Proof.
  induction fuel as [|fuel IH]; intros st Hinv Hm Hdone; [lia|].
  cbn [bfs_loop]. destruct (b_queue st) as [|vertex q] eqn:Eq.
  - exists false, (b_to st). split; [reflexivity|]. split; [apply (bi_len st Hinv)|].
    split; [apply (vtree_root _ _ _ (bi_tree st Hinv))|]. split; [|discriminate].
    intros _. exists (b_vis st). split; [apply (vtree_s _ _ _ (bi_tree st Hinv))|].
    split; [apply (bi_dest st Hinv)|]. intros x Hx. apply Hdone; [exact Hx|]. intros [].
  - set (st0 := mkBst (b_vis st) q (b_to st)).
    assert (Hinv0 : binv st0).
    { constructor; cbn [st0 b_to b_vis b_queue]; try apply Hinv.
      intros x Hx. apply (bi_queue st Hinv). rewrite Eq. right; exact Hx. }
    assert (Hvx : In vertex (b_vis st0)).
    { cbn [st0 b_vis]. apply (bi_queue st Hinv). rewrite Eq. left; reflexivity. }
    assert (Hm0 : (S (bmeas st0) = bmeas st)%nat).
    { unfold bmeas. cbn [st0 b_vis b_queue]. rewrite Eq. cbn [length]. lia. }
    destruct (bfs_edges_spec vertex (incident v vertex) st0 Hinv0 Hvx) as [found [st1 [E1 [Hf Ht']]]].
    { intros e He. apply (incident_iff v vertex e Hv) in He. exact He. }
    rewrite E1. cbn [rbind]. destruct found.
    + destruct (Ht' eq_refl) as [Hlen [m' [Htree Hn]]].
      exists true, (b_to st1). split; [reflexivity|]. split; [exact Hlen|].
      split; [apply (vtree_root _ _ _ Htree)|]. split; [discriminate|]. intros _.
      split; [exact Hlen|]. exists m'. split; assumption.
    + destruct (Hf eq_refl) as [Hinv1 [Hg Hcl]].
      apply IH; [exact Hinv1 | destruct Hg as [_ [_ [_ Hg]]]; lia |].
      intros x Hx Hxq. destruct Hg as [G1 [G2 [G3 _]]].
      destruct (G3 x Hx) as [Hold|Hnew]; [|contradiction].
      cbn [st0 b_vis] in Hold. destruct (Nat.eq_dec x vertex) as [->|Hne].
      * intros e y He Hl Hr. apply (Hcl e y); [|exact Hl | exact Hr].
        apply (incident_iff v vertex e Hv). split; [exact He|].
        destruct (link_src_tgt e vertex y Hl) as [[H _]|[_ H]]; [left | right]; exact H.
      * apply (done_at_mono (b_vis st) (b_vis st1) x G1). apply Hdone; [exact Hold|].
        intros [H|H]; [apply Hne; symmetry; exact H|].
        apply Hxq. apply G2. cbn [st0 b_queue]. exact H.
Qed.

Lemma hap_spec to :
  length to = vbound v -> nth_error to s = Some None ->
  exists b to', has_augmented_path v s t to flows = Ok (b, to') /\
    length to' = vbound v /\ nth_error to' s = Some None /\
    (b = false -> cut_ok) /\ (b = true -> found_ok to').
Proof.
  intros Hlen Hroot. unfold has_augmented_path.
  rewrite (visit_ok v [] s (fok_cap v Hv s Hs)). cbn [mem rbind].
  apply bfs_loop_spec.
  - constructor; cbn [b_to b_vis b_queue].
    + apply vt_root; exact Hroot.
    + exact Hlen.
    + intros x [<-|[]]; exact Hs.
    + intros [H|[]]; apply Hst; exact H.
    + intros x Hx; exact Hx.
  - unfold bmeas. cbn [b_vis b_queue length].
    assert (Hms : mem s [] = false) by reflexivity.
    pose proof (usum_mark_in (fun _ => 1%nat) [] s (vnodes v) Hs Hms) as H1.
    pose proof (usum_one_all (vnodes v)) as H2. cbv beta in H1. lia.
  - cbn [b_vis b_queue]. intros x Hx Hn. contradiction.
Qed.

(* the visited set of a failed search is a saturated cut *)
Lemma cut_ok_certificate : feasible E f -> cut_ok ->
  exists U, is_cut U s t /\ no_residual_out E f U.
Proof.
  intros Hfe [m [Hsm [Htm Hcl]]]. exists (fun x => mem x m). split.
  - split; [apply mem_In; exact Hsm | apply mem_false; exact Htm].
  - intros e He. pose proof (Hfe e He) as Hb. split.
    + intros H1 H2. apply mem_In in H1. apply mem_false in H2.
      assert (Hne : fe_src e <> fe_tgt e) by (intros Heq; apply H2; rewrite <- Heq; exact H1).
      destruct (Z_lt_le_dec (f (fe_id e)) (fe_cap e)) as [Hlt|Hge]; [|lia].
      exfalso; apply H2. apply (Hcl (fe_src e) H1 e (fe_tgt e) He).
      * split; [exact Hne|]. left; split; reflexivity.
      * unfold rcap. destruct (Nat.eqb_spec (fe_tgt e) (fe_src e)) as [Heq|_]; [exfalso; apply Hne; symmetry; exact Heq | lia].
    + intros H1 H2. apply mem_false in H1. apply mem_In in H2.
      assert (Hne : fe_tgt e <> fe_src e) by (intros Heq; apply H1; rewrite <- Heq; exact H2).
      destruct (Z_lt_le_dec 0 (f (fe_id e))) as [Hlt|Hge]; [|lia].
      exfalso; apply H1. apply (Hcl (fe_tgt e) H2 e (fe_src e) He).
      * split; [exact Hne|]. right; split; reflexivity.
      * unfold rcap. rewrite Nat.eqb_refl. exact Hlt.
Qed.

(* the path found by a successful search *)
Lemma found_ok_chain to' : found_ok to' ->
  exists p, chain to' t p /\ (length p < S (S (length (vnodes v))))%nat /\ NoDup (pids p) /\
            p <> [] /\ forall y e, In (y, e) p -> In e E /\ 0 < rcap f e y.
Proof.
  intros [_ [m' [Htree Hn]]].
  destruct (vtree_chain to' f (t :: m') Htree t (or_introl eq_refl)) as [p [Hc [Hlen [Hok Hnd]]]].
  exists p. split; [exact Hc|]. split; [|split; [exact Hnd|split]].
  - assert (Hle : (length (t :: m') <= length (vnodes v))%nat).
    { apply NoDup_incl_length; [apply (vtree_nodup _ _ _ Htree)|].
      intros x [<-|Hx]; [exact Ht | apply Hn; exact Hx]. }
    lia.
  - intros ->. inversion Hc as [Hr Heq|]. apply Hst. exact Heq.
  - intros y e Hin. destruct (Hok y e Hin) as [H1 [_ [_ H4]]]. split; assumption.
Qed.

End Bfs.

(* ------------------------------------------------------------------ *)
(* bottleneck                                                          *)

Fixpoint bmin (acc : option Z) (l : list Z) : option Z :=
  match l with
  | [] => acc
  | rc :: rest => bmin (Some (match acc with None => rc | Some a => if Z.ltb rc a then rc else a end)) rest
  end.

Lemma bmin_some : forall l a,
  exists d, bmin (Some a) l = Some d /\ d <= a /\ (forall r, In r l -> d <= r) /\
            (0 < a -> (forall r, In r l -> 0 < r) -> 0 < d).
Proof.
  induction l as [|rc rest IH]; intros a; cbn [bmin].
  - exists a. split; [reflexivity|]. split; [lia|]. split; [intros r []|]. intros H _; exact H.
  - destruct (IH (if Z.ltb rc a then rc else a)) as [d [E1 [H1 [H2 H3]]]].
    exists d. split; [exact E1|].
    assert (Hmin : (if Z.ltb rc a then rc else a) <= a /\ (if Z.ltb rc a then rc else a) <= rc).
    { destruct (Z.ltb_spec rc a); lia. }
    split; [lia|]. split.
    + intros r [<-|Hr]; [lia | apply H2; exact Hr].
    + intros Ha Hall. apply H3.
      * pose proof (Hall rc (or_introl eq_refl)). destruct (Z.ltb_spec rc a); lia.
      * intros r Hr. apply Hall. right; exact Hr.
Qed.

Lemma bmin_none l : l <> [] ->
  exists d, bmin None l = Some d /\ (forall r, In r l -> d <= r) /\ ((forall r, In r l -> 0 < r) -> 0 < d).
Proof.
  destruct l as [|rc rest]; [congruence|]. intros _. cbn [bmin].
  destruct (bmin_some rest rc) as [d [E1 [H1 [H2 H3]]]]. exists d. split; [exact E1|]. split.
  - intros r [<-|Hr]; [exact H1 | apply H2; exact Hr].
  - intros Hall. apply H3; [apply Hall; left; reflexivity | intros r Hr; apply Hall; right; exact Hr].
Qed.

Definition prcs (f : nat -> Z) (p : list (nat * fedge)) : list Z :=
  map (fun ye => rcap f (snd ye) (fst ye)) p.

Lemma bottleneck_chain to flows : length flows = vebound v ->
  forall y p, chain to y p -> forall fuel acc, (length p < fuel)%nat ->
  bottleneck fuel to flows y acc = Ok (bmin acc (prcs (f_of flows) p)).
Proof.
  intros Hfl y p Hc. induction Hc as [Hr | y e p rest Hto He Hl Hc IH]; intros fuel acc Hfu.
  - destruct fuel as [|fuel]; [cbn [length] in Hfu; lia|]. cbn [bottleneck].
    rewrite (getp_nth to s None Hr). reflexivity.
  - destruct fuel as [|fuel]; [lia|]. cbn [bottleneck].
    rewrite (getp_nth to y (Some e) Hto). cbn [rbind].
    rewrite (getp_f_of flows (fe_id e)) by (rewrite Hfl; apply (fok_eid v Hv e He)). cbn [rbind].
    rewrite (residual_capacity_ok (f_of flows) e y (link_endpoint e p y Hl)). cbn [rbind].
    rewrite (link_other e p y Hl). cbn [rbind].
    rewrite IH by (cbn [length] in Hfu; lia). unfold prcs. cbn [map bmin fst snd]. destruct acc; reflexivity.
Qed.

(* ------------------------------------------------------------------ *)
(* push_flow                                                           *)

Lemma rcap_ext f g e y : f (fe_id e) = g (fe_id e) -> rcap f e y = rcap g e y.
Proof. intros H. unfold rcap. rewrite H. reflexivity. Qed.

Lemma push_chain to delta : 0 < delta ->
  forall y p, chain to y p -> forall fuel flows, (length p < fuel)%nat ->
  length flows = vebound v -> NoDup (pids p) ->
  (forall y' e', In (y', e') p -> delta <= rcap (f_of flows) e' y') ->
  feasible E (f_of flows) ->
  exists flows', push_flow fuel to flows y delta = Ok flows' /\ length flows' = vebound v /\
    feasible E (f_of flows') /\
    forall x, net E (f_of flows') x =
              net E (f_of flows) x + (if Nat.eqb y x then delta else 0) - (if Nat.eqb s x then delta else 0).
Proof.
  intros Hd y p Hc. induction Hc as [Hr | y e p rest Hto He Hl Hc IH]; intros fuel flows Hfu Hfl Hnd Hrc Hfe.
  - destruct fuel as [|fuel]; [cbn [length] in Hfu; lia|]. cbn [push_flow].
    rewrite (getp_nth to s None Hr). exists flows. split; [reflexivity|]. split; [exact Hfl|].
    split; [exact Hfe|]. intros x. lia.
  - destruct fuel as [|fuel]; [lia|]. cbn [push_flow].
    assert (Hid : (fe_id e < length flows)%nat) by (rewrite Hfl; apply (fok_eid v Hv e He)).
    rewrite (getp_nth to y (Some e) Hto). cbn [rbind].
    rewrite (getp_f_of flows (fe_id e) Hid). cbn [rbind].
    rewrite (adjust_ok e p y _ delta Hl). cbn [rbind].
    rewrite (setp_ok flows (fe_id e) _ Hid). cbn [rbind].
    rewrite (link_other e p y Hl). cbn [rbind].
    set (d := if Nat.eqb y (fe_src e) then - delta else delta).
    set (flows1 := upd flows (fe_id e) (f_of flows (fe_id e) + d)).
    assert (Hpt : forall i, f_of flows1 i = bump (f_of flows) (fe_id e) d i).
    { intros i. apply (f_of_upd_bump flows (fe_id e) d i Hid). }
    assert (Hpt' : forall i, bump (f_of flows) (fe_id e) d i = f_of flows1 i) by (intros i; symmetry; apply Hpt).
    pose proof (Hrc y e (or_introl eq_refl)) as Hrce.
    pose proof (Hfe e He) as Hbe.
    assert (Hfe1 : feasible E (f_of flows1)).
    { apply (feasible_ext E _ _ Hpt'). apply (feasible_bump E (f_of flows) e d E_ids He Hfe).
      unfold rcap in Hrce. unfold d. destruct (Nat.eqb y (fe_src e)); lia. }
    unfold pids in Hnd. cbn [map snd] in Hnd. inversion Hnd as [|i l Hi Hnd']; subst.
    destruct (IH fuel flows1) as [flows' [E1 [Hlen' [Hfe' Hnet']]]].
    + cbn [length] in Hfu. lia.
    + unfold flows1. rewrite upd_length. exact Hfl.
    + exact Hnd'.
    + intros y' e' Hin. rewrite (rcap_ext (f_of flows1) (f_of flows) e' y').
      * apply Hrc. right; exact Hin.
      * rewrite Hpt. unfold bump. destruct (Nat.eqb_spec (fe_id e) (fe_id e')) as [Heq|_]; [|reflexivity].
        exfalso; apply Hi. rewrite Heq. apply (in_map (fun ye => fe_id (snd ye)) rest (y', e') Hin).
    + exact Hfe1.
    + exists flows'. split; [exact E1|]. split; [exact Hlen'|]. split; [exact Hfe'|].
      intros x. rewrite Hnet'. rewrite (net_ext E (f_of flows1) _ x Hpt).
      rewrite (net_bump E (f_of flows) e d x E_ids He).
      destruct Hl as [Hpy Hl]. unfold d.
      destruct Hl as [[H1 H2]|[H1 H2]].
      * destruct (Nat.eqb_spec y (fe_src e)) as [Heq|_]; [exfalso; apply Hpy; congruence|].
        rewrite H1, H2. lia.
      * destruct (Nat.eqb_spec y (fe_src e)) as [_|Hn]; [|exfalso; apply Hn; symmetry; exact H2].
        rewrite H1, H2. destruct (Nat.eqb p x), (Nat.eqb y x); lia.
Qed.

(* ------------------------------------------------------------------ *)
(* ff_loop                                                             *)

(* the bound on the value that ff_fuel is computed from *)
Definition capB : Z := sumZ (fun e => Z.max 0 (fe_cap e)) (incident v s).

Lemma ff_fuel_capB : ff_fuel v s = S (Z.to_nat capB).
Proof. unfold ff_fuel, capB. rewrite fold_left_sumZ. reflexivity. Qed.

Lemma value_le_capB f : feasible E f -> value E f s <= capB.
Proof.
  intros Hf. pose proof (value_le_outcap E f s Hf) as H1.
  rewrite (sumZ_src_fedges v fe_cap s (fok_nodup v Hv) Hs) in H1.
  unfold capB, incident. fold (out_fedges v s). fold (in_fedges v s). rewrite sumZ_app.
  assert (H2 : sumZ fe_cap (out_fedges v s) <= sumZ (fun e => Z.max 0 (fe_cap e)) (out_fedges v s))
    by (apply sumZ_le; intros e _; lia).
  assert (H3 : 0 <= sumZ (fun e => Z.max 0 (fe_cap e)) (in_fedges v s))
    by (apply sumZ_nonneg; intros e _; lia).
  lia.
Qed.

Record ffinv (to : list (option fedge)) (flows : list Z) (total : Z) : Prop := {
  fi_to : length to = vbound v;
  fi_root : nth_error to s = Some None;
  fi_len : length flows = vebound v;
  fi_feas : feasible E (f_of flows);
  fi_cons : conserved E (f_of flows) s t;
  fi_total : total = value E (f_of flows) s
}.

Definition ff_post (total : Z) (flows : list Z) : Prop :=
  length flows = vebound v /\ feasible E (f_of flows) /\ conserved E (f_of flows) s t /\
  total = value E (f_of flows) s /\
  exists U, is_cut U s t /\ no_residual_out E (f_of flows) U.

Lemma ff_loop_spec wmax : forall fuel to flows total,
  ffinv to flows total -> capB - total < Z.of_nat fuel ->
  exists total' flows', ff_loop fuel v s t wmax to flows total = Ok (total', flows') /\ ff_post total' flows'.
Proof.
  induction fuel as [|fuel IH]; intros to flows total Hinv Hfu.
  - exfalso. pose proof (value_le_capB _ (fi_feas _ _ _ Hinv)) as H. rewrite <- (fi_total _ _ _ Hinv) in H.
    cbn in Hfu. lia.
  - cbn [ff_loop].
    destruct (hap_spec flows (fi_len _ _ _ Hinv) to (fi_to _ _ _ Hinv) (fi_root _ _ _ Hinv))
      as [b [to' [E1 [Hlen' [Hroot' [Hfalse Htrue]]]]]].
    rewrite E1. cbn [rbind]. destruct b; cbn [negb].
    + destruct (found_ok_chain flows (fi_len _ _ _ Hinv) to' (Htrue eq_refl)) as [p [Hc [Hlp [Hnd [Hne Hpos]]]]].
      rewrite (bottleneck_chain to' flows (fi_len _ _ _ Hinv) t p Hc _ None Hlp). cbn [rbind].
      destruct (bmin_none (prcs (f_of flows) p)) as [d [Eb [Hle Hdpos]]].
      { destruct p; [congruence | discriminate]. }
      rewrite Eb.
      assert (Hd : 0 < d).
      { apply Hdpos. intros r Hr. unfold prcs in Hr. apply in_map_iff in Hr.
        destruct Hr as [[y e] [<- Hin]]. apply (Hpos y e Hin). }
      destruct (push_chain to' d Hd t p Hc _ flows Hlp (fi_len _ _ _ Hinv) Hnd) as [flows' [E2 [Hl2 [Hf2 Hn2]]]].
      { intros y' e' Hin. apply Hle. unfold prcs.
        apply (in_map (fun ye => rcap (f_of flows) (snd ye) (fst ye)) p (y', e') Hin). }
      { apply (fi_feas _ _ _ Hinv). }
      rewrite E2. cbn [rbind]. apply IH.
      * constructor; try assumption.
        -- intros x Hxs Hxt. rewrite Hn2. rewrite (fi_cons _ _ _ Hinv x Hxs Hxt).
           destruct (Nat.eqb_spec t x) as [Heq|_]; [exfalso; apply Hxt; symmetry; exact Heq|].
           destruct (Nat.eqb_spec s x) as [Heq|_]; [exfalso; apply Hxs; symmetry; exact Heq|]. lia.
        -- rewrite !value_net, Hn2. rewrite (fi_total _ _ _ Hinv), value_net.
           rewrite Nat.eqb_refl. destruct (Nat.eqb_spec t s) as [Heq|_]; [exfalso; apply Hst; symmetry; exact Heq|]. lia.
      * lia.
    + exists total, flows. split; [reflexivity|].
      split; [apply (fi_len _ _ _ Hinv)|]. split; [apply (fi_feas _ _ _ Hinv)|].
      split; [apply (fi_cons _ _ _ Hinv)|]. split; [apply (fi_total _ _ _ Hinv)|].
      apply (cut_ok_certificate flows (fi_len _ _ _ Hinv) (fi_feas _ _ _ Hinv) (Hfalse eq_refl)).
Qed.

Lemma ff_init : ffinv (repeat None (vbound v)) (repeat 0 (vebound v)) 0.
Proof.
  assert (Hz : forall i, (fun _ : nat => 0) i = f_of (repeat 0 (vebound v)) i)
    by (intros i; symmetry; apply f_of_repeat).
  constructor.
  - apply repeat_length.
  - apply nth_error_repeat. apply (fok_bound v Hv s Hs).
  - apply repeat_length.
  - apply (feasible_ext E _ _ Hz). apply zero_feasible. apply (fok_nonneg v Hv).
  - intros x _ _. rewrite <- (net_ext E _ _ x Hz). unfold net. rewrite zero_outflow, zero_inflow. lia.
  - rewrite <- (value_ext E _ _ s Hz). unfold value. rewrite zero_outflow, zero_inflow. lia.
Qed.

Theorem ford_fulkerson_post wmax :
  exists total flows, ford_fulkerson v s t wmax = Ok (total, flows) /\ ff_post total flows.
Proof.
  unfold ford_fulkerson. apply ff_loop_spec; [apply ff_init|].
  rewrite ff_fuel_capB.
  assert (0 <= capB) by (unfold capB; apply sumZ_nonneg; intros e _; lia).
  rewrite Nat2Z.inj_succ, Z2Nat.id by assumption. lia.
Qed.

End Flow.

(* F3 *)
Theorem ford_fulkerson_correct v s t wmax :
  FOk v -> In s (vnodes v) -> In t (vnodes v) -> s <> t ->
  exists total flows,
    ford_fulkerson v s t wmax = Ok (total, flows) /\
    length flows = vebound v /\
    feasible (fedges v) (f_of flows) /\
    conserved (fedges v) (f_of flows) s t /\
    total = value (fedges v) (f_of flows) s /\
    exists U, is_cut U s t /\ total = cut_cap (fedges v) U /\
      (forall f', feasible (fedges v) f' -> conserved (fedges v) f' s t -> value (fedges v) f' s <= total) /\
      (forall U', is_cut U' s t -> total <= cut_cap (fedges v) U').
Proof.
  intros Hv Hs Ht Hst.
  destruct (ford_fulkerson_post v Hv s t Hs Ht Hst wmax) as [total [flows [E1 [Hl [Hf [Hc [Htot [U [HU Hr]]]]]]]]].
  exists total, flows. split; [exact E1|]. split; [exact Hl|]. split; [exact Hf|]. split; [exact Hc|].
  split; [exact Htot|]. exists U. split; [exact HU|].
  destruct (max_flow_min_cut (fedges v) (f_of flows) s t U Hf Hc HU Hr) as [Ev [[_ [_ Hmax]] [_ Hmin]]].
  split; [rewrite Htot; exact Ev|]. split.
  - intros f' Hf' Hc'. rewrite Htot. apply Hmax; assumption.
  - intros U' HU'. rewrite Htot, Ev. apply Hmin; exact HU'.
Qed.

Print Assumptions ford_fulkerson_correct.
