(* C17: the hole interleaving loop of StableGraph::deserialize.  [interleave] succeeds exactly on
   strictly increasing hole lists below the total; its result is the unique slot vector with None at
   the hole positions and the compact weights in order elsewhere; the (holes, compact) pair written
   by the serializer denotes the slot vector it was computed from. *)
From Coq Require Import Sorted.
From PG Require Import Lib.ListArr Lib.ListExtra Model.GraphM Model.StableM Model.SerdeM Spec.SerdeSpec.
Set Implicit Arguments.

(* what the loop checks, hole by hole *)
Fixpoint incr_from (lo total : nat) (holes : list nat) : Prop :=
  match holes with
  | [] => True
  | h :: r => lo <= h < total /\ incr_from (S h) total r
  end.

Lemma incr_from_sorted holes : forall lo total,
  incr_from lo total holes <->
  (StronglySorted lt holes /\ Forall (fun h => lo <= h < total) holes).
Proof.
  induction holes as [|h r IH]; intros lo total; cbn [incr_from].
  - split; [intros _; split; constructor|auto].
  - rewrite IH. split.
    + intros [Hh [Hs Hf]]. split.
      * constructor; auto. eapply Forall_impl; [|exact Hf]. cbv beta. intros a Ha. lia.
      * constructor; auto. eapply Forall_impl; [|exact Hf]. cbv beta. intros a Ha. lia.
    + intros [Hs Hf]. inversion Hs as [|? ? Hs' Hlt]; subst. inversion Hf as [|? ? Hh Hf']; subst.
      split; auto. split; auto.
      rewrite Forall_forall in *. intros x Hx. specialize (Hlt x Hx). specialize (Hf' x Hx). lia.
Qed.

Lemma holes_ok_incr total holes : holes_ok total holes <-> incr_from 0 total holes.
Proof.
  rewrite incr_from_sorted. unfold holes_ok. split; intros [Hs Hf]; split; auto;
    (eapply Forall_impl; [|exact Hf]); cbv beta; intros a Ha; lia.
Qed.

Lemma incr_from_len holes : forall lo total,
  incr_from lo total holes -> lo <= total -> lo + length holes <= total.
Proof.
  induction holes as [|h r IH]; intros lo total H Hle; cbn [incr_from length] in *; [lia|].
  destruct H as [Hh Hr]. specialize (IH _ _ Hr). lia.
Qed.

Lemma incr_from_in holes : forall lo total x, incr_from lo total holes -> In x holes -> lo <= x < total.
Proof.
  induction holes as [|h r IH]; intros lo total x H Hin; [contradiction|].
  cbn [incr_from] in H. destruct H as [Hh Hr]. destruct Hin as [<-|Hin]; auto.
  specialize (IH _ _ _ Hr Hin). lia.
Qed.

Lemma incr_from_weaken holes lo lo' total : lo' <= lo -> incr_from lo total holes -> incr_from lo' total holes.
Proof.
  destruct holes as [|h r]; cbn [incr_from]; auto. intros Hle [Hh Hr]. split; auto. lia.
Qed.

Lemma somes_app l1 l2 : somes (l1 ++ l2) = somes l1 ++ somes l2.
Proof. unfold somes. apply flat_map_app. Qed.

Lemma somes_cons_Some v l : somes (Some v :: l) = v :: somes l.
Proof. reflexivity. Qed.

Lemma somes_cons_None l : somes (None :: l) = somes l.
Proof. reflexivity. Qed.

Lemma somes_map_Some l : somes (map Some l) = l.
Proof.
  induction l as [|x l IH]; [reflexivity|]. cbn [map]. rewrite somes_cons_Some, IH. reflexivity.
Qed.

Lemma nth_error_map_Some_None (l : list nat) i : nth_error (map (@Some nat) l) i <> Some None.
Proof. rewrite nth_error_map. destruct (nth_error l i); simpl; congruence. Qed.

Section IL.
  Variable total : nat.

  (* success: the loop's checks hold, the result is described relative to the start position *)
  Lemma interleave_ok : forall holes compact np acc,
    incr_from np total holes -> total = np + length compact + length holes ->
    exists slots', interleave holes compact np total acc = Some (acc ++ slots') /\
      length slots' = length compact + length holes /\
      somes slots' = compact /\
      (forall i, nth_error slots' i = Some None <-> In (np + i) holes).
  Proof.
    induction holes as [|h r IH]; intros compact np acc Hinc Htot; cbn [interleave].
    - exists (map Some compact). split; auto. split; [rewrite map_length; simpl; lia|].
      split; [apply somes_map_Some|]. intros i. split; [|intros []].
      intros H. exfalso. eapply nth_error_map_Some_None; eauto.
    - cbn [incr_from] in Hinc. destruct Hinc as [Hh Hr].
      assert (Hlen : S h + length r <= total) by (apply incr_from_len; auto; lia). cbn [length] in Htot.
      destruct (Nat.leb_spec np h) as [_|]; [|lia]. destruct (Nat.ltb_spec h total) as [_|]; [|lia].
      cbn [andb negb].
      set (k := h - np).
      assert (Hk : k <= length compact) by (unfold k; lia).
      rewrite firstn_length, Nat.min_l by auto. rewrite Nat.eqb_refl. cbn [negb].
      destruct (IH (skipn k compact) (S h) (acc ++ map Some (firstn k compact) ++ [None]) Hr)
        as [s2 [Hrun [Hl2 [Hs2 Hn2]]]].
      { rewrite skipn_length. unfold k. lia. }
      exists (map Some (firstn k compact) ++ None :: s2). split.
      { rewrite Hrun. f_equal. rewrite <- !app_assoc. reflexivity. }
      split.
      { rewrite app_length, map_length, firstn_length, Nat.min_l by auto. cbn [length].
        rewrite Hl2, skipn_length. lia. }
      split.
      { rewrite somes_app, somes_map_Some, somes_cons_None, Hs2. apply firstn_skipn. }
      intros i.
      assert (Hfl : length (map Some (firstn k compact)) = k).
      { rewrite map_length, firstn_length, Nat.min_l; auto. }
      destruct (Nat.lt_ge_cases i k) as [Hi|Hi].
      + rewrite nth_error_app1 by lia. split.
        * intros H. exfalso. eapply nth_error_map_Some_None; eauto.
        * intros [E|Hin]; [unfold k in Hi; lia|].
          pose proof (incr_from_in _ _ _ _ Hr Hin). unfold k in Hi. lia.
      + rewrite nth_error_app2 by lia. rewrite Hfl.
        destruct (i - k) as [|d] eqn:Ed.
        * cbn [nth_error]. split; [intros _; left; unfold k in *; lia|auto].
        * cbn [nth_error]. rewrite Hn2. replace (S h + d) with (np + i) by (unfold k in *; lia).
          split; [intros H; right; auto|]. intros [E|Hin]; [unfold k in *; lia|auto].
  Qed.

  (* a success implies the checks *)
  Lemma interleave_some_inv : forall holes compact np acc slots,
    interleave holes compact np total acc = Some slots -> incr_from np total holes.
  Proof.
    induction holes as [|h r IH]; intros compact np acc slots H; cbn [interleave incr_from] in *; auto.
    destruct (Nat.leb_spec np h) as [H1|]; [|discriminate].
    destruct (Nat.ltb_spec h total) as [H2|]; [|discriminate]. cbn [andb negb] in H.
    destruct (Nat.eqb (length (firstn (h - np) compact)) (h - np)); [|discriminate]. cbn [negb] in H.
    split; [lia|]. eapply IH; eauto.
  Qed.
End IL.

(* two slot vectors with the same length, the same vacancies and the same weights are equal *)
Lemma slots_unique : forall l1 l2 : list (option nat),
  length l1 = length l2 ->
  (forall i, nth_error l1 i = Some None <-> nth_error l2 i = Some None) ->
  somes l1 = somes l2 -> l1 = l2.
Proof.
  induction l1 as [|o1 l1 IH]; intros [|o2 l2] Hlen Hn Hs; try discriminate; auto.
  assert (Ht : forall i, nth_error l1 i = Some None <-> nth_error l2 i = Some None).
  { intros i. apply (Hn (S i)). }
  destruct o1 as [a|], o2 as [b|].
  - rewrite !somes_cons_Some in Hs. injection Hs as -> Hs. f_equal. apply IH; auto.
  - exfalso. pose proof (proj2 (Hn 0) eq_refl). discriminate.
  - exfalso. pose proof (proj1 (Hn 0) eq_refl). discriminate.
  - rewrite !somes_cons_None in Hs. f_equal. apply IH; auto.
Qed.

(* the readable specification of the loop *)
Theorem interleave_spec holes compact slots :
  interleave holes compact 0 (length compact + length holes) [] = Some slots <->
  holes_ok (length compact + length holes) holes /\ slots_spec holes compact slots.
Proof.
  split.
  - intros H. pose proof (interleave_some_inv _ _ _ _ _ H) as Hinc.
    split; [apply holes_ok_incr; auto|].
    destruct (@interleave_ok (length compact + length holes) holes compact 0 [] Hinc)
      as [s' [Hrun [Hl [Hs Hn]]]]; [lia|].
    rewrite H in Hrun. injection Hrun as ->. cbn [app]. split; auto.
  - intros [Hok [Hl [Hn Hs]]]. apply holes_ok_incr in Hok.
    destruct (@interleave_ok (length compact + length holes) holes compact 0 [] Hok)
      as [s' [Hrun [Hl' [Hs' Hn']]]]; [lia|].
    rewrite Hrun. cbn [app]. f_equal. apply slots_unique.
    + lia.
    + intros i. rewrite Hn, Hn'. reflexivity.
    + congruence.
Qed.

Theorem interleave_none holes compact :
  interleave holes compact 0 (length compact + length holes) [] = None <->
  ~ holes_ok (length compact + length holes) holes.
Proof.
  split.
  - intros H Hok. apply holes_ok_incr in Hok.
    destruct (@interleave_ok (length compact + length holes) holes compact 0 [] Hok)
      as [s' [Hrun _]]; [lia|]. congruence.
  - intros H. destruct (interleave _ _ _ _ _) as [slots|] eqn:E; auto.
    exfalso. apply H. apply (proj1 (interleave_spec _ _ _) E).
Qed.

(* ---- the serializer's (holes, compact) pair ---- *)

Lemma holes_from_in l : forall a x, In x (holes_from a l) <-> a <= x /\ nth_error l (x - a) = Some None.
Proof.
  induction l as [|o l IH]; intros a x; cbn [holes_from].
  - split; [intros []|]. intros [_ H]. destruct (x - a); discriminate.
  - destruct o as [v|].
    + rewrite IH. split.
      * intros [H1 H2]. split; [lia|]. replace (x - a) with (S (x - S a)) by lia. exact H2.
      * intros [H1 H2]. destruct (Nat.eq_dec x a) as [->|Hne].
        -- rewrite Nat.sub_diag in H2. discriminate.
        -- split; [lia|]. replace (x - a) with (S (x - S a)) in H2 by lia. exact H2.
    + cbn [In]. rewrite IH. split.
      * intros [<-|[H1 H2]].
        -- split; auto. rewrite Nat.sub_diag. reflexivity.
        -- split; [lia|]. replace (x - a) with (S (x - S a)) by lia. exact H2.
      * intros [H1 H2]. destruct (Nat.eq_dec x a) as [->|Hne]; [left; auto|].
        right. split; [lia|]. replace (x - a) with (S (x - S a)) in H2 by lia. exact H2.
Qed.

Lemma holes_from_incr l : forall a total, a + length l <= total -> incr_from a total (holes_from a l).
Proof.
  induction l as [|o l IH]; intros a total H; cbn [holes_from length] in *; [exact I|].
  destruct o as [v|].
  - apply incr_from_weaken with (lo := S a); [lia|]. apply IH. lia.
  - cbn [incr_from]. split; [lia|]. apply IH. lia.
Qed.

Lemma somes_holes_length l : forall a, length (somes l) + length (holes_from a l) = length l.
Proof.
  induction l as [|o l IH]; intros a; [reflexivity|].
  destruct o as [v|]; [rewrite somes_cons_Some|rewrite somes_cons_None]; cbn [holes_from length];
    specialize (IH (S a)); lia.
Qed.

Lemma ser_slots_spec (l : list (option nat)) : slots_spec (holes_from 0 l) (somes l) l.
Proof.
  split; [rewrite somes_holes_length; reflexivity|]. split; [|reflexivity].
  intros i. rewrite holes_from_in, Nat.sub_0_r. split; [intros H; split; [lia|auto]|tauto].
Qed.

Lemma ser_holes_ok (l : list (option nat)) : holes_ok (length l) (holes_from 0 l).
Proof. apply holes_ok_incr. apply holes_from_incr. lia. Qed.

Theorem interleave_ser (l : list (option nat)) :
  interleave (holes_from 0 l) (somes l) 0 (length (somes l) + length (holes_from 0 l)) [] = Some l.
Proof.
  apply interleave_spec. rewrite somes_holes_length. split; [apply ser_holes_ok|apply ser_slots_spec].
Qed.

(* the two flat_maps of ser_stable are [somes] and [holes_from 0] of the weights *)
Lemma ser_nodes_somes (ns : list inode) :
  flat_map (fun n : inode => match nwt n with Some w => [w] | None => [] end) ns = somes (map (@nwt _) ns).
Proof.
  induction ns as [|n ns IH]; [reflexivity|].
  cbn [flat_map map]. rewrite IH. destruct (nwt n); reflexivity.
Qed.

Lemma ser_holes_from (ns : list inode) : forall a,
  flat_map (fun '(i, n) => match @nwt (option nat) n with None => [i] | Some _ => [] end)
           (combine (seq a (length ns)) ns) = holes_from a (map (@nwt _) ns).
Proof.
  induction ns as [|n ns IH]; intros a; [reflexivity|].
  cbn [length seq combine flat_map map holes_from]. rewrite IH.
  destruct (nwt n); reflexivity.
Qed.

Lemma somes_no_holes l : holes_from 0 l = [] -> l = map Some (somes l).
Proof.
  intros H. assert (G : forall a, holes_from a l = [] -> l = map Some (somes l)).
  { clear H. induction l as [|o l IH]; intros a H; [reflexivity|].
    destruct o as [v|]; cbn [holes_from] in H; [|discriminate].
    rewrite somes_cons_Some. cbn [map]. f_equal. eapply IH; eauto. }
  eapply G; eauto.
Qed.

Lemma holes_from_nil_iff l a : holes_from a l = [] <-> (forall i, nth_error l i <> Some None).
Proof.
  split.
  - intros H i Hi. assert (Hin : In (a + i) (holes_from a l)).
    { apply holes_from_in. split; [lia|]. replace (a + i - a) with i by lia. auto. }
    rewrite H in Hin. contradiction.
  - intros H. destruct (holes_from a l) as [|x r] eqn:E; auto. exfalso.
    assert (Hin : In x (holes_from a l)) by (rewrite E; simpl; auto).
    apply holes_from_in in Hin. destruct Hin as [_ Hin]. apply (H _ Hin).
Qed.
