(* C17b, part 2: the serializer is total under the invariant, and the round trip
   deser (ser g) gives back the same node order and the same edge list; the adjacency
   vectors are relinked in edge order. *)
From Coq Require Import Lia ZArith Permutation Bool.
From PG Require Import Lib.Io Model.GraphMapM Model.SerdeGM Spec.SimpleGraph
  Proofs.GraphMapL Proofs.GraphMapP Proofs.GraphMapR Proofs.GraphMapQ Proofs.GraphMapH Proofs.SerdeGMP.
Local Open Scope Z_scope.

(* ------------------------------------------------------------------ *)
(* T1: the serializer                                                  *)

(* wire edge o is edge e: same weight, endpoints' positions in the node list *)
Definition wire_edge_at (nodes : list Z) (e : (Z * Z) * Z) (o : option (nat * nat * Z)) : Prop :=
  exists i j, o = Some (i, j, snd e) /\
              nth_error nodes i = Some (fst (fst e)) /\ nth_error nodes j = Some (snd (fst e)).

Lemma triples_opt_flat3n ts : triples_opt (flat3n ts) = map Some ts.
Proof.
  induction ts as [|[[i j] x] rest IH]; [reflexivity|].
  change (flat3n ((i, j, x) :: rest)) with (zn i :: zn j :: x :: flat3n rest).
  cbn [triples_opt map]. rewrite IH. unfold nz, zn. rewrite !Nat2Z.id. reflexivity.
Qed.

Lemma edge_at_wire g es ts : Forall2 (edge_at g) es ts -> Forall2 (wire_edge_at (nkeys g)) es (map Some ts).
Proof.
  induction 1 as [|e [[i j] x] es' ts' [Hw [Hi Hj]] HF IH]; cbn [map]; constructor; auto.
  cbn [fst snd] in *. exists i, j. subst x. auto.
Qed.

Lemma Forall2_length' {A B} (R : A -> B -> Prop) l1 l2 : Forall2 R l1 l2 -> length l1 = length l2.
Proof. induction 1; cbn [length]; auto. Qed.

Theorem ser_gm_total d g : GInv d g ->
  exists w, ser_gm d g = Some w /\
    gw_nodes w = nkeys g /\ gw_holes w = [] /\ gw_directed w = d /\
    length (gw_edges w) = length (gedges g) /\
    Forall2 (wire_edge_at (nkeys g)) (gedges g) (gw_edges w).
Proof.
  intros HI. destruct (into_graph_ok d g HI) as [ts [Hts HF]].
  exists (mkGw (nkeys g) [] d (map Some ts)). unfold ser_gm. rewrite Hts, triples_opt_flat3n.
  split; [reflexivity|]. cbn [gw_nodes gw_holes gw_directed gw_edges].
  repeat split; auto.
  - rewrite map_length. symmetry. eapply Forall2_length'; eauto.
  - apply edge_at_wire; exact HF.
Qed.

(* ------------------------------------------------------------------ *)
(* Re-adding a list of fresh canonical keys                            *)

Definition relink1 (c : Z) (t : Z * Z * Z) : adjv :=
  (if src t =? c then [(tgt t, true)] else []) ++
  (if (tgt t =? c) && negb (src t =? tgt t) then [(src t, false)] else []).

(* the adjacency vector of c when the edges are linked in list order *)
Definition relink (c : Z) (l : list (Z * Z * Z)) : adjv := flat_map (relink1 c) l.

Lemma add_edge_new_adj d g a b w c :
  im_get zpair_eqb (gedges g) (edge_key d a b) = None ->
  adj_of (snd (add_edge d g a b w)) c = adj_of g c ++ relink1 c (a, b, w).
Proof.
  intros Hn. rewrite !adj_of_adjv_of, (add_edge_gnodes_new d g a b w Hn).
  apply add_edge_nodes_adjv.
Qed.

Lemma add_edges_fresh d l : forall g,
  NoDup (ekeys g ++ map fst l) ->
  (forall a b, In (a, b) (map fst l) -> edge_key d a b = (a, b)) ->
  gedges (add_edges d g l) = gedges g ++ l /\
  (forall c, adj_of (add_edges d g l) c = adj_of g c ++ relink c l).
Proof.
  induction l as [|[[a b] x] rest IH]; intros g HN Hc; cbn [add_edges fold_left].
  - split; [rewrite app_nil_r; reflexivity|]. intros c. cbn [relink flat_map]. rewrite app_nil_r; reflexivity.
  - fold (add_edges d (snd (add_edge d g (src (a, b, x)) (tgt (a, b, x)) (snd (a, b, x)))) rest).
    change (src (a, b, x)) with a. change (tgt (a, b, x)) with b. change (snd (a, b, x)) with x.
    assert (Hk : edge_key d a b = (a, b)) by (apply Hc; left; reflexivity).
    cbn [map fst] in HN.
    assert (Hnone : im_get zpair_eqb (gedges g) (edge_key d a b) = None).
    { rewrite Hk. apply (im_get_none zpair_eqb zpair_eqb_spec). intros Hin.
      apply NoDup_remove_2 in HN. apply HN. apply in_app_iff. left; exact Hin. }
    set (g1 := snd (add_edge d g a b x)).
    assert (He1 : gedges g1 = gedges g ++ [((a, b), x)]).
    { unfold g1. rewrite add_edge_gedges, (im_insert_new zpair_eqb _ _ x Hnone), Hk. reflexivity. }
    destruct (IH g1) as [HE HA].
    + unfold ekeys. rewrite He1, map_app. cbn [map fst]. rewrite <- app_assoc. exact HN.
    + intros a' b' Hin. apply Hc. right; exact Hin.
    + split.
      * rewrite HE, He1, <- app_assoc. reflexivity.
      * intros c. rewrite HA. unfold g1. rewrite (add_edge_new_adj d g a b x c Hnone).
        rewrite <- app_assoc. reflexivity.
Qed.

(* ------------------------------------------------------------------ *)
(* T2: the round trip                                                  *)

Lemma resolve_ser g es ts : Forall2 (edge_at g) es ts -> resolve (nkeys g) (map Some ts) = Some es.
Proof.
  induction 1 as [|[[a b] x0] [[i j] x] es' ts' [Hw [Hi Hj]] HF IH]; [reflexivity|].
  cbn [map resolve]. cbn [fst snd] in *. unfold nkeys. rewrite Hi, Hj.
  unfold nkeys in IH. rewrite IH. subst x. reflexivity.
Qed.

Theorem roundtrip_exact d g : GInv d g ->
  exists w g', ser_gm d g = Some w /\ deser_gm d w = Some g' /\
    GInv d g' /\ nkeys g' = nkeys g /\ gedges g' = gedges g /\
    (forall c, adj_of g' c = relink c (gedges g)).
Proof.
  intros HI. destruct (into_graph_ok d g HI) as [ts [Hts HF]].
  set (w := mkGw (nkeys g) [] d (map Some ts)).
  assert (Hser : ser_gm d g = Some w).
  { unfold ser_gm. rewrite Hts, triples_opt_flat3n. reflexivity. }
  assert (Hres : resolve (gw_nodes w) (gw_edges w) = Some (gedges g)) by (apply resolve_ser; exact HF).
  pose proof (deser_gm_intro d w (gedges g) eq_refl eq_refl Hres) as Hde.
  cbn [gw_nodes] in Hde.
  exists w, (add_edges d (nodes_only (nkeys g)) (gedges g)).
  split; [exact Hser|]. split; [exact Hde|].
  pose proof (nodes_only_inv d (nkeys g)) as HI0.
  assert (Hn0 : nkeys (nodes_only (nkeys g)) = nkeys g).
  { rewrite nodes_only_nkeys. apply (dedup_first_id Z.eqb Zeqb_spec'). apply (gi_nodes_nodup d g HI). }
  destruct (add_edges_fresh d (gedges g) (nodes_only (nkeys g))) as [HE HA].
  { unfold ekeys at 1. rewrite nodes_only_gedges. cbn [map app]. apply (gi_edges_nodup d g HI). }
  { apply (gi_canonical d g HI). }
  split; [apply add_edges_inv; exact HI0|]. split; [|split].
  - rewrite add_edges_nkeys; [exact Hn0|]. intros [[a b] x] Hin. rewrite Hn0.
    apply (gi_endpoints d g HI). apply (in_map fst) in Hin. exact Hin.
  - rewrite HE, nodes_only_gedges. reflexivity.
  - intros c. rewrite HA, nodes_only_adj. reflexivity.
Qed.

(* Two states with the same edge keys have the same adjacency up to order; when undirected only the
   neighbour component is determined (the direction tag of an undirected entry records which endpoint
   was passed first to add_edge, and no query of an undirected map reads it). *)
Lemma adj_same_keys d g g' c : GInv d g -> GInv d g' -> ekeys g' = ekeys g ->
  Permutation (map fst (adj_of g' c)) (map fst (adj_of g c)) /\
  (d = true -> Permutation (adj_of g' c) (adj_of g c)).
Proof.
  intros HI HI' Hk. pose proof (GInv_adj d g c HI) as [HU H]. pose proof (GInv_adj d g' c HI') as [HU' H'].
  rewrite Hk in H'. destruct d; cbn [uniq] in *.
  - assert (HP : Permutation (adj_of g' c) (adj_of g c)).
    { destruct H as [Ho Hi]. destruct H' as [Ho' Hi']. apply NoDup_Permutation; auto.
      intros [b [|]]; [rewrite Ho, Ho' | rewrite Hi, Hi']; tauto. }
    split; [apply Permutation_map; exact HP | intros _; exact HP].
  - split; [|discriminate]. destruct H as [Ho _]. destruct H' as [Ho' _].
    apply NoDup_Permutation; auto. intros b. rewrite Ho, Ho'. tauto.
Qed.

Theorem roundtrip d g : GInv d g ->
  exists w g', ser_gm d g = Some w /\ deser_gm d w = Some g' /\
    GInv d g' /\ nkeys g' = nkeys g /\ gedges g' = gedges g /\
    abs g' = abs g /\ sg_equiv (abs g') (abs g) /\
    (forall c, adj_of g' c = relink c (gedges g)) /\
    (forall c, Permutation (map fst (adj_of g' c)) (map fst (adj_of g c))) /\
    (d = true -> forall c, Permutation (adj_of g' c) (adj_of g c)) /\
    (forall c, Permutation (neighbors d g' c) (neighbors d g c)).
Proof.
  intros HI. destruct (roundtrip_exact d g HI) as [w [g' [Hs [Hd [HI' [Hn [He Ha]]]]]]].
  exists w, g'. split; [exact Hs|]. split; [exact Hd|]. split; [exact HI'|].
  split; [exact Hn|]. split; [exact He|].
  assert (Habs : abs g' = abs g) by (unfold abs; rewrite Hn, He; reflexivity).
  assert (Hk : ekeys g' = ekeys g) by (unfold ekeys; rewrite He; reflexivity).
  split; [exact Habs|]. split; [rewrite Habs; apply sg_equiv_refl|]. split; [exact Ha|].
  split; [intros c; apply (adj_same_keys d g g' c HI HI' Hk)|].
  split; [intros Hdir c; apply (adj_same_keys d g g' c HI HI' Hk); exact Hdir|].
  intros c. eapply Permutation_trans; [apply (neighbors_correct d g' c HI')|].
  rewrite Habs. apply Permutation_sym. apply (neighbors_correct d g c HI).
Qed.

(* T5: every state reachable from GraphMap::new() round-trips *)
Theorem roundtrip_history d debug ops :
  let g := final d debug gm_new ops in
  exists w g', ser_gm d g = Some w /\ deser_gm d w = Some g' /\
    GInv d g' /\ nkeys g' = nkeys g /\ gedges g' = gedges g /\
    sg_equiv (abs g') (s_run d ops).
Proof.
  intros g. destruct (history_refines d debug ops) as [HI Heq]. fold g in HI, Heq.
  destruct (roundtrip d g HI) as [w [g' [Hs [Hd [HI' [Hn [He [Habs _]]]]]]]].
  exists w, g'. split; [exact Hs|]. split; [exact Hd|]. split; [exact HI'|]. split; [exact Hn|].
  split; [exact He|]. rewrite Habs. exact Heq.
Qed.

(* Finding: on an undirected map the direction tags are not preserved by the round trip. *)
Lemma undirected_tags_counterexample :
  let g := snd (add_edge false gm_new 2 1 7) in
  exists w g', ser_gm false g = Some w /\ deser_gm false w = Some g' /\
    adj_of g 1 = [(2, false)] /\ adj_of g' 1 = [(2, true)] /\
    ~ Permutation (adj_of g' 1) (adj_of g 1) /\
    gnodes g = [(2, [(1, true)]); (1, [(2, false)])] /\
    gnodes g' = [(2, [(1, false)]); (1, [(2, true)])] /\
    gedges g' = gedges g.
Proof.
  intros g. exists (mkGw [2; 1] [] false [Some (1%nat, 0%nat, 7)]).
  exists (mkGm [(2, [(1, false)]); (1, [(2, true)])] [((1, 2), 7)]).
  split; [vm_compute; reflexivity|]. split; [vm_compute; reflexivity|].
  split; [vm_compute; reflexivity|]. split; [vm_compute; reflexivity|].
  split; [|split; [vm_compute; reflexivity|split; vm_compute; reflexivity]].
  change (adj_of (mkGm [(2, [(1, false)]); (1, [(2, true)])] [((1, 2), 7)]) 1) with [(2, true)].
  change (adj_of g 1) with [(2, false)].
  intros HP. apply Permutation_length_1 in HP. discriminate.
Qed.

(* The two halves of [roundtrip], as stated in Props/C17b.v. *)
Theorem roundtrip_core d g : GInv d g ->
  exists w g', ser_gm d g = Some w /\ deser_gm d w = Some g' /\
    GInv d g' /\ nkeys g' = nkeys g /\ gedges g' = gedges g /\
    abs g' = abs g /\ sg_equiv (abs g') (abs g).
Proof.
  intros HI. destruct (roundtrip d g HI) as [w [g' [H1 [H2 [H3 [H4 [H5 [H6 [H7 _]]]]]]]]].
  exists w, g'. split; [exact H1|]. split; [exact H2|]. split; [exact H3|]. split; [exact H4|].
  split; [exact H5|]. split; [exact H6 | exact H7].
Qed.

Theorem roundtrip_adjacency d g : GInv d g ->
  exists w g', ser_gm d g = Some w /\ deser_gm d w = Some g' /\
    (forall c, adj_of g' c = relink c (gedges g)) /\
    (forall c, Permutation (map fst (adj_of g' c)) (map fst (adj_of g c))) /\
    (d = true -> forall c, Permutation (adj_of g' c) (adj_of g c)) /\
    (forall c, Permutation (neighbors d g' c) (neighbors d g c)).
Proof.
  intros HI. destruct (roundtrip d g HI) as [w [g' [H1 [H2 [_ [_ [_ [_ [_ H8]]]]]]]]].
  exists w, g'. split; [exact H1|]. split; [exact H2 | exact H8].
Qed.
