(* is_bipartite_undirected (algo/mod.rs): a breadth-first two-colouring from the start node.
   true: the two maps are a proper colouring of everything reachable; false: every proper
   colouring would have to agree with the maps up to the colour of the start, and the maps
   give both ends of some edge the same colour. *)
From PG Require Import Lib.Io Model.View Model.Traversal Model.AlgoBasic Spec.Reach Spec.AlgoSpec
                       Proofs.TravBase.

Definition bichrom (red blue : list nat) (a b : nat) : Prop :=
  (In a red /\ In b blue) \/ (In a blue /\ In b red).

(* a proper colouring of what s reaches, in boolean form *)
Definition proper (v : view) (s : nat) (c : nat -> bool) : Prop :=
  forall a b, reachable v s a -> step v a b -> c a = negb (c b).

Lemma proper_iff v s c : proper v s c <-> (forall a b, reachable v s a -> step v a b -> c a <> c b).
Proof.
  split; intros H a b R Hs; specialize (H a b R Hs); destruct (c a), (c b); cbn [negb] in *; congruence.
Qed.

Record BInv (v : view) (s : nat) (red blue q done : list nat) : Prop := {
  b_disj : forall x, In x red -> In x blue -> False;
  b_col : forall x, In x (done ++ q) <-> (In x red \/ In x blue);
  b_nd : NoDup (done ++ q);
  b_nodes : forall x, In x (done ++ q) -> x = s \/ In x (vnodes v);
  b_reach : forall x, In x (done ++ q) -> reachable v s x;
  b_done : forall a b, In a done -> step v a b -> bichrom red blue a b;
  b_agree : forall c, proper v s c ->
              (forall x, In x red -> c x = c s) /\ (forall x, In x blue -> c x = negb (c s))
}.

Section Bip.
Variable v : view.
Hypothesis Hv : VOk v.
Variable s : nat.

Lemma bichrom_mono red blue red' blue' a b :
  (forall x, In x red -> In x red') -> (forall x, In x blue -> In x blue') ->
  bichrom red blue a b -> bichrom red' blue' a b.
Proof. intros Hr Hb [[H1 H2]|[H1 H2]]; [left | right]; split; auto. Qed.

(* colouring an uncoloured neighbour nb of the coloured queue head with the other colour *)
Lemma binv_push (is_red : bool) red blue node qa done nb :
  BInv v s red blue (node :: qa) done ->
  (is_red = true -> In node red) -> (is_red = false -> In node blue) ->
  step v node nb -> ~ In nb red -> ~ In nb blue ->
  BInv v s (if is_red then red else nb :: red) (if is_red then nb :: blue else blue)
       (node :: qa ++ [nb]) done.
Proof.
  intros B Hr Hb Hs Hnr Hnb. destruct B as [Bd Bc Bn Bno Bre Bdo Bag].
  assert (Hnode : In node (done ++ node :: qa)) by (apply in_or_app; right; left; reflexivity).
  assert (Eapp : done ++ node :: qa ++ [nb] = (done ++ node :: qa) ++ [nb]).
  { rewrite <- app_assoc. reflexivity. }
  assert (Hfresh : ~ In nb (done ++ node :: qa)).
  { intros H. apply Bc in H. destruct H; contradiction. }
  assert (Nnb : In nb (vnodes v)) by (destruct Hv as [_ [Hn _]]; apply (Hn node nb Hs)).
  assert (Rnb : reachable v s nb) by (eapply reach_step; [apply Bre; exact Hnode | exact Hs]).
  assert (Hnd' : NoDup ((done ++ node :: qa) ++ [nb])).
  { apply NoDup_app_intro; [exact Bn | constructor; [intros [] | constructor]|].
    intros x Hx [<-|[]]. exact (Hfresh Hx). }
  destruct is_red.
  - specialize (Hr eq_refl). constructor.
    + intros x Hx [<-|Hxb]; [exact (Hnr Hx) | exact (Bd x Hx Hxb)].
    + intros x. rewrite Eapp, in_app_iff, Bc. cbn [In]. tauto.
    + rewrite Eapp. exact Hnd'.
    + intros x Hx. rewrite Eapp in Hx. apply in_app_or in Hx.
      destruct Hx as [Hx|[<-|[]]]; [apply Bno; exact Hx | right; exact Nnb].
    + intros x Hx. rewrite Eapp in Hx. apply in_app_or in Hx.
      destruct Hx as [Hx|[<-|[]]]; [apply Bre; exact Hx | exact Rnb].
    + intros a b Ha Hab. apply (bichrom_mono red blue); [auto | intros x Hx; right; exact Hx | apply (Bdo a b Ha Hab)].
    + intros c Hc. destruct (Bag c Hc) as [A1 A2]. split; [exact A1|].
      intros x [<-|Hx]; [|apply A2; exact Hx].
      pose proof (Hc node nb (Bre node Hnode) Hs) as E. rewrite (A1 node Hr) in E.
      destruct (c nb), (c s); cbn [negb] in *; congruence.
  - specialize (Hb eq_refl). constructor.
    + intros x [<-|Hx] Hxb; [exact (Hnb Hxb) | exact (Bd x Hx Hxb)].
    + intros x. rewrite Eapp, in_app_iff, Bc. cbn [In]. tauto.
    + rewrite Eapp. exact Hnd'.
    + intros x Hx. rewrite Eapp in Hx. apply in_app_or in Hx.
      destruct Hx as [Hx|[<-|[]]]; [apply Bno; exact Hx | right; exact Nnb].
    + intros x Hx. rewrite Eapp in Hx. apply in_app_or in Hx.
      destruct Hx as [Hx|[<-|[]]]; [apply Bre; exact Hx | exact Rnb].
    + intros a b Ha Hab. apply (bichrom_mono red blue); [intros x Hx; right; exact Hx | auto | apply (Bdo a b Ha Hab)].
    + intros c Hc. destruct (Bag c Hc) as [A1 A2]. split; [|exact A2].
      intros x [<-|Hx]; [|apply A1; exact Hx].
      pose proof (Hc node nb (Bre node Hnode) Hs) as E. rewrite (A2 node Hb) in E.
      destruct (c nb), (c s); cbn [negb] in *; congruence.
Qed.

(* the loop over the neighbours of the queue head *)
Lemma bip_neighbors_ok (is_red : bool) node done : forall ns red blue qa,
  BInv v s red blue (node :: qa) done ->
  (is_red = true -> In node red) -> (is_red = false -> In node blue) ->
  (forall nb, In nb ns -> step v node nb) ->
  exists o, bip_neighbors v is_red ns red blue qa = Ok o /\
    match o with
    | None => ~ two_colourable v s
    | Some (red', blue', qa') =>
        BInv v s red' blue' (node :: qa') done /\
        (forall x, In x red -> In x red') /\ (forall x, In x blue -> In x blue') /\
        (forall nb, In nb ns -> bichrom red' blue' node nb)
    end.
Proof.
  induction ns as [|nb rest IH]; intros red blue qa B Hr Hb Hns.
  - exists (Some (red, blue, qa)). split; [reflexivity|]. split; [exact B|].
    split; [auto|]. split; [auto|]. intros nb [].
  - cbn [bip_neighbors]. unfold is_visited.
    assert (Hs : step v node nb) by (apply Hns; left; reflexivity).
    assert (Hrest : forall x, In x rest -> step v node x) by (intros x Hx; apply Hns; right; exact Hx).
    assert (Hnode : In node (done ++ node :: qa)) by (apply in_or_app; right; left; reflexivity).
    assert (Cnb : in_cap v nb) by (destruct Hv as [[Hc _] _]; apply (Hc node nb Hs)).
    assert (Hconf : forall (same : bool), (if same then In nb red else In nb blue) ->
              (if same then In node red else In node blue) -> ~ two_colourable v s).
    { intros same H1 H2 [c Hc]. apply proper_iff in Hc.
      destruct (b_agree _ _ _ _ _ _ B c Hc) as [A1 A2].
      pose proof (Hc node nb (b_reach _ _ _ _ _ _ B node Hnode) Hs) as E.
      destruct same.
      - rewrite (A1 node H2), (A1 nb H1) in E. destruct (c s); discriminate E.
      - rewrite (A2 node H2), (A2 nb H1) in E. destruct (c s); discriminate E. }
    destruct (mem nb red) eqn:Er; destruct (mem nb blue) eqn:Eb.
    + (* both colours: impossible *)
      exfalso. apply mem_In in Er, Eb. apply (b_disj _ _ _ _ _ _ B nb Er Eb).
    + apply mem_In in Er. apply mem_false in Eb. destruct is_red; cbn [andb orb negb].
      * exists None. split; [reflexivity|]. apply (Hconf true Er (Hr eq_refl)).
      * destruct (IH red blue qa B Hr Hb Hrest) as [o [E Ho]]. exists o. split; [exact E|].
        destruct o as [[[red' blue'] qa']|]; [|exact Ho].
        destruct Ho as [B' [M1 [M2 Hbi]]]. split; [exact B'|]. split; [exact M1|]. split; [exact M2|].
        intros x [<-|Hx]; [|apply Hbi; exact Hx]. right. split; [apply M2, Hb; reflexivity | apply M1; exact Er].
    + apply mem_false in Er. apply mem_In in Eb. destruct is_red; cbn [andb orb negb].
      * destruct (IH red blue qa B Hr Hb Hrest) as [o [E Ho]]. exists o. split; [exact E|].
        destruct o as [[[red' blue'] qa']|]; [|exact Ho].
        destruct Ho as [B' [M1 [M2 Hbi]]]. split; [exact B'|]. split; [exact M1|]. split; [exact M2|].
        intros x [<-|Hx]; [|apply Hbi; exact Hx]. left. split; [apply M1, Hr; reflexivity | apply M2; exact Eb].
      * exists None. split; [reflexivity|]. apply (Hconf false Eb (Hb eq_refl)).
    + apply mem_false in Er, Eb.
      pose proof (binv_push is_red red blue node qa done nb B Hr Hb Hs Er Eb) as B1.
      destruct is_red; cbn [andb orb negb].
      * rewrite (visit_ok v blue nb Cnb). cbn [rbind].
        destruct (IH red (if mem nb blue then blue else nb :: blue) (qa ++ [nb])) as [o [E Ho]].
        { apply mem_false in Eb. rewrite Eb. exact B1. }
        { exact Hr. }
        { intros H; discriminate H. }
        { exact Hrest. }
        exists o. split; [exact E|]. destruct o as [[[red' blue'] qa']|]; [|exact Ho].
        assert (Eb' : mem nb blue = false) by (apply mem_false; exact Eb). rewrite Eb' in Ho.
        destruct Ho as [B' [M1 [M2 Hbi]]]. split; [exact B'|]. split; [exact M1|].
        split; [intros x Hx; apply M2; right; exact Hx|].
        intros x [<-|Hx]; [|apply Hbi; exact Hx]. left. split; [apply M1, Hr; reflexivity | apply M2; left; reflexivity].
      * rewrite (visit_ok v red nb Cnb). cbn [rbind].
        destruct (IH (if mem nb red then red else nb :: red) blue (qa ++ [nb])) as [o [E Ho]].
        { apply mem_false in Er. rewrite Er. exact B1. }
        { intros H; discriminate H. }
        { intros _. apply Hb; reflexivity. }
        { exact Hrest. }
        exists o. split; [exact E|]. destruct o as [[[red' blue'] qa']|]; [|exact Ho].
        assert (Er' : mem nb red = false) by (apply mem_false; exact Er). rewrite Er' in Ho.
        destruct Ho as [B' [M1 [M2 Hbi]]]. split; [exact B'|].
        split; [intros x Hx; apply M1; right; exact Hx|]. split; [exact M2|].
        intros x [<-|Hx]; [|apply Hbi; exact Hx]. right. split; [apply M2, Hb; reflexivity | apply M1; left; reflexivity].
Qed.

(* the queue head leaves the queue with all its edges two-coloured *)
Lemma binv_pop red blue node qa done :
  BInv v s red blue (node :: qa) done ->
  (forall nb, step v node nb -> bichrom red blue node nb) ->
  BInv v s red blue qa (node :: done).
Proof.
  intros B Hbi. destruct B as [Bd Bc Bn Bno Bre Bdo Bag].
  assert (Hperm : forall x, In x ((node :: done) ++ qa) <-> In x (done ++ node :: qa)).
  { intros x. cbn [app In]. rewrite !in_app_iff. cbn [In]. tauto. }
  constructor; auto.
  - intros x. rewrite Hperm. apply Bc.
  - cbn [app]. apply NoDup_remove in Bn as Hn2. destruct Hn2 as [Hn2 Hn3]. constructor; assumption.
  - intros x Hx. apply Bno, Hperm, Hx.
  - intros x Hx. apply Bre, Hperm, Hx.
  - intros a b [<-|Ha] Hab; [apply Hbi; exact Hab | apply (Bdo a b Ha Hab)].
Qed.

Lemma bip_loop_ok : forall fuel red blue q done,
  BInv v s red blue q done -> In s red ->
  length (vnodes v) + 1 < fuel + length done ->
  exists b, bip_loop fuel v red blue q = Ok b /\ (b = true <-> two_colourable v s).
Proof.
  induction fuel as [|f IH]; intros red blue q done B Hs Hf.
  - exfalso. pose proof (b_nd _ _ _ _ _ _ B) as Hn.
    assert (Hl : length (done ++ q) <= length (s :: vnodes v)).
    { apply NoDup_incl_length; [exact Hn|]. intros x Hx.
      destruct (b_nodes _ _ _ _ _ _ B x Hx) as [->|H]; [left; reflexivity | right; exact H]. }
    rewrite app_length in Hl. cbn [length] in Hl. lia.
  - cbn [bip_loop]. destruct q as [|node rest].
    + exists true. split; [reflexivity|]. split; [intros _|reflexivity].
      exists (fun x => mem x red). apply proper_iff.
      destruct B as [Bd Bc Bn Bno Bre Bdo Bag]. rewrite app_nil_r in *.
      assert (Hsd : In s done) by (apply Bc; left; exact Hs).
      assert (Hcl : forall a, reachable v s a -> In a done).
      { intros a R. induction R as [|x y Rx IHx Hxy]; [exact Hsd|].
        apply Bc. destruct (Bdo x y IHx Hxy) as [[_ H]|[_ H]]; [right | left]; exact H. }
      intros a b R Hab. destruct (Bdo a b (Hcl a R) Hab) as [[H1 H2]|[H1 H2]].
      * assert (E1 : mem a red = true) by (apply mem_In; exact H1).
        assert (E2 : mem b red = false) by (apply mem_false; intros H; exact (Bd b H H2)).
        rewrite E1, E2. reflexivity.
      * assert (E1 : mem a red = false) by (apply mem_false; intros H; exact (Bd a H H1)).
        assert (E2 : mem b red = true) by (apply mem_In; exact H2).
        rewrite E1, E2. reflexivity.
    + unfold is_visited.
      assert (Hnode : In node (done ++ node :: rest)) by (apply in_or_app; right; left; reflexivity).
      assert (Hcolour : (mem node red = true /\ mem node blue = false) \/ (mem node red = false /\ mem node blue = true)).
      { destruct (proj1 (b_col _ _ _ _ _ _ B node) Hnode) as [H|H].
        - left. split; [apply mem_In; exact H | apply mem_false; intros H2; exact (b_disj _ _ _ _ _ _ B node H H2)].
        - right. split; [apply mem_false; intros H2; exact (b_disj _ _ _ _ _ _ B node H2 H) | apply mem_In; exact H]. }
      assert (Hxor : negb (xorb (mem node red) (mem node blue)) = false).
      { destruct Hcolour as [[-> ->]|[-> ->]]; reflexivity. }
      rewrite Hxor.
      destruct (bip_neighbors_ok (mem node red) node done (neighbors v node) red blue rest B) as [o [E Ho]].
      { intros H. apply mem_In; exact H. }
      { intros H. destruct Hcolour as [[H1 _]|[_ H2]]; [congruence | apply mem_In; exact H2]. }
      { intros nb Hnb; exact Hnb. }
      rewrite E. cbn [rbind]. destruct o as [[[red' blue'] q']|].
      * destruct Ho as [B' [M1 [_ Hbi]]].
        apply (IH red' blue' q' (node :: done)).
        -- apply binv_pop; [exact B' | exact Hbi].
        -- apply M1; exact Hs.
        -- cbn [length]. lia.
      * exists false. split; [reflexivity|]. split; [discriminate | intros H; contradiction].
Qed.

Theorem is_bipartite_spec : in_cap v s ->
  exists b, is_bipartite_undirected v s = Ok b /\ (b = true <-> two_colourable v s).
Proof.
  intros Hc. unfold is_bipartite_undirected. rewrite (visit_ok v [] s Hc). cbn [rbind mem negb].
  apply (bip_loop_ok (4 * trav_fuel v) [s] [] [s] []).
  - constructor; cbn [app].
    + intros x _ [].
    + intros x. cbn [In]. tauto.
    + constructor; [intros [] | constructor].
    + intros x [<-|[]]. left; reflexivity.
    + intros x [<-|[]]. apply reach_refl.
    + intros a b [].
    + intros c _. split; [intros x [<-|[]]; reflexivity | intros x []].
  - left; reflexivity.
  - unfold trav_fuel, vnode_count. cbn [length]. lia.
Qed.

End Bip.
