(* The traversal results in the form the property file states them: for well-formed views
   (VOk), for every sufficient fuel and for the fuel the model uses. *)
From Coq Require Import Sorted Permutation.
From PG Require Import Lib.Io Model.View Model.Traversal Spec.Reach Spec.DfsEvents
                       Proofs.TravBase Proofs.TraversalP Proofs.BfsP Proofs.DpoP Proofs.TopoP
                       Proofs.DfsEventsP Proofs.DfsVisitP.

Lemma model_fuel v : trav_fuel v <= 4 * trav_fuel v.
Proof. lia. Qed.

Lemma model_fuel2 v : trav_fuel v + trav_fuel v <= 4 * trav_fuel v.
Proof. lia. Qed.

(* ------------------------------------------------------------------ Dfs *)

Theorem dfs_reachable_vok v s fuel : VOk v -> in_cap v s -> trav_fuel v <= fuel ->
  exists l d, dfs_drain fuel v (dfs_move_to dfs_empty s) = Ok (l, d) /\ NoDup l /\
              (forall x, In x l <-> reachable v s x).
Proof.
  intros [Hc [Hn _]] Hs Hf.
  destruct (@dfs_reachable v s fuel Hc Hn Hs Hf) as [l [d [E [Hnd [Hr _]]]]].
  exists l, d. split; [exact E|]. split; assumption.
Qed.

Theorem dfs_move_to_vok v d t fuel : VOk v -> in_cap v t -> trav_fuel v <= fuel ->
  exists l d', dfs_drain fuel v (dfs_move_to d t) = Ok (l, d') /\ NoDup l /\
    (forall x, In x l <-> reach_in (fun y => ~ In y (ddisc d)) v t x) /\
    (In t (ddisc d) -> l = []).
Proof.
  intros [Hc [Hn _]] Ht Hf.
  destruct (@dfs_move_to_drain v d t fuel Hc Hn Ht Hf) as [l [d' [E [Hnd [Hr _]]]]].
  exists l, d'. split; [exact E|]. split; [exact Hnd|]. split; [exact Hr|].
  intros Hin. destruct l as [|x l']; [reflexivity|]. exfalso.
  assert (Hx : reach_in (fun y => ~ In y (ddisc d)) v t x) by (apply Hr; left; reflexivity).
  apply reach_in_start in Hx. exact (Hx Hin).
Qed.

Theorem dfs_move_to_after_steps v s k t l1 d1 fuel :
  VOk v -> in_cap v t -> trav_fuel v <= fuel ->
  dfs_steps k v (dfs_move_to dfs_empty s) = Ok (l1, d1) ->
  exists l2 d2, dfs_drain fuel v (dfs_move_to d1 t) = Ok (l2, d2) /\ NoDup l2 /\
    (forall x, In x l2 <-> reach_in (fun y => ~ In y l1) v t x) /\
    (In t l1 -> l2 = []).
Proof.
  intros Hv Ht Hf Hs. apply dfs_steps_disc in Hs. cbn [dfs_move_to dfs_empty ddisc] in Hs.
  rewrite app_nil_r in Hs.
  destruct (dfs_move_to_vok v d1 t fuel Hv Ht Hf) as [l2 [d2 [E [Hnd [Hr He]]]]].
  assert (Hiff : forall y, In y (ddisc d1) <-> In y l1) by (intros y; rewrite Hs, <- in_rev; reflexivity).
  exists l2, d2. split; [exact E|]. split; [exact Hnd|]. split.
  - intros x. rewrite (Hr x). split; apply reach_in_weaken; intros y Hy Hin; apply Hy, Hiff, Hin.
  - intros Hin. apply He, Hiff, Hin.
Qed.

Lemma dfs_reset_fresh d t : dfs_move_to (dfs_reset d) t = dfs_move_to dfs_empty t.
Proof. reflexivity. Qed.

(* ------------------------------------------------------------------ Bfs *)

Theorem bfs_vok v s fuel : VOk v -> in_cap v s -> trav_fuel v <= fuel ->
  exists l, rbind (bfs_new v s) (bfs_drain fuel v) = Ok l /\ NoDup l /\
    (forall x, In x l <-> reachable v s x) /\
    exists ds, Forall2 (hopdist v s) l ds /\ Sorted le ds.
Proof. intros [Hc [Hn _]] Hs Hf. exact (@bfs_spec v s fuel Hc Hn Hs Hf). Qed.

(* ------------------------------------------------------------------ DfsPostOrder *)

Theorem dpo_vok v s fuel : VOk v -> in_cap v s -> trav_fuel v + trav_fuel v <= fuel ->
  exists l d, dpo_drain fuel v (mkDpo [s] [] []) = Ok (l, d) /\ NoDup l /\
    (forall x, In x l <-> reachable v s x) /\
    (forall l1 u l2 w, l = l1 ++ u :: l2 -> step v u w -> ~ reachable v w u -> In w l1).
Proof. intros [Hc [Hn _]] Hs Hf. exact (@dpo_spec v s fuel Hc Hn Hs Hf). Qed.

(* on an acyclic view the reverse post-order is a topological order of the reachable part *)
Theorem dpo_dag v s fuel : VOk v -> acyclic v -> in_cap v s -> trav_fuel v + trav_fuel v <= fuel ->
  exists l d, dpo_drain fuel v (mkDpo [s] [] []) = Ok (l, d) /\ NoDup l /\
    (forall x, In x l <-> reachable v s x) /\
    (forall l1 u l2 w, l = l1 ++ u :: l2 -> step v u w -> In w l1).
Proof.
  intros Hv Hac Hs Hf. destruct (dpo_vok v s fuel Hv Hs Hf) as [l [d [E [Hnd [Hr Ho]]]]].
  exists l, d. split; [exact E|]. split; [exact Hnd|]. split; [exact Hr|].
  intros l1 u l2 w El Hw. apply (Ho l1 u l2 w El Hw). intros R. apply (Hac u). exists w. split; assumption.
Qed.

(* ------------------------------------------------------------------ Topo *)

Theorem topo_vok v fuel : VOk v -> trav_fuel v <= fuel ->
  exists l, topo_drain fuel v (topo_new v) = Ok l /\ NoDup l /\
    (forall x, In x l -> In x (vnodes v)) /\
    (forall l1 u l2 p, l = l1 ++ u :: l2 -> In p (neighbors_in v u) -> In p l1) /\
    (forall x, In x l <-> In x (vnodes v) /\ ~ downstream v x) /\
    ((forall x, In x (vnodes v) -> In x l) <-> acyclic v) /\
    (NoDup (vnodes v) -> (Permutation l (vnodes v) <-> acyclic v)).
Proof.
  intros [Hc [Hn Hio]] Hf.
  destruct (@topo_spec v fuel Hc Hn Hf) as [l [E [Hnd [Hln [Hp Hiff]]]]].
  specialize (Hiff Hio). pose proof (@topo_all_iff_acyclic v l Hn Hiff) as Hall.
  exists l. split; [exact E|]. split; [exact Hnd|]. split; [exact Hln|]. split; [exact Hp|].
  split; [exact Hiff|]. split; [exact Hall|].
  intros Hndv. rewrite <- Hall. split.
  - intros P x Hx. apply Permutation_sym in P. eapply Permutation_in; [exact P | exact Hx].
  - intros Ha. apply NoDup_Permutation; [exact Hnd | exact Hndv|].
    intros x; split; [apply Hln | apply Ha].
Qed.

(* ------------------------------------------------------------------ depth_first_search *)

Theorem dfsvisit_vok v ctl debug starts :
  VOk v -> (forall r, In r starts -> in_cap v r) -> (forall u t, ctl (EvFinish u t) <> CPrune) ->
  exists brk evs st, depth_first_search v ctl debug starts = Ok (brk, evs) /\
    ev_run v ctl starts tinit evs st /\ brk_ok ctl brk evs /\
    (brk = false -> topen st = [] /\ tpend st = None /\ forall r, In r starts -> In r (tdisc st)) /\
    nest [] evs = Some (map fst (topen st)) /\
    ev_times evs = seq 0 (length (ev_times evs)) /\
    (forall pre e post, evs = pre ++ e :: post -> event_ok v pre e).
Proof.
  intros [[Hc _] [Hn _]] Hst Hfin.
  destruct (@dfs_search_main v ctl debug starts Hc Hn Hfin Hst) as [brk [evs [st [E [R [Hb Hend]]]]]].
  exists brk, evs, st. split; [exact E|]. split; [exact R|]. split; [exact Hb|]. split; [exact Hend|].
  split; [exact (ev_run_nest _ _ _ _ _ _ R)|]. split.
  - destruct (ev_run_times _ _ _ _ _ _ R) as [_ Ht]. cbn [tinit ttime] in Ht.
    rewrite Nat.sub_0_r in Ht. rewrite Ht at 2. rewrite seq_length. exact Ht.
  - exact (ev_run_event_ok _ _ _ _ _ R).
Qed.

(* with a visitor that always continues: one Discover and one Finish for exactly the nodes
   reachable from a start, all properly closed *)
Theorem dfsvisit_continue v debug starts :
  VOk v -> (forall r, In r starts -> in_cap v r) ->
  exists evs, depth_first_search v (fun _ => CContinue) debug starts = Ok (false, evs) /\
    NoDup (disc_nodes evs) /\ NoDup (fin_nodes evs) /\
    (forall x, In x (disc_nodes evs) <-> exists r, In r starts /\ reachable v r x) /\
    (forall x, In x (fin_nodes evs) <-> In x (disc_nodes evs)) /\
    nest [] evs = Some [].
Proof.
  intros Hv Hst.
  destruct (dfsvisit_vok v (fun _ => CContinue) debug starts Hv Hst) as
    [brk [evs [st [E [R [Hb [Hend [Hnest _]]]]]]]]; [intros u t; discriminate|].
  destruct brk.
  { cbn [brk_ok] in Hb. destruct Hb as [pre [e [_ [_ Hc]]]]. discriminate Hc. }
  destruct (Hend eq_refl) as [Ho [_ Hroots]].
  pose proof (ev_run_inv _ _ _ _ _ _ (tinv_init v starts) R) as I.
  pose proof (ev_run_disc _ _ _ _ _ _ R) as Hd. pose proof (ev_run_fin _ _ _ _ _ _ R) as Hf.
  cbn [tinit tdisc tfin] in Hd, Hf. rewrite app_nil_r in Hd, Hf.
  destruct (ev_run_complete v (fun _ => CContinue) starts (fun _ => eq_refl) evs st R Ho Hroots) as [Hreach Hfd].
  exists evs. split; [exact E|].
  split; [rewrite <- (rev_involutive (disc_nodes evs)), <- Hd; apply NoDup_rev, (ti_nd_disc _ _ _ I)|].
  split; [rewrite <- (rev_involutive (fin_nodes evs)), <- Hf; apply NoDup_rev, (ti_nd_fin _ _ _ I)|].
  split; [|split].
  - intros x. rewrite <- (Hreach x), Hd, <- in_rev. reflexivity.
  - intros x. rewrite in_rev, <- Hf, (Hfd x), Hd, <- in_rev. reflexivity.
  - rewrite Hnest, Ho. reflexivity.
Qed.
