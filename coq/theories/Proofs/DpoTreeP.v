(* DfsPostOrder from a start s, the part the dominators proof needs on top of DpoP: the
   start is emitted last, and every other emitted node has a predecessor emitted after it
   (its parent in the depth-first tree). *)
From PG Require Import Lib.Io Model.View Model.Traversal Spec.Reach Proofs.TravBase.

Record JInv (v : view) (s : nat) (d : dpo) : Prop := {
  j_fd : forall x, In x (pfin d) -> In x (pdisc d);
  j_open : forall x, In x (pdisc d) -> In x (pfin d) \/ In x (pstack d);
  (* below every stack entry there is an open parent of it, the topmost copy of that node *)
  j_stk : forall a x b, pstack d = a ++ x :: b ->
            (x = s /\ b = []) \/
            exists b1 p b2, b = b1 ++ p :: b2 /\ step v p x /\ In p (pdisc d) /\ ~ In p (pfin d) /\
                            ~ In p (a ++ x :: b1);
  (* pfin has the latest finished node first *)
  j_fin : forall l1 x l2, pfin d = l1 ++ x :: l2 -> x <> s ->
            exists p, step v p x /\ (In p l1 \/ (In p (pdisc d) /\ ~ In p (pfin d)));
  j_start : In s (pdisc d) \/ In s (pstack d)
}.

Section DpoTree.
Variable v : view.
Variable s : nat.

Lemma jinv_init : JInv v s (mkDpo [s] [] []).
Proof.
  constructor; cbn [pstack pdisc pfin].
  - intros x [].
  - intros x [].
  - intros a x b E. left. destruct a as [|y a]; cbn [app] in E.
    + injection E as -> <-. split; reflexivity.
    + injection E as _ E. destruct a; discriminate E.
  - intros l1 x l2 E. destruct l1; discriminate E.
  - right; left; reflexivity.
Qed.

Lemma jinv_discover nx rest disc fin :
  JInv v s (mkDpo (nx :: rest) disc fin) -> ~ In nx disc ->
  JInv v s (mkDpo (rev (filter (fun x => negb (is_visited (nx :: disc) x)) (neighbors v nx)) ++ nx :: rest)
                  (nx :: disc) fin).
Proof.
  intros [Hfd Hop Hst Hfin Hs0] Hn. cbn [pstack pdisc pfin] in *.
  set (P := rev (filter (fun x => negb (is_visited (nx :: disc) x)) (neighbors v nx))).
  assert (HP : forall x, In x P -> step v nx x /\ ~ In x (nx :: disc)).
  { intros x Hx. unfold P in Hx. rewrite <- in_rev, filter_In in Hx. destruct Hx as [H1 H2].
    split; [exact H1|]. unfold is_visited in H2. apply negb_true_iff, mem_false in H2. exact H2. }
  constructor; cbn [pstack pdisc pfin].
  - intros x Hx. right. apply Hfd; exact Hx.
  - intros x [<-|Hx].
    + right. apply in_or_app; right; left; reflexivity.
    + destruct (Hop x Hx) as [H|H]; [left; exact H | right; apply in_or_app; right; exact H].
  - intros a x b E. apply app_eq_app in E. destruct E as [l [[E1 E2]|[E1 E2]]].
    + (* P = a ++ l, l = x :: b1 or empty *)
      destruct l as [|y l]; cbn [app] in E2.
      * rewrite app_nil_r in E1. injection E2 as -> ->.
        destruct (Hst [] nx rest eq_refl) as [H|[b1 [p [b2 [Eb [Hpx [Hpd [Hpf Hpa]]]]]]]]; [left; exact H|].
        right. exists b1, p, b2. split; [exact Eb|]. split; [exact Hpx|]. split; [right; exact Hpd|].
        split; [exact Hpf|]. intros Hin. apply in_app_or in Hin.
        destruct Hin as [Hin|Hin]; [|exact (Hpa Hin)]. rewrite <- E1 in Hin.
        apply (proj2 (HP p Hin)). right; exact Hpd.
      * injection E2 as <- E2. right. exists l, nx, rest. split; [exact E2|].
        assert (Hx : In x P) by (rewrite E1; apply in_or_app; right; left; reflexivity).
        split; [apply (HP x Hx)|]. split; [left; reflexivity|].
        split; [intros Hf; apply Hn, Hfd, Hf|].
        intros Hin. assert (Hin' : In nx P).
        { rewrite E1. apply in_app_or in Hin. apply in_or_app.
          destruct Hin as [H|H]; [left; exact H | right; exact H]. }
        apply (proj2 (HP nx Hin')). left; reflexivity.
    + (* a = P ++ l : the entry is nx or lies in rest *)
      destruct (Hst l x b E2) as [H|[b1 [p [b2 [Eb [Hpx [Hpd [Hpf Hpa]]]]]]]]; [left; exact H|].
      right. exists b1, p, b2. split; [exact Eb|]. split; [exact Hpx|]. split; [right; exact Hpd|].
      split; [exact Hpf|]. rewrite E1, <- app_assoc. intros Hin. apply in_app_or in Hin.
      destruct Hin as [Hin|Hin]; [|exact (Hpa Hin)]. apply (proj2 (HP p Hin)). right; exact Hpd.
  - intros l1 x l2 E Hx. destruct (Hfin l1 x l2 E Hx) as [p [Hp [H|[H1 H2]]]]; exists p; (split; [exact Hp|]).
    + left; exact H.
    + right. split; [right; exact H1 | exact H2].
  - destruct Hs0 as [H|H]; [left; right; exact H | right; apply in_or_app; right; exact H].
Qed.

(* popping a discovered top entry; fin' is fin or nx :: fin *)
Lemma jinv_pop nx rest disc fin fin' :
  JInv v s (mkDpo (nx :: rest) disc fin) -> In nx disc ->
  (fin' = fin /\ In nx fin) \/ (fin' = nx :: fin /\ ~ In nx fin) ->
  JInv v s (mkDpo rest disc fin').
Proof.
  intros [Hfd Hop Hst Hfin Hs0] Hd Hf'. cbn [pstack pdisc pfin] in *.
  assert (Hinc : forall x, In x fin -> In x fin') by (intros x Hx; destruct Hf' as [[-> _]|[-> _]]; [exact Hx | right; exact Hx]).
  assert (Hnx : In nx fin') by (destruct Hf' as [[-> H]|[-> _]]; [exact H | left; reflexivity]).
  assert (Hrev : forall x, In x fin' -> x = nx \/ In x fin).
  { intros x Hx. destruct Hf' as [[-> _]|[-> _]]; [right; exact Hx | destruct Hx as [<-|Hx]; [left; reflexivity | right; exact Hx]]. }
  constructor; cbn [pstack pdisc pfin].
  - intros x Hx. destruct (Hrev x Hx) as [->|H]; [exact Hd | apply Hfd; exact H].
  - intros x Hx. destruct (Hop x Hx) as [H|[<-|H]]; [left; apply Hinc; exact H | left; exact Hnx | right; exact H].
  - intros a x b E.
    destruct (Hst (nx :: a) x b ltac:(cbn [app]; rewrite E; reflexivity)) as [H|[b1 [p [b2 [Eb [Hpx [Hpd [Hpf Hpa]]]]]]]];
      [left; exact H|].
    right. exists b1, p, b2. split; [exact Eb|]. split; [exact Hpx|]. split; [exact Hpd|].
    cbn [app] in Hpa. split.
    + intros Hin. destruct (Hrev p Hin) as [->|H]; [apply Hpa; left; reflexivity | exact (Hpf H)].
    + intros Hin. apply Hpa. right; exact Hin.
  - intros l1 x l2 E Hx. destruct Hf' as [[-> Hnf]|[-> Hnf]].
    + apply (Hfin l1 x l2 E Hx).
    + destruct l1 as [|y l1]; cbn [app] in E.
      * injection E as <- <-.
        destruct (Hst [] nx rest eq_refl) as [[H _]|[b1 [p [b2 [Eb [Hpx [Hpd [Hpf Hpa]]]]]]]]; [contradiction|].
        exists p. split; [exact Hpx|]. right. split; [exact Hpd|]. cbn [app] in Hpa.
        intros [H|H]; [apply Hpa; left; exact H | exact (Hpf H)].
      * injection E as <- E. destruct (Hfin l1 x l2 E Hx) as [p [Hp [H|[H1 H2]]]]; exists p; (split; [exact Hp|]).
        -- left; right; exact H.
        -- destruct (Nat.eq_dec p nx) as [->|Hne]; [left; left; reflexivity|].
           right. split; [exact H1|]. intros [H|H]; [congruence | exact (H2 H)].
  - destruct Hs0 as [H|[<-|H]]; [left; exact H | left; exact Hd | right; exact H].
Qed.

Lemma dpo_next_J : forall fuel d o d', JInv v s d -> dpo_next fuel v d = Ok (o, d') ->
  JInv v s d' /\ match o with
                 | None => pstack d' = [] /\ pfin d' = pfin d
                 | Some n => pfin d' = n :: pfin d
                 end.
Proof.
  induction fuel as [|f IH]; intros d o d' I E; [discriminate E|].
  cbn [dpo_next] in E. destruct d as [st disc fin]. cbn [pstack pdisc pfin] in *.
  destruct st as [|nx rest].
  - injection E as <- <-. split; [exact I|]. split; reflexivity.
  - destruct (visit v disc nx) as [[fresh disc']| |] eqn:Ev; cbn [rbind] in E; try discriminate E.
    apply visit_sound in Ev. destruct Ev as [-> ->].
    destruct (mem nx disc) eqn:Em; cbn [negb] in E.
    + apply mem_In in Em.
      destruct (visit v fin nx) as [[first fin']| |] eqn:Ef; cbn [rbind] in E; try discriminate E.
      apply visit_sound in Ef. destruct Ef as [-> ->].
      destruct (mem nx fin) eqn:Emf; cbn [negb] in E.
      * apply mem_In in Emf.
        assert (I' : JInv v s (mkDpo rest disc fin)) by (apply (jinv_pop nx rest disc fin fin I Em); left; split; [reflexivity | exact Emf]).
        destruct (IH _ _ _ I' E) as [I2 Ho]. split; [exact I2 | exact Ho].
      * apply mem_false in Emf. injection E as <- <-. split; [|reflexivity].
        apply (jinv_pop nx rest disc fin (nx :: fin) I Em). right; split; [reflexivity | exact Emf].
    + apply mem_false in Em.
      destruct (IH _ _ _ (jinv_discover nx rest disc fin I Em) E) as [I2 Ho]. split; [exact I2 | exact Ho].
Qed.

Lemma dpo_drain_J : forall fuel d l d', JInv v s d -> dpo_drain fuel v d = Ok (l, d') ->
  JInv v s d' /\ pstack d' = [] /\ pfin d' = rev l ++ pfin d.
Proof.
  induction fuel as [|f IH]; intros d l d' I E; [discriminate E|].
  cbn [dpo_drain] in E.
  destruct (dpo_next (trav_fuel v + trav_fuel v) v d) as [[o d1]| |] eqn:En; cbn [rbind] in E; try discriminate E.
  destruct (dpo_next_J _ _ _ _ I En) as [I1 Ho]. destruct o as [n|].
  - destruct (dpo_drain f v d1) as [[l2 d2]| |] eqn:Ed; cbn [rmap] in E; try discriminate E.
    injection E as <- <-. destruct (IH _ _ _ I1 Ed) as [I2 [S2 F2]]. split; [exact I2|]. split; [exact S2|].
    rewrite F2, Ho. cbn [rev]. rewrite <- app_assoc. reflexivity.
  - injection E as <- <-. destruct Ho as [S1 F1]. split; [exact I1|]. split; [exact S1 | exact F1].
Qed.

(* the start comes last; every other node has a predecessor later in the post order *)
Theorem dpo_tree fuel l d' : dpo_drain fuel v (mkDpo [s] [] []) = Ok (l, d') ->
  (exists l0, l = l0 ++ [s]) /\
  (forall l1 x l2, l = l1 ++ x :: l2 -> x <> s -> exists p, step v p x /\ In p l2).
Proof.
  intros E. destruct (dpo_drain_J _ _ _ _ jinv_init E) as [[Hfd Hop Hst Hfin Hs0] [S F]].
  cbn [pfin] in F. rewrite app_nil_r in F. rewrite S in *.
  assert (Hall : forall x, In x (pdisc d') -> In x (pfin d')).
  { intros x Hx. destruct (Hop x Hx) as [H|[]]. exact H. }
  assert (Hpar : forall l1 x l2, l = l1 ++ x :: l2 -> x <> s -> exists p, step v p x /\ In p l2).
  { intros l1 x l2 El Hx.
    destruct (Hfin (rev l2) x (rev l1)) as [p [Hp [H|[H1 H2]]]].
    - rewrite F, El, rev_app_distr. cbn [rev]. rewrite <- app_assoc. reflexivity.
    - exact Hx.
    - exists p. split; [exact Hp | apply in_rev; exact H].
    - exfalso. apply H2, Hall, H1. }
  split; [|exact Hpar].
  assert (Hs : In s l).
  { apply in_rev. rewrite <- F. destruct Hs0 as [H|[]]. apply Hall; exact H. }
  destruct (exists_last (l := l)) as [l0 [y Ey]]; [intros ->; destruct Hs|].
  destruct (Nat.eq_dec y s) as [->|Hne]; [exists l0; exact Ey|].
  destruct (Hpar l0 y [] Ey Hne) as [p [_ []]].
Qed.
End DpoTree.
