(* bellman_ford over a view: exact distances, shortest-path tree, negative-cycle detection. *)
From Coq Require Import Lia ZArith List Permutation.
From PG Require Import Lib.Io Model.View Model.Traversal Model.ShortestM Spec.Paths.
Set Implicit Arguments.
Unset Strict Implicit.
Open Scope Z_scope.

(* ------------------------------------------------------------------ arrays and extended integers *)
Definition D (d : list ez) (x : nat) (c : Z) : Prop := nth_error d x = Some (Some c).

Lemma nth_error_upd_lt {A} (l : list A) j x (a : A) : (j < length l)%nat ->
  nth_error (upd l j a) x = if Nat.eqb j x then Some a else nth_error l x.
Proof.
  intros H. rewrite nth_error_upd. destruct (Nat.eqb j x); auto.
  destruct (Nat.ltb_spec j (length l)); auto; lia.
Qed.

Lemma ez_lt_true di w dj : ez_lt (ez_add di w) dj = true ->
  exists a, di = Some a /\ (dj = None \/ exists b, dj = Some b /\ a + w < b).
Proof.
  destruct di as [a|]; cbn [ez_add option_map ez_lt]; [|discriminate].
  intros H. exists a; split; auto. destruct dj as [b|]; auto.
  right. exists b; split; auto. apply Z.ltb_lt; auto.
Qed.

Lemma ez_lt_false a w dj : ez_lt (ez_add (Some a) w) dj = false -> exists b, dj = Some b /\ b <= a + w.
Proof.
  cbn [ez_add option_map ez_lt]. destruct dj as [b|]; [|discriminate].
  intros H. exists b; split; auto. apply Z.ltb_ge; auto.
Qed.

(* the relaxation test of bf_edges / bf_find_edge on the edge (i, e) *)
Definition rtest (d : list ez) (i : nat) (e : eref) : bool :=
  match nth_error d i, nth_error d (tgt e) with
  | Some di, Some dj => ez_lt (ez_add di (ewgt e)) dj
  | _, _ => false
  end.

(* d' is pointwise at most d *)
Definition dle (d' d : list ez) : Prop := forall x c, D d x c -> exists c', D d' x c' /\ c' <= c.

Lemma dle_refl d : dle d d.
Proof. intros x c H. exists c; split; auto; lia. Qed.

Lemma dle_trans d1 d2 d3 : dle d1 d2 -> dle d2 d3 -> dle d1 d3.
Proof.
  intros H12 H23 x c H. destruct (H23 _ _ H) as [c2 [H2 L2]]. destruct (H12 _ _ H2) as [c1 [H1 L1]].
  exists c1; split; auto; lia.
Qed.

Lemma D_fun d x c1 c2 : D d x c1 -> D d x c2 -> c1 = c2.
Proof. unfold D; intros H1 H2; congruence. Qed.

(* ------------------------------------------------------------------ position_nat / fnc_walk never return [] *)
Lemma position_nat_range x l : forall i pos, position_nat x l i = Some pos -> (i <= pos < i + length l)%nat.
Proof.
  induction l as [|y t IH]; intros i pos; cbn [position_nat length]; [discriminate|].
  destruct (Nat.eqb y x).
  - intros [= <-]. lia.
  - intros H. apply IH in H. lia.
Qed.

Lemma fnc_walk_nonempty v pred start : forall fuel node vis path l,
  fnc_walk fuel v pred start node vis path = Ok l -> l <> [].
Proof.
  induction fuel as [|f IH]; intros node vis path l; cbn [fnc_walk]; [discriminate|].
  unfold eget. destruct (nth_error pred node) as [p|]; cbn [rbind]; [|discriminate].
  set (anc := match p with Some a => a | None => node end).
  destruct (Nat.eqb anc start).
  - intros [= <-]. destruct path; discriminate.
  - destruct (is_visited vis anc).
    + destruct (position_nat anc path 0) as [pos|] eqn:E; [|discriminate].
      intros [= <-]. apply position_nat_range in E.
      intros Hs. apply (f_equal (@length nat)) in Hs. rewrite skipn_length in Hs. cbn [length] in Hs. lia.
    + destruct (visit v vis anc) as [[b vis']| |]; cbn [rbind]; try discriminate.
      apply IH.
Qed.

(* find_negative_cycle answers None exactly when bellman_ford succeeds *)
Theorem fnc_none_iff_bf_ok v s :
  find_negative_cycle v s = Ok None <-> exists dp, bellman_ford v s = Ok (Some dp).
Proof.
  unfold find_negative_cycle, bellman_ford.
  destruct (bf_init_relax v s) as [[d p]| |]; cbn [rbind].
  - destruct (bf_find v (vnodes v) d) as [[[i j]|]| |]; cbn [rbind rmap].
    + split; [|intros [dp H]; discriminate].
      destruct (fnc_walk (S (S (vbound v))) v (upd p j (Some i)) j j [] []) as [l| |] eqn:E; cbn [rmap];
        try discriminate.
      destruct l; [|discriminate]. exfalso. apply (fnc_walk_nonempty E); auto.
    + split; auto. intros _. exists (d, p); auto.
    + split; [discriminate|intros [dp H]; discriminate].
    + split; [discriminate|intros [dp H]; discriminate].
  - split; [discriminate|intros [dp H]; discriminate].
  - split; [discriminate|intros [dp H]; discriminate].
Qed.

(* ------------------------------------------------------------------ the relaxation invariant *)
Section BF.
  Variable v : view.
  Variable s : nat.
  Hypothesis HB : BOk v.
  Hypothesis Hs : (s < vbound v)%nat.
  (* an additional invariant of the relaxation loop, chosen by the client (FncP) *)
  Variable Q : list ez -> list (option nat) -> Prop.

  Record BI (d : list ez) (p : list (option nat)) : Prop := {
    bLd : length d = vbound v;
    bLp : length p = vbound v;
    bW : forall x c, D d x c -> exists q, walk v s q x /\ walk_cost q = c;
    bS : exists c0, D d s c0 /\ c0 <= 0;
    bP : forall x dx, D d x dx ->
           (x = s /\ nth_error p x = Some None /\ dx = 0) \/
           (exists u e du, nth_error p x = Some (Some u) /\ In e (out_edges v u) /\ tgt e = x /\
                           D d u du /\ du + ewgt e <= dx /\ (x = s -> dx < 0));
    bN : forall x, nth_error d x = Some None -> nth_error p x = Some None;
    bQ : Q d p
  }.

  Hypothesis Q_relax : forall d p i e a dj, Q d p -> In e (out_edges v i) -> D d i a ->
    nth_error d (tgt e) = Some dj -> ez_lt (Some (a + ewgt e)) dj = true ->
    Q (upd d (tgt e) (Some (a + ewgt e))) (upd p (tgt e) (Some i)).
  Hypothesis Q_init : Q (upd (repeat (None : ez) (vbound v)) s (Some 0)) (repeat None (vbound v)).

  Lemma tgt_lt a e : In e (out_edges v a) -> (tgt e < vbound v)%nat.
  Proof. intros He. apply (bok_bound HB). apply (bok_tgt HB _ _ He). Qed.

  Lemma src_in a e : In e (out_edges v a) -> In a (vnodes v).
  Proof. intros He. apply (bok_src HB). intros E; rewrite E in He; destruct He. Qed.

  Lemma relax_BI d p i e a dj : BI d p -> In e (out_edges v i) -> D d i a ->
    nth_error d (tgt e) = Some dj -> ez_lt (Some (a + ewgt e)) dj = true ->
    BI (upd d (tgt e) (Some (a + ewgt e))) (upd p (tgt e) (Some i)) /\
    dle (upd d (tgt e) (Some (a + ewgt e))) d.
  Proof.
    intros I He Hi Hj Hlt. set (j := tgt e) in *. set (ns := a + ewgt e) in *.
    assert (Hjd : (j < length d)%nat) by (eapply nth_error_Some_lt; eauto).
    assert (Hjp : (j < length p)%nat) by (rewrite (bLp I), <- (bLd I); auto).
    assert (Hold : forall c, D d j c -> ns < c).
    { intros c Hc. unfold D in Hc. assert (dj = Some c) as -> by congruence.
      cbn [ez_lt] in Hlt. apply Z.ltb_lt; auto. }
    assert (Hdle : dle (upd d j (Some ns)) d).
    { intros x c Hc. unfold D. rewrite nth_error_upd_lt by auto.
      destruct (Nat.eqb_spec j x) as [<-|Hne].
      - exists ns; split; auto. pose proof (Hold _ Hc); lia.
      - exists c; split; auto; lia. }
    split; auto. constructor.
    - rewrite upd_length. apply (bLd I).
    - rewrite upd_length. apply (bLp I).
    - intros x c. unfold D. rewrite nth_error_upd_lt by auto.
      destruct (Nat.eqb_spec j x) as [<-|Hne].
      + intros [= <-]. destruct (bW I Hi) as [q [W C]].
        exists (q ++ [e]). split; [apply (walk_snoc e W He)|]. rewrite walk_cost_snoc. subst ns; lia.
      + apply (bW I).
    - destruct (bS I) as [c0 [Hc0 Hle0]]. unfold D. rewrite nth_error_upd_lt by auto.
      destruct (Nat.eqb_spec j s) as [Heq|Hne].
      + exists ns; split; auto. rewrite <- Heq in Hc0. pose proof (Hold _ Hc0); lia.
      + exists c0; split; auto.
    - intros x dx. unfold D at 1. rewrite nth_error_upd_lt by auto.
      destruct (Nat.eqb_spec j x) as [<-|Hne].
      + intros [= <-]. right.
        destruct (Hdle _ _ Hi) as [du [Hdu Hle]].
        exists i, e, du. rewrite nth_error_upd_lt, Nat.eqb_refl by auto.
        repeat split; auto.
        * destruct (Nat.eq_dec j i) as [Heq|Hne].
          -- pose proof Hdu as Hdu'. unfold D in Hdu'. rewrite nth_error_upd_lt in Hdu' by auto.
             rewrite <- Heq, Nat.eqb_refl in Hdu'. injection Hdu' as <-.
             rewrite <- Heq in Hi. pose proof (Hold _ Hi). subst ns. lia.
          -- pose proof Hdu as Hdu'. unfold D in Hdu'. rewrite nth_error_upd_lt in Hdu' by auto.
             apply Nat.eqb_neq in Hne. rewrite Hne in Hdu'.
             pose proof (D_fun Hdu' Hi). subst ns; lia.
        * intros Heq. destruct (bS I) as [c0 [Hc0 Hle0]]. rewrite <- Heq in Hc0.
          pose proof (Hold _ Hc0); lia.
      + intros Hx. destruct (bP I Hx) as [[Hxs [Hp Hd0]]|[u [e0 [du [Hp [He0 [Ht [Hu [Hle Hneg]]]]]]]]].
        * left. repeat split; auto. rewrite nth_error_upd_lt by auto.
          destruct (Nat.eqb_spec j x); [congruence|auto].
        * right. destruct (Hdle _ _ Hu) as [du' [Hdu' Hle']].
          exists u, e0, du'. repeat split; auto; try lia.
          rewrite nth_error_upd_lt by auto. destruct (Nat.eqb_spec j x); [congruence|auto].
    - intros x. rewrite !nth_error_upd_lt by auto.
      destruct (Nat.eqb_spec j x) as [<-|Hne]; [discriminate|apply (bN I)].
    - exact (Q_relax (bQ I) He Hi Hj Hlt).
  Qed.

  (* ---------------------------------------------------------------- one sweep *)
  Lemma bf_edges_spec i : (i < vbound v)%nat -> forall es d p u, BI d p ->
    (forall e, In e es -> In e (out_edges v i)) ->
    exists d' p' u', bf_edges i es d p u = Ok (d', p', u') /\ BI d' p' /\ dle d' d /\
      (forall e a, In e es -> D d i a -> exists b, D d' (tgt e) b /\ b <= a + ewgt e) /\
      (u' = false -> u = false /\ d' = d /\ p' = p /\ forall e, In e es -> rtest d i e = false).
  Proof.
    intros Hi. induction es as [|e rest IH]; intros d p u I Hes.
    - exists d, p, u. cbn [bf_edges]. split; auto. split; auto. split; [apply dle_refl|].
      split; [intros e a []|]. intros ->. repeat split; auto. intros e [].
    - assert (He : In e (out_edges v i)) by (apply Hes; left; auto).
      assert (Hrest : forall e', In e' rest -> In e' (out_edges v i)) by (intros e' H; apply Hes; right; auto).
      pose proof (tgt_lt He) as Hj.
      destruct (@nth_error_lt_Some _ d i) as [di Hdi]; [rewrite (bLd I); auto|].
      destruct (@nth_error_lt_Some _ d (tgt e)) as [dj Hdj]; [rewrite (bLd I); auto|].
      cbn [bf_edges]. unfold eget. rewrite Hdi, Hdj. cbn [rbind].
      assert (Hrt : rtest d i e = ez_lt (ez_add di (ewgt e)) dj) by (unfold rtest; rewrite Hdi, Hdj; auto).
      destruct (ez_lt (ez_add di (ewgt e)) dj) eqn:T.
      + destruct (ez_lt_true T) as [a [-> _]]. cbn [ez_add option_map] in *.
        destruct (relax_BI I He Hdi Hdj T) as [I1 Hdle1].
        destruct (IH _ _ true I1 Hrest) as [d' [p' [u' [E [I' [Hdle [Hrel Hu]]]]]]].
        exists d', p', u'. split; auto. split; auto. split; [eapply dle_trans; eauto|]. split.
        * intros e0 a0 [<-|Hin] Ha0.
          -- pose proof (D_fun Ha0 Hdi) as ->.
             assert (H1 : D (upd d (tgt e) (Some (a + ewgt e))) (tgt e) (a + ewgt e)).
             { unfold D. rewrite nth_error_upd_lt, Nat.eqb_refl; auto. rewrite (bLd I); auto. }
             apply (Hdle _ _ H1).
          -- destruct (Hdle1 _ _ Ha0) as [a1 [Ha1 Hle1]].
             destruct (Hrel _ _ Hin Ha1) as [b [Hb Hleb]]. exists b; split; auto; lia.
        * intros Hu'. destruct (Hu Hu') as [Hf _]. discriminate.
      + destruct (IH _ _ u I Hrest) as [d' [p' [u' [E [I' [Hdle [Hrel Hu]]]]]]].
        exists d', p', u'. split; auto. split; auto. split; auto. split.
        * intros e0 a0 [<-|Hin] Ha0; [|apply (Hrel _ _ Hin Ha0)].
          unfold D in Ha0. assert (di = Some a0) as -> by congruence.
          destruct (ez_lt_false T) as [b [-> Hle]].
          destruct (Hdle _ _ Hdj) as [b' [Hb' Hle']]. exists b'; split; auto; lia.
        * intros Hu'. destruct (Hu Hu') as [Hu0 [Hd [Hp Hrt']]]. repeat split; auto.
          intros e0 [<-|Hin]; auto.
  Qed.

  Lemma bf_sweep_spec : forall ids d p u, BI d p -> (forall i, In i ids -> (i < vbound v)%nat) ->
    exists d' p' u', bf_sweep v ids d p u = Ok (d', p', u') /\ BI d' p' /\ dle d' d /\
      (forall i e a, In i ids -> In e (out_edges v i) -> D d i a ->
                     exists b, D d' (tgt e) b /\ b <= a + ewgt e) /\
      (u' = false -> u = false /\ d' = d /\ p' = p /\
                     forall i e, In i ids -> In e (out_edges v i) -> rtest d i e = false).
  Proof.
    induction ids as [|i rest IH]; intros d p u I Hids.
    - exists d, p, u. cbn [bf_sweep]. split; auto. split; auto. split; [apply dle_refl|].
      split; [intros i e a []|]. intros ->. repeat split; auto. intros i e [].
    - assert (Hi : (i < vbound v)%nat) by (apply Hids; left; auto).
      assert (Hrest : forall i', In i' rest -> (i' < vbound v)%nat) by (intros i' H; apply Hids; right; auto).
      destruct (@bf_edges_spec i Hi (out_edges v i) d p u I (fun e H => H))
        as [d1 [p1 [u1 [E1 [I1 [Hdle1 [Hrel1 Hu1]]]]]]].
      destruct (IH d1 p1 u1 I1 Hrest) as [d' [p' [u' [E [I' [Hdle [Hrel Hu]]]]]]].
      exists d', p', u'. cbn [bf_sweep]. rewrite E1. cbn [rbind].
      split; auto. split; auto. split; [eapply dle_trans; eauto|]. split.
      + intros i0 e a [<-|Hin] He Ha.
        * destruct (Hrel1 _ _ He Ha) as [b1 [Hb1 Hle1]].
          destruct (Hdle _ _ Hb1) as [b [Hb Hle]]. exists b; split; auto; lia.
        * destruct (Hdle1 _ _ Ha) as [a1 [Ha1 Hle1]].
          destruct (Hrel _ _ _ Hin He Ha1) as [b [Hb Hle]]. exists b; split; auto; lia.
      + intros Hu'. destruct (Hu Hu') as [Hu1' [Hd1 [Hp1 Hrt1]]].
        destruct (Hu1 Hu1') as [Hu0 [Hd0 [Hp0 Hrt0]]]. subst.
        split; auto. split; auto. split; auto.
        intros i0 e [<-|Hin] He; [apply Hrt0; auto|apply (Hrt1 _ _ Hin He)].
  Qed.

  (* ---------------------------------------------------------------- rounds *)
  (* R k d: d is at most the cost of every walk of at most k entries *)
  Definition R (k : nat) (d : list ez) : Prop :=
    forall x q, walk v s q x -> (length q <= k)%nat -> exists c, D d x c /\ c <= walk_cost q.

  (* no out-entry of a node can be relaxed *)
  Definition Fix (d : list ez) : Prop :=
    forall i e, In i (vnodes v) -> In e (out_edges v i) -> rtest d i e = false.

  Lemma R_step k d d' p' : R k d -> BI d' p' -> dle d' d ->
    (forall i e a, In i (vnodes v) -> In e (out_edges v i) -> D d i a ->
                   exists b, D d' (tgt e) b /\ b <= a + ewgt e) ->
    R (S k) d'.
  Proof.
    intros HR I' Hdle Hrel x q W Hlen.
    destruct q as [|e0 q0].
    - inversion W; subst. destruct (bS I') as [c0 [Hc0 Hle0]]. exists c0; split; auto.
    - destruct (@exists_last _ (e0 :: q0)) as [q1 [e Hq]]; [discriminate|].
      rewrite Hq in *. destruct (walk_app_inv q1 [e] W) as [b [W1 W2]].
      inversion W2 as [|a' e' p'' b' He Hnil]; subst. inversion Hnil; subst.
      rewrite app_length in Hlen. cbn [length] in Hlen.
      destruct (HR _ _ W1) as [c [Hc Hle]]; [lia|].
      destruct (Hrel _ _ _ (src_in He) He Hc) as [c' [Hc' Hle']].
      exists c'; split; auto. rewrite walk_cost_snoc. lia.
  Qed.

  Lemma bf_rounds_spec : forall r k d p, BI d p -> R k d ->
    exists d' p', bf_rounds r v d p = Ok (d', p') /\ BI d' p' /\ (Fix d' \/ R (k + r) d').
  Proof.
    induction r as [|r IH]; intros k d p I HR.
    - exists d, p. cbn [bf_rounds]. split; auto. split; auto. right. rewrite Nat.add_0_r; auto.
    - destruct (@bf_sweep_spec (vnodes v) d p false I (bok_bound HB))
        as [d1 [p1 [u1 [E1 [I1 [Hdle1 [Hrel1 Hu1]]]]]]].
      cbn [bf_rounds]. rewrite E1. cbn [rbind]. destruct u1.
      + destruct (IH (S k) d1 p1 I1 (R_step HR I1 Hdle1 Hrel1)) as [d' [p' [E [I' H]]]].
        exists d', p'. split; auto. split; auto.
        replace (k + S r)%nat with (S k + r)%nat by lia. auto.
      + destruct (Hu1 eq_refl) as [_ [-> [-> Hrt]]].
        exists d, p. split; auto.
  Qed.

  Lemma BI_init : BI (upd (repeat (None : ez) (vbound v)) s (Some 0)) (repeat None (vbound v)).
  Proof.
    assert (Hl : length (repeat (None : ez) (vbound v)) = vbound v) by apply repeat_length.
    assert (Hd : forall x c, D (upd (repeat (None : ez) (vbound v)) s (Some 0)) x c -> x = s /\ c = 0).
    { intros x c. unfold D. rewrite nth_error_upd_lt by lia.
      destruct (Nat.eqb_spec s x) as [<-|Hne].
      - intros [= <-]; auto.
      - intros H. pose proof (nth_error_In _ _ H) as Hin. apply repeat_spec in Hin. discriminate. }
    constructor.
    - rewrite upd_length; auto.
    - apply repeat_length.
    - intros x c Hx. destruct (Hd _ _ Hx) as [-> ->]. exists []; split; [constructor|reflexivity].
    - exists 0. split; [|lia]. unfold D. rewrite nth_error_upd_lt, Nat.eqb_refl by lia; auto.
    - intros x c Hx. destruct (Hd _ _ Hx) as [-> ->]. left. repeat split; auto.
      apply nth_error_repeat; auto.
    - intros x Hx. apply nth_error_repeat. apply nth_error_Some_lt in Hx. rewrite upd_length in Hx. lia.
    - exact Q_init.
  Qed.

  Lemma R_init : R 0 (upd (repeat (None : ez) (vbound v)) s (Some 0)).
  Proof.
    intros x q W Hlen. destruct q; [|cbn [length] in Hlen; lia]. inversion W; subst.
    exists 0. split; [|cbn [walk_cost]; lia].
    unfold D. rewrite nth_error_upd_lt, Nat.eqb_refl; auto. rewrite repeat_length; auto.
  Qed.

  Lemma bf_init_relax_spec :
    exists d p, bf_init_relax v s = Ok (d, p) /\ BI d p /\ (Fix d \/ R (vnode_count v - 1) d).
  Proof.
    unfold bf_init_relax. destruct (Nat.ltb_spec s (vbound v)); [|lia].
    apply (bf_rounds_spec (vnode_count v - 1) BI_init R_init).
  Qed.

  (* ---------------------------------------------------------------- the final scan *)
  Lemma bf_find_edge_spec d i : length d = vbound v -> (i < vbound v)%nat -> forall es,
    (forall e, In e es -> In e (out_edges v i)) ->
    exists o, bf_find_edge i es d = Ok o /\
      match o with
      | None => forall e, In e es -> rtest d i e = false
      | Some (i', j) => i' = i /\ exists e, In e es /\ tgt e = j /\ rtest d i e = true
      end.
  Proof.
    intros Hl Hi. induction es as [|e rest IH]; intros Hes.
    - exists None. cbn [bf_find_edge]. split; auto. intros e [].
    - assert (He : In e (out_edges v i)) by (apply Hes; left; auto).
      assert (Hrest : forall e', In e' rest -> In e' (out_edges v i)) by (intros e' H; apply Hes; right; auto).
      pose proof (tgt_lt He) as Hj.
      destruct (@nth_error_lt_Some _ d i) as [di Hdi]; [lia|].
      destruct (@nth_error_lt_Some _ d (tgt e)) as [dj Hdj]; [lia|].
      cbn [bf_find_edge]. unfold eget. rewrite Hdi, Hdj. cbn [rbind].
      assert (Hrt : rtest d i e = ez_lt (ez_add di (ewgt e)) dj) by (unfold rtest; rewrite Hdi, Hdj; auto).
      destruct (ez_lt (ez_add di (ewgt e)) dj) eqn:T.
      + exists (Some (i, tgt e)). split; auto. split; auto. exists e. repeat split; auto. left; auto.
      + destruct (IH Hrest) as [o [E Ho]]. exists o. split; auto.
        destruct o as [[i' j]|].
        * destruct Ho as [-> [e0 [Hin [Ht Hr]]]]. split; auto. exists e0. repeat split; auto. right; auto.
        * intros e0 [<-|Hin]; auto.
  Qed.

  Lemma bf_find_spec d : length d = vbound v -> forall ids, (forall i, In i ids -> (i < vbound v)%nat) ->
    exists o, bf_find v ids d = Ok o /\
      match o with
      | None => forall i e, In i ids -> In e (out_edges v i) -> rtest d i e = false
      | Some (i, j) => In i ids /\ exists e, In e (out_edges v i) /\ tgt e = j /\ rtest d i e = true
      end.
  Proof.
    intros Hl. induction ids as [|i rest IH]; intros Hids.
    - exists None. cbn [bf_find]. split; auto. intros i e [].
    - assert (Hi : (i < vbound v)%nat) by (apply Hids; left; auto).
      assert (Hrest : forall i', In i' rest -> (i' < vbound v)%nat) by (intros i' H; apply Hids; right; auto).
      destruct (@bf_find_edge_spec d i Hl Hi (out_edges v i) (fun e H => H)) as [o1 [E1 Ho1]].
      cbn [bf_find]. rewrite E1. cbn [rbind]. destruct o1 as [[i' j]|].
      + destruct Ho1 as [-> [e [Hin [Ht Hr]]]].
        exists (Some (i, j)). split; auto. split; [left; auto|]. exists e; auto.
      + destruct (IH Hrest) as [o [E Ho]]. exists o. split; auto.
        destruct o as [[i' j]|].
        * destruct Ho as [Hin He]. split; auto. right; auto.
        * intros i0 e [<-|Hin] He; auto.
  Qed.

  (* ---------------------------------------------------------------- a fixpoint is below every walk *)
  Lemma fix_lower d p : BI d p -> Fix d ->
    forall a q y, walk v a q y -> forall c, D d a c -> exists c', D d y c' /\ c' <= c + walk_cost q.
  Proof.
    intros I HF a q y W. induction W as [a | a e q b He Hq IH]; intros c Hc.
    - exists c; split; auto. cbn [walk_cost]; lia.
    - pose proof (HF _ _ (src_in He) He) as Hr. unfold rtest in Hr.
      destruct (@nth_error_lt_Some _ d (tgt e)) as [dj Hdj]; [rewrite (bLd I); apply (tgt_lt He)|].
      unfold D in Hc. rewrite Hc, Hdj in Hr.
      destruct (ez_lt_false Hr) as [b0 [-> Hle]].
      destruct (IH _ Hdj) as [c' [Hc' Hle']]. exists c'; split; auto. cbn [walk_cost]; lia.
  Qed.

  Lemma fix_no_neg_cycle d p : BI d p -> Fix d -> ~ neg_cycle_reachable v s.
  Proof.
    intros I HF [a [q [c [Wq [Wc Hneg]]]]].
    destruct (bS I) as [c0 [Hc0 _]].
    destruct (fix_lower I HF Wq Hc0) as [ca [Hca _]].
    destruct (fix_lower I HF Wc Hca) as [ca' [Hca' Hle]].
    pose proof (D_fun Hca Hca'). lia.
  Qed.

  (* ---------------------------------------------------------------- cycles can be cut out of walks *)
  Lemma walk_vertices_in a q y : walk v a q y -> In a (vnodes v) ->
    forall z, In z (a :: map tgt q) -> In z (vnodes v).
  Proof.
    intros W; induction W as [a | a e q b He Hq IH]; intros Ha z Hz.
    - destruct Hz as [<-|[]]; auto.
    - destruct Hz as [<-|Hz]; auto. apply IH; auto. apply (bok_tgt HB _ _ He).
  Qed.

  Lemma shorten : In s (vnodes v) -> forall N q x, (length q <= N)%nat -> walk v s q x ->
    neg_cycle_reachable v s \/
    exists q', walk v s q' x /\ walk_cost q' <= walk_cost q /\ (S (length q') <= length (vnodes v))%nat.
  Proof.
    intros Hsin. induction N as [|N IH]; intros q x Hlen W.
    - destruct q; [|cbn [length] in Hlen; lia]. right. exists []. split; auto. split; [lia|].
      cbn [length]. destruct (vnodes v); [destruct Hsin|cbn [length]; lia].
    - destruct (walk_cycle_split W) as [Hnd|[p1 [c [p2 [z [Hq [Hc [W1 [Wc W2]]]]]]]]].
      + right. exists q. split; auto. split; [lia|].
        assert (Hincl : incl (s :: map tgt q) (vnodes v)) by (intros z Hz; apply (walk_vertices_in W Hsin Hz)).
        pose proof (NoDup_incl_length Hnd Hincl) as Hle. cbn [length] in Hle. rewrite map_length in Hle. auto.
      + destruct (Z_lt_le_dec (walk_cost c) 0) as [Hneg|Hpos].
        * left. exists z, p1, c. auto.
        * assert (Hc' : (1 <= length c)%nat) by (destruct c; [congruence|cbn [length]; lia]).
          subst q. rewrite !app_length in Hlen.
          destruct (IH (p1 ++ p2) x) as [Hn|[q' [W' [Hcost Hl]]]]; auto.
          -- rewrite app_length; lia.
          -- eapply walk_app; eauto.
          -- right. exists q'. split; auto. split; auto.
             rewrite !walk_cost_app in *. lia.
  Qed.

  Lemma walk_src_in q x : walk v s q x -> In x (vnodes v) -> In s (vnodes v).
  Proof. intros W Hx. inversion W as [|a e q' b He Hq]; subst; auto. apply (src_in He). Qed.

  (* ---------------------------------------------------------------- bellman_ford *)
  Definition BFSpec (r : option (list ez * list (option nat))) : Prop :=
    match r with
    | None => neg_cycle_reachable v s
    | Some (dist, pred) =>
        ~ neg_cycle_reachable v s /\ length dist = vbound v /\ length pred = vbound v /\
        (forall x d, nth_error dist x = Some (Some d) <-> is_dist v s x d) /\
        (forall x, (x < vbound v)%nat -> (nth_error dist x = Some None <-> ~ reachable v s x)) /\
        nth_error pred s = Some None /\
        (forall x, (x < vbound v)%nat -> ~ reachable v s x -> nth_error pred x = Some None) /\
        (forall x, reachable v s x -> x <> s ->
           exists u e du dx, nth_error pred x = Some (Some u) /\ In e (out_edges v u) /\ tgt e = x /\
                             nth_error dist u = Some (Some du) /\ nth_error dist x = Some (Some dx) /\
                             du + ewgt e = dx)
    end.

  Lemma bf_ok_spec d p : BI d p -> Fix d -> BFSpec (Some (d, p)).
  Proof.
    intros I HF. pose proof (fix_no_neg_cycle I HF) as Hnn.
    destruct (bS I) as [c0 [Hc0 Hle0]].
    assert (Hreach : forall x q, walk v s q x -> exists c, D d x c /\ c <= walk_cost q).
    { intros x q W. destruct (fix_lower I HF W Hc0) as [c [Hc Hle]]. exists c; split; auto; lia. }
    cbn [BFSpec]. split; auto. split; [apply (bLd I)|]. split; [apply (bLp I)|]. split; [|split; [|split; [|split]]].
    - intros x c. split.
      + intros Hc. split; [apply (bW I Hc)|].
        intros q W. destruct (Hreach _ _ W) as [c' [Hc' Hle]]. pose proof (D_fun Hc Hc'). lia.
      + intros [[q [W C]] L]. destruct (Hreach _ _ W) as [c' [Hc' Hle]].
        destruct (bW I Hc') as [q' [W' C']]. pose proof (L _ W'). unfold D in Hc'. rewrite Hc'. do 2 f_equal. lia.
    - intros x Hx. split.
      + intros Hn [q W]. destruct (Hreach _ _ W) as [c' [Hc' _]]. unfold D in Hc'. congruence.
      + intros Hnr. destruct (@nth_error_lt_Some _ d x) as [o Ho]; [rewrite (bLd I); auto|].
        destruct o as [c|]; auto. exfalso; apply Hnr. destruct (bW I Ho) as [q [W _]]. exists q; auto.
    - destruct (bP I Hc0) as [[_ [Hp _]]|[u [e [du [_ [_ [_ [_ [_ Hneg]]]]]]]]]; auto.
      exfalso; apply Hnn. destruct (bW I Hc0) as [q [W C]].
      exists s, [], q. split; [constructor|]. split; auto. specialize (Hneg eq_refl). lia.
    - intros x Hx Hnr. apply (bN I).
      destruct (@nth_error_lt_Some _ d x) as [o Ho]; [rewrite (bLd I); auto|].
      destruct o as [c|]; auto. exfalso; apply Hnr. destruct (bW I Ho) as [q [W _]]. exists q; auto.
    - intros x [q W] Hne. destruct (Hreach _ _ W) as [dx [Hdx _]].
      destruct (bP I Hdx) as [[Hxs _]|[u [e [du [Hp [He [Ht [Hu [Hle _]]]]]]]]]; [congruence|].
      exists u, e, du, dx. repeat split; auto.
      pose proof (HF _ _ (src_in He) He) as Hr. unfold rtest in Hr.
      unfold D in Hu, Hdx. rewrite Hu, Ht, Hdx in Hr.
      destruct (ez_lt_false Hr) as [b [[= <-] Hle']]. lia.
  Qed.

  Lemma bf_err_spec d p i e : BI d p -> R (vnode_count v - 1) d ->
    In i (vnodes v) -> In e (out_edges v i) -> rtest d i e = true -> neg_cycle_reachable v s.
  Proof.
    intros I HR Hi He Hr. unfold rtest in Hr.
    destruct (nth_error d i) as [di|] eqn:Hdi; [|discriminate].
    destruct (nth_error d (tgt e)) as [dj|] eqn:Hdj; [|discriminate].
    destruct (ez_lt_true Hr) as [a [-> Hcase]].
    destruct (bW I Hdi) as [q0 [W0 C0]].
    pose proof (walk_snoc e W0 He) as W.
    destruct (shorten (walk_src_in W0 Hi) (le_n _) W) as [Hn|[q' [W' [Hcost Hl]]]]; auto.
    destruct (HR _ _ W') as [c [Hc Hle]]; [unfold vnode_count; lia|].
    rewrite walk_cost_snoc in Hcost. unfold D in Hc.
    destruct Hcase as [->|[b [-> Hlt]]]; [congruence|].
    assert (b = c) by congruence. lia.
  Qed.

  Theorem bellman_ford_spec_Q : exists r, bellman_ford v s = Ok r /\ BFSpec r.
  Proof.
    destruct bf_init_relax_spec as [d [p [E [I HFR]]]].
    destruct (@bf_find_spec d (bLd I) (vnodes v) (bok_bound HB)) as [o [Ef Ho]].
    unfold bellman_ford. rewrite E. cbn [rbind]. rewrite Ef. cbn [rmap].
    destruct o as [[i j]|].
    - exists None. split; auto. cbn [BFSpec].
      destruct Ho as [Hi [e [He [Ht Hr]]]].
      destruct HFR as [HF|HR].
      + rewrite (HF _ _ Hi He) in Hr. discriminate.
      + apply (bf_err_spec I HR Hi He Hr).
    - exists (Some (d, p)). split; auto.
      apply (bf_ok_spec I). intros i e Hi He. apply (Ho _ _ Hi He).
  Qed.
End BF.

Theorem bellman_ford_spec v s : BOk v -> (s < vbound v)%nat ->
  exists r, bellman_ford v s = Ok r /\ BFSpec v s r.
Proof.
  intros HB Hs. apply (@bellman_ford_spec_Q v s HB Hs (fun _ _ => True)); auto.
Qed.

Theorem bellman_ford_err_iff v s : BOk v -> (s < vbound v)%nat ->
  (bellman_ford v s = Ok None <-> neg_cycle_reachable v s).
Proof.
  intros HB Hs. destruct (bellman_ford_spec HB Hs) as [r [E S]]. rewrite E. split.
  - intros [= ->]. exact S.
  - intros Hn. destruct r as [[d p]|]; auto. destruct S as [Hnn _]. contradiction.
Qed.
