(* Library lemmas for C03: Vec::swap_remove and the insertion-ordered
   association-list model of IndexMap (im_get / im_index_of / im_insert /
   im_swap_remove), all at the level of membership, NoDup and Permutation. *)
From Coq Require Import Lia ZArith Permutation.
From PG Require Import Lib.Io Model.GraphMapM.
Set Implicit Arguments.
Local Close Scope Z_scope.

(* ------------------------------------------------------------------ *)
(* Generic list facts                                                  *)

Lemma Permutation_filter_compat {A} (f : A -> bool) (l l' : list A) :
  Permutation l l' -> Permutation (filter f l) (filter f l').
Proof.
  induction 1 as [| x l l' HP IH | x y l | l l' l'' HP1 IH1 HP2 IH2]; cbn [filter].
  - apply perm_nil.
  - destruct (f x); auto.
  - destruct (f x), (f y); auto. apply perm_swap.
  - eapply Permutation_trans; eauto.
Qed.

Lemma NoDup_map_fst_NoDup {A B} (l : list (A * B)) : NoDup (map fst l) -> NoDup l.
Proof. apply NoDup_map_inv. Qed.

Lemma NoDup_app_one {A} (l : list A) x : NoDup l -> ~ In x l -> NoDup (l ++ [x]).
Proof.
  intros HN HI. apply (Permutation_NoDup (l := x :: l)).
  - apply Permutation_cons_append.
  - constructor; auto.
Qed.

Lemma NoDup_filter_compat {A} (f : A -> bool) (l : list A) : NoDup l -> NoDup (filter f l).
Proof. apply NoDup_filter. Qed.

Lemma option_eq_of_iff {A} (o1 o2 : option A) :
  (forall w, o1 = Some w <-> o2 = Some w) -> o1 = o2.
Proof.
  intros H. destruct o1 as [w1|], o2 as [w2|]; auto.
  - apply H; auto.
  - symmetry; apply H; auto.
  - apply H; auto.
Qed.

(* ------------------------------------------------------------------ *)
(* Vec::swap_remove                                                    *)

Lemma upd_app_l {A} (l r : list A) i v : i < length l -> upd (l ++ r) i v = upd l i v ++ r.
Proof.
  revert i; induction l as [|h t IH]; intros [|i] H; cbn [length] in H; try lia; cbn [upd app]; auto.
  f_equal. apply IH. lia.
Qed.

Lemma upd_perm {A} (l : list A) i x y :
  nth_error l i = Some x -> Permutation (x :: upd l i y) (y :: l).
Proof.
  revert i; induction l as [|h t IH]; intros [|i] H; cbn [nth_error upd] in *; try discriminate.
  - injection H as ->. apply perm_swap.
  - eapply Permutation_trans; [apply perm_swap|].
    eapply Permutation_trans; [apply perm_skip, IH, H|]. apply perm_swap.
Qed.

(* The crux: swap_remove(i) removes exactly the i-th element, up to order. *)
Lemma vec_swap_remove_perm {A} (l : list A) i x :
  nth_error l i = Some x -> Permutation (x :: vec_swap_remove l i) l.
Proof.
  intros Hx. unfold vec_swap_remove. rewrite Hx.
  destruct (rev l) as [|last rl] eqn:Hrev.
  - apply (f_equal (@rev A)) in Hrev. rewrite rev_involutive in Hrev. subst l.
    destruct i; discriminate.
  - apply (f_equal (@rev A)) in Hrev. rewrite rev_involutive in Hrev. cbn [rev] in Hrev.
    set (l0 := rev rl) in *. subst l.
    rewrite app_length; cbn [length]. replace (length l0 + 1 - 1) with (length l0) by lia.
    destruct (Nat.eqb_spec i (length l0)) as [->|Hne].
    + rewrite removelast_last.
      rewrite nth_error_app2 in Hx by lia. rewrite Nat.sub_diag in Hx. cbn in Hx.
      injection Hx as <-. apply Permutation_cons_append.
    + assert (Hlt : i < length l0).
      { apply nth_error_Some_lt in Hx. rewrite app_length in Hx; cbn [length] in Hx. lia. }
      rewrite upd_app_l by exact Hlt. rewrite removelast_last.
      rewrite nth_error_app1 in Hx by exact Hlt.
      eapply Permutation_trans; [apply upd_perm, Hx|]. apply Permutation_cons_append.
Qed.

Lemma vec_swap_remove_oob {A} (l : list A) i : nth_error l i = None -> vec_swap_remove l i = l.
Proof. intros H. unfold vec_swap_remove. rewrite H. reflexivity. Qed.

Lemma vec_swap_remove_length {A} (l : list A) i x :
  nth_error l i = Some x -> S (length (vec_swap_remove l i)) = length l.
Proof. intros H. apply (Permutation_length (vec_swap_remove_perm l i H)). Qed.

Lemma vec_swap_remove_NoDup {A} (l : list A) i : NoDup l -> NoDup (vec_swap_remove l i).
Proof.
  intros HN. destruct (nth_error l i) as [x|] eqn:Hx.
  - assert (HN' : NoDup (x :: vec_swap_remove l i)).
    { eapply Permutation_NoDup; [apply Permutation_sym, vec_swap_remove_perm, Hx | exact HN]. }
    inversion HN'; auto.
  - rewrite vec_swap_remove_oob; auto.
Qed.

Lemma vec_swap_remove_In {A} (l : list A) i y : In y (vec_swap_remove l i) -> In y l.
Proof.
  intros HI. destruct (nth_error l i) as [x|] eqn:Hx.
  - eapply Permutation_in; [apply vec_swap_remove_perm, Hx|]. right; exact HI.
  - rewrite vec_swap_remove_oob in HI; auto.
Qed.

Lemma vec_swap_remove_In_iff {A} (l : list A) i x y :
  NoDup l -> nth_error l i = Some x ->
  (In y (vec_swap_remove l i) <-> In y l /\ y <> x).
Proof.
  intros HN Hx. pose proof (vec_swap_remove_perm l i Hx) as HP.
  assert (HN' : NoDup (x :: vec_swap_remove l i)).
  { eapply Permutation_NoDup; [apply Permutation_sym, HP | exact HN]. }
  inversion HN' as [|x0 l0 Hnotin HN'']; subst. split.
  - intros HI. split.
    + eapply Permutation_in; [exact HP|]. right; exact HI.
    + intros ->. contradiction.
  - intros [HI Hne]. apply (Permutation_in _ (Permutation_sym HP)) in HI.
    destruct HI as [->|HI]; [congruence | exact HI].
Qed.

(* ------------------------------------------------------------------ *)
(* position                                                            *)

Lemma position_some {A} (f : A -> bool) l s i :
  position f l s = Some i -> exists x, nth_error l (i - s) = Some x /\ f x = true /\ s <= i.
Proof.
  revert s; induction l as [|h t IH]; intros s H; cbn [position] in H; try discriminate.
  destruct (f h) eqn:Hf.
  - injection H as <-. exists h. rewrite Nat.sub_diag. auto.
  - destruct (IH _ H) as [x [Hn [Hfx Hle]]]. exists x.
    replace (i - s) with (S (i - S s)) by lia. cbn [nth_error]. repeat split; auto. lia.
Qed.

Lemma position_some0 {A} (f : A -> bool) l i :
  position f l 0 = Some i -> exists x, nth_error l i = Some x /\ f x = true.
Proof.
  intros H. destruct (position_some _ _ _ H) as [x [Hn [Hf _]]].
  rewrite Nat.sub_0_r in Hn. eauto.
Qed.

Lemma position_none {A} (f : A -> bool) l s :
  position f l s = None -> forall x, In x l -> f x = false.
Proof.
  revert s; induction l as [|h t IH]; intros s H x HI; cbn [position] in H; [destruct HI|].
  destruct (f h) eqn:Hf; try discriminate.
  destruct HI as [<-|HI]; eauto.
Qed.

(* ------------------------------------------------------------------ *)
(* Association lists with a decidable key equality                     *)

Section AL.
  Variables (K V : Type) (eqk : K -> K -> bool).
  Hypothesis eqk_spec : forall a b, eqk a b = true <-> a = b.

  Lemma eqk_refl k : eqk k k = true.
  Proof. apply eqk_spec; reflexivity. Qed.

  Lemma eqk_neq a b : a <> b -> eqk a b = false.
  Proof. intros H. destruct (eqk a b) eqn:E; auto. apply eqk_spec in E. contradiction. Qed.

  Lemma eqk_false a b : eqk a b = false -> a <> b.
  Proof. intros E ->. rewrite eqk_refl in E. discriminate. Qed.

  Lemma im_get_in (m : list (K * V)) k v : im_get eqk m k = Some v -> In (k, v) m.
  Proof.
    induction m as [|[k' v'] t IH]; cbn [im_get]; intros H; try discriminate.
    destruct (eqk k' k) eqn:E.
    - apply eqk_spec in E. injection H as ->. subst. left; reflexivity.
    - right; auto.
  Qed.

  Lemma im_get_none (m : list (K * V)) k : im_get eqk m k = None <-> ~ In k (map fst m).
  Proof.
    induction m as [|[k' v'] t IH]; cbn [im_get map fst In].
    - split; auto.
    - destruct (eqk k' k) eqn:E.
      + apply eqk_spec in E. subst. split; [discriminate | intros H; exfalso; apply H; auto].
      + apply eqk_false in E. rewrite IH. split; [intros H [H1|H1]; auto | intros H H1; apply H; auto].
  Qed.

  Lemma im_get_some_key (m : list (K * V)) k v : im_get eqk m k = Some v -> In k (map fst m).
  Proof. intros H. apply im_get_in in H. apply (in_map fst) in H. exact H. Qed.

  Lemma im_get_key_some (m : list (K * V)) k : In k (map fst m) -> exists v, im_get eqk m k = Some v.
  Proof.
    intros H. destruct (im_get eqk m k) as [v|] eqn:E; eauto.
    apply im_get_none in E. contradiction.
  Qed.

  Lemma in_im_get (m : list (K * V)) k v : NoDup (map fst m) -> In (k, v) m -> im_get eqk m k = Some v.
  Proof.
    induction m as [|[k' v'] t IH]; cbn [im_get map fst In]; intros HN HI; [destruct HI|].
    inversion HN as [|x l Hnotin HN']; subst.
    destruct HI as [HI|HI].
    - injection HI as -> ->. rewrite eqk_refl. reflexivity.
    - destruct (eqk k' k) eqn:E.
      + apply eqk_spec in E. subst. exfalso. apply Hnotin. apply (in_map fst) in HI. exact HI.
      + auto.
  Qed.

  Lemma im_get_iff (m : list (K * V)) k v : NoDup (map fst m) -> (im_get eqk m k = Some v <-> In (k, v) m).
  Proof. intros HN. split; [apply im_get_in | apply in_im_get; auto]. Qed.

  Lemma im_get_perm (m m' : list (K * V)) k :
    NoDup (map fst m) -> Permutation m m' -> im_get eqk m' k = im_get eqk m k.
  Proof.
    intros HN HP.
    assert (HN' : NoDup (map fst m')).
    { eapply Permutation_NoDup; [apply Permutation_map, HP | exact HN]. }
    apply option_eq_of_iff. intros w. rewrite !im_get_iff by assumption.
    split; apply Permutation_in; [apply Permutation_sym|]; exact HP.
  Qed.

  Lemma im_get_app_one (m : list (K * V)) k v k' :
    im_get eqk (m ++ [(k, v)]) k' =
    match im_get eqk m k' with Some x => Some x | None => if eqk k k' then Some v else None end.
  Proof.
    induction m as [|[k0 v0] t IH]; cbn [im_get app]; auto.
    destruct (eqk k0 k'); auto.
  Qed.

  (* index_of *)
  Lemma im_index_of_some (m : list (K * V)) k i :
    im_index_of eqk m k = Some i -> exists v, nth_error m i = Some (k, v) /\ im_get eqk m k = Some v.
  Proof.
    revert i; induction m as [|[k' v'] t IH]; intros i H; cbn [im_index_of im_get] in *; try discriminate.
    destruct (eqk k' k) eqn:E.
    - apply eqk_spec in E. injection H as <-. subst. exists v'; auto.
    - destruct (im_index_of eqk t k) as [j|] eqn:Ej; cbn [option_map] in H; try discriminate.
      injection H as <-. cbn [nth_error]. apply IH; reflexivity.
  Qed.

  Lemma im_index_of_none (m : list (K * V)) k : im_index_of eqk m k = None <-> im_get eqk m k = None.
  Proof.
    induction m as [|[k' v'] t IH]; cbn [im_index_of im_get]; [tauto|].
    destruct (eqk k' k); [split; discriminate|].
    destruct (im_index_of eqk t k) as [j|]; cbn [option_map].
    - split; [discriminate|]. intros H. apply IH in H. discriminate.
    - split; auto. intros _. apply IH; reflexivity.
  Qed.

  Lemma im_index_of_iff (m : list (K * V)) k i : NoDup (map fst m) ->
    (im_index_of eqk m k = Some i <-> nth_error (map fst m) i = Some k).
  Proof.
    revert i; induction m as [|[k' v'] t IH]; intros i HN; cbn [im_index_of map fst].
    - destruct i; split; discriminate.
    - inversion HN as [|x l Hnotin HN']; subst.
      destruct (eqk k' k) eqn:E.
      + apply eqk_spec in E. subst. destruct i as [|i]; cbn [nth_error].
        * tauto.
        * split; [discriminate|]. intros H. apply nth_error_In in H. contradiction.
      + apply eqk_false in E. destruct i as [|i]; cbn [nth_error].
        * split; [|congruence]. destruct (im_index_of eqk t k); discriminate.
        * rewrite <- IH by exact HN'.
          destruct (im_index_of eqk t k) as [j|]; cbn [option_map]; split; congruence.
  Qed.

  (* insert *)
  Lemma im_insert_fst (m : list (K * V)) k v : fst (im_insert eqk m k v) = im_get eqk m k.
  Proof.
    induction m as [|[k' v'] t IH]; cbn [im_insert im_get fst]; auto.
    destruct (eqk k' k); auto.
    destruct (im_insert eqk t k v) as [o t'] eqn:E. cbn [fst] in *. exact IH.
  Qed.

  Lemma im_insert_get (m : list (K * V)) k v k' :
    im_get eqk (snd (im_insert eqk m k v)) k' = if eqk k k' then Some v else im_get eqk m k'.
  Proof.
    induction m as [|[k0 v0] t IH]; cbn [im_insert im_get snd]; auto.
    destruct (eqk k0 k) eqn:E.
    - apply eqk_spec in E. subst. cbn [snd im_get]. destruct (eqk k k'); auto.
    - destruct (im_insert eqk t k v) as [o t'] eqn:Ei. cbn [snd im_get] in *.
      destruct (eqk k0 k') eqn:E'; auto.
      apply eqk_spec in E'. subst. rewrite eqk_neq; auto.
      intros ->. rewrite eqk_refl in E. discriminate.
  Qed.

  Lemma im_insert_keys (m : list (K * V)) k v :
    map fst (snd (im_insert eqk m k v)) =
    match im_get eqk m k with Some _ => map fst m | None => map fst m ++ [k] end.
  Proof.
    induction m as [|[k0 v0] t IH]; cbn [im_insert im_get snd map fst app]; auto.
    destruct (eqk k0 k) eqn:E; auto.
    destruct (im_insert eqk t k v) as [o t'] eqn:Ei. cbn [snd map fst] in *.
    rewrite IH. destruct (im_get eqk t k); auto.
  Qed.

  Lemma im_insert_new (m : list (K * V)) k v :
    im_get eqk m k = None -> snd (im_insert eqk m k v) = m ++ [(k, v)].
  Proof.
    induction m as [|[k0 v0] t IH]; cbn [im_insert im_get snd app]; auto.
    destruct (eqk k0 k) eqn:E; try discriminate.
    intros H. destruct (im_insert eqk t k v) as [o t'] eqn:Ei. cbn [snd] in *.
    rewrite IH; auto.
  Qed.

  Lemma im_insert_length (m : list (K * V)) k v :
    length (snd (im_insert eqk m k v)) =
    match im_get eqk m k with Some _ => length m | None => S (length m) end.
  Proof.
    rewrite <- (map_length fst), im_insert_keys.
    destruct (im_get eqk m k); rewrite ?app_length, map_length; cbn [length]; lia.
  Qed.

  Lemma im_insert_NoDup (m : list (K * V)) k v :
    NoDup (map fst m) -> NoDup (map fst (snd (im_insert eqk m k v))).
  Proof.
    intros HN. rewrite im_insert_keys. destruct (im_get eqk m k) eqn:E; auto.
    apply NoDup_app_one; auto. apply im_get_none; auto.
  Qed.

  Lemma im_insert_in (m : list (K * V)) k v k' v' : NoDup (map fst m) ->
    (In (k', v') (snd (im_insert eqk m k v)) <-> (k' = k /\ v' = v) \/ (k' <> k /\ In (k', v') m)).
  Proof.
    intros HN. rewrite <- !im_get_iff by auto using im_insert_NoDup.
    rewrite im_insert_get. destruct (eqk k k') eqn:E.
    - apply eqk_spec in E. subst. split.
      + intros H; injection H as <-; auto.
      + intros [[_ ->]|[H _]]; congruence.
    - apply eqk_false in E. split.
      + intros H; right; split; auto.
      + intros [[-> _]|[_ H]]; congruence.
  Qed.

  (* swap_remove by key *)
  Lemma im_swap_remove_fst (m : list (K * V)) k : fst (im_swap_remove eqk m k) = im_get eqk m k.
  Proof.
    unfold im_swap_remove. destruct (im_index_of eqk m k) eqn:E; cbn [fst]; auto.
    apply im_index_of_none in E. auto.
  Qed.

  Lemma im_swap_remove_none (m : list (K * V)) k :
    im_get eqk m k = None -> snd (im_swap_remove eqk m k) = m.
  Proof.
    intros H. apply im_index_of_none in H. unfold im_swap_remove. rewrite H. reflexivity.
  Qed.

  Lemma im_swap_remove_perm (m : list (K * V)) k v :
    im_get eqk m k = Some v -> Permutation ((k, v) :: snd (im_swap_remove eqk m k)) m.
  Proof.
    intros H. unfold im_swap_remove. destruct (im_index_of eqk m k) as [i|] eqn:E.
    - cbn [snd]. destruct (im_index_of_some _ _ E) as [v0 [Hn Hg]].
      assert (v0 = v) by congruence. subst. apply vec_swap_remove_perm; auto.
    - apply im_index_of_none in E. congruence.
  Qed.

  Lemma im_swap_remove_NoDup (m : list (K * V)) k :
    NoDup (map fst m) -> NoDup (map fst (snd (im_swap_remove eqk m k))).
  Proof.
    intros HN. destruct (im_get eqk m k) as [v|] eqn:E.
    - pose proof (Permutation_map fst (im_swap_remove_perm _ _ E)) as HP. cbn [map fst] in HP.
      apply Permutation_sym in HP. apply (Permutation_NoDup HP) in HN. inversion HN; auto.
    - rewrite im_swap_remove_none; auto.
  Qed.

  Lemma im_swap_remove_in (m : list (K * V)) k k' v' : NoDup (map fst m) ->
    (In (k', v') (snd (im_swap_remove eqk m k)) <-> In (k', v') m /\ k' <> k).
  Proof.
    intros HN. destruct (im_get eqk m k) as [v|] eqn:E.
    - pose proof (im_swap_remove_perm _ _ E) as HP.
      pose proof (Permutation_map fst HP) as HPk. cbn [map fst] in HPk.
      apply Permutation_sym in HPk. pose proof (Permutation_NoDup HPk HN) as HN2.
      inversion HN2 as [|x l Hnotin HN3]; subst. split.
      + intros HI. split.
        * eapply Permutation_in; [exact HP|]. right; auto.
        * intros ->. apply Hnotin. apply (in_map fst) in HI. exact HI.
      + intros [HI Hne]. apply (Permutation_in _ (Permutation_sym HP)) in HI.
        destruct HI as [HI|HI]; auto. injection HI as -> _. congruence.
    - rewrite im_swap_remove_none by auto. split; [|tauto].
      intros HI; split; auto. intros ->. apply im_get_none in E. apply E.
      apply (in_map fst) in HI. exact HI.
  Qed.

  Lemma im_swap_remove_keys_in (m : list (K * V)) k k' : NoDup (map fst m) ->
    (In k' (map fst (snd (im_swap_remove eqk m k))) <-> In k' (map fst m) /\ k' <> k).
  Proof.
    intros HN. rewrite !in_map_iff. split.
    - intros [[k0 v0] [Hk HI]]. cbn [fst] in Hk. subst.
      apply im_swap_remove_in in HI; auto. destruct HI as [HI Hne]. split; auto.
      exists (k', v0); auto.
    - intros [[[k0 v0] [Hk HI]] Hne]. cbn [fst] in Hk. subst.
      exists (k', v0); split; auto. apply im_swap_remove_in; auto.
  Qed.

  Lemma im_swap_remove_get (m : list (K * V)) k k' : NoDup (map fst m) ->
    im_get eqk (snd (im_swap_remove eqk m k)) k' = if eqk k k' then None else im_get eqk m k'.
  Proof.
    intros HN. pose proof (@im_swap_remove_NoDup m k HN) as HN'.
    destruct (eqk k k') eqn:E.
    - apply eqk_spec in E. subst. apply im_get_none. intros HI.
      apply im_swap_remove_keys_in in HI; auto. destruct HI as [_ HI]; congruence.
    - apply eqk_false in E. apply option_eq_of_iff. intros w.
      rewrite !im_get_iff by assumption. rewrite im_swap_remove_in by assumption.
      split; [tauto | intros H; split; auto].
  Qed.
End AL.

(* The two key equalities used by GraphMap. *)
Lemma Zeqb_spec' (a b : Z) : Z.eqb a b = true <-> a = b.
Proof. apply Z.eqb_eq. Qed.

Lemma zpair_eqb_spec (p q : Z * Z) : zpair_eqb p q = true <-> p = q.
Proof.
  destruct p as [a b], q as [c d]. unfold zpair_eqb. cbn [fst snd].
  rewrite andb_true_iff, !Z.eqb_eq. split.
  - intros [-> ->]; reflexivity.
  - intros H; injection H as -> ->; auto.
Qed.
