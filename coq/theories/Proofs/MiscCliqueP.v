(* C20/Q1: maximal_cliques_ref is exactly the set of maximal cliques, each once. *)
From Coq Require Import FinFun.
From PG Require Import Lib.Io Model.View Model.MiscM Spec.Reach Spec.MiscSpec.

(* ------------------------------------------------------------------ *)
(* subseqs = all subsequences                                          *)

Lemma subseqs_In {A} (l : list A) : forall c, In c (subseqs l) <-> sublist c l.
Proof.
  induction l as [|x t IH]; intros c; cbn [subseqs].
  - split.
    + intros [<-|[]]. constructor.
    + intros H. inversion H. left; reflexivity.
  - rewrite in_app_iff, in_map_iff. split.
    + intros [[c' [<- Hc']]|Hc].
      * apply sl_take, IH, Hc'.
      * apply sl_skip, IH, Hc.
    + intros H. inversion H as [|x' c' l' Hs|x' c' l' Hs]; subst.
      * right. apply IH, Hs.
      * left. exists c'. split; [reflexivity | apply IH, Hs].
Qed.

Lemma sublist_In {A} {c l : list A} : sublist c l -> forall x, In x c -> In x l.
Proof.
  induction 1 as [|x c l Hs IH|x c l Hs IH]; intros y Hy.
  - exact Hy.
  - right; apply IH, Hy.
  - destruct Hy as [<-|Hy]; [left; reflexivity | right; apply IH, Hy].
Qed.

Lemma sublist_nil {A} (l : list A) : sublist [] l.
Proof. induction l as [|x t IH]; constructor; exact IH. Qed.

Lemma sublist_refl {A} (l : list A) : sublist l l.
Proof. induction l as [|x t IH]; constructor; exact IH. Qed.

Lemma sublist_NoDup {A} (c l : list A) : sublist c l -> NoDup l -> NoDup c.
Proof.
  induction 1 as [|x c l Hs IH|x c l Hs IH]; intros Hn.
  - exact Hn.
  - inversion Hn; subst; auto.
  - inversion Hn as [|x' l' Hx Hn']; subst. constructor; [|apply IH, Hn'].
    intros Hc. apply Hx. eapply sublist_In; eauto.
Qed.

Lemma subseqs_NoDup {A} (l : list A) : NoDup l -> NoDup (subseqs l).
Proof.
  induction l as [|x t IH]; intros Hn; cbn [subseqs].
  - constructor; [intros [] | constructor].
  - inversion Hn as [|x' l' Hx Hn']; subst. specialize (IH Hn').
    assert (Hm : NoDup (map (cons x) (subseqs t))).
    { apply FinFun.Injective_map_NoDup; [|exact IH]. intros a b E. injection E as E. exact E. }
    assert (Hd : forall c, In c (map (cons x) (subseqs t)) -> ~ In c (subseqs t)).
    { intros c Hc Hc'. apply in_map_iff in Hc. destruct Hc as [c' [<- _]].
      apply subseqs_In in Hc'. apply Hx. eapply sublist_In; [exact Hc' | left; reflexivity]. }
    revert Hm Hd. generalize (map (cons x) (subseqs t)) as m. induction m as [|c m IHm]; intros Hm Hd.
    + exact IH.
    + cbn [app]. inversion Hm as [|c' m' Hc Hm']; subst. constructor.
      * rewrite in_app_iff. intros [H|H]; [apply Hc, H | apply (Hd c (or_introl eq_refl)), H].
      * apply IHm; [exact Hm' | intros c' Hc'; apply Hd; right; exact Hc'].
Qed.

(* two subsequences of a duplicate-free list with the same members are equal *)
Lemma sublist_same_set {l : list nat} : NoDup l -> forall c1 c2,
  sublist c1 l -> sublist c2 l -> same_set c1 c2 -> c1 = c2.
Proof.
  induction l as [|x t IH]; intros Hn c1 c2 H1 H2 Hs.
  - inversion H1; inversion H2; reflexivity.
  - inversion Hn as [|x' l' Hx Hn']; subst.
    inversion H1 as [|y1 d1 l1 S1|y1 d1 l1 S1]; inversion H2 as [|y2 d2 l2 S2|y2 d2 l2 S2]; subst.
    + apply IH; assumption.
    + exfalso. apply Hx. eapply sublist_In; [exact S1|]. apply Hs. left; reflexivity.
    + exfalso. apply Hx. eapply sublist_In; [exact S2|]. apply Hs. left; reflexivity.
    + f_equal. apply IH; try assumption.
      intros z. split; intros Hz.
      * assert (Hz' : In z (x :: d2)) by (apply Hs; right; exact Hz).
        destruct Hz' as [<-|Hz']; [|exact Hz']. exfalso. apply Hx. exact (sublist_In S1 _ Hz).
      * assert (Hz' : In z (x :: d1)) by (apply Hs; right; exact Hz).
        destruct Hz' as [<-|Hz']; [|exact Hz']. exfalso. apply Hx. exact (sublist_In S2 _ Hz).
Qed.

(* ------------------------------------------------------------------ *)
(* the boolean tests                                                    *)

Lemma adj_u_sym v a b : adj_u v a b = adj_u v b a.
Proof. unfold adj_u. apply orb_comm. Qed.

Lemma is_clique_iff v c : is_clique v c = true <-> Clique v c.
Proof.
  unfold is_clique, Clique. rewrite forallb_forall. split.
  - intros H a b Ha Hb Hab. specialize (H a Ha). rewrite forallb_forall in H. specialize (H b Hb).
    apply orb_true_iff in H. destruct H as [H|H]; [apply Nat.eqb_eq in H; contradiction | exact H].
  - intros H a Ha. rewrite forallb_forall. intros b Hb.
    destruct (Nat.eqb_spec a b) as [E|Hn]; [reflexivity|]. cbn [orb]. apply H; assumption.
Qed.

Lemma clique_cons {v x c} : ~ In x c -> Clique v c ->
  (Clique v (x :: c) <-> forall a, In a c -> adj_u v a x = true).
Proof.
  intros Hx Hc. split.
  - intros H a Ha. apply H; [right; exact Ha | left; reflexivity |].
    intros ->. apply Hx, Ha.
  - intros H a b [<-|Ha] [<-|Hb] Hab.
    + contradiction.
    + rewrite adj_u_sym. apply H, Hb.
    + apply H, Ha.
    + apply Hc; assumption.
Qed.

Lemma is_maximal_clique_iff v c : sublist c (vnodes v) ->
  (is_maximal_clique v c = true <-> MaximalClique v c).
Proof.
  intros Hs. unfold is_maximal_clique, MaximalClique. rewrite andb_true_iff, is_clique_iff, forallb_forall.
  split.
  - intros [Hc Hm]. split; [exact Hs|]. split; [exact Hc|].
    intros x Hx Hnx Hcx. specialize (Hm x Hx). apply orb_true_iff in Hm. destruct Hm as [Hm|Hm].
    + apply mem_In in Hm. contradiction.
    + apply negb_true_iff in Hm.
      assert (E : forallb (fun a => adj_u v a x) c = true).
      { apply forallb_forall. intros a Ha. apply (proj1 (clique_cons Hnx Hc) Hcx a Ha). }
      rewrite E in Hm. discriminate Hm.
  - intros [_ [Hc Hm]]. split; [exact Hc|]. intros x Hx.
    destruct (mem x c) eqn:Em; [reflexivity|]. cbn [orb]. apply mem_false in Em.
    destruct (forallb (fun a => adj_u v a x) c) eqn:Ef; [|reflexivity].
    exfalso. apply (Hm x Hx Em). apply (clique_cons Em Hc).
    rewrite forallb_forall in Ef. exact Ef.
Qed.

(* ------------------------------------------------------------------ *)
(* the theorems                                                         *)

Theorem cliques_iff v c : In c (maximal_cliques_ref v) <-> MaximalClique v c.
Proof.
  unfold maximal_cliques_ref. rewrite filter_In, subseqs_In. split.
  - intros [Hs Hm]. apply is_maximal_clique_iff; assumption.
  - intros Hm. pose proof Hm as [Hs _]. split; [exact Hs|]. apply is_maximal_clique_iff; assumption.
Qed.

Theorem cliques_NoDup v : NoDup (vnodes v) -> NoDup (maximal_cliques_ref v).
Proof. intros Hn. unfold maximal_cliques_ref. apply NoDup_filter, subseqs_NoDup, Hn. Qed.

Theorem cliques_distinct_sets v c1 c2 : NoDup (vnodes v) ->
  In c1 (maximal_cliques_ref v) -> In c2 (maximal_cliques_ref v) -> c1 <> c2 -> ~ same_set c1 c2.
Proof.
  intros Hn H1 H2 Hne Hs. apply Hne.
  apply cliques_iff in H1. apply cliques_iff in H2. destruct H1 as [S1 _]. destruct H2 as [S2 _].
  eapply sublist_same_set; eauto.
Qed.

(* stronger: no maximal clique is contained in another one *)
Theorem cliques_antichain v c1 c2 : NoDup (vnodes v) ->
  In c1 (maximal_cliques_ref v) -> In c2 (maximal_cliques_ref v) -> incl c1 c2 -> c1 = c2.
Proof.
  intros Hn H1 H2 Hi.
  apply cliques_iff in H1. apply cliques_iff in H2.
  destruct H1 as [S1 [C1 M1]]. destruct H2 as [S2 [C2 M2]].
  apply (sublist_same_set Hn _ _ S1 S2). intros x. split; [apply Hi|].
  intros Hx. destruct (in_dec Nat.eq_dec x c1) as [Hin|Hnin]; [exact Hin|]. exfalso.
  apply (M1 x (sublist_In S2 x Hx) Hnin).
  intros a b Ha Hb Hab. apply C2; [| |exact Hab].
  - destruct Ha as [<-|Ha]; [exact Hx | apply Hi, Ha].
  - destruct Hb as [<-|Hb]; [exact Hx | apply Hi, Hb].
Qed.

Theorem cliques_empty v : vnodes v = [] -> maximal_cliques_ref v = [[]].
Proof. intros E. unfold maximal_cliques_ref, is_maximal_clique. rewrite E. reflexivity. Qed.

