(* C20b: page_rank (Model/PageRankM.v, exact rational mirror of src/algo/page_rank.rs).
   Part 1: sums of rationals, the entries of one step, and the invariants of the iteration:
   length, non-negativity, sum one, positivity, and when the `break` (zero normalising sum)
   can fire.  The equivariance under view_iso is in PageRankIsoP.v. *)
From Coq Require Import QArith Permutation Lia List Lqa.
From PG Require Import Lib.Io Model.View Model.PageRankM Spec.ViewIso Spec.PageRankSpec.
Import ListNotations.
Local Open Scope Q_scope.

(* ------------------------------------------------------------------ *)
(* qsum                                                                 *)

Definition qsumr (l : list Q) : Q := fold_right Qplus 0 l.

Lemma fold_left_Qplus l : forall a, fold_left Qplus l a == a + qsumr l.
Proof.
  induction l as [|x t IH]; intros a; cbn [fold_left qsumr fold_right].
  - ring.
  - rewrite IH. fold (qsumr t). ring.
Qed.

Lemma qsum_qsumr l : qsum l == qsumr l.
Proof. unfold qsum. rewrite fold_left_Qplus. ring. Qed.

Lemma qsum_nil : qsum [] == 0.
Proof. reflexivity. Qed.

Lemma qsum_cons x l : qsum (x :: l) == x + qsum l.
Proof. rewrite !qsum_qsumr. reflexivity. Qed.

Lemma qsum_app l1 l2 : qsum (l1 ++ l2) == qsum l1 + qsum l2.
Proof.
  induction l1 as [|x t IH]; cbn [app].
  - rewrite qsum_nil. ring.
  - rewrite !qsum_cons, IH. ring.
Qed.

Lemma qsum_perm l l' : Permutation l l' -> qsum l == qsum l'.
Proof.
  intros H. induction H as [|x l l' H IH|x y l|l l' l'' H1 IH1 H2 IH2].
  - reflexivity.
  - rewrite !qsum_cons, IH. reflexivity.
  - rewrite !qsum_cons. ring.
  - rewrite IH1. exact IH2.
Qed.

Lemma qsum_map_ext {A} (f g : A -> Q) l :
  (forall x, In x l -> f x == g x) -> qsum (map f l) == qsum (map g l).
Proof.
  induction l as [|a t IH]; intros H; cbn [map].
  - reflexivity.
  - rewrite !qsum_cons, IH.
    + rewrite (H a (or_introl eq_refl)). reflexivity.
    + intros x Hx. apply H. right. exact Hx.
Qed.

Lemma qsum_map_zero {A} (f : A -> Q) l : (forall x, In x l -> f x == 0) -> qsum (map f l) == 0.
Proof.
  induction l as [|a t IH]; intros H; cbn [map].
  - reflexivity.
  - rewrite qsum_cons, IH, (H a (or_introl eq_refl)).
    + ring.
    + intros x Hx. apply H. right. exact Hx.
Qed.

Lemma qsum_map_scale {A} (f : A -> Q) c l : qsum (map (fun x => f x * c) l) == qsum (map f l) * c.
Proof.
  induction l as [|a t IH]; cbn [map].
  - rewrite qsum_nil. ring.
  - rewrite !qsum_cons, IH. ring.
Qed.

Lemma qsum_map_div {A} (f : A -> Q) s l : qsum (map (fun x => f x / s) l) == qsum (map f l) / s.
Proof. unfold Qdiv. apply qsum_map_scale. Qed.

Lemma qsum_nonneg l : (forall x, In x l -> 0 <= x) -> 0 <= qsum l.
Proof.
  induction l as [|a t IH]; intros H.
  - rewrite qsum_nil. apply Qle_refl.
  - rewrite qsum_cons.
    assert (Ha : 0 <= a) by (apply H; left; reflexivity).
    assert (Ht : 0 <= qsum t) by (apply IH; intros x Hx; apply H; right; exact Hx).
    lra.
Qed.

Lemma qsum_pos l : (forall x, In x l -> 0 <= x) -> (exists x, In x l /\ 0 < x) -> 0 < qsum l.
Proof.
  induction l as [|a t IH]; intros H [x [Hx Hp]].
  - destruct Hx.
  - rewrite qsum_cons.
    assert (Ha : 0 <= a) by (apply H; left; reflexivity).
    assert (Ht : 0 <= qsum t) by (apply qsum_nonneg; intros y Hy; apply H; right; exact Hy).
    destruct Hx as [<-|Hx].
    + lra.
    + assert (0 < qsum t).
      { apply IH; [intros y Hy; apply H; right; exact Hy|]. exists x. split; assumption. }
      lra.
Qed.

(* a positive sum of non-negative numbers has a positive member *)
Lemma qsum_pos_member l : (forall x, In x l -> 0 <= x) -> 0 < qsum l -> exists x, In x l /\ 0 < x.
Proof.
  induction l as [|a t IH]; intros H Hs.
  - rewrite qsum_nil in Hs. lra.
  - destruct (Qlt_le_dec 0 a) as [Ha|Ha].
    + exists a. split; [left; reflexivity|exact Ha].
    + rewrite qsum_cons in Hs.
      destruct IH as [x [Hx Hp]].
      * intros y Hy. apply H. right. exact Hy.
      * lra.
      * exists x. split; [right; exact Hx|exact Hp].
Qed.

Lemma inject_nat_nonneg n : 0 <= inject_Z (Z.of_nat n).
Proof. change 0 with (inject_Z 0). rewrite <- Zle_Qle. lia. Qed.

Lemma inject_nat_pos n : (0 < n)%nat -> 0 < inject_Z (Z.of_nat n).
Proof. intros H. change 0 with (inject_Z 0). rewrite <- Zlt_Qlt. lia. Qed.

Lemma qsum_repeat c n : qsum (repeat c n) == inject_Z (Z.of_nat n) * c.
Proof.
  induction n as [|n IH]; cbn [repeat].
  - rewrite qsum_nil. change (inject_Z (Z.of_nat 0)) with 0. ring.
  - rewrite qsum_cons, IH, Nat2Z.inj_succ. unfold Z.succ. rewrite inject_Z_plus.
    change (inject_Z 1) with 1. ring.
Qed.

(* summing over a permuted index range *)
Lemma qsum_reindex (f : nat -> Q) (p : nat -> nat) n :
  Permutation (map p (seq 0 n)) (seq 0 n) ->
  qsum (map (fun w => f (p w)) (seq 0 n)) == qsum (map f (seq 0 n)).
Proof.
  intros H. rewrite <- (map_map p f). apply qsum_perm. apply Permutation_map. exact H.
Qed.

(* ------------------------------------------------------------------ *)
(* list facts                                                           *)

Lemma nth_map_seq (f : nat -> Q) n x : (x < n)%nat -> nth x (map f (seq 0 n)) 0 = f x.
Proof.
  intros H. rewrite (nth_indep _ 0 (f 0%nat)) by (rewrite map_length, seq_length; exact H).
  rewrite map_nth, seq_nth by exact H. reflexivity.
Qed.

Lemma nth_map_Q (g : Q -> Q) l i : (i < length l)%nat -> nth i (map g l) 0 = g (nth i l 0).
Proof.
  intros H. rewrite (nth_indep _ 0 (g 0)) by (rewrite map_length; exact H).
  apply map_nth.
Qed.

Lemma nth_repeat_Q (c : Q) n i : (i < n)%nat -> nth i (repeat c n) 0 = c.
Proof.
  revert i. induction n as [|n IH]; intros i H; [lia|].
  destruct i as [|i]; cbn [repeat nth]; [reflexivity|]. apply IH. lia.
Qed.

Lemma list_as_map_nth (l : list Q) : l = map (fun x => nth x l 0) (seq 0 (length l)).
Proof.
  induction l as [|a t IH]; cbn [length seq map nth]; [reflexivity|].
  f_equal. rewrite <- seq_shift, map_map. exact IH.
Qed.

Lemma nth_nonneg (l : list Q) i : (forall q, In q l -> 0 <= q) -> 0 <= nth i l 0.
Proof.
  intros H. destruct (Nat.lt_ge_cases i (length l)) as [Hi|Hi].
  - apply H. apply nth_In. exact Hi.
  - rewrite nth_overflow by exact Hi. apply Qle_refl.
Qed.

(* ------------------------------------------------------------------ *)
(* one term                                                             *)

Lemma pr_term_comp d nb b deg r r' : r == r' -> pr_term d nb b deg r == pr_term d nb b deg r'.
Proof.
  intros E. unfold pr_term. destruct b; [|destruct (Qeq_bool deg 0)]; rewrite E; reflexivity.
Qed.

Lemma pr_term_zero d nb b deg : pr_term d nb b deg 0 == 0.
Proof.
  unfold pr_term, Qdiv. destruct b; [|destruct (Qeq_bool deg 0)]; ring.
Qed.

Lemma Qdiv_nonneg a c : 0 <= a -> 0 <= c -> 0 <= a / c.
Proof.
  intros Ha Hc. unfold Qdiv. apply Qmult_le_0_compat; [exact Ha|]. apply Qinv_le_0_compat. exact Hc.
Qed.

Lemma Qdiv_pos a c : 0 < a -> 0 < c -> 0 < a / c.
Proof.
  intros Ha Hc. apply Qlt_shift_div_l; [exact Hc|]. lra.
Qed.

Lemma Qmult_pos a b : 0 < a -> 0 < b -> 0 < a * b.
Proof.
  intros Ha Hb. setoid_replace 0 with (0 * b) by ring. apply Qmult_lt_compat_r; assumption.
Qed.

Lemma pr_term_nonneg d nb b deg r :
  0 <= d -> d <= 1 -> 0 <= nb -> 0 <= deg -> 0 <= r -> 0 <= pr_term d nb b deg r.
Proof.
  intros Hd0 Hd1 Hnb Hdeg Hr. unfold pr_term.
  destruct b; [|destruct (Qeq_bool deg 0)]; apply Qdiv_nonneg; try assumption;
    apply Qmult_le_0_compat; try assumption; lra.
Qed.

Lemma out_deg_nonneg v w : 0 <= out_deg v w.
Proof. apply inject_nat_nonneg. Qed.

Lemma links_out_deg_pos v w x : links v w x = true -> 0 < out_deg v w.
Proof.
  unfold links, out_deg. intros H. apply existsb_exists in H. destruct H as [e [He _]].
  apply inject_nat_pos. destruct (out_edges v w); [destruct He|cbn [length]; lia].
Qed.

Lemma out_deg_nil v w : out_edges v w = [] -> Qeq_bool (out_deg v w) 0 = true.
Proof. unfold out_deg. intros ->. reflexivity. Qed.

(* with 0 < d < 1 every term of a positive rank is positive *)
Lemma pr_term_pos v w x d nb r :
  0 < d -> d < 1 -> 0 < nb -> 0 < r -> 0 < pr_term d nb (links v w x) (out_deg v w) r.
Proof.
  intros Hd0 Hd1 Hnb Hr. unfold pr_term.
  destruct (links v w x) eqn:El.
  - apply Qdiv_pos; [apply Qmult_pos; assumption|]. apply (links_out_deg_pos _ _ _ El).
  - destruct (Qeq_bool (out_deg v w) 0).
    + apply Qdiv_pos; [apply Qmult_pos; assumption|exact Hnb].
    + apply Qdiv_pos; [apply Qmult_pos; [lra|assumption]|exact Hnb].
Qed.

(* ------------------------------------------------------------------ *)
(* the entries of one step                                              *)

(* the sum the code accumulates for node x: over all w in 0..n-1, with r[w] read by index *)
Definition pr_sum (v : view) (n : nat) (d : Q) (r : list Q) (x : nat) : Q :=
  qsum (map (fun w => pr_term d (inject_Z (Z.of_nat n)) (links v w x) (out_deg v w) (nth w r 0))
            (seq 0 n)).

Lemma combine_seq_sum (F : nat -> Q -> Q) : (forall w, F w 0 == 0) -> forall n r s,
  qsum (map (fun wr => F (fst wr) (snd wr)) (combine (seq s n) r))
  == qsum (map (fun i => F (s + i)%nat (nth i r 0)) (seq 0 n)).
Proof.
  intros HF n. induction n as [|n IH]; intros r s.
  - reflexivity.
  - destruct r as [|a r'].
    + rewrite combine_nil. cbn [map]. rewrite qsum_nil. symmetry. apply qsum_map_zero.
      intros i _. destruct i; cbn [nth]; apply HF.
    + cbn [seq combine map fst snd nth]. rewrite !qsum_cons, IH, Nat.add_0_r.
      rewrite <- seq_shift, map_map.
      apply Qplus_comp; [reflexivity|]. apply qsum_map_ext.
      intros i _. cbn [nth]. rewrite Nat.add_succ_r. reflexivity.
Qed.

Lemma pr_pi_entry v n d r x :
  qsum (map (fun wr => pr_term d (inject_Z (Z.of_nat n)) (links v (fst wr) x) (out_deg v (fst wr)) (snd wr))
            (combine (seq 0 n) r))
  == pr_sum v n d r x.
Proof.
  unfold pr_sum.
  exact (combine_seq_sum (fun w q => pr_term d (inject_Z (Z.of_nat n)) (links v w x) (out_deg v w) q)
           (fun w => pr_term_zero _ _ _ _) n r 0%nat).
Qed.

Lemma pr_pi_length v n d r : length (pr_pi v n d r) = n.
Proof. unfold pr_pi. rewrite map_length. apply seq_length. Qed.

Lemma pr_pi_nth v n d r x : (x < n)%nat -> nth x (pr_pi v n d r) 0 == pr_sum v n d r x.
Proof.
  intros H. unfold pr_pi. cbv zeta. rewrite nth_map_seq by exact H. apply pr_pi_entry.
Qed.

Lemma pr_pi_qsum v n d r : qsum (pr_pi v n d r) == qsum (map (pr_sum v n d r) (seq 0 n)).
Proof.
  unfold pr_pi. cbv zeta. apply qsum_map_ext. intros x _. apply pr_pi_entry.
Qed.

Lemma pr_pi_In v n d r q : In q (pr_pi v n d r) -> exists x, (x < n)%nat /\ q == pr_sum v n d r x.
Proof.
  unfold pr_pi. cbv zeta. intros H. apply in_map_iff in H. destruct H as [x [<- Hx]].
  apply in_seq in Hx. exists x. split; [lia|]. apply pr_pi_entry.
Qed.

Lemma pr_sum_nonneg v n d r x : 0 <= d -> d <= 1 -> (forall q, In q r -> 0 <= q) -> 0 <= pr_sum v n d r x.
Proof.
  intros Hd0 Hd1 Hr. unfold pr_sum. apply qsum_nonneg. intros q Hq.
  apply in_map_iff in Hq. destruct Hq as [w [<- _]].
  apply pr_term_nonneg; try assumption.
  - apply inject_nat_nonneg.
  - apply out_deg_nonneg.
  - apply nth_nonneg. exact Hr.
Qed.

Lemma pr_pi_nonneg v n d r : 0 <= d -> d <= 1 -> (forall q, In q r -> 0 <= q) ->
  forall q, In q (pr_pi v n d r) -> 0 <= q.
Proof.
  intros Hd0 Hd1 Hr q Hq. destruct (pr_pi_In _ _ _ _ _ Hq) as [x [_ ->]].
  apply pr_sum_nonneg; assumption.
Qed.

(* ------------------------------------------------------------------ *)
(* one step                                                             *)

Lemma pr_step_some v n d r r' : pr_step v n d r = Some r' ->
  ~ qsum (pr_pi v n d r) == 0 /\ r' = map (fun q => Qred (q / qsum (pr_pi v n d r))) (pr_pi v n d r).
Proof.
  unfold pr_step. cbv zeta. destruct (Qeq_bool (qsum (pr_pi v n d r)) 0) eqn:E; [discriminate|].
  intros H. injection H as <-. split; [|reflexivity]. apply Qeq_bool_neq. exact E.
Qed.

Lemma pr_step_none v n d r : pr_step v n d r = None -> qsum (pr_pi v n d r) == 0.
Proof.
  unfold pr_step. cbv zeta. destruct (Qeq_bool (qsum (pr_pi v n d r)) 0) eqn:E; [|discriminate].
  intros _. apply Qeq_bool_iff. exact E.
Qed.

Lemma pr_step_nonzero v n d r : ~ qsum (pr_pi v n d r) == 0 -> exists r', pr_step v n d r = Some r'.
Proof.
  intros H. destruct (pr_step v n d r) as [r'|] eqn:E; [exists r'; reflexivity|].
  exfalso. apply H. apply pr_step_none. exact E.
Qed.

Lemma pr_step_length v n d r r' : pr_step v n d r = Some r' -> length r' = n.
Proof.
  intros H. destruct (pr_step_some _ _ _ _ _ H) as [_ ->]. rewrite map_length. apply pr_pi_length.
Qed.

Lemma pr_step_nonneg v n d r r' : 0 <= d -> d <= 1 -> (forall q, In q r -> 0 <= q) ->
  pr_step v n d r = Some r' -> forall q, In q r' -> 0 <= q.
Proof.
  intros Hd0 Hd1 Hr H q Hq. destruct (pr_step_some _ _ _ _ _ H) as [_ ->].
  apply in_map_iff in Hq. destruct Hq as [a [<- Ha]]. rewrite Qred_correct.
  apply Qdiv_nonneg.
  - apply (pr_pi_nonneg v n d r Hd0 Hd1 Hr). exact Ha.
  - apply qsum_nonneg. apply (pr_pi_nonneg v n d r Hd0 Hd1 Hr).
Qed.

Lemma pr_step_sum v n d r r' : pr_step v n d r = Some r' -> qsum r' == 1.
Proof.
  intros H. destruct (pr_step_some _ _ _ _ _ H) as [Hs ->].
  rewrite (qsum_map_ext _ (fun q => q / qsum (pr_pi v n d r))) by (intros q _; apply Qred_correct).
  rewrite (qsum_map_div (fun q => q)), map_id. field. exact Hs.
Qed.

(* ------------------------------------------------------------------ *)
(* the iteration                                                        *)

Lemma pr_iter_inv (P : list Q -> Prop) v n d :
  (forall r r', P r -> pr_step v n d r = Some r' -> P r') ->
  forall k r, P r -> P (pr_iter v n d k r).
Proof.
  intros Hstep k. induction k as [|k IH]; intros r Hr; cbn [pr_iter]; [exact Hr|].
  destruct (pr_step v n d r) as [r'|] eqn:E; [|exact Hr].
  apply IH. apply (Hstep r r' Hr E).
Qed.

(* one more iteration = one more step on the result (a break stays a break) *)
Lemma pr_iter_succ v n d k : forall r,
  pr_iter v n d (S k) r =
  match pr_step v n d (pr_iter v n d k r) with Some r' => r' | None => pr_iter v n d k r end.
Proof.
  induction k as [|k IH]; intros r.
  - cbn [pr_iter]. destruct (pr_step v n d r); reflexivity.
  - change (pr_iter v n d (S (S k)) r)
      with (match pr_step v n d r with Some r' => pr_iter v n d (S k) r' | None => r end).
    change (pr_iter v n d (S k) r)
      with (match pr_step v n d r with Some r' => pr_iter v n d k r' | None => r end).
    destruct (pr_step v n d r) as [r'|] eqn:E.
    + apply IH.
    + rewrite E. reflexivity.
Qed.

Definition pr_init (n : nat) : list Q := repeat (1 / inject_Z (Z.of_nat n)) n.

Lemma page_rank_q_unfold v d k : (0 < vnode_count v)%nat ->
  page_rank_q v d k = pr_iter v (vnode_count v) d k (pr_init (vnode_count v)).
Proof.
  unfold page_rank_q, pr_init. cbv zeta. destruct (vnode_count v); [lia|reflexivity].
Qed.

Lemma pr_init_length n : length (pr_init n) = n.
Proof. apply repeat_length. Qed.

Lemma pr_init_pos n q : In q (pr_init n) -> 0 < q.
Proof.
  unfold pr_init. intros H. pose proof (repeat_spec _ _ _ H) as ->.
  destruct n as [|n]; [destruct H|].
  apply Qdiv_pos; [lra|]. apply inject_nat_pos. lia.
Qed.

Lemma pr_init_sum n : (0 < n)%nat -> qsum (pr_init n) == 1.
Proof.
  intros H. unfold pr_init. rewrite qsum_repeat. field.
  intros E. pose proof (inject_nat_pos n H) as Hp. rewrite E in Hp. lra.
Qed.

(* P1 *)
Theorem page_rank_length v d k : length (page_rank_q v d k) = vnode_count v.
Proof.
  destruct (vnode_count v) as [|n] eqn:En.
  - unfold page_rank_q. rewrite En. reflexivity.
  - rewrite page_rank_q_unfold by lia. rewrite En.
    apply (pr_iter_inv (fun r => length r = S n)).
    + intros r r' _ H. apply (pr_step_length _ _ _ _ _ H).
    + apply pr_init_length.
Qed.

(* P2 *)
Theorem page_rank_nonneg v d k : 0 <= d -> d <= 1 -> forall q, In q (page_rank_q v d k) -> 0 <= q.
Proof.
  intros Hd0 Hd1. destruct (vnode_count v) as [|n] eqn:En.
  - unfold page_rank_q. rewrite En. intros q [].
  - rewrite page_rank_q_unfold by lia. rewrite En.
    apply (pr_iter_inv (fun r => forall q, In q r -> 0 <= q)).
    + intros r r' Hr H. apply (pr_step_nonneg _ _ _ _ _ Hd0 Hd1 Hr H).
    + intros q Hq. apply Qlt_le_weak. apply (pr_init_pos _ _ Hq).
Qed.

(* P3 *)
Theorem page_rank_sum_one v d k : (0 < vnode_count v)%nat -> qsum (page_rank_q v d k) == 1.
Proof.
  intros Hn. rewrite page_rank_q_unfold by exact Hn.
  apply (pr_iter_inv (fun r => qsum r == 1)).
  - intros r r' _ H. apply (pr_step_sum _ _ _ _ _ H).
  - apply pr_init_sum. exact Hn.
Qed.

(* ------------------------------------------------------------------ *)
(* P4: positivity, and when the break fires                             *)

Definition all_pos (n : nat) (r : list Q) : Prop := length r = n /\ forall q, In q r -> 0 < q.

Lemma all_pos_nth n r w : all_pos n r -> (w < n)%nat -> 0 < nth w r 0.
Proof. intros [Hl Hp] Hw. apply Hp. apply nth_In. lia. Qed.

Lemma pr_sum_pos v n d r x : 0 < d -> d < 1 -> (0 < n)%nat -> all_pos n r -> 0 < pr_sum v n d r x.
Proof.
  intros Hd0 Hd1 Hn Hr. unfold pr_sum. apply qsum_pos.
  - intros q Hq. apply in_map_iff in Hq. destruct Hq as [w [<- Hw]]. apply in_seq in Hw.
    apply Qlt_le_weak. apply pr_term_pos; try assumption.
    + apply inject_nat_pos. exact Hn.
    + apply (all_pos_nth _ _ _ Hr). lia.
  - exists (pr_term d (inject_Z (Z.of_nat n)) (links v 0%nat x) (out_deg v 0%nat) (nth 0%nat r 0)). split.
    + apply (in_map (fun w => pr_term d (inject_Z (Z.of_nat n)) (links v w x) (out_deg v w) (nth w r 0))).
      apply in_seq. lia.
    + apply pr_term_pos; try assumption.
      * apply inject_nat_pos. exact Hn.
      * apply (all_pos_nth _ _ _ Hr). exact Hn.
Qed.

Lemma pr_pi_pos v n d r : 0 < d -> d < 1 -> (0 < n)%nat -> all_pos n r ->
  forall q, In q (pr_pi v n d r) -> 0 < q.
Proof.
  intros Hd0 Hd1 Hn Hr q Hq. destruct (pr_pi_In _ _ _ _ _ Hq) as [x [_ ->]].
  apply pr_sum_pos; assumption.
Qed.

Lemma pr_pi_sum_pos v n d r : 0 < d -> d < 1 -> (0 < n)%nat -> all_pos n r -> 0 < qsum (pr_pi v n d r).
Proof.
  intros Hd0 Hd1 Hn Hr. apply qsum_pos.
  - intros q Hq. apply Qlt_le_weak. apply (pr_pi_pos v n d r Hd0 Hd1 Hn Hr q Hq).
  - exists (nth 0%nat (pr_pi v n d r) 0).
    assert (Hin : In (nth 0%nat (pr_pi v n d r) 0) (pr_pi v n d r)).
    { apply nth_In. rewrite pr_pi_length. exact Hn. }
    split; [exact Hin|]. apply (pr_pi_pos v n d r Hd0 Hd1 Hn Hr _ Hin).
Qed.

(* with 0 < d < 1 a step on positive ranks succeeds and gives positive ranks *)
Lemma pr_step_pos v n d r : 0 < d -> d < 1 -> (0 < n)%nat -> all_pos n r ->
  exists r', pr_step v n d r = Some r' /\ all_pos n r'.
Proof.
  intros Hd0 Hd1 Hn Hr. pose proof (pr_pi_sum_pos v n d r Hd0 Hd1 Hn Hr) as Hs.
  destruct (pr_step_nonzero v n d r) as [r' E].
  { intros E. rewrite E in Hs. lra. }
  exists r'. split; [exact E|]. split; [apply (pr_step_length _ _ _ _ _ E)|].
  destruct (pr_step_some _ _ _ _ _ E) as [_ ->]. intros q Hq.
  apply in_map_iff in Hq. destruct Hq as [a [<- Ha]]. rewrite Qred_correct.
  apply Qdiv_pos; [|exact Hs]. apply (pr_pi_pos v n d r Hd0 Hd1 Hn Hr a Ha).
Qed.

Lemma pr_init_all_pos n : all_pos n (pr_init n).
Proof. split; [apply pr_init_length|apply pr_init_pos]. Qed.

Lemma page_rank_all_pos v d k : 0 < d -> d < 1 -> all_pos (vnode_count v) (page_rank_q v d k).
Proof.
  intros Hd0 Hd1. destruct (vnode_count v) as [|n] eqn:En.
  - unfold page_rank_q. rewrite En. split; [reflexivity|intros q []].
  - rewrite page_rank_q_unfold by lia. rewrite En.
    apply (pr_iter_inv (all_pos (S n))).
    + intros r r' Hr H. destruct (pr_step_pos v (S n) d r Hd0 Hd1 ltac:(lia) Hr) as [r2 [E Hp]].
      rewrite H in E. injection E as <-. exact Hp.
    + apply pr_init_all_pos.
Qed.

(* P4a: 0 < d < 1: every rank is strictly positive, on every view *)
Theorem page_rank_positive v d k : 0 < d -> d < 1 -> forall q, In q (page_rank_q v d k) -> 0 < q.
Proof. intros Hd0 Hd1. apply (page_rank_all_pos v d k Hd0 Hd1). Qed.

(* targets_in, some_pos: Spec/PageRankSpec.v *)
(* with 0 < d <= 1 and targets among the nodes the normalising sum is positive: the node w
   with positive rank either has an out-edge to some x < n or has out-degree 0; both branches
   hand out d * r_w / ... > 0 *)
Lemma pr_pi_sum_pos_d v n d r : 0 < d -> d <= 1 -> (0 < n)%nat -> targets_in v n -> some_pos n r ->
  0 < qsum (pr_pi v n d r).
Proof.
  intros Hd0 Hd1 Hn Ht [Hr [w [Hw Hpw]]].
  assert (Hd0' : 0 <= d) by lra.
  rewrite pr_pi_qsum. apply qsum_pos.
  - intros q Hq. apply in_map_iff in Hq. destruct Hq as [x [<- _]]. apply pr_sum_nonneg; assumption.
  - assert (Hx : exists x, (x < n)%nat /\
               0 < pr_term d (inject_Z (Z.of_nat n)) (links v w x) (out_deg v w) (nth w r 0)).
    { destruct (out_edges v w) as [|e es] eqn:Eo.
      - exists 0%nat. split; [exact Hn|]. unfold pr_term.
        assert (El : links v w 0%nat = false) by (unfold links; rewrite Eo; reflexivity).
        rewrite El, (out_deg_nil v w Eo).
        apply Qdiv_pos; [apply Qmult_pos; assumption|apply inject_nat_pos; exact Hn].
      - exists (tgt e). split.
        + apply (Ht w e Hw). rewrite Eo. left. reflexivity.
        + assert (El : links v w (tgt e) = true).
          { unfold links. apply existsb_exists. exists e. split; [rewrite Eo; left; reflexivity|].
            apply Nat.eqb_refl. }
          unfold pr_term. rewrite El.
          apply Qdiv_pos; [apply Qmult_pos; assumption|apply (links_out_deg_pos _ _ _ El)]. }
    destruct Hx as [x [Hxn Hpos]].
    exists (pr_sum v n d r x). split.
    + apply in_map. apply in_seq. lia.
    + unfold pr_sum. apply qsum_pos.
      * intros q Hq. apply in_map_iff in Hq. destruct Hq as [w' [<- _]].
        apply pr_term_nonneg; try assumption.
        -- apply inject_nat_nonneg.
        -- apply out_deg_nonneg.
        -- apply nth_nonneg. exact Hr.
      * eexists. split; [|exact Hpos].
        apply (in_map (fun w => pr_term d (inject_Z (Z.of_nat n)) (links v w x) (out_deg v w) (nth w r 0))).
        apply in_seq. lia.
Qed.

(* P4b: so the break needs d == 0 *)
Theorem pr_step_None_d0 v n d r : 0 <= d -> d <= 1 -> (0 < n)%nat -> targets_in v n -> some_pos n r ->
  pr_step v n d r = None -> d == 0.
Proof.
  intros Hd0 Hd1 Hn Ht Hr E. destruct (Qlt_le_dec 0 d) as [Hp|Hle]; [|lra].
  pose proof (pr_pi_sum_pos_d v n d r Hp Hd1 Hn Ht Hr) as Hs.
  rewrite (pr_step_none _ _ _ _ E) in Hs. lra.
Qed.

(* ranks that are non-negative, n of them, with sum one satisfy the invariant *)
Lemma sum_one_some_pos n r : length r = n -> (forall q, In q r -> 0 <= q) -> qsum r == 1 -> some_pos n r.
Proof.
  intros Hl Hr Hs. split; [exact Hr|].
  destruct (qsum_pos_member r Hr) as [q [Hq Hp]]; [rewrite Hs; lra|].
  destruct (In_nth r q 0 Hq) as [w [Hw Ew]]. exists w. split; [lia|]. rewrite Ew. exact Hp.
Qed.

Lemma page_rank_some_pos v d k : 0 <= d -> d <= 1 -> (0 < vnode_count v)%nat ->
  some_pos (vnode_count v) (page_rank_q v d k).
Proof.
  intros Hd0 Hd1 Hn. apply sum_one_some_pos.
  - apply page_rank_length.
  - apply page_rank_nonneg; assumption.
  - apply page_rank_sum_one. exact Hn.
Qed.

(* for 0 < d <= 1 on a view whose targets are nodes the break never fires: every iteration is a
   successful step *)
Theorem page_rank_no_break v d k : 0 < d -> d <= 1 -> (0 < vnode_count v)%nat ->
  targets_in v (vnode_count v) ->
  exists r', pr_step v (vnode_count v) d (page_rank_q v d k) = Some r' /\ page_rank_q v d (S k) = r'.
Proof.
  intros Hd0 Hd1 Hn Ht.
  assert (Hd0' : 0 <= d) by lra.
  pose proof (pr_pi_sum_pos_d v _ d _ Hd0 Hd1 Hn Ht (page_rank_some_pos v d k Hd0' Hd1 Hn)) as Hs.
  destruct (pr_step_nonzero v (vnode_count v) d (page_rank_q v d k)) as [r' E].
  { intros E. rewrite E in Hs. lra. }
  exists r'. split; [exact E|].
  rewrite !page_rank_q_unfold in * by exact Hn. rewrite pr_iter_succ, E. reflexivity.
Qed.

(* the same for 0 < d < 1 without any hypothesis on the view *)
Theorem page_rank_no_break_lt1 v d k : 0 < d -> d < 1 -> (0 < vnode_count v)%nat ->
  exists r', pr_step v (vnode_count v) d (page_rank_q v d k) = Some r' /\ page_rank_q v d (S k) = r'.
Proof.
  intros Hd0 Hd1 Hn.
  destruct (pr_step_pos v _ d _ Hd0 Hd1 Hn (page_rank_all_pos v d k Hd0 Hd1)) as [r' [E _]].
  exists r'. split; [exact E|].
  rewrite !page_rank_q_unfold in * by exact Hn. rewrite pr_iter_succ, E. reflexivity.
Qed.

(* one more iteration is one more step on the result; after a break nothing changes *)
Theorem page_rank_unroll v d k : (0 < vnode_count v)%nat ->
  page_rank_q v d (S k) =
  match pr_step v (vnode_count v) d (page_rank_q v d k) with
  | Some r' => r'
  | None => page_rank_q v d k
  end.
Proof. intros Hn. rewrite !page_rank_q_unfold by exact Hn. apply pr_iter_succ. Qed.

(* P6: one step, entry by entry (pr_sum with pr_term unfolded) *)
Theorem pr_step_formula v n d r x : (x < n)%nat ->
  nth x (pr_pi v n d r) 0 ==
  qsum (map (fun w => if links v w x then d * nth w r 0 / out_deg v w
                      else if Qeq_bool (out_deg v w) 0 then d * nth w r 0 / inject_Z (Z.of_nat n)
                      else (1 - d) * nth w r 0 / inject_Z (Z.of_nat n))
            (seq 0 n)).
Proof. intros H. exact (pr_pi_nth v n d r x H). Qed.
