(* C20/Q2: coloring_check accepts exactly the proper colourings with colours 0..k-1 (and at most
   two colours on a 2-colourable graph). *)
From PG Require Import Lib.Io Model.View Model.Traversal Model.AlgoBasic Model.MiscM
                       Spec.Reach Spec.AlgoSpec Spec.MiscSpec Props.C09.

(* ------------------------------------------------------------------ *)
(* small reflections                                                    *)

Lemma nodupb_iff l : nodupb l = true <-> NoDup l.
Proof.
  induction l as [|h t IH]; cbn [nodupb].
  - split; [constructor | reflexivity].
  - rewrite andb_true_iff, negb_true_iff, mem_false, IH. split.
    + intros [H1 H2]. constructor; assumption.
    + intros H. inversion H; subst. split; assumption.
Qed.

Lemma assoc_col_Some col a c : assoc_col col a = Some c -> In (a, c) col.
Proof.
  induction col as [|[k c'] t IH]; cbn [assoc_col]; [discriminate|].
  destruct (Nat.eqb_spec k a) as [->|Hn]; intros H.
  - injection H as ->. left; reflexivity.
  - right; apply IH, H.
Qed.

Lemma assoc_col_None col a : assoc_col col a = None <-> ~ In a (map fst col).
Proof.
  induction col as [|[k c'] t IH]; cbn [assoc_col map fst In]; [tauto|].
  destruct (Nat.eqb_spec k a) as [->|Hn].
  - split; [discriminate | intros H; exfalso; apply H; left; reflexivity].
  - rewrite IH. tauto.
Qed.

Lemma assoc_col_In col a : In a (map fst col) -> exists c, assoc_col col a = Some c.
Proof.
  intros H. destruct (assoc_col col a) as [c|] eqn:E; [exists c; reflexivity|].
  apply assoc_col_None in E. contradiction.
Qed.

(* the three structural tests of coloring_check *)
Definition col_b1 (v : view) (col : list (nat * nat)) : bool :=
  andb (nodupb (map fst col))
       (andb (forallb (fun a => mem a (map fst col)) (vnodes v)) (forallb (fun a => mem a (vnodes v)) (map fst col))).
Definition col_b2 (v : view) (col : list (nat * nat)) : bool :=
  forallb (fun a => forallb (fun b => orb (Nat.eqb a b)
             (negb (match assoc_col col a, assoc_col col b with Some x, Some y => Nat.eqb x y | _, _ => true end)))
           (neighbors v a)) (vnodes v).
Definition col_b3 (col : list (nat * nat)) (k : nat) : bool :=
  andb (forallb (fun '(_, c) => Nat.ltb c k) col) (forallb (fun c => mem c (map snd col)) (seq 0 k)).

Lemma coloring_check_unfold v col k :
  coloring_check v col k =
  if negb (col_b1 v col) then 1
  else if negb (col_b2 v col) then 2
  else if negb (col_b3 col k) then 3
  else if andb (bipartite_all v) (Nat.ltb 2 k) then 4 else 0.
Proof. reflexivity. Qed.

Lemma col_b1_iff v col : col_b1 v col = true <-> ColTotal v col.
Proof.
  unfold col_b1, ColTotal. rewrite !andb_true_iff, nodupb_iff, !forallb_forall. split.
  - intros [Hn [H1 H2]]. split; [exact Hn|]. intros a. split; intros Ha.
    + apply mem_In, H2, Ha.
    + apply mem_In, H1, Ha.
  - intros [Hn H]. split; [exact Hn|]. split; intros a Ha; apply mem_In, H, Ha.
Qed.

Lemma col_b2_iff v col : col_b2 v col = true <-> ColProper v col.
Proof.
  unfold col_b2, ColProper. rewrite forallb_forall. split.
  - intros H a b Ha Hb Hab. specialize (H a Ha). rewrite forallb_forall in H. specialize (H b Hb).
    apply orb_true_iff in H. destruct H as [H|H]; [apply Nat.eqb_eq in H; contradiction|].
    apply negb_true_iff in H.
    destruct (assoc_col col a) as [ca|]; [|discriminate H].
    destruct (assoc_col col b) as [cb|]; [|discriminate H].
    exists ca, cb. split; [reflexivity|]. split; [reflexivity|]. apply Nat.eqb_neq, H.
  - intros H a Ha. rewrite forallb_forall. intros b Hb.
    destruct (Nat.eqb_spec a b) as [E|Hn]; [reflexivity|]. cbn [orb].
    destruct (H a b Ha Hb Hn) as [ca [cb [Ea [Eb Hc]]]]. rewrite Ea, Eb.
    apply negb_true_iff, Nat.eqb_neq, Hc.
Qed.

Lemma col_b3_iff col k : col_b3 col k = true <-> ColRange col k.
Proof.
  unfold col_b3, ColRange. rewrite andb_true_iff, !forallb_forall. split.
  - intros [H1 H2] c. split.
    + intros Hc. apply in_map_iff in Hc. destruct Hc as [[a c'] [E Hin]]. cbn [snd] in E. subst c'.
      specialize (H1 _ Hin). cbn beta iota in H1. apply Nat.ltb_lt, H1.
    + intros Hc. apply mem_In, H2. apply in_seq. lia.
  - intros H. split.
    + intros [a c] Hin. apply Nat.ltb_lt, H. apply in_map_iff. exists (a, c). split; [reflexivity | exact Hin].
    + intros c Hc. apply in_seq in Hc. apply mem_In, H. lia.
Qed.

(* ------------------------------------------------------------------ *)
(* bipartite_all: every component 2-colourable = the graph 2-colourable *)

Lemma reachable_in_nodes v s a : nodes_ok v -> In s (vnodes v) -> reachable v s a -> In a (vnodes v).
Proof.
  intros Hn Hs H. induction H as [|x y Hx IH Hxy]; [exact Hs|]. apply (Hn x y Hxy).
Qed.

Lemma bipartite_all_components {v} : VOk v ->
  (bipartite_all v = true <-> forall s, In s (vnodes v) -> two_colourable v s).
Proof.
  intros Hv. unfold bipartite_all. rewrite forallb_forall.
  assert (Hcap : forall s, In s (vnodes v) -> in_cap v s).
  { intros s Hs. destruct Hv as [[_ Hc] _]. apply Hc, Hs. }
  split; intros H s Hs.
  - specialize (H s Hs). destruct (C09_bipartite v s Hv (Hcap s Hs)) as [H1 _].
    apply H1. destruct (is_bipartite_undirected v s) as [[|]| |]; try discriminate H. reflexivity.
  - destruct (C09_bipartite v s Hv (Hcap s Hs)) as [H1 _].
    rewrite (proj2 H1 (H s Hs)). reflexivity.
Qed.

(* reachability from some member of l, as a boolean *)
Definition reach_from_b (v : view) (l : list nat) (a : nat) : bool :=
  existsb (fun s => match has_path_connecting v s a with Ok true => true | _ => false end) l.

Lemma reach_from_b_iff {v l a} : VOk v -> incl l (vnodes v) ->
  (reach_from_b v l a = true <-> exists s, In s l /\ reachable v s a).
Proof.
  intros Hv Hl. unfold reach_from_b. rewrite existsb_exists.
  assert (Hcap : forall s, In s l -> in_cap v s).
  { intros s Hs. destruct Hv as [[_ Hc] _]. apply Hc, Hl, Hs. }
  split; intros [s [Hs H]]; exists s; (split; [exact Hs|]).
  - destruct (C09_has_path_iff_reachable v s a Hv (Hcap s Hs)) as [H1 _]. apply H1.
    destruct (has_path_connecting v s a) as [[|]| |]; try discriminate H. reflexivity.
  - destruct (C09_has_path_iff_reachable v s a Hv (Hcap s Hs)) as [H1 _].
    rewrite (proj2 H1 H). reflexivity.
Qed.

Lemma glue_colourings {v} : VOk v -> symmetric v -> forall l, incl l (vnodes v) ->
  (forall s, In s l -> two_colourable v s) ->
  exists c : nat -> bool, forall a b, (exists s, In s l /\ reachable v s a) -> step v a b -> c a <> c b.
Proof.
  intros Hv Hsym. induction l as [|s l IH]; intros Hl H2.
  - exists (fun _ => true). intros a b [s [[] _]].
  - assert (Hl' : incl l (vnodes v)) by (intros x Hx; apply Hl; right; exact Hx).
    destruct (IH Hl' (fun x Hx => H2 x (or_intror Hx))) as [c' Hc'].
    destruct (H2 s (or_introl eq_refl)) as [cs Hcs].
    exists (fun a => if reach_from_b v l a then c' a else cs a).
    intros a b [s0 [Hs0 Hr]] Hab.
    destruct (reach_from_b v l a) eqn:Ea.
    + apply (reach_from_b_iff Hv Hl') in Ea.
      assert (Eb : reach_from_b v l b = true).
      { apply (reach_from_b_iff Hv Hl'). destruct Ea as [s1 [Hs1 Hr1]]. exists s1. split; [exact Hs1|].
        eapply reach_step; eauto. }
      rewrite Eb. apply Hc'; assumption.
    + assert (Hsa : reachable v s a).
      { destruct Hs0 as [<-|Hs0]; [exact Hr|]. exfalso.
        assert (E : reach_from_b v l a = true) by (apply (reach_from_b_iff Hv Hl'); exists s0; auto).
        rewrite E in Ea. discriminate Ea. }
      destruct (reach_from_b v l b) eqn:Eb.
      * exfalso. apply (reach_from_b_iff Hv Hl') in Eb. destruct Eb as [s1 [Hs1 Hr1]].
        assert (E : reach_from_b v l a = true).
        { apply (reach_from_b_iff Hv Hl'). exists s1. split; [exact Hs1|].
          eapply reach_step; [exact Hr1 | apply Hsym, Hab]. }
        rewrite E in Ea. discriminate Ea.
      * apply Hcs; assumption.
Qed.

Theorem bipartite_all_iff {v} : VOk v -> symmetric v -> (bipartite_all v = true <-> TwoColourable v).
Proof.
  intros Hv Hsym. rewrite (bipartite_all_components Hv). split.
  - intros H. destruct (glue_colourings Hv Hsym _ (incl_refl _) H) as [c Hc].
    exists c. intros a b Ha Hb. apply Hc; [|exact Hb]. exists a. split; [exact Ha | apply reach_refl].
  - intros [c Hc] s Hs. exists c. intros a b Hr Hab. apply Hc; [|exact Hab].
    destruct Hv as [_ [Hn _]]. eapply reachable_in_nodes; eauto.
Qed.

Lemma two_colourable_loop_free v : loop_free v -> (TwoColourable v <-> TwoColourableNL v).
Proof.
  intros Hl. split; intros [c Hc]; exists c; intros a b Ha Hb.
  - intros _. apply Hc; assumption.
  - apply Hc; try assumption. intros ->. apply (Hl b), Hb.
Qed.

(* ------------------------------------------------------------------ *)
(* the checker                                                          *)

(* no hypothesis on the view: the fourth clause through bipartite_all *)
Theorem coloring_check_partial v col k :
  coloring_check v col k = 0 <-> ColoringOK_with (bipartite_all v = true) v col k.
Proof.
  rewrite coloring_check_unfold. unfold ColoringOK_with.
  rewrite <- col_b1_iff, <- col_b2_iff, <- col_b3_iff.
  destruct (col_b1 v col); cbn [negb]; [|split; [discriminate | intros [H _]; discriminate H]].
  destruct (col_b2 v col); cbn [negb]; [|split; [discriminate | intros [_ [H _]]; discriminate H]].
  destruct (col_b3 col k); cbn [negb]; [|split; [discriminate | intros [_ [_ [H _]]]; discriminate H]].
  destruct (bipartite_all v); cbn [andb].
  - destruct (Nat.ltb_spec 2 k) as [Hk|Hk].
    + split; [discriminate|]. intros [_ [_ [_ H]]]. specialize (H eq_refl). lia.
    + split; [|reflexivity]. intros _. repeat split; auto.
  - split; [|reflexivity]. intros _. repeat split; auto. discriminate.
Qed.

Lemma ColoringOK_with_iff (P Q : Prop) v col k : (P <-> Q) ->
  (ColoringOK_with P v col k <-> ColoringOK_with Q v col k).
Proof. intros H. unfold ColoringOK_with. rewrite H. reflexivity. Qed.

Theorem coloring_check_iff {v} col k : VOk v -> symmetric v ->
  (coloring_check v col k = 0 <-> ColoringOK v col k).
Proof.
  intros Hv Hs. rewrite coloring_check_partial. apply ColoringOK_with_iff, bipartite_all_iff; assumption.
Qed.

(* the statement with self-loops ignored in the 2-colourability clause holds on loop-free views *)
Theorem coloring_check_iff_loop_free v col k : VOk v -> symmetric v -> loop_free v ->
  (coloring_check v col k = 0 <-> ColoringOK_NL v col k).
Proof.
  intros Hv Hs Hl. rewrite (coloring_check_iff col k Hv Hs).
  apply ColoringOK_with_iff, two_colourable_loop_free, Hl.
Qed.

(* the meaning of every verdict: the number of the first failing clause *)
Theorem coloring_check_verdicts v col k :
  (coloring_check v col k = 1 <-> ~ ColTotal v col) /\
  (coloring_check v col k = 2 <-> ColTotal v col /\ ~ ColProper v col) /\
  (coloring_check v col k = 3 <-> ColTotal v col /\ ColProper v col /\ ~ ColRange col k) /\
  (coloring_check v col k = 4 <->
     ColTotal v col /\ ColProper v col /\ ColRange col k /\ bipartite_all v = true /\ 2 < k) /\
  coloring_check v col k <= 4.
Proof.
  rewrite coloring_check_unfold.
  rewrite <- col_b1_iff, <- col_b2_iff, <- col_b3_iff.
  destruct (col_b1 v col); cbn [negb];
    [|intuition (try discriminate; try lia; try congruence)].
  destruct (col_b2 v col); cbn [negb];
    [|intuition (try discriminate; try lia; try congruence)].
  destruct (col_b3 col k); cbn [negb];
    [|intuition (try discriminate; try lia; try congruence)].
  destruct (bipartite_all v); cbn [andb];
    [destruct (Nat.ltb_spec 2 k) as [Hk|Hk]|];
    intuition (try discriminate; try lia; try congruence).
Qed.

(* verdict 4 on symmetric well-formed views: a 2-colourable graph coloured with more than two colours *)
Corollary coloring_check_verdict4 v col k : VOk v -> symmetric v ->
  (coloring_check v col k = 4 <->
     ColTotal v col /\ ColProper v col /\ ColRange col k /\ TwoColourable v /\ 2 < k).
Proof.
  intros Hv Hs. destruct (coloring_check_verdicts v col k) as [_ [_ [_ [H _]]]]. rewrite H.
  rewrite (bipartite_all_iff Hv Hs). reflexivity.
Qed.
