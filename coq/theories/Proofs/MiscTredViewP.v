(* C20/Q4: the two halves of tred composed: on an acyclic well-formed view without parallel edges,
   toposort + dag_to_toposorted_adjacency_list + dag_transitive_reduction_closure return, over the
   ranks of the topological order, exactly the transitive reduction and closure of the view. *)
From PG Require Import Lib.Io Model.View Model.Traversal Model.AlgoBasic Model.MiscM
                       Spec.Reach Spec.MiscSpec Proofs.MiscColorP Proofs.MiscTopoAdjP Proofs.MiscTredP.

Lemma vplus_in_nodes {v a b} : nodes_ok v -> vplus v a b -> In a (vnodes v) /\ In b (vnodes v).
Proof.
  intros Hn [c [Hac Hcb]]. destruct (Hn a c Hac) as [Ha Hc]. split; [exact Ha|].
  eapply reachable_in_nodes; eauto.
Qed.

Theorem tred_of_view v order :
  VOk v -> (forall a, In a (vnodes v) -> a < vbound v) -> no_parallel_in v ->
  toposort v = Ok (inr order) ->
  exists g revmap tred tclos,
    dag_to_toposorted_adjacency_list v order = Ok (g, revmap) /\ topo_adj_ok v order g revmap /\ DagAL g /\
    dag_transitive_reduction_closure g = Ok (tred, tclos) /\
    length tred = length order /\ length tclos = length order /\
    (forall i j, In j (nth i tclos []) <->
       exists a b, nth_error order i = Some a /\ nth_error order j = Some b /\ vplus v a b) /\
    (forall i j, In j (nth i tred []) <->
       exists a b, nth_error order i = Some a /\ nth_error order j = Some b /\ step v a b /\
                   ~ exists c, vplus v a c /\ vplus v c b) /\
    (forall i, NoDup (nth i tred []) /\ NoDup (nth i tclos [])).
Proof.
  intros Hv Hb Hnp E.
  destruct (topo_adj_of_toposort v order Hv Hb E) as [g [rm [Eg [Hok [HD Hplus]]]]].
  specialize (HD Hnp).
  destruct (tred_closure_correct g HD) as [tred [tclos [Et [L1 [L2 Hrows]]]]].
  pose proof Hok as [Lg [_ [_ [_ [Hedge _]]]]].
  pose proof (toposort_topo_order v order Hv E) as [_ [Hmem _]].
  assert (Hn : nodes_ok v) by (destruct Hv as [_ [Hn _]]; exact Hn).
  exists g, rm, tred, tclos.
  split; [exact Eg|]. split; [exact Hok|]. split; [exact HD|]. split; [exact Et|].
  split; [lia|]. split; [lia|].
  split; [|split].
  - intros i j. destruct (Hrows i) as [Hc _]. rewrite Hc. apply Hplus.
  - intros i j. destruct (Hrows i) as [_ [_ [Hr _]]]. rewrite Hr. unfold al_step. rewrite Hedge. split.
    + intros [[a [b [Ea [Eb Hab]]]] Hno]. exists a, b. split; [exact Ea|]. split; [exact Eb|]. split; [exact Hab|].
      intros [c [Hac Hcb]]. apply Hno.
      destruct (vplus_in_nodes Hn Hac) as [_ Hc]. apply Hmem in Hc.
      apply In_nth_error in Hc. destruct Hc as [k Ek]. exists k. split; apply Hplus.
      * exists a, c. auto.
      * exists c, b. auto.
    + intros [a [b [Ea [Eb [Hab Hno]]]]]. split; [exists a, b; auto|].
      intros [k [Hik Hkj]]. apply Hplus in Hik. apply Hplus in Hkj.
      destruct Hik as [a' [c [Ea' [Ec Hac]]]]. destruct Hkj as [c' [b' [Ec' [Eb' Hcb]]]].
      rewrite Ea in Ea'. injection Ea' as <-. rewrite Ec in Ec'. injection Ec' as <-.
      rewrite Eb in Eb'. injection Eb' as <-. apply Hno. exists c. split; assumption.
  - intros i. destruct (Hrows i) as [_ [H1 [_ [H2 _]]]]. split; assumption.
Qed.
