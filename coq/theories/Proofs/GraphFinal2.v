(* Assembly for Props/C01b.v: the theorems of GraphW / GraphFM / GraphH2 in flat form (records
   unfolded), the stream-level corollaries, and the executable examples. *)
From PG Require Import Lib.Io Lib.ListArr Lib.Walk Model.GraphM Model.GraphIO
  Proofs.GraphP Proofs.GraphQ Proofs.GraphRE Proofs.GraphRN Proofs.GraphRev Proofs.GraphH
  Proofs.GraphT Proofs.GraphX Proofs.GraphW Proofs.GraphFM Proofs.GraphH2.
Set Implicit Arguments.

Lemma map_trip_of {W} (l : list (nat * nat * W)) : map (@trip_of W) l = l.
Proof. unfold trip_of. apply map_id. Qed.

Section Flat.
  Context {NW EW : Type}.
  Variable cap : nat.
  Variable capcheck : bool.

  Theorem F_pushed (g : graph NW EW) k i m n :
    pushed g k i m n = rev (filter (fun x => Nat.eqb (ept g k x) i) (seq m n)).
  Proof. reflexivity. Qed.

  Theorem F_extend_with_edges (dflt : NW) (es : list (nat * nat * EW)) (g : graph NW EW) :
    GInv cap g ->
    (capcheck = false ->
       Nat.max (length (gnodes g)) (need es) <= cap /\ length (gedges g) + length es <= cap) ->
    exists ok g' pre post,
      extend_with_edges cap capcheck dflt g es = (ok, g') /\
      es = pre ++ post /\
      GInv cap g' /\
      map (@nwt NW) (gnodes g') =
        map (@nwt NW) (gnodes g) ++ repeat dflt (length (gnodes g') - length (gnodes g)) /\
      length (gnodes g') =
        Nat.min cap (Nat.max (length (gnodes g)) (need (pre ++ firstn 1 post))) /\
      etrip g' = etrip g ++ pre /\
      (forall k i, adjf cap g' k i =
                     pushed g' k i (length (gedges g)) (length pre) ++ adjf cap g k i) /\
      (if ok then post = [] /\ Nat.max (length (gnodes g)) (need es) <= cap
       else capcheck = true /\
            exists a b w post', post = (a, b, w) :: post' /\
              (cap <= Nat.max a b \/
               (Nat.max a b < cap /\ length (gedges g) + length pre = cap))).
  Proof.
    intros I Hroom.
    destruct (@extend_with_edges_spec NW EW cap capcheck dflt es g I Hroom)
      as [ok [g' [pre [post [Hrun R]]]]].
    exists ok, g', pre, post. split; auto. split; [apply (er_split R)|].
    split; [apply (gr_inv (er_grown R))|]. split; [apply (er_nwt R)|].
    split; [apply (er_nlen R)|].
    pose proof (er_etrip R) as T. rewrite map_trip_of in T. split; auto.
    split; [|apply (er_ok R)].
    intros k i. rewrite (gr_adj (er_grown R) k i).
    pose proof (etrip_prefix_len _ _ _ T) as L.
    replace (length (gedges g') - length (gedges g)) with (length pre) by lia. reflexivity.
  Qed.

  Theorem F_extend_ok_iff (dflt : NW) (es : list (nat * nat * EW)) (g : graph NW EW) ok g' :
    GInv cap g -> capcheck = true ->
    extend_with_edges cap capcheck dflt g es = (ok, g') ->
    (ok = true <-> need es <= cap /\ length (gedges g) + length es <= cap).
  Proof. apply extend_with_edges_ok_iff. Qed.
End Flat.

Section FlatFM.
  Context {NW EW NW2 EW2 : Type}.
  Variable cap : nat.
  Variable capcheck : bool.
  Variable nmap : nat -> NW -> option NW2.
  Variable emap : nat -> EW -> option EW2.

  Theorem F_filter_map (g : graph NW EW) :
    GInv cap g ->
    exists g', filter_map cap capcheck nmap emap g = Some g' /\
      GInv cap g' /\
      map (@nwt NW2) (gnodes g') = omapi nmap 0 (map (@nwt NW) (gnodes g)) /\
      etrip g' = omapi (fm_edge_of nmap emap g) 0 (etrip g) /\
      (forall k i, adjf cap g' k i = pushed g' k i 0 (length (gedges g'))) /\
      (forall i n w2, nth_error (gnodes g) i = Some n -> nmap i (nwt n) = Some w2 ->
         nth_error (map (@nwt NW2) (gnodes g')) (rank nmap g i) = Some w2) /\
      (forall x t t2, nth_error (etrip g) x = Some t -> fm_edge_of nmap emap g x t = Some t2 ->
         nth_error (etrip g') (length (omapi (fm_edge_of nmap emap g) 0 (firstn x (etrip g)))) = Some t2).
  Proof.
    intros I. destruct (@filter_map_spec NW EW NW2 EW2 cap capcheck nmap emap g I)
      as [g' [Hrun [I' [Hn [He Ha]]]]].
    exists g'. split; auto. split; auto. split; auto. split; auto. split; auto. split.
    - intros i n w2 H1 H2. rewrite Hn. eapply fm_node_at; eauto.
    - intros x t t2 H1 H2. rewrite He. eapply fm_edge_at; eauto.
  Qed.

  Theorem F_fm_vocabulary (g : graph NW EW) :
    (forall i, keptb nmap g i = true <->
               exists n w2, nth_error (gnodes g) i = Some n /\ nmap i (nwt n) = Some w2) /\
    (forall i, rank nmap g i = length (omapi nmap 0 (firstn i (map (@nwt NW) (gnodes g))))) /\
    (forall i j, i < j -> keptb nmap g i = true -> rank nmap g i < rank nmap g j) /\
    (forall i, keptb nmap g i = true ->
               rank nmap g i < length (omapi nmap 0 (map (@nwt NW) (gnodes g)))) /\
    (forall x a b w,
       fm_edge_of nmap emap g x ((a, b), w) =
         if andb (keptb nmap g a) (keptb nmap g b)
         then option_map (fun w2 => ((rank nmap g a, rank nmap g b), w2)) (emap x w)
         else None).
  Proof.
    split; [|split; [reflexivity|split; [apply rank_mono|split; [apply rank_lt|reflexivity]]]].
    intros i. unfold keptb. destruct (nth_error (gnodes g) i) as [n|].
    - destruct (nmap i (nwt n)) as [w2|] eqn:E.
      + split; auto. intros _. eauto.
      + split; [discriminate|]. intros [n' [w2 [H1 H2]]]. congruence.
    - split; [discriminate|]. intros [n' [w2 [H1 H2]]]. discriminate.
  Qed.
End FlatFM.

Theorem F_omapi {A B} (f : nat -> A -> option B) :
  (forall i, omapi f i [] = []) /\
  (forall i x r, omapi f i (x :: r) =
                 match f i x with Some y => y :: omapi f (S i) r | None => omapi f (S i) r end) /\
  (forall l i p x y, nth_error l p = Some x -> f (i + p) x = Some y ->
     nth_error (omapi f i l) (length (omapi f i (firstn p l))) = Some y).
Proof.
  split; [reflexivity|]. split; [reflexivity|]. intros l i p x y. apply omapi_firstn_nth.
Qed.

Theorem F_need {W} :
  need (@nil (nat * nat * W)) = 0 /\
  forall a b (w : W) r, need ((a, b, w) :: r) = Nat.max (S (Nat.max a b)) (need r).
Proof. split; reflexivity. Qed.

(* ------------------------------------------------------------------ *)
(* Stream-level corollaries                                            *)
Section Stream.
  Variable cap : nat.
  Variable capcheck : bool.
  Variable debug : bool.

  Definition quiet (l : line) : Prop := fst l <> TAG_PANIC /\ fst l <> TAG_FUEL.

  (* under the invariant no walk of the observation battery panics or runs out of fuel *)
  Theorem battery_quiet (d : bool) (g : G) : GInv cap g -> Forall quiet (battery cap d g).
  Proof.
    intros I. unfold battery.
    repeat (constructor; [split; discriminate|]).
    apply Forall_forall. intros l Hin. apply in_flat_map in Hin. destruct Hin as [a [_ Hin]].
    rewrite !(neighbors_flag d a _ I), (neighbors_undirected_spec I) in Hin.
    destruct (edges_flag d a 0 I) as [r1 [r2 [E0 _]]].
    destruct (edges_flag d a 1 I) as [r3 [r4 [E1 _]]].
    rewrite E0, E1 in Hin. cbn [rline] in Hin.
    destruct Hin as [<-|[<-|[<-|[<-|[<-|[]]]]]]; split; discriminate.
  Qed.

  (* opcode 15 (into_edge_type): only the flag changes *)
  Theorem into_edge_type_step (d : bool) (g : G) (a : list Z) :
    GraphIO.step cap capcheck debug (d, g) (15, a) =
      ((negb d, g), (TAG_UNIT, []) :: battery cap (negb d) g).
  Proof. reflexivity. Qed.

  (* one line of the stream on a state satisfying the invariant *)
  Theorem step_link_inv (d : bool) (g : G) (o : line) (p : gop2 nat nat) :
    GInv cap g -> decode2 o = Some p ->
    (capcheck = false ->
       nbound p (length (gnodes g)) <= cap /\ ebound p (length (gedges g)) <= cap) ->
    exists r d' g',
      step2 cap capcheck debug 0 (d, g) p = Ok (r, (d', g')) /\
      GInv cap g' /\
      GraphIO.step cap capcheck debug (d, g) o =
        ((d', g'), render (fst o) r :: (if mutates p then battery cap d' g' else [])) /\
      Forall quiet (if mutates p then battery cap d' g' else []).
  Proof.
    intros I Hd Hroom.
    destruct (@step2_ok nat nat cap capcheck debug 0 d g p I Hroom) as [r [d' [g' [Hrun [I' _]]]]].
    exists r, d', g'. split; auto. split; auto. split.
    - rewrite step_link, Hd. unfold step2io. unfold G in *. rewrite Hrun. reflexivity.
    - destruct (mutates p); [apply battery_quiet; auto|constructor].
  Qed.
End Stream.

(* ------------------------------------------------------------------ *)
(* Examples                                                            *)

(* A. swap-removals, then walking with first_edge / next_edge *)
Definition exA_ops : list (gop2 nat nat) :=
  [GAddNode 10; GAddNode 11; GAddNode 12; GAddNode 13;
   GAddEdge 0 1 100; GAddEdge 0 2 101; GAddEdge 0 3 102; GAddEdge 1 0 103;
   GAddEdge 0 0 104; GAddEdge 2 0 105; GRemoveEdge 1; GRemoveNode 1].

Lemma exA :
  exists g : graph nat nat,
    run2 50 true true 0 (true, g_empty) exA_ops = Ok (true, g) /\ GInv 50 g /\
    etrip g = [(0, 0, 104); (2, 0, 105); (0, 1, 102)] /\
    map (@nwt nat) (gnodes g) = [10; 13; 12] /\
    (first_edge 50 g 0 0, first_edge 50 g 0 1, first_edge 50 g 2 1, first_edge 50 g 7 0)
      = (Some 0, Some 1, None, None) /\
    (next_edge 50 g 0 0, next_edge 50 g 2 0, next_edge 50 g 1 1, next_edge 50 g 0 1, next_edge 50 g 9 0)
      = (Some 2, None, Some 0, None, None) /\
    (walk_edges 50 g 0 0, walk_edges 50 g 0 1) = ([0; 2], [1; 0]) /\
    (adjf 50 g 0 0, adjf 50 g 1 0) = ([0; 2], [1; 0]) /\
    neighbors_directed 50 true g 0 0 = Ok [(0, 0); (2, 1)] /\
    neighbors_directed 50 true g 0 1 = Ok [(1, 2); (0, 0)] /\
    edges_directed 50 true g 0 0 = Ok [(0, (0, 0), 104); (2, (0, 1), 102)].
Proof.
  destruct (@history2_ok nat nat 50 true true 0 true exA_ops) as [[d g] [E I]];
    [intros H; discriminate|].
  vm_compute in E. injection E as <- <-.
  eexists. split; [vm_compute; reflexivity|]. split; [exact I|].
  vm_compute. repeat split; reflexivity.
Qed.

(* B. filter_map dropping the middle node 1 (weight 11) with its incident edges, and edge 4 *)
Definition exB_nm (i w : nat) : option nat := if Nat.eqb w 11 then None else Some (w + 100 * i).
Definition exB_em (i w : nat) : option nat := if Nat.eqb w 104 then None else Some (w + 100 * i).
Definition exB_ops : list (gop2 nat nat) :=
  [GAddNode 10; GAddNode 11; GAddNode 12; GAddNode 13;
   GAddEdge 0 1 100; GAddEdge 0 2 101; GAddEdge 2 3 102; GAddEdge 1 3 103;
   GAddEdge 3 0 104; GAddEdge 3 2 105; GAddEdge 2 2 106].

Lemma exB :
  exists g g' : graph nat nat,
    run2 50 true true 0 (true, g_empty) exB_ops = Ok (true, g) /\ GInv 50 g /\
    filter_map 50 true exB_nm exB_em g = Some g' /\
    map (@nwt nat) (gnodes g') = [10; 212; 313] /\
    etrip g' = [(0, 1, 201); (1, 2, 302); (2, 1, 605); (1, 1, 706)] /\
    map (keptb exB_nm g) [0; 1; 2; 3] = [true; false; true; true] /\
    map (rank exB_nm g) [0; 1; 2; 3] = [0; 1; 1; 2] /\
    map (fun i => (adjf 50 g' 0 i, adjf 50 g' 1 i)) [0; 1; 2]
      = [([0], []); ([3; 1], [3; 2; 0]); ([2], [1])].
Proof.
  destruct (@history2_ok nat nat 50 true true 0 true exB_ops) as [[d g] [E I]];
    [intros H; discriminate|].
  vm_compute in E. injection E as <- <-.
  eexists. eexists. split; [vm_compute; reflexivity|]. split; [exact I|].
  split; [vm_compute; reflexivity|]. vm_compute. repeat split; reflexivity.
Qed.

(* C. extend_with_edges naming node 4 of a 2-node graph; and two runs that stop at a limit *)
Definition exC_ops : list (gop2 nat nat) := [GAddNode 10; GAddNode 11; GAddEdge 0 1 100].

Lemma exC :
  exists g : graph nat nat,
    run2 50 true true 0 (true, g_empty) exC_ops = Ok (true, g) /\ GInv 50 g /\
    (let r := extend_with_edges 50 true 7 g [(1, 4, 200); (4, 0, 201); (2, 2, 202)] in
     (fst r, map (@nwt nat) (gnodes (snd r)), etrip (snd r),
      map (fun i => (adjf 50 (snd r) 0 i, adjf 50 (snd r) 1 i)) [0; 1; 2; 3; 4]))
      = (true, [10; 11; 7; 7; 7], [(0, 1, 100); (1, 4, 200); (4, 0, 201); (2, 2, 202)],
         [([0], [2]); ([1], [0]); ([3], [3]); ([], []); ([2], [1])]) /\
    (* node index limit 4: the failing edge (5,0) still appends node 3 *)
    (let r := extend_with_edges 4 true 7 g [(1, 2, 200); (5, 0, 201); (2, 2, 202)] in
     (fst r, map (@nwt nat) (gnodes (snd r)), etrip (snd r)))
      = (false, [10; 11; 7; 7], [(0, 1, 100); (1, 2, 200)]) /\
    (* edge index limit 2 *)
    (let r := extend_with_edges 2 true 7 g [(1, 0, 200); (0, 0, 201); (1, 1, 202)] in
     (fst r, map (@nwt nat) (gnodes (snd r)), etrip (snd r)))
      = (false, [10; 11], [(0, 1, 100); (1, 0, 200)]) /\
    (* the smallest case where a refused edge changes the state: 3 default nodes appear *)
    (let r := extend_with_edges 3 true 7 (@g_empty nat nat) [(5, 0, 9)] in
     (fst r, map (@nwt nat) (gnodes (snd r)), etrip (snd r))) = (false, [7; 7; 7], []).
Proof.
  destruct (@history2_ok nat nat 50 true true 0 true exC_ops) as [[d g] [E I]];
    [intros H; discriminate|].
  vm_compute in E. injection E as <- <-.
  eexists. split; [vm_compute; reflexivity|]. split; [exact I|].
  vm_compute. repeat split; reflexivity.
Qed.

(* D. one stream using all 28 opcodes *)
Definition ln (c : nat) (a : list Z) : line := (c, a).
Arguments ln c%nat a.
Local Open Scope Z_scope.
Definition exD_lines : list line :=
  [(ln 0 [10]); (ln 1 [11]); (ln 0 [12]); (ln 0 [13]);
   (ln 2 [0; 1; 100]); (ln 3 [1; 2; 101]); (ln 4 [0; 1; 102]); (ln 5 [2; 3; 103]);
   (ln 2 [3; 0; 104]); (ln 2 [0; 2; 105]);
   (ln 18 [1]); (ln 19 [0]); (ln 20 [1]); (ln 21 [0; 1]); (ln 22 [1; 0]); (ln 23 [0; 1]);
   (ln 24 [0; 0]); (ln 25 [4; 0]); (ln 26 [0; 0]);
   (ln 16 [1; 21]); (ln 17 [0; 200]);
   (ln 7 [0]); (ln 6 [1]); (ln 8 []); (ln 15 []);
   (ln 13 [5; 0; 300; 1; 5; 301]); (ln 27 []); (ln 12 [5; 1]); (ln 14 [3; 1; 2; 0]);
   (ln 11 [2; 0]); (ln 10 []); (ln 9 [])].

Definition exD_out : list line :=
    [(ln 21 [11]); (ln 21 [102]); (ln 14 [1; 2]); (ln 21 [0]); (ln 14 [0; 1]); (ln 37 [0; 0; 1; 102]);
     (ln 21 [4]); (ln 21 [0]); (ln 36 [4; 2; 0; 1]); (ln 0 [1]); (ln 0 [1])].
Local Close Scope Z_scope.

Definition show_st (s : st) := (fst s, map (@nwt nat) (gnodes (snd s)), etrip (snd s)).

Lemma exD :
  forallb (fun c => existsb (Nat.eqb c) (map fst exD_lines)) (seq 0 28) = true /\
  length (decode_all exD_lines) = 32 /\
  Forall (fun s : st => GInv 50 (snd s)) (visited 50 true true (true, g_empty) exD_lines) /\
  (exists s, run2 50 true true 0 (true, g_empty) (decode_all exD_lines) = Ok s /\
             last (visited 50 true true (true, g_empty) exD_lines) (true, g_empty) = s) /\
  map show_st (firstn 8 (skipn 21 (visited 50 true true (true, g_empty) exD_lines))) =
    [(true, [10; 21; 12; 13], [(0, 1, 200); (1, 2, 101); (2, 3, 103); (3, 0, 104); (0, 2, 105)]);
     (true, [10; 21; 12; 13], [(0, 2, 105); (1, 2, 101); (2, 3, 103); (3, 0, 104)]);
     (true, [10; 13; 12], [(0, 2, 105); (1, 0, 104); (2, 1, 103)]);
     (true, [10; 13; 12], [(2, 0, 105); (0, 1, 104); (1, 2, 103)]);
     (false, [10; 13; 12], [(2, 0, 105); (0, 1, 104); (1, 2, 103)]);
     (false, [10; 13; 12; 0; 0; 0],
      [(2, 0, 105); (0, 1, 104); (1, 2, 103); (5, 0, 300); (1, 5, 301)]);
     (false, [11; 14; 13; 1; 1; 1],
      [(2, 0, 106); (0, 1, 105); (1, 2, 104); (5, 0, 301); (1, 5, 302)]);
     (false, [11; 14; 13; 1; 1; 1], [(1, 5, 302); (0, 1, 105); (1, 2, 104)])] /\
  map (fun l => hd (ln 0 []) l) (firstn 11 (skipn 10 (GraphIO.run 50 true true (true, g_empty) exD_lines))) =
    exD_out.
Proof.
  split; [vm_compute; reflexivity|]. split; [vm_compute; reflexivity|].
  split; [apply visited_inv_checked; reflexivity|].
  split; [eexists; split; vm_compute; reflexivity|].
  split; vm_compute; reflexivity.
Qed.

(* codes beyond the 28 opcodes decode to nothing (the stream prints a panic line, state unchanged) *)
Lemma decode2_default code a : 28 <= code -> decode2 (code, a) = None.
Proof.
  intros H. do 28 (destruct code as [|code]; [lia|]). reflexivity.
Qed.

Lemma step_default cap capcheck debug (s : st) code a :
  28 <= code -> GraphIO.step cap capcheck debug s (code, a) = (s, [(TAG_PANIC, [])]).
Proof.
  intros H. rewrite step_link, decode2_default; auto.
Qed.

(* E. the same stream with unchecked indices (capcheck = false): the size hypothesis holds *)
Lemma exE :
  fits 50 0 0 (decode_all exD_lines) /\
  Forall (fun s : st => GInv 50 (snd s)) (visited 50 false true (true, g_empty) exD_lines) /\
  map show_st (visited 50 false true (true, g_empty) exD_lines) =
  map show_st (visited 50 true true (true, g_empty) exD_lines).
Proof.
  assert (F : fits 50 0 0 (decode_all exD_lines)) by (vm_compute; repeat split; lia).
  split; [exact F|]. split; [|vm_compute; reflexivity].
  apply visited_inv; [apply GInv_empty|]. intros _. exact F.
Qed.

(* F. filter_map returns None only at an index limit, i.e. on a source that does not satisfy the
   invariant for that limit: 3 nodes under a node index limit of 2 *)
Lemma exF :
  exists g : graph nat nat,
    run2 50 true true 0 (true, g_empty) [GAddNode 10; GAddNode 11; GAddNode 12; GAddEdge 0 2 100]
      = Ok (true, g) /\ GInv 50 g /\
    filter_map 2 true (fun _ w => Some w) (fun _ (w : nat) => Some w) g = None /\
    option_map (fun g' : graph nat nat => (map (@nwt nat) (gnodes g'), etrip g'))
      (filter_map 2 true (fun _ w => if Nat.eqb w 11 then None else Some w) (fun _ (w : nat) => Some w) g)
      = Some ([10; 12], [(0, 1, 100)]).
Proof.
  destruct (@history2_ok nat nat 50 true true 0 true
              [GAddNode 10; GAddNode 11; GAddNode 12; GAddEdge 0 2 100]) as [[d g] [E I]];
    [intros H; discriminate|].
  vm_compute in E. injection E as <- <-.
  eexists. split; [vm_compute; reflexivity|]. split; [exact I|].
  vm_compute. split; reflexivity.
Qed.
