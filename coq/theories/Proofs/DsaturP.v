(* C20c, part 1: the DSATUR machine never gets stuck, every complete run colours every node once,
   properly (symmetric views), with a Grundy colouring using the colours 0..k-1, k <= max degree + 1. *)
From PG Require Import Lib.Io Model.View Model.MiscM Spec.Reach Spec.MiscSpec Model.DsaturM
                       Spec.DsaturSpec Proofs.MiscColorP.

(* ------------------------------------------------------------------ *)
(* the order on scores                                                  *)

Lemma score_le_iff a b :
  score_le a b = true <-> (fst a < fst b \/ (fst a = fst b /\ snd a <= snd b)).
Proof.
  unfold score_le. rewrite orb_true_iff, andb_true_iff, Nat.ltb_lt, Nat.eqb_eq, Nat.leb_le. tauto.
Qed.

Lemma score_le_refl a : score_le a a = true.
Proof. apply score_le_iff. lia. Qed.

Lemma score_le_total a b : score_le a b = true \/ score_le b a = true.
Proof. rewrite !score_le_iff. lia. Qed.

Lemma score_le_trans a b c : score_le a b = true -> score_le b c = true -> score_le a c = true.
Proof. rewrite !score_le_iff. lia. Qed.

Lemma score_le_antisym a b : score_le a b = true -> score_le b a = true -> a = b.
Proof. rewrite !score_le_iff. destruct a, b; cbn [fst snd]. intros H1 H2. f_equal; lia. Qed.

Lemma score_max_exists (f : nat -> nat * nat) l : l <> [] ->
  exists x, In x l /\ forall y, In y l -> score_le (f y) (f x) = true.
Proof.
  induction l as [|h t IH]; [congruence|]. intros _. destruct t as [|h' t'].
  - exists h. split; [left; reflexivity|]. intros y [<-|[]]. apply score_le_refl.
  - destruct IH as [m [Hm Hmax]]; [discriminate|].
    destruct (score_le_total (f h) (f m)) as [Hle|Hle].
    + exists m. split; [right; exact Hm|]. intros y [<-|Hy]; [exact Hle | apply Hmax, Hy].
    + exists h. split; [left; reflexivity|]. intros y [<-|Hy]; [apply score_le_refl|].
      eapply score_le_trans; [apply Hmax, Hy | exact Hle].
Qed.

(* ------------------------------------------------------------------ *)
(* uncolored, candidates                                                *)

Lemma uncolored_iff v col x : In x (uncolored v col) <-> In x (vnodes v) /\ ~ In x (map fst col).
Proof. unfold uncolored. rewrite filter_In, negb_true_iff, mem_false. tauto. Qed.

Lemma candidates_iff v col x :
  In x (candidates v col) <->
  In x (uncolored v col) /\ forall y, In y (uncolored v col) -> score_le (score v col y) (score v col x) = true.
Proof. unfold candidates. cbv zeta. rewrite filter_In, forallb_forall. tauto. Qed.

Lemma candidates_uncolored v col x : In x (candidates v col) -> In x (uncolored v col).
Proof. intros H. apply candidates_iff in H. apply H. Qed.

(* D1, first half: a lexicographic maximum exists *)
Lemma candidates_exists v col : uncolored v col <> [] -> exists x, In x (candidates v col).
Proof.
  intros Hne. destruct (score_max_exists (score v col) (uncolored v col) Hne) as [x [Hx Hmax]].
  exists x. apply candidates_iff. split; assumption.
Qed.

Lemma candidates_nonempty v col : uncolored v col <> [] -> candidates v col <> [].
Proof.
  intros Hne. destruct (candidates_exists v col Hne) as [x Hx]. intros E. rewrite E in Hx. exact Hx.
Qed.

Lemma filter_length_le {A} (p q : A -> bool) l :
  (forall y, q y = true -> p y = true) -> length (filter q l) <= length (filter p l).
Proof.
  intros Hqp. induction l as [|h t IH]; cbn [filter]; [lia|].
  destruct (q h) eqn:Eq.
  - rewrite (Hqp h Eq). cbn [length]. lia.
  - destruct (p h); cbn [length]; lia.
Qed.

Lemma filter_length_lt {A} (p q : A -> bool) l x :
  (forall y, q y = true -> p y = true) -> In x l -> p x = true -> q x = false ->
  length (filter q l) < length (filter p l).
Proof.
  intros Hqp. induction l as [|h t IH]; cbn [In filter]; [tauto|]. intros [->|Hin] Hp Hq.
  - rewrite Hp, Hq. cbn [length]. pose proof (filter_length_le p q t Hqp). lia.
  - specialize (IH Hin Hp Hq). destruct (q h) eqn:Eq.
    + rewrite (Hqp h Eq). cbn [length]. lia.
    + destruct (p h); cbn [length]; lia.
Qed.

(* colouring an uncoloured node leaves fewer uncoloured nodes *)
Lemma uncolored_decreases v col x c : In x (uncolored v col) ->
  length (uncolored v ((x, c) :: col)) < length (uncolored v col).
Proof.
  intros Hx. pose proof Hx as Hx'. apply uncolored_iff in Hx'. destruct Hx' as [Hn Hc].
  unfold uncolored. apply filter_length_lt with (x := x).
  - intros y. cbn [map fst mem]. rewrite !negb_true_iff, orb_false_iff. tauto.
  - exact Hn.
  - apply negb_true_iff, mem_false, Hc.
  - cbn [map fst mem]. rewrite Nat.eqb_refl. reflexivity.
Qed.

(* ------------------------------------------------------------------ *)
(* runs                                                                 *)

Lemma steps_trans v a b c : dsatur_steps v a b -> dsatur_steps v b c -> dsatur_steps v a c.
Proof.
  intros H. induction H as [a|a b' b Hs Hss IH]; intros H2; [exact H2|].
  eapply dss_step; [exact Hs | apply IH, H2].
Qed.

Lemma steps_one v a b : dsatur_step v a b -> dsatur_steps v a b.
Proof. intros H. eapply dss_step; [exact H | apply dss_refl]. Qed.

(* a property kept by the steps holds along a run *)
Lemma steps_inv v (P : list (nat * nat) -> Prop) :
  (forall a b, P a -> dsatur_step v a b -> P b) ->
  forall a c, dsatur_steps v a c -> P a -> P c.
Proof.
  intros Hstep a c H. induction H as [a|a b c Hs Hss IH]; intros Ha; [exact Ha|].
  apply IH. eapply Hstep; [exact Ha | exact Hs].
Qed.

(* right-to-left view of a run: the last step *)
Lemma steps_snoc v a b c : dsatur_steps v a b -> dsatur_step v b c -> dsatur_steps v a c.
Proof. intros H1 H2. eapply steps_trans; [exact H1 | apply steps_one, H2]. Qed.

Lemma steps_ext v a c : dsatur_steps v a c -> exists e, c = e ++ a.
Proof.
  intros H. induction H as [a|a b c Hs Hss [e IH]]; [exists []; reflexivity|].
  destruct Hs as [col x Hx]. exists (e ++ [(x, next_color v col x)]).
  rewrite <- app_assoc. exact IH.
Qed.

(* the states of the machine: every pair names a node, no node twice *)
Definition StOk (v : view) (col : list (nat * nat)) : Prop :=
  NoDup (map fst col) /\ incl (map fst col) (vnodes v).

Lemma StOk_nil v : StOk v [].
Proof. split; [constructor | intros x []]. Qed.

Lemma StOk_step v a b : StOk v a -> dsatur_step v a b -> StOk v b.
Proof.
  intros [Hnd Hincl] Hs. destruct Hs as [col x Hx].
  apply candidates_uncolored, uncolored_iff in Hx. destruct Hx as [Hn Hc].
  split; cbn [map fst].
  - constructor; assumption.
  - intros y [<-|Hy]; [exact Hn | apply Hincl, Hy].
Qed.

Lemma StOk_steps v a c : dsatur_steps v a c -> StOk v a -> StOk v c.
Proof. apply (steps_inv v (StOk v)). apply StOk_step. Qed.

Lemma StOk_reachable v col : dsatur_steps v [] col -> StOk v col.
Proof. intros H. exact (StOk_steps v _ _ H (StOk_nil v)). Qed.

(* D1: from every state a complete run exists *)
Lemma run_exists_from v : forall n col, length (uncolored v col) <= n ->
  exists col', dsatur_steps v col col' /\ uncolored v col' = [].
Proof.
  induction n as [|n IH]; intros col Hlen.
  - exists col. split; [apply dss_refl|]. destruct (uncolored v col); [reflexivity | cbn in Hlen; lia].
  - destruct (uncolored v col) as [|u0 ut] eqn:E.
    + exists col. split; [apply dss_refl | exact E].
    + destruct (candidates_exists v col) as [x Hx]; [rewrite E; discriminate|].
      pose proof (uncolored_decreases v col x (next_color v col x) (candidates_uncolored v col x Hx)) as Hd.
      rewrite E in Hd.
      destruct (IH ((x, next_color v col x) :: col)) as [col' [Hs Hu]]; [lia|].
      exists col'. split; [|exact Hu]. eapply dss_step; [apply ds_step, Hx | exact Hs].
Qed.

Lemma output_exists v : exists col, dsatur_output v col.
Proof. destruct (run_exists_from v _ [] (le_n (length (uncolored v [])))) as [col H]. exists col. exact H. Qed.

Lemma output_total v col : dsatur_output v col -> ColTotal v col.
Proof.
  intros [Hr Hu]. destruct (StOk_reachable v col Hr) as [Hnd Hincl]. split; [exact Hnd|].
  intros a. split; [apply Hincl|]. intros Ha.
  destruct (in_dec Nat.eq_dec a (map fst col)) as [Hin|Hnin]; [exact Hin|].
  exfalso. assert (H : In a (uncolored v col)) by (apply uncolored_iff; split; assumption).
  rewrite Hu in H. exact H.
Qed.

(* the state is the trace: one pair per step, so a complete run has as many steps as nodes *)
Lemma ColTotal_length v col : NoDup (vnodes v) -> ColTotal v col -> length col = length (vnodes v).
Proof.
  intros Hn [Hnd Hiff]. rewrite <- (map_length fst col). apply Nat.le_antisymm.
  - apply NoDup_incl_length; [exact Hnd | intros a; apply Hiff].
  - apply NoDup_incl_length; [exact Hn | intros a; apply Hiff].
Qed.

(* ------------------------------------------------------------------ *)
(* association lists                                                    *)

Lemma In_assoc_col col a c : NoDup (map fst col) -> In (a, c) col -> assoc_col col a = Some c.
Proof.
  induction col as [|[k c'] t IH]; cbn [map fst assoc_col In]; [tauto|]. intros Hnd [E|Hin].
  - injection E as -> ->. rewrite Nat.eqb_refl. reflexivity.
  - inversion Hnd as [|? ? Hk Ht]; subst. destruct (Nat.eqb_spec k a) as [->|Hne].
    + exfalso. apply Hk. apply in_map_iff. exists (a, c). split; [reflexivity | exact Hin].
    + apply IH; assumption.
Qed.

Lemma In_fst_exists (col : list (nat * nat)) a : In a (map fst col) -> exists c, In (a, c) col.
Proof.
  intros H. apply in_map_iff in H. destruct H as [[a' c] [E Hin]]. cbn in E. subst a'. exists c. exact Hin.
Qed.

(* ------------------------------------------------------------------ *)
(* adj_colors, dedup, first_free                                        *)

Lemma adj_colors_iff v col x c :
  In c (adj_colors v col x) <-> exists y, In (y, c) col /\ In x (neighbors v y).
Proof.
  unfold adj_colors. rewrite in_flat_map. split.
  - intros [[y c'] [Hin H]]. destruct (mem x (neighbors v y)) eqn:E; [|destruct H].
    destruct H as [<-|[]]. exists y. split; [exact Hin | apply mem_In, E].
  - intros [y [Hin Hx]]. exists (y, c). split; [exact Hin|].
    apply mem_In in Hx. rewrite Hx. left; reflexivity.
Qed.

Lemma adj_colors_cons v col y c x :
  adj_colors v ((y, c) :: col) x = (if mem x (neighbors v y) then [c] else []) ++ adj_colors v col x.
Proof. reflexivity. Qed.

Lemma In_dedup l x : In x (dedup l) <-> In x l.
Proof.
  induction l as [|h t IH]; cbn [dedup In]; [tauto|]. destruct (mem h t) eqn:E.
  - rewrite IH. apply mem_In in E. split; [tauto|]. intros [<-|H]; assumption.
  - cbn [In]. rewrite IH. tauto.
Qed.

Lemma NoDup_dedup l : NoDup (dedup l).
Proof.
  induction l as [|h t IH]; cbn [dedup]; [constructor|]. destruct (mem h t) eqn:E; [exact IH|].
  constructor; [|exact IH]. rewrite In_dedup. apply mem_false, E.
Qed.

Lemma dedup_cons_le l c : length (dedup l) <= length (dedup (c :: l)).
Proof. cbn [dedup]. destruct (mem c l); cbn [length]; lia. Qed.

Lemma dedup_app_le l1 l2 : length (dedup l2) <= length (dedup (l1 ++ l2)).
Proof.
  induction l1 as [|h t IH]; [cbn [app]; lia|]. cbn [app].
  pose proof (dedup_cons_le (t ++ l2) h). lia.
Qed.

Lemma dedup_length_0 l : length (dedup l) = 0 -> l = [].
Proof.
  destruct l as [|h t]; [reflexivity|]. intros H. exfalso.
  assert (Hin : In h (dedup (h :: t))) by (apply In_dedup; left; reflexivity).
  destruct (dedup (h :: t)); [exact Hin | discriminate].
Qed.

Lemma first_free_spec : forall fuel used c,
  c <= first_free fuel used c /\
  (forall c', c <= c' < first_free fuel used c -> In c' used) /\
  (In (first_free fuel used c) used -> first_free fuel used c = c + fuel).
Proof.
  induction fuel as [|f IH]; intros used c; cbn [first_free].
  - split; [lia|]. split; [intros c' H; lia | intros _; lia].
  - destruct (mem c used) eqn:E.
    + destruct (IH used (S c)) as [H1 [H2 H3]]. split; [lia|]. split.
      * intros c' Hc'. destruct (Nat.eq_dec c' c) as [->|Hne]; [apply mem_In, E | apply H2; lia].
      * intros Hin. rewrite (H3 Hin). lia.
    + split; [lia|]. split; [intros c' H; lia|]. intros Hin. apply mem_false in E. contradiction.
Qed.

Lemma seq_incl_length r l : (forall c, c < r -> In c l) -> r <= length l.
Proof.
  intros H. rewrite <- (seq_length r 0). apply NoDup_incl_length; [apply seq_NoDup|].
  intros c Hc. apply in_seq in Hc. apply H. lia.
Qed.

(* the colour chosen: the smallest one absent from the neighbours' colours *)
Lemma next_color_spec v col x :
  ~ In (next_color v col x) (adj_colors v col x) /\
  forall c', c' < next_color v col x -> In c' (adj_colors v col x).
Proof.
  unfold next_color. cbv zeta. set (used := adj_colors v col x).
  destruct (first_free_spec (S (length used)) used 0) as [_ [H2 H3]].
  assert (Hlt : forall c', c' < first_free (S (length used)) used 0 -> In c' used)
    by (intros c' Hc'; apply H2; lia).
  split; [|exact Hlt]. intros Hin. specialize (H3 Hin).
  pose proof (seq_incl_length _ _ Hlt). lia.
Qed.

Lemma next_color_le_saturation v col x : next_color v col x <= saturation v col x.
Proof.
  unfold saturation. apply seq_incl_length. intros c Hc. apply In_dedup.
  apply (proj2 (next_color_spec v col x)), Hc.
Qed.

Lemma degree_neighbors v x : DsaturM.degree v x = length (neighbors v x).
Proof. unfold DsaturM.degree, neighbors. rewrite map_length. reflexivity. Qed.

(* on a symmetric view a node sees at most as many colours as it has edges *)
Lemma saturation_le_degree v col x : symmetric v -> NoDup (map fst col) ->
  saturation v col x <= DsaturM.degree v x.
Proof.
  intros Hs Hnd. unfold saturation. rewrite degree_neighbors.
  set (f := fun y => match assoc_col col y with Some c => c | None => 0 end).
  rewrite <- (map_length f (neighbors v x)).
  apply NoDup_incl_length; [apply NoDup_dedup|]. intros c Hc.
  apply In_dedup, adj_colors_iff in Hc. destruct Hc as [y [Hin Hx]].
  apply in_map_iff. exists y. split.
  - unfold f. rewrite (In_assoc_col _ _ _ Hnd Hin). reflexivity.
  - apply Hs. exact Hx.
Qed.

(* ------------------------------------------------------------------ *)
(* D2: proper                                                           *)

Definition ProperSt (v : view) (col : list (nat * nat)) : Prop :=
  forall a ca b cb, In (a, ca) col -> In (b, cb) col -> In b (neighbors v a) -> a <> b -> ca <> cb.

Lemma ProperSt_step v a b : symmetric v -> ProperSt v a -> dsatur_step v a b -> ProperSt v b.
Proof.
  intros Hs HP Hst. destruct Hst as [col x Hx].
  destruct (next_color_spec v col x) as [Hfree _].
  intros a ca b cb [Ea|Ha] [Eb|Hb] Hadj Hne.
  - injection Ea as <- <-. injection Eb as <- <-. congruence.
  - injection Ea as <- <-. intros E. apply Hfree. rewrite E. apply adj_colors_iff.
    exists b. split; [exact Hb | apply Hs, Hadj].
  - injection Eb as <- <-. intros E. apply Hfree. rewrite <- E. apply adj_colors_iff.
    exists a. split; [exact Ha | exact Hadj].
  - exact (HP a ca b cb Ha Hb Hadj Hne).
Qed.

Lemma ProperSt_reachable v col : symmetric v -> dsatur_steps v [] col -> ProperSt v col.
Proof.
  intros Hs H. apply (steps_inv v (ProperSt v) (fun a b Ha => ProperSt_step v a b Hs Ha) _ _ H).
  intros a ca b cb [].
Qed.

Lemma output_proper v col : nodes_ok v -> symmetric v -> dsatur_output v col -> ColProper v col.
Proof.
  intros Hno Hs Hout. pose proof (output_total v col Hout) as [Hnd Hiff]. destruct Hout as [Hr _].
  intros a b Ha Hb Hne. destruct (Hno a b Hb) as [_ Hbn].
  destruct (assoc_col_In col a (proj2 (Hiff a) Ha)) as [ca Eca].
  destruct (assoc_col_In col b (proj2 (Hiff b) Hbn)) as [cb Ecb].
  exists ca, cb. split; [exact Eca|]. split; [exact Ecb|].
  exact (ProperSt_reachable v col Hs Hr a ca b cb (assoc_col_Some _ _ _ Eca) (assoc_col_Some _ _ _ Ecb) Hb Hne).
Qed.

(* ------------------------------------------------------------------ *)
(* D3: Grundy, colours 0..k-1, k <= max degree + 1                      *)

Lemma Grundy_step v a b : StOk v a -> Grundy v a -> dsatur_step v a b -> Grundy v b.
Proof.
  intros [Hnd _] HG Hst. destruct Hst as [col x Hx].
  apply candidates_uncolored, uncolored_iff in Hx. destruct Hx as [_ Hxc].
  assert (Hother : forall y c, assoc_col col y = Some c -> assoc_col ((x, next_color v col x) :: col) y = Some c).
  { intros y c Hy. cbn [assoc_col]. destruct (Nat.eqb_spec x y) as [->|Hne]; [|exact Hy].
    exfalso. apply Hxc. apply assoc_col_Some in Hy. apply in_map_iff. exists (y, c). split; [reflexivity | exact Hy]. }
  intros z c Hz c' Hc'. cbn [assoc_col] in Hz. destruct (Nat.eqb_spec x z) as [->|Hne].
  - injection Hz as <-. apply (proj2 (next_color_spec v col z)) in Hc'.
    apply adj_colors_iff in Hc'. destruct Hc' as [y [Hin Hzy]].
    exists y. split; [exact Hzy|]. apply Hother. apply In_assoc_col; assumption.
  - destruct (HG z c Hz c' Hc') as [y [Hzy Hy]]. exists y. split; [exact Hzy | apply Hother, Hy].
Qed.

Lemma Grundy_reachable v col : dsatur_steps v [] col -> Grundy v col.
Proof.
  intros H.
  assert (HP : StOk v col /\ Grundy v col); [|apply HP].
  apply (steps_inv v (fun c => StOk v c /\ Grundy v c)) with (a := []) (2 := H).
  - intros a b [H1 H2] Hs. split; [eapply StOk_step; eassumption | eapply Grundy_step; eassumption].
  - split; [apply StOk_nil|]. intros x c Hx. discriminate.
Qed.

Lemma fold_left_max_ge l : forall a, a <= fold_left Nat.max l a /\ forall c, In c l -> c <= fold_left Nat.max l a.
Proof.
  induction l as [|h t IH]; intros a; cbn [fold_left In].
  - split; [lia | tauto].
  - destruct (IH (Nat.max a h)) as [H1 H2]. split; [lia|]. intros c [<-|Hc]; [lia | apply H2, Hc].
Qed.

Lemma fold_left_max_in l : forall a, fold_left Nat.max l a = a \/ In (fold_left Nat.max l a) l.
Proof.
  induction l as [|h t IH]; intros a; cbn [fold_left In]; [left; reflexivity|].
  destruct (IH (Nat.max a h)) as [E|Hin]; [|right; right; exact Hin].
  rewrite E. destruct (Nat.max_spec a h) as [[_ ->]|[_ ->]]; [right; left; reflexivity | left; reflexivity].
Qed.

(* the number of colours is one more than a colour that occurs, and every colour is below it *)
Lemma color_count_spec col : col <> [] ->
  (exists m, color_count col = S m /\ In m (map snd col)) /\
  forall c, In c (map snd col) -> c < color_count col.
Proof.
  intros Hne. destruct col as [|p t]; [congruence|]. unfold color_count.
  set (l := map snd (p :: t)). destruct (fold_left_max_ge l 0) as [_ Hge]. split.
  - exists (fold_left Nat.max l 0). split; [reflexivity|].
    destruct (fold_left_max_in l 0) as [E|Hin]; [|exact Hin]. rewrite E.
    assert (Hp : In (snd p) l) by (left; reflexivity). pose proof (Hge _ Hp) as Hle. rewrite E in Hle.
    replace 0 with (snd p) by lia. exact Hp.
  - intros c Hc. specialize (Hge c Hc). lia.
Qed.

Lemma color_count_nil : color_count [] = 0.
Proof. reflexivity. Qed.

(* a set of colours closed downwards is 0 .. color_count-1 *)
Lemma ColRange_of_down col :
  (forall c, In c (map snd col) -> forall c', c' < c -> In c' (map snd col)) ->
  ColRange col (color_count col).
Proof.
  intros Hdown c. destruct col as [|p t].
  - cbn. split; [tauto | lia].
  - destruct (color_count_spec (p :: t)) as [[m [Em Hm]] Hlt]; [discriminate|]. split; [apply Hlt|].
    intros Hc. rewrite Em in Hc. destruct (Nat.eq_dec c m) as [->|Hne]; [exact Hm|].
    apply (Hdown m Hm). lia.
Qed.

(* ColRange determines the count *)
Lemma ColRange_color_count col k : ColRange col k -> color_count col = k.
Proof.
  intros HR. destruct col as [|p t].
  - cbn. destruct k as [|k]; [reflexivity|]. destruct (proj2 (HR 0)); lia.
  - destruct (color_count_spec (p :: t)) as [[m [Em Hm]] Hlt]; [discriminate|].
    apply HR in Hm. destruct k as [|k]; [lia|].
    assert (Hk : In k (map snd (p :: t))) by (apply HR; lia). apply Hlt in Hk. lia.
Qed.

Lemma Grundy_down v col : NoDup (map fst col) -> Grundy v col ->
  forall c, In c (map snd col) -> forall c', c' < c -> In c' (map snd col).
Proof.
  intros Hnd HG c Hc c' Hc'. apply in_map_iff in Hc. destruct Hc as [[x c0] [E Hin]]. cbn in E. subst c0.
  destruct (HG x c (In_assoc_col _ _ _ Hnd Hin) c' Hc') as [y [_ Hy]].
  apply assoc_col_Some in Hy. apply in_map_iff. exists (y, c'). split; [reflexivity | exact Hy].
Qed.

Lemma reachable_range v col : dsatur_steps v [] col -> ColRange col (color_count col).
Proof.
  intros H. apply ColRange_of_down. apply (Grundy_down v).
  - apply (StOk_reachable v col H).
  - apply Grundy_reachable, H.
Qed.

Lemma degree_le_max v x : In x (vnodes v) -> DsaturM.degree v x <= max_degree v.
Proof.
  unfold max_degree. induction (vnodes v) as [|h t IH]; cbn [In map fold_right]; [tauto|].
  intros [->|Hin]; [lia | specialize (IH Hin); lia].
Qed.

Definition BoundSt (v : view) (col : list (nat * nat)) : Prop :=
  forall x c, In (x, c) col -> c <= max_degree v.

Lemma BoundSt_reachable v col : symmetric v -> dsatur_steps v [] col -> BoundSt v col.
Proof.
  intros Hs H.
  assert (HP : StOk v col /\ BoundSt v col); [|apply HP].
  apply (steps_inv v (fun c => StOk v c /\ BoundSt v c)) with (a := []) (2 := H).
  - intros a b [H1 H2] Hst. split; [eapply StOk_step; eassumption|].
    destruct Hst as [col0 x Hx]. intros z c [E|Hin]; [|exact (H2 z c Hin)].
    injection E as <- <-. apply candidates_uncolored, uncolored_iff in Hx.
    pose proof (next_color_le_saturation v col0 x).
    pose proof (saturation_le_degree v col0 x Hs (proj1 H1)).
    pose proof (degree_le_max v x (proj1 Hx)). lia.
  - split; [apply StOk_nil | intros x c []].
Qed.

Lemma reachable_count_bound v col : symmetric v -> dsatur_steps v [] col ->
  color_count col <= max_degree v + 1.
Proof.
  intros Hs H. destruct col as [|p t]; [cbn; lia|].
  destruct (color_count_spec (p :: t)) as [[m [Em Hm]] _]; [discriminate|].
  apply in_map_iff in Hm. destruct Hm as [[x c] [E Hin]]. cbn in E. subst c.
  pose proof (BoundSt_reachable v _ Hs H x m Hin). lia.
Qed.
