(* C18, Dot half: whatever a weight prints, its label ends at the quote the writer appends, and the
   whole text lexes and parses (Spec/DotLex.v) to exactly the nodes and edges of the graph. *)
From Coq Require Import ZArith NArith List Arith Lia Bool ZifyNat ZifyN.
From PG Require Import Lib.ListArr Lib.Io Model.DotM Spec.DotLex.
Import ListNotations.

#[local] Ltac Zify.zify_post_hook ::= Z.div_mod_to_equations.

Local Arguments N.add : simpl never.
Local Arguments N.mul : simpl never.
Local Arguments N.sub : simpl never.
Local Arguments N.pow : simpl never.
Local Arguments N.div : simpl never.
Local Arguments N.modulo : simpl never.
Local Arguments N.of_nat : simpl never.

(* ------------------------------------------------------------------ *)
(* T3: the Escaper against the DOT string scanner.                     *)

Lemma scan_quote : forall t, scan_string (34%N :: t) = Some ([], t).
Proof. reflexivity. Qed.

Lemma scan_bs : forall d t,
  scan_string (92%N :: d :: t) =
  match scan_string t with Some (s, r) => Some (92%N :: d :: s, r) | None => None end.
Proof. reflexivity. Qed.

Lemma scan_other : forall c t, c <> 34%N -> c <> 92%N ->
  scan_string (c :: t) =
  match scan_string t with Some (s, r) => Some (c :: s, r) | None => None end.
Proof.
  intros c t Hq Hb. cbn [scan_string].
  destruct (N.eqb_spec c 34) as [E|_]; [contradiction|].
  destruct (N.eqb_spec c 92) as [E|_]; [contradiction|].
  reflexivity.
Qed.

(* a text is safe inside quotes when the scanner, started on it, stops exactly at a quote
   appended after it *)
Definition safe (body : list N) : Prop :=
  forall r, scan_string (body ++ 34%N :: r) = Some (body, r).

Lemma safe_escape : forall s, safe (escape s).
Proof.
  unfold safe. induction s as [|c s IH]; intros r.
  - apply scan_quote.
  - unfold escape. cbn [flat_map]. fold (escape s). rewrite <- app_assoc. unfold escape_char.
    destruct (N.eqb_spec c QUOTE) as [Hq|Hq].
    + cbn [orb app]. change BSLASH with 92%N. rewrite scan_bs, IH. reflexivity.
    + destruct (N.eqb_spec c BSLASH) as [Hb|Hb].
      * cbn [orb app]. change BSLASH with 92%N. rewrite scan_bs, IH. reflexivity.
      * cbn [orb]. destruct (N.eqb_spec c NL) as [Hn|Hn].
        -- cbn [app]. change BSLASH with 92%N. rewrite scan_bs, IH. reflexivity.
        -- cbn [app]. rewrite scan_other, IH by assumption. reflexivity.
Qed.

Lemma safe_escaped : forall alternate s, safe (escaped alternate s).
Proof. intros alternate s. unfold escaped. apply safe_escape. Qed.

Lemma safe_plain : forall l, Forall (fun c => c <> 34%N /\ c <> 92%N) l -> safe l.
Proof.
  unfold safe. intros l Hl. induction Hl as [|c t [Hq Hb] Ht IH]; intros r.
  - apply scan_quote.
  - cbn [app]. rewrite scan_other, IH by assumption. reflexivity.
Qed.

Theorem escape_safe : forall alternate s rest,
  scan_string (escaped alternate s ++ [QUOTE] ++ rest) = Some (escaped alternate s, rest).
Proof. intros alternate s rest. apply safe_escaped. Qed.

Lemma escape_no_newline : forall s, ~ In NL (escape s).
Proof.
  intros s Hin. unfold escape in Hin. apply in_flat_map in Hin.
  destruct Hin as (c & _ & Hc). unfold escape_char in Hc.
  destruct (N.eqb_spec c QUOTE) as [Hq|Hq].
  - cbn [orb] in Hc. subst c. destruct Hc as [E|[E|[]]]; discriminate E.
  - destruct (N.eqb_spec c BSLASH) as [Hb|Hb].
    + cbn [orb] in Hc. subst c. destruct Hc as [E|[E|[]]]; discriminate E.
    + cbn [orb] in Hc. destruct (N.eqb_spec c NL) as [Hn|Hn].
      * destruct Hc as [E|[E|[]]]; discriminate E.
      * destruct Hc as [E|[]]. apply Hn. exact E.
Qed.

Theorem escaped_no_newline : forall alternate s, ~ In NL (escaped alternate s).
Proof. intros alternate s. unfold escaped. apply escape_no_newline. Qed.

(* ------------------------------------------------------------------ *)
(* The lexer: strings, identifiers.                                    *)

Lemma lex_str_scan : forall l a,
  lex (LStr a) l =
  match scan_string l with
  | Some (s, r) => emit (TStr (rev a ++ s)) (lex LDef r)
  | None => None
  end.
Proof.
  assert (Hboth : forall l,
    (forall a, lex (LStr a) l =
       match scan_string l with
       | Some (s, r) => emit (TStr (rev a ++ s)) (lex LDef r) | None => None end) /\
    (forall c a, lex (LStr a) (c :: l) =
       match scan_string (c :: l) with
       | Some (s, r) => emit (TStr (rev a ++ s)) (lex LDef r) | None => None end)).
  { induction l as [|d l [IH1 IH2]].
    - split; [reflexivity|]. intros c a. cbn [lex scan_string].
      destruct (N.eqb c 34); [rewrite app_nil_r; reflexivity|].
      destruct (N.eqb c 92); reflexivity.
    - split; [exact (IH2 d)|]. intros c a.
      change (lex (LStr a) (c :: d :: l)) with
        (if N.eqb c 34 then emit (TStr (rev a)) (lex LDef (d :: l))
         else if N.eqb c 92 then lex (LStr (d :: c :: a)) l
         else lex (LStr (c :: a)) (d :: l)).
      change (scan_string (c :: d :: l)) with
        (if N.eqb c 34 then Some ([], d :: l)
         else if N.eqb c 92 then
           match scan_string l with Some (s, r) => Some (c :: d :: s, r) | None => None end
         else match scan_string (d :: l) with Some (s, r) => Some (c :: s, r) | None => None end).
      destruct (N.eqb c 34); [rewrite app_nil_r; reflexivity|].
      destruct (N.eqb c 92).
      + rewrite IH1. destruct (scan_string l) as [[s r]|]; [|reflexivity].
        cbn [rev]. rewrite <- !app_assoc. reflexivity.
      + rewrite IH2. destruct (scan_string (d :: l)) as [[s r]|]; [|reflexivity].
        cbn [rev]. rewrite <- app_assoc. reflexivity. }
  intros l. apply Hboth.
Qed.

Lemma lex_string : forall body x, safe body ->
  lex (LStr []) (body ++ 34%N :: x) = emit (TStr body) (lex LDef x).
Proof.
  intros body x Hs. rewrite lex_str_scan, Hs. reflexivity.
Qed.

Lemma lex_id : forall ds a c x,
  Forall (fun d => is_idc d = true) ds -> is_idc c = false ->
  lex (LId a) (ds ++ c :: x) =
  emit (TId (rev a ++ ds)) (run_act (start c) (fun st => lex st x)).
Proof.
  induction ds as [|d ds IH]; intros a c x Hds Hc.
  - cbn [app lex]. rewrite Hc, app_nil_r. reflexivity.
  - cbn [app lex]. rewrite (Forall_inv Hds).
    rewrite IH by (try exact Hc; exact (Forall_inv_tail Hds)).
    cbn [rev]. rewrite <- app_assoc. reflexivity.
Qed.

Definition digit (c : N) : Prop := is_digit c = true.

Lemma digit_range : forall c, digit c <-> (48 <= c <= 57)%N.
Proof.
  intros c. unfold digit, is_digit. rewrite andb_true_iff, !N.leb_le. reflexivity.
Qed.

Lemma digit_idc : forall c, digit c -> is_idc c = true.
Proof.
  intros c Hc. unfold is_idc. rewrite Hc. reflexivity.
Qed.

Lemma start_digit : forall c, digit c -> start c = AGo (LId [c]).
Proof.
  intros c Hc. pose proof (digit_idc c Hc) as Hi. apply digit_range in Hc.
  assert (E : forall k, k <> c -> N.eqb c k = false).
  { intros k Hk. apply N.eqb_neq. congruence. }
  unfold start, is_ws. rewrite !E by lia. cbn [orb]. rewrite Hi. reflexivity.
Qed.

Lemma lex_numeral_sp : forall ds x, Forall digit ds -> ds <> [] ->
  lex LDef (ds ++ SPACE :: x) = emit (TId ds) (lex LDef x).
Proof.
  intros ds x Hds Hne. destruct ds as [|d ds]; [contradiction Hne; reflexivity|].
  cbn [app lex]. rewrite (start_digit d (Forall_inv Hds)). cbn [run_act].
  rewrite lex_id.
  - reflexivity.
  - apply Forall_forall. intros y Hy. apply digit_idc.
    exact (proj1 (Forall_forall _ _) (Forall_inv_tail Hds) y Hy).
  - reflexivity.
Qed.

(* ------------------------------------------------------------------ *)
(* decimal numerals                                                    *)

Lemma pow10_S : forall f, (10 ^ N.of_nat (S f) = 10 * 10 ^ N.of_nat f)%N.
Proof. intros f. rewrite Nat2N.inj_succ, N.pow_succ_r'. reflexivity. Qed.

Lemma dval_snoc : forall l d a, dval (l ++ [d]) a = (10 * dval l a + (d - 48))%N.
Proof. intros l d a. unfold dval. rewrite fold_left_app. reflexivity. Qed.

Lemma digits_loop_spec : forall f n acc, exists l,
  digits_loop f n acc = l ++ acc /\ Forall digit l /\ (f <> 0 -> l <> []) /\
  ((n < 10 ^ N.of_nat f)%N -> dval l 0 = n).
Proof.
  induction f as [|f IH]; intros n acc.
  - exists []. split; [reflexivity|]. split; [constructor|]. split; [intros H; contradiction|].
    intros Hn. change (10 ^ N.of_nat 0)%N with 1%N in Hn. unfold dval. cbn [fold_left]. lia.
  - cbn [digits_loop].
    assert (Hd : digit (48 + n mod 10)%N) by (apply digit_range; lia).
    destruct (N.ltb_spec n 10) as [Hs|Hl].
    + exists [(48 + n mod 10)%N]. split; [reflexivity|].
      split; [constructor; [exact Hd|constructor]|]. split; [intros _; discriminate|].
      intros _. unfold dval. cbn [fold_left]. lia.
    + destruct (IH (n / 10)%N ((48 + n mod 10)%N :: acc)) as (l & El & Hl' & _ & Hv).
      exists (l ++ [(48 + n mod 10)%N]). split; [rewrite El, <- app_assoc; reflexivity|].
      split; [apply Forall_app; split; [exact Hl'|constructor; [exact Hd|constructor]]|].
      split.
      * intros _ E. apply app_eq_nil in E. destruct E as [_ E]. discriminate E.
      * intros Hn. rewrite dval_snoc, Hv.
        -- lia.
        -- apply N.div_lt_upper_bound; [lia|]. rewrite <- pow10_S. exact Hn.
Qed.

(* a usize *)
Definition usize_ok (i : nat) : Prop := (N.of_nat i < 18446744073709551616)%N.

Lemma decimal_digits : forall n, Forall digit (decimal n) /\ decimal n <> [].
Proof.
  intros n. unfold decimal.
  destruct (digits_loop_spec 40 (N.of_nat n) []) as (l & El & Hl & Hne & _).
  rewrite El, app_nil_r. split; [exact Hl|apply Hne; discriminate].
Qed.

Lemma decimal_value : forall n, usize_ok n -> dval (decimal n) 0 = N.of_nat n.
Proof.
  intros n Hn. unfold decimal.
  destruct (digits_loop_spec 40 (N.of_nat n) []) as (l & El & _ & _ & Hv).
  rewrite El, app_nil_r. apply Hv.
  apply (N.lt_trans _ _ _ Hn). vm_compute. reflexivity.
Qed.

Lemma parse_nat_decimal : forall n, usize_ok n -> parse_nat (decimal n) = Some n.
Proof.
  intros n Hn. destruct (decimal_digits n) as [Hd Hne]. unfold parse_nat.
  destruct (decimal n) as [|d ds] eqn:E; [contradiction Hne; reflexivity|].
  assert (Hall : forallb is_digit (d :: ds) = true).
  { apply forallb_forall. intros y Hy. exact (proj1 (Forall_forall _ _) Hd y Hy). }
  rewrite Hall, <- E, decimal_value by exact Hn. rewrite Nat2N.id. reflexivity.
Qed.

Lemma safe_decimal : forall n, safe (decimal n).
Proof.
  intros n. apply safe_plain. destruct (decimal_digits n) as [Hd _].
  apply Forall_forall. intros c Hc.
  pose proof (proj1 (Forall_forall _ _) Hd c Hc) as Hdc. apply digit_range in Hdc. lia.
Qed.

(* ------------------------------------------------------------------ *)
(* Lexing the pieces of the text.                                      *)

Definition lexes (p : list N) (ts : list tok) : Prop :=
  forall x, lex LDef (p ++ x) = option_map (app ts) (lex LDef x).

Lemma lexes_nil : lexes [] [].
Proof. intros x. cbn [app]. destruct (lex LDef x); reflexivity. Qed.

Lemma lexes_intro : forall p ts,
  (forall x, lex LDef (p ++ x) = fold_right emit (lex LDef x) ts) -> lexes p ts.
Proof.
  intros p ts H x. rewrite H. clear H. induction ts as [|a ts IH].
  - cbn [fold_right]. destruct (lex LDef x); reflexivity.
  - cbn [fold_right]. rewrite IH. destruct (lex LDef x); reflexivity.
Qed.

Lemma lexes_app : forall p1 t1 p2 t2, lexes p1 t1 -> lexes p2 t2 -> lexes (p1 ++ p2) (t1 ++ t2).
Proof.
  intros p1 t1 p2 t2 H1 H2 x. rewrite <- app_assoc, H1, H2.
  destruct (lex LDef x) as [l|]; [|reflexivity]. cbn [option_map]. rewrite app_assoc. reflexivity.
Qed.

Lemma lexes_flat_map : forall (A : Type) (f : A -> list N) (g : A -> list tok) l,
  (forall a, lexes (f a) (g a)) -> lexes (flat_map f l) (flat_map g l).
Proof.
  intros A f g l H. induction l as [|a t IH].
  - exact lexes_nil.
  - cbn [flat_map]. apply lexes_app; [apply H|exact IH].
Qed.

Lemma lex_indent : forall y, lex LDef (INDENT ++ y) = lex LDef y.
Proof. reflexivity. Qed.

Lemma S_LBRACK_app : forall y, S_LBRACK ++ y = SPACE :: 91%N :: 32%N :: y.
Proof. reflexivity. Qed.

Lemma lex_lbrack : forall y, lex LDef (91%N :: 32%N :: y) = emit TLBrack (lex LDef y).
Proof. reflexivity. Qed.

Lemma lex_rbrack : forall y, lex LDef (S_RBRACK ++ y) = emit TRBrack (lex LDef y).
Proof. reflexivity. Qed.

Lemma lex_label_open : forall y,
  lex LDef (S_LABEL ++ y) = emit (TId kw_label) (emit TEq (lex (LStr []) y)).
Proof. reflexivity. Qed.

Lemma S_ENDLABEL_app : forall y, S_ENDLABEL ++ y = 34%N :: 32%N :: y.
Proof. reflexivity. Qed.

Lemma lex_sp : forall y, lex LDef (32%N :: y) = lex LDef y.
Proof. reflexivity. Qed.

Lemma lex_conn : forall (d : bool) y,
  lex LDef ((if d then S_DIR else S_UNDIR) ++ [SPACE] ++ y) = emit (TEdge d) (lex LDef y).
Proof. intros d y. destruct d; reflexivity. Qed.

Definition lab_text (no_label : bool) (body : list ch) : list ch :=
  if no_label then [] else S_LABEL ++ body ++ S_ENDLABEL.
Definition lab_toks (no_label : bool) (body : list N) : list tok :=
  if no_label then [] else [TId kw_label; TEq; TStr body].
Definition lab_attr (no_label : bool) (body : list N) : attr :=
  if no_label then None else Some (kw_label, body).

Lemma lex_lab : forall nl body x, safe body ->
  lex LDef (lab_text nl body ++ S_RBRACK ++ x) =
  option_map (app (lab_toks nl body ++ [TRBrack])) (lex LDef x).
Proof.
  intros nl body x Hs. unfold lab_text, lab_toks. destruct nl.
  - cbn [app]. rewrite lex_rbrack. destruct (lex LDef x); reflexivity.
  - rewrite <- !app_assoc, lex_label_open, S_ENDLABEL_app, lex_string by exact Hs.
    rewrite lex_sp, lex_rbrack. destruct (lex LDef x); reflexivity.
Qed.

Lemma lexes_node : forall ds nl body, Forall digit ds -> ds <> [] -> safe body ->
  lexes (INDENT ++ ds ++ S_LBRACK ++ lab_text nl body ++ S_RBRACK)
        (TId ds :: TLBrack :: lab_toks nl body ++ [TRBrack]).
Proof.
  intros ds nl body Hds Hne Hs x. rewrite <- !app_assoc.
  rewrite lex_indent, S_LBRACK_app, lex_numeral_sp by assumption.
  rewrite lex_lbrack, lex_lab by exact Hs.
  destruct (lex LDef x); reflexivity.
Qed.

Lemma lexes_edge : forall (d : bool) ds dt nl body,
  Forall digit ds -> ds <> [] -> Forall digit dt -> dt <> [] -> safe body ->
  lexes (INDENT ++ ds ++ [SPACE] ++ (if d then S_DIR else S_UNDIR) ++ [SPACE] ++ dt ++ S_LBRACK ++
         lab_text nl body ++ S_RBRACK)
        (TId ds :: TEdge d :: TId dt :: TLBrack :: lab_toks nl body ++ [TRBrack]).
Proof.
  intros d ds dt nl body Hds Hnes Hdt Hnet Hs x. rewrite <- !app_assoc.
  rewrite lex_indent. change ([SPACE] ++ ?y) with (SPACE :: y).
  rewrite lex_numeral_sp by assumption.
  rewrite lex_conn, S_LBRACK_app, lex_numeral_sp by assumption.
  rewrite lex_lbrack, lex_lab by exact Hs.
  destruct (lex LDef x); reflexivity.
Qed.

(* ------------------------------------------------------------------ *)
(* The text, statement by statement.                                   *)

Definition node_body (alternate : bool) (c : cfg) (i : nat) (w : list ch) : list ch :=
  if c_node_index_label c then decimal i else escaped alternate w.
Definition edge_body (alternate : bool) (c : cfg) (k : nat) (w : list ch) : list ch :=
  if c_edge_index_label c then decimal k else escaped alternate w.

Definition node_text (alternate : bool) (c : cfg) (x : nat * list ch) : list ch :=
  let '(i, w) := x in
  INDENT ++ decimal i ++ S_LBRACK ++ lab_text (c_node_no_label c) (node_body alternate c i w) ++ S_RBRACK.
Definition node_toks (alternate : bool) (c : cfg) (x : nat * list ch) : list tok :=
  let '(i, w) := x in
  TId (decimal i) :: TLBrack :: lab_toks (c_node_no_label c) (node_body alternate c i w) ++ [TRBrack].
Definition node_ast (alternate : bool) (c : cfg) (x : nat * list ch) : stmt :=
  let '(i, w) := x in
  SNode (decimal i) (lab_attr (c_node_no_label c) (node_body alternate c i w)).

Definition edge_text (directed alternate : bool) (c : cfg) (x : nat * (nat * nat * list ch)) : list ch :=
  let '(k, (s, t, w)) := x in
  INDENT ++ decimal s ++ [SPACE] ++ (if directed then S_DIR else S_UNDIR) ++ [SPACE] ++ decimal t ++
  S_LBRACK ++ lab_text (c_edge_no_label c) (edge_body alternate c k w) ++ S_RBRACK.
Definition edge_toks (directed alternate : bool) (c : cfg) (x : nat * (nat * nat * list ch)) : list tok :=
  let '(k, (s, t, w)) := x in
  TId (decimal s) :: TEdge directed :: TId (decimal t) :: TLBrack ::
  lab_toks (c_edge_no_label c) (edge_body alternate c k w) ++ [TRBrack].
Definition edge_ast (directed alternate : bool) (c : cfg) (x : nat * (nat * nat * list ch)) : stmt :=
  let '(k, (s, t, w)) := x in
  SEdge (decimal s) (decimal t) directed (lab_attr (c_edge_no_label c) (edge_body alternate c k w)).

Definition head_text (directed : bool) (c : cfg) : list ch :=
  if c_content_only c then [] else (if directed then S_DIGRAPH else S_GRAPH) ++ S_OPEN.
Definition head_toks (directed : bool) (c : cfg) : list tok :=
  if c_content_only c then [] else [TId (if directed then kw_digraph else kw_graph); TLBrace].
Definition rank_text (c : cfg) : list ch :=
  match c_rankdir c with
  | 0 => []
  | k => INDENT ++ S_RANKDIR ++ rankdir_str k ++ [QUOTE; NL]
  end.
Definition rank_toks (c : cfg) : list tok :=
  match c_rankdir c with
  | 0 => []
  | k => [TId kw_rankdir; TEq; TStr (rankdir_str k)]
  end.
Definition rank_ast (c : cfg) : list stmt :=
  match c_rankdir c with
  | 0 => []
  | k => [SAttr kw_rankdir (rankdir_str k)]
  end.
Definition tail_text (c : cfg) : list ch := if c_content_only c then [] else S_CLOSE.
Definition tail_toks (c : cfg) : list tok := if c_content_only c then [] else [TRBrace].

Definition numbered (edges : list (nat * nat * list ch)) : list (nat * (nat * nat * list ch)) :=
  combine (seq 0 (length edges)) edges.

Lemma render_eq : forall directed alternate c nodes edges,
  render directed alternate c nodes edges =
  head_text directed c ++ rank_text c ++ flat_map (node_text alternate c) nodes ++
  flat_map (edge_text directed alternate c) (numbered edges) ++ tail_text c.
Proof. reflexivity. Qed.

Lemma safe_node_body : forall alternate c i w, safe (node_body alternate c i w).
Proof.
  intros alternate c i w. unfold node_body.
  destruct (c_node_index_label c); [apply safe_decimal|apply safe_escaped].
Qed.

Lemma safe_edge_body : forall alternate c k w, safe (edge_body alternate c k w).
Proof.
  intros alternate c k w. unfold edge_body.
  destruct (c_edge_index_label c); [apply safe_decimal|apply safe_escaped].
Qed.

Lemma lexes_head : forall directed c, lexes (head_text directed c) (head_toks directed c).
Proof.
  intros directed c x. unfold head_text, head_toks.
  destruct (c_content_only c); [apply lexes_nil|].
  apply lexes_intro. intros y. destruct directed; reflexivity.
Qed.

Lemma lexes_rank : forall c, lexes (rank_text c) (rank_toks c).
Proof.
  intros c x. unfold rank_text, rank_toks.
  destruct (c_rankdir c) as [|[|[|[|[|k]]]]]; [apply lexes_nil| | | | |];
    apply lexes_intro; intros y; reflexivity.
Qed.

Lemma lexes_tail : forall c, lexes (tail_text c) (tail_toks c).
Proof.
  intros c x. unfold tail_text, tail_toks.
  destruct (c_content_only c); [apply lexes_nil|].
  apply lexes_intro. intros y. reflexivity.
Qed.

Lemma lexes_node_text : forall alternate c x, lexes (node_text alternate c x) (node_toks alternate c x).
Proof.
  intros alternate c [i w]. unfold node_text, node_toks.
  destruct (decimal_digits i) as [Hd Hne].
  apply lexes_node; [exact Hd|exact Hne|apply safe_node_body].
Qed.

Lemma lexes_edge_text : forall directed alternate c x,
  lexes (edge_text directed alternate c x) (edge_toks directed alternate c x).
Proof.
  intros directed alternate c [k [[s t] w]]. unfold edge_text, edge_toks.
  destruct (decimal_digits s) as [Hds Hnes]. destruct (decimal_digits t) as [Hdt Hnet].
  apply lexes_edge; try assumption. apply safe_edge_body.
Qed.

Definition all_toks (directed alternate : bool) (c : cfg) nodes edges : list tok :=
  head_toks directed c ++ rank_toks c ++ flat_map (node_toks alternate c) nodes ++
  flat_map (edge_toks directed alternate c) (numbered edges) ++ tail_toks c.

Theorem lex_render : forall directed alternate c nodes edges,
  lex LDef (render directed alternate c nodes edges) =
  Some (all_toks directed alternate c nodes edges).
Proof.
  intros directed alternate c nodes edges.
  assert (H : lexes (render directed alternate c nodes edges)
                    (all_toks directed alternate c nodes edges)).
  { rewrite render_eq. unfold all_toks.
    apply lexes_app; [apply lexes_head|].
    apply lexes_app; [apply lexes_rank|].
    apply lexes_app; [apply lexes_flat_map; intros x; apply lexes_node_text|].
    apply lexes_app; [apply lexes_flat_map; intros x; apply lexes_edge_text|].
    apply lexes_tail. }
  specialize (H []). rewrite app_nil_r in H. rewrite H.
  cbn [lex option_map]. rewrite app_nil_r. reflexivity.
Qed.

(* ------------------------------------------------------------------ *)
(* Parsing the tokens.                                                 *)

Definition pushes (ss : list stmt) (r : option (list stmt * list tok)) : option (list stmt * list tok) :=
  match r with
  | Some (ss', rest) => Some (ss ++ ss', rest)
  | None => None
  end.

Lemma parse_node_toks : forall a nl body Y,
  parse_stmts (TId a :: TLBrack :: (lab_toks nl body ++ [TRBrack]) ++ Y) =
  push (SNode a (lab_attr nl body)) (parse_stmts Y).
Proof. intros a nl body Y. destruct nl; reflexivity. Qed.

Lemma parse_edge_toks : forall a b d nl body Y,
  parse_stmts (TId a :: TEdge d :: TId b :: TLBrack :: (lab_toks nl body ++ [TRBrack]) ++ Y) =
  push (SEdge a b d (lab_attr nl body)) (parse_stmts Y).
Proof. intros a b d nl body Y. destruct nl; reflexivity. Qed.

Lemma parse_nodes : forall alternate c nodes Y,
  parse_stmts (flat_map (node_toks alternate c) nodes ++ Y) =
  pushes (map (node_ast alternate c) nodes) (parse_stmts Y).
Proof.
  intros alternate c nodes Y. induction nodes as [|[i w] t IH].
  - cbn [flat_map map app pushes]. destruct (parse_stmts Y) as [[ss rest]|]; reflexivity.
  - cbn [flat_map map]. rewrite <- app_assoc. unfold node_toks at 1. cbn [app].
    rewrite parse_node_toks, IH.
    destruct (parse_stmts Y) as [[ss rest]|]; reflexivity.
Qed.

Lemma parse_edges : forall directed alternate c (L : list (nat * (nat * nat * list ch))) Y,
  parse_stmts (flat_map (edge_toks directed alternate c) L ++ Y) =
  pushes (map (edge_ast directed alternate c) L) (parse_stmts Y).
Proof.
  intros directed alternate c L Y. induction L as [|[k [[s t] w]] tl IH].
  - cbn [flat_map map app pushes]. destruct (parse_stmts Y) as [[ss rest]|]; reflexivity.
  - cbn [flat_map map]. rewrite <- app_assoc. unfold edge_toks at 1. cbn [app].
    rewrite parse_edge_toks, IH.
    destruct (parse_stmts Y) as [[ss rest]|]; reflexivity.
Qed.

Lemma parse_rank : forall c Y,
  parse_stmts (rank_toks c ++ Y) = pushes (rank_ast c) (parse_stmts Y).
Proof.
  intros c Y. unfold rank_toks, rank_ast.
  destruct (c_rankdir c) as [|k]; destruct (parse_stmts Y) as [[ss rest]|] eqn:E;
    cbn [app pushes parse_stmts push]; rewrite ?E; reflexivity.
Qed.

Lemma parse_tail : forall c, parse_stmts (tail_toks c) = Some ([], tail_toks c).
Proof. intros c. unfold tail_toks. destruct (c_content_only c); reflexivity. Qed.

(* ------------------------------------------------------------------ *)
(* Meaning of the statements.                                          *)

Lemma leqb_refl : forall a, leqb a a = true.
Proof.
  induction a as [|x a IH]; [reflexivity|]. cbn [leqb]. rewrite N.eqb_refl, IH. reflexivity.
Qed.

Lemma attr_ok_lab : forall nl body, attr_ok (lab_attr nl body) = true.
Proof. intros nl body. destruct nl; reflexivity. Qed.

Definition edge_ok (e : nat * nat * list ch) : Prop :=
  usize_ok (fst (fst e)) /\ usize_ok (snd (fst e)).

Lemma interp_nodes : forall directed alternate c nodes S,
  Forall (fun x => usize_ok (fst x)) nodes ->
  interp directed (map (node_ast alternate c) nodes ++ S) =
  match interp directed S with
  | Some (ns, es) => Some (map fst nodes ++ ns, es)
  | None => None
  end.
Proof.
  intros directed alternate c nodes S Hn. induction Hn as [|[i w] t Hi Ht IH].
  - cbn [map app]. destruct (interp directed S) as [[ns es]|]; reflexivity.
  - cbn [map app interp node_ast]. rewrite IH.
    destruct (interp directed S) as [[ns es]|]; [|reflexivity].
    rewrite attr_ok_lab, parse_nat_decimal by exact Hi. reflexivity.
Qed.

Lemma interp_edges : forall directed alternate c (L : list (nat * (nat * nat * list ch))),
  Forall (fun x => edge_ok (snd x)) L ->
  interp directed (map (edge_ast directed alternate c) L) =
  Some ([], map (fun x => (fst (fst (snd x)), snd (fst (snd x)))) L).
Proof.
  intros directed alternate c L HL. induction HL as [|[k [[s t] w]] tl [Hs Ht] Htl IH].
  - reflexivity.
  - cbn [map interp edge_ast]. rewrite IH.
    rewrite attr_ok_lab, eqb_reflx. cbn [andb].
    cbn [fst snd] in Hs, Ht.
    rewrite (parse_nat_decimal s Hs), (parse_nat_decimal t Ht). reflexivity.
Qed.

Lemma interp_rank : forall directed c S,
  interp directed (rank_ast c ++ S) = interp directed S.
Proof.
  intros directed c S. unfold rank_ast.
  destruct (c_rankdir c) as [|[|[|[|[|k]]]]]; cbn [app]; [reflexivity| | | | |];
    cbn [interp]; destruct (interp directed S) as [[ns es]|]; reflexivity.
Qed.

Lemma numbered_snd : forall edges, map snd (numbered edges) = edges.
Proof.
  intros edges. unfold numbered. generalize 0 as a.
  induction edges as [|e t IH]; intros a; [reflexivity|].
  cbn [length seq combine map snd]. rewrite IH. reflexivity.
Qed.

(* ------------------------------------------------------------------ *)
(* T4                                                                  *)

Theorem dot_structure : forall directed alternate c nodes edges,
  Forall (fun x => usize_ok (fst x)) nodes -> Forall edge_ok edges ->
  parse_dot directed (c_content_only c) (render directed alternate c nodes edges) =
  Some (map fst nodes, map (fun '(s, t, _) => (s, t)) edges).
Proof.
  intros directed alternate c nodes edges Hn He.
  assert (Hbody : parse_stmts (rank_toks c ++ flat_map (node_toks alternate c) nodes ++
                     flat_map (edge_toks directed alternate c) (numbered edges) ++ tail_toks c) =
                  Some (rank_ast c ++ map (node_ast alternate c) nodes ++
                        map (edge_ast directed alternate c) (numbered edges), tail_toks c)).
  { rewrite parse_rank, parse_nodes, parse_edges, parse_tail. cbn [pushes].
    rewrite app_nil_r. reflexivity. }
  assert (Hsem : interp directed (rank_ast c ++ map (node_ast alternate c) nodes ++
                        map (edge_ast directed alternate c) (numbered edges)) =
                 Some (map fst nodes, map (fun '(s, t, _) => (s, t)) edges)).
  { rewrite interp_rank, interp_nodes by exact Hn. rewrite interp_edges.
    - rewrite app_nil_r. f_equal. f_equal.
      rewrite <- (numbered_snd edges) at 2. rewrite map_map.
      apply map_ext. intros [k [[s t] w]]. reflexivity.
    - apply Forall_forall. intros [k e] Hin. cbn [snd].
      apply (proj1 (Forall_forall _ _) He). unfold numbered in Hin.
      exact (in_combine_r _ _ _ _ Hin). }
  unfold parse_dot. rewrite lex_render. unfold all_toks, head_toks, tail_toks in *.
  destruct (c_content_only c).
  - cbn [app]. rewrite app_nil_r in Hbody. rewrite app_nil_r, Hbody. exact Hsem.
  - cbn [app strip_header]. destruct directed; cbn [leqb kw_digraph kw_graph];
      rewrite ?N.eqb_refl; cbn [andb]; rewrite Hbody; exact Hsem.
Qed.
