(* is_cyclic_directed (algo/mod.rs): depth_first_search from every node with a visitor that
   breaks on the first back edge.  Read off the trace machine of Spec/DfsEvents.v:
   a back edge closes a cycle through the open nodes; and a run without back edge, prune or
   break finishes every node after all its successors, so nothing finished is on a cycle. *)
From PG Require Import Lib.Io Model.View Model.Traversal Model.AlgoBasic Spec.Reach Spec.DfsEvents
                       Proofs.TravBase Proofs.DfsEventsP Proofs.TraversalAll.

Definition back_ctl (e : dfs_event) : control :=
  match e with EvBack _ _ => CBreak | _ => CContinue end.

Section Machine.
Variable v : view.
Variable ctl : dfs_event -> control.
Variable starts : list nat.

(* ------------------------------------------------------------------ *)
(* The open nodes form a path of tree edges, outermost last            *)

Fixpoint chain (l : list nat) : Prop :=
  match l with
  | [] => True
  | a :: t => match t with [] => True | b :: _ => step v b a end /\ chain t
  end.

Lemma chain_reach : forall o u w, chain (u :: o) -> In w (u :: o) -> reachable v w u.
Proof.
  induction o as [|b o IH]; intros u w Hc Hin.
  - destruct Hin as [->|[]]. apply reach_refl.
  - destruct Hin as [->|Hin]; [apply reach_refl|].
    cbn [chain] in Hc. destruct Hc as [Hbu Hc].
    eapply reach_step; [apply (IH b w Hc Hin) | exact Hbu].
Qed.

Lemma ev_step_chain st e st' : Tinv v starts st -> chain (map fst (topen st)) ->
  ev_step v ctl starts st e st' -> chain (map fst (topen st')).
Proof.
  intros Iv Hc H.
  inversion H as [u o dc fn t p Hu Hp | u w ws o dc fn t Hw | u w ws o dc fn t Hw Hf
                 | u w ws o dc fn t Hw | u o dc fn t]; subst; cbn [topen map fst] in *.
  - cbn [chain]. split; [|exact Hc].
    destruct Hp as [->|[_ [-> _]]]; [|exact I].
    destruct (ti_pend _ _ _ Iv u eq_refl) as [u0 [ws0 [o0 [Eo Hs]]]]. cbn [topen] in Eo. subst o.
    cbn [map fst]. exact Hs.
  - exact Hc.
  - exact Hc.
  - exact Hc.
  - cbn [chain] in Hc. apply Hc.
Qed.

Lemma ev_run_chain st evs st' : Tinv v starts st -> chain (map fst (topen st)) ->
  ev_run v ctl starts st evs st' -> chain (map fst (topen st')).
Proof.
  intros I Hc R. induction R as [st | st e st1 evs st2 Hs Hr IH]; [exact Hc|].
  apply IH; [eapply ev_step_inv; eauto | eapply ev_step_chain; eauto].
Qed.

(* ------------------------------------------------------------------ *)
(* Without back edges: finished nodes are closed and cycle free        *)

(* every successor of an open node is still to be examined, finished, or the node opened
   (or about to be opened) from it *)
Fixpoint frames_ok (fin : list nat) (child : option nat) (fr : list (nat * list nat)) : Prop :=
  match fr with
  | [] => True
  | (u, ws) :: o =>
      (forall w, step v u w -> In w ws \/ In w fin \/ child = Some w) /\ frames_ok fin (Some u) o
  end.

Definition Cinv (st : tst) : Prop :=
  (forall u w, In u (tfin st) -> step v u w -> In w (tfin st)) /\
  (forall u, In u (tfin st) -> ~ on_cycle v u) /\
  frames_ok (tfin st) (tpend st) (topen st).

Lemma frames_mono fin fin' : (forall x, In x fin -> In x fin') ->
  forall fr c, frames_ok fin c fr -> frames_ok fin' c fr.
Proof.
  intros Hi. induction fr as [|[u ws] o IH]; intros c H; cbn [frames_ok] in *; [exact I|].
  destruct H as [Ht Hr]. split; [|apply IH; exact Hr].
  intros w Hw. destruct (Ht w Hw) as [H1|[H2|H3]]; [left; exact H1 | right; left; apply Hi; exact H2 | right; right; exact H3].
Qed.

Lemma frames_child_done fin u : forall fr c, frames_ok fin (Some u) fr -> frames_ok (u :: fin) c fr.
Proof.
  intros fr c H. destruct fr as [|[t ws] o]; cbn [frames_ok] in *; [exact I|].
  destruct H as [Ht Hr]. split.
  - intros w Hw. destruct (Ht w Hw) as [H1|[H2|H3]];
      [left; exact H1 | right; left; right; exact H2 | right; left; left; injection H3 as ->; reflexivity].
  - apply (frames_mono fin (u :: fin)); [intros x Hx; right; exact Hx | exact Hr].
Qed.

Lemma closed_reach fin : (forall u w, In u fin -> step v u w -> In w fin) ->
  forall a b, reachable v a b -> In a fin -> In b fin.
Proof.
  intros Hcl a b R Ha. induction R as [|x y Rx IH Hxy]; [exact Ha|]. apply (Hcl x y IH Hxy).
Qed.

Hypothesis Hnoprune : forall e, is_prune (ctl e) = false.
Hypothesis Htree : forall u w, is_continue (ctl (EvTree u w)) = true.

Lemma ev_step_cinv st e st' : Tinv v starts st -> Cinv st ->
  ev_step v ctl starts st e st' -> (forall u w, e <> EvBack u w) -> Cinv st'.
Proof.
  intros Iv [F1 [F2 Fr]] H Hnb.
  inversion H as [u o dc fn t p Hu Hp | u w ws o dc fn t Hw | u w ws o dc fn t Hw Hf
                 | u w ws o dc fn t Hw | u o dc fn t]; subst; cbn [topen tdisc tfin tpend] in *.
  - split; [exact F1|]. split; [exact F2|]. cbn [topen tfin tpend]. rewrite Hnoprune.
    cbn [frames_ok]. split; [intros w Hw; left; exact Hw|].
    destruct Hp as [->|[-> [-> _]]]; [exact Fr | exact I].
  - split; [exact F1|]. split; [exact F2|]. cbn [topen tfin tpend]. rewrite Htree.
    cbn [frames_ok] in *. destruct Fr as [Ht Hr]. split; [|exact Hr].
    intros x Hx. destruct (Ht x Hx) as [[<-|H1]|[H2|H3]];
      [right; right; reflexivity | left; exact H1 | right; left; exact H2 | discriminate H3].
  - exfalso. apply (Hnb u w). reflexivity.
  - split; [exact F1|]. split; [exact F2|]. cbn [topen tfin tpend].
    cbn [frames_ok] in *. destruct Fr as [Ht Hr]. split; [|exact Hr].
    intros x Hx. destruct (Ht x Hx) as [[<-|H1]|[H2|H3]];
      [right; left; exact Hw | left; exact H1 | right; left; exact H2 | discriminate H3].
  - cbn [frames_ok] in Fr. destruct Fr as [Ht Hr].
    assert (Hsucc : forall w, step v u w -> In w fn).
    { intros w Hw. destruct (Ht w Hw) as [[]|[H2|H3]]; [exact H2 | discriminate H3]. }
    assert (Hcl : forall a b, In a (u :: fn) -> step v a b -> In b (u :: fn)).
    { intros a b [<-|Ha] Hab; right; [apply Hsucc; exact Hab | apply (F1 a b Ha Hab)]. }
    split; [exact Hcl|]. split.
    + intros a [<-|Ha]; [|apply F2; exact Ha].
      intros [c' [Hs R]].
      apply (ti_open_fin _ _ _ Iv u); [left; reflexivity|]. cbn [tfin].
      apply (closed_reach fn F1 c' u R). apply Hsucc; exact Hs.
    + cbn [topen tfin tpend]. apply frames_child_done; exact Hr.
Qed.

Lemma ev_run_cinv st evs st' : Tinv v starts st -> Cinv st ->
  ev_run v ctl starts st evs st' -> (forall u w, ~ In (EvBack u w) evs) -> Cinv st'.
Proof.
  intros I C R. induction R as [st | st e st1 evs st2 Hs Hr IH]; intros Hnb; [exact C|].
  apply IH.
  - eapply ev_step_inv; eauto.
  - eapply ev_step_cinv; eauto. intros u w ->. apply (Hnb u w). left; reflexivity.
  - intros u w Hin. apply (Hnb u w). right; exact Hin.
Qed.

Lemma cinv_init : Cinv tinit.
Proof. split; [intros u w []|]. split; [intros u []|]. exact I. Qed.

End Machine.

(* ------------------------------------------------------------------ *)
(* is_cyclic_directed                                                  *)

Theorem is_cyclic_directed_spec v debug : VOk v ->
  exists b, is_cyclic_directed v debug = Ok b /\
            (b = true <-> exists n, In n (vnodes v) /\ on_cycle v n).
Proof.
  intros Hv.
  assert (Hst : forall r, In r (vnodes v) -> in_cap v r) by (destruct Hv as [[_ Hc] _]; exact Hc).
  assert (Hfp : forall u t, back_ctl (EvFinish u t) <> CPrune) by (intros u t; discriminate).
  destruct (dfsvisit_vok v back_ctl debug (vnodes v) Hv Hst Hfp) as [brk [evs [st [E [R [Hb [Hend _]]]]]]].
  assert (Eq : is_cyclic_directed v debug = rmap fst (depth_first_search v back_ctl debug (vnodes v)))
    by reflexivity.
  rewrite Eq, E. cbn [rmap fst]. exists brk. split; [reflexivity|].
  destruct brk.
  - split; [intros _|reflexivity]. cbn [brk_ok] in Hb. destruct Hb as [pre [e [Eevs [_ Hbrk]]]].
    destruct e as [u t|u w|u w|u w|u t]; try discriminate Hbrk. subst evs.
    apply ev_run_split in R. destruct R as [st1 [st2 [R1 [Hs _]]]].
    pose proof (ev_run_inv _ _ _ _ _ _ (tinv_init v (vnodes v)) R1) as I1.
    assert (C1 : chain v (map fst (topen st1))).
    { apply (ev_run_chain v back_ctl (vnodes v) tinit pre st1 (tinv_init v (vnodes v))); [exact I|exact R1]. }
    pose proof (ev_step_back_open _ _ _ _ _ _ _ I1 Hs) as Hopen.
    destruct (ev_step_edge _ _ _ _ _ _ I1 Hs u w (or_intror (or_introl eq_refl))) as [Huw [ws [o Eo]]].
    rewrite Eo in C1, Hopen. cbn [map fst] in C1, Hopen.
    exists u. split.
    + destruct Hv as [_ [Hn _]]. apply (Hn u w Huw).
    + exists w. split; [exact Huw | apply (chain_reach v (map fst o) u w C1 Hopen)].
  - split; [discriminate|]. intros [n [Nn Hcyc]]. exfalso.
    destruct (Hend eq_refl) as [Ho [_ Hroots]].
    pose proof (ev_run_inv _ _ _ _ _ _ (tinv_init v (vnodes v)) R) as I1.
    cbn [brk_ok] in Hb. unfold quiet in Hb. rewrite Forall_forall in Hb.
    assert (C1 : Cinv v st).
    { apply (ev_run_cinv v back_ctl (vnodes v)) with (st := tinit) (evs := evs).
      - intros e; destruct e; reflexivity.
      - intros u w; reflexivity.
      - apply tinv_init.
      - apply cinv_init.
      - exact R.
      - intros u w Hin. apply (Hb _ Hin). reflexivity. }
    destruct C1 as [_ [F2 _]]. apply (F2 n); [|exact Hcyc].
    destruct (ti_cover _ _ _ I1 n (Hroots n Nn)) as [H|H]; [exact H | rewrite Ho in H; destruct H].
Qed.
