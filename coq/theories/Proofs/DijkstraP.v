(* dijkstra over a view: exact distances on non-negative weights, for every tie-breaking
   order of the heap, with the model's own fuel. *)
From Coq Require Import Lia ZArith List Permutation.
From PG Require Import Lib.Io Model.View Model.Traversal Model.ShortestM Spec.Paths.
Set Implicit Arguments.
Unset Strict Implicit.
Open Scope Z_scope.

(* ------------------------------------------------------------------ score maps *)
Lemma sget_sset m k x k' : sget (sset m k x) k' = if Nat.eqb k k' then Some x else sget m k'.
Proof.
  induction m as [|[k0 x0] t IH]; cbn [sset sget].
  - reflexivity.
  - destruct (Nat.eqb_spec k0 k) as [->|Hne]; cbn [sget].
    + destruct (Nat.eqb k k'); reflexivity.
    + rewrite IH. destruct (Nat.eqb_spec k0 k') as [->|Hne'].
      * destruct (Nat.eqb_spec k k'); [congruence|reflexivity].
      * reflexivity.
Qed.

Lemma sset_keys m k x a : In a (map fst (sset m k x)) -> a = k \/ In a (map fst m).
Proof.
  induction m as [|[k0 x0] t IH]; cbn [sset map fst In].
  - intros [H|[]]; auto.
  - destruct (Nat.eqb_spec k0 k) as [->|Hne]; cbn [map fst In].
    + intros [H|H]; auto.
    + intros [H|H]; auto. destruct (IH H); auto.
Qed.

Lemma sset_nodup m k x : NoDup (map fst m) -> NoDup (map fst (sset m k x)).
Proof.
  induction m as [|[k0 x0] t IH]; cbn [sset map fst]; intros H.
  - constructor; [intros []|constructor].
  - inversion H as [|a l Hnin Hnd]; subst.
    destruct (Nat.eqb_spec k0 k) as [->|Hne]; cbn [map fst].
    + constructor; auto.
    + constructor; auto. intros Hin. destruct (sset_keys Hin); auto.
Qed.

(* ------------------------------------------------------------------ the heap *)
Definition hkey (e : hent) : Z := fst (fst e).
Definition hnode (e : hent) : nat := snd (fst e).
Definition hseq (e : hent) : nat := snd e.

(* any function that pops some entry of minimal key (insertion numbers being distinct) *)
Definition pop_spec (pop : heap -> option (hent * heap)) : Prop :=
  forall h, NoDup (map hseq h) ->
    match pop h with
    | None => h = []
    | Some (e, h') => Permutation h (e :: h') /\ forall e', In e' h -> hkey e <= hkey e'
    end.

Lemma hle_true a b : hle a b = true -> hkey a <= hkey b.
Proof.
  destruct a as [[ka na] sa], b as [[kb nb] sb]; unfold hle, hkey; cbn [fst snd].
  destruct (Z.ltb_spec ka kb); destruct (Z.eqb_spec ka kb); cbn [orb andb]; intros; try lia; discriminate.
Qed.

Lemma hle_false a b : hle a b = false -> hkey b <= hkey a.
Proof.
  destruct a as [[ka na] sa], b as [[kb nb] sb]; unfold hle, hkey; cbn [fst snd].
  destruct (Z.ltb_spec ka kb); destruct (Z.eqb_spec ka kb); cbn [orb andb]; intros; try lia; discriminate.
Qed.

Lemma hmin_spec l : forall b, In (hmin b l) (b :: l) /\ forall e, In e (b :: l) -> hkey (hmin b l) <= hkey e.
Proof.
  induction l as [|x t IH]; intros b; cbn [hmin].
  - split; [left; auto|]. intros e [<-|[]]; lia.
  - destruct (IH (if hle b x then b else x)) as [Hin Hmin].
    destruct (hle b x) eqn:E.
    + split.
      * destruct Hin as [Hin|Hin]; [left; auto|right; right; auto].
      * intros e [<-|[<-|He]].
        -- apply Hmin; left; auto.
        -- pose proof (Hmin b (or_introl eq_refl)). pose proof (hle_true E). lia.
        -- apply Hmin; right; auto.
    + split.
      * destruct Hin as [Hin|Hin]; [right; left; auto|right; right; auto].
      * intros e [<-|[<-|He]].
        -- pose proof (Hmin x (or_introl eq_refl)). pose proof (hle_false E). lia.
        -- apply Hmin; left; auto.
        -- apply Hmin; right; auto.
Qed.

Lemma hremove_perm m h : NoDup (map hseq h) -> In m h -> Permutation h (m :: hremove m h).
Proof.
  induction h as [|y t IH]; intros Hnd Hin; [destruct Hin|].
  inversion Hnd as [|a l Hnin Hnd']; subst.
  cbn [hremove]. destruct (Nat.eqb_spec (snd m) (snd y)) as [Heq|Hne].
  - destruct Hin as [->|Hin]; [apply Permutation_refl|].
    exfalso; apply Hnin. unfold hseq at 1. rewrite <- Heq. apply (in_map hseq _ _ Hin).
  - destruct Hin as [->|Hin]; [congruence|].
    eapply perm_trans; [apply perm_skip; apply IH; auto|apply perm_swap].
Qed.

Lemma hpop_spec : pop_spec hpop.
Proof.
  intros h Hnd. unfold hpop. destruct h as [|x t]; auto.
  destruct (hmin_spec t x) as [Hin Hmin]. split; auto.
  apply hremove_perm; auto.
Qed.

(* ------------------------------------------------------------------ the loop, for any pop *)
Fixpoint dij_loop_g (pop : heap -> option (hent * heap))
         (fuel : nat) (v : view) (goal : option nat) (visited : vmap) (scores : smap) (h : heap) (seq : nat)
  : res smap :=
  match fuel with
  | 0%nat => OutOfFuel
  | S f =>
      match pop h with
      | None => Ok scores
      | Some ((node_score, node, _), h') =>
          if is_visited visited node then dij_loop_g pop f v goal visited scores h' seq
          else if match goal with Some g => Nat.eqb g node | None => false end then Ok scores
          else
            let '(scores', h'', seq') := dij_edges (out_edges v node) node_score visited scores h' seq in
            rbind (visit v visited node) (fun '(_, visited') =>
              dij_loop_g pop f v goal visited' scores' h'' seq')
      end
  end.

Definition dijkstra_g (pop : heap -> option (hent * heap)) (v : view) (start : nat) (goal : option nat) : res smap :=
  dij_loop_g pop (4 * trav_fuel v) v goal [] [(start, 0)] [(0, start, 0%nat)] 1%nat.

Lemma dij_loop_g_hpop fuel v goal : forall visited scores h seq,
  dij_loop_g hpop fuel v goal visited scores h seq = dij_loop fuel v goal visited scores h seq.
Proof.
  induction fuel as [|f IH]; intros visited scores h seq; cbn [dij_loop_g dij_loop]; auto.
  destruct (hpop h) as [[[[k n] q] h']|]; auto.
  rewrite IH. destruct (is_visited visited n); auto.
  destruct (match goal with Some g => Nat.eqb g n | None => false end); auto.
  destruct (dij_edges (out_edges v n) k visited scores h' seq) as [[sc' h''] seq'].
  destruct (visit v visited n) as [[b vis']| |]; cbn [rbind]; auto.
Qed.

Lemma dijkstra_g_hpop v s goal : dijkstra_g hpop v s goal = dijkstra v s goal.
Proof. apply dij_loop_g_hpop. Qed.

Lemma visit_fresh v vis x : in_cap v x -> mem x vis = false -> visit v vis x = Ok (true, x :: vis).
Proof.
  unfold in_cap, visit. intros Hc Hm. destruct (vcap v) as [c|]; rewrite Hm; auto.
  destruct (Nat.leb_spec c x); auto; lia.
Qed.

Section Dijkstra.
  Variable pop : heap -> option (hent * heap).
  Hypothesis pop_ok : pop_spec pop.
  Variable v : view.
  Variable s : nat.
  Hypothesis HV : VOk v.
  Hypothesis HN : nonneg v.

  (* Exp u e: the out-entry e of u has been relaxed *)
  Record Inv (vis : vmap) (Exp : nat -> eref -> Prop) (sc : smap) (h : heap) (seq : nat) : Prop := {
    iW : forall x d, sget sc x = Some d -> exists p, walk v s p x /\ walk_cost p = d;
    iV : forall x, mem x vis = true ->
           exists d, sget sc x = Some d /\ forall p, walk v s p x -> d <= walk_cost p;
    iE : forall u e du, Exp u e -> sget sc u = Some du ->
           exists dx, sget sc (tgt e) = Some dx /\ dx <= du + ewgt e;
    iX : forall u e, Exp u e -> mem u vis = true;
    iH : forall x d, mem x vis = false -> sget sc x = Some d -> exists q, In (d, x, q) h;
    iK : forall k x q, In (k, x, q) h -> exists d, sget sc x = Some d /\ d <= k;
    iC : forall k x q, In (k, x, q) h -> in_cap v x;
    iS : exists d0, sget sc s = Some d0 /\ d0 <= 0;
    iQ : forall k x q, In (k, x, q) h -> (q < seq)%nat;
    iN : NoDup (map hseq h);
    iD : NoDup (map fst sc)
  }.
  Arguments iW {vis Exp sc h seq} i x {d} _.
  Arguments iV {vis Exp sc h seq} i x _.
  Arguments iE {vis Exp sc h seq} i u e {du} _ _.
  Arguments iX {vis Exp sc h seq} i u e _.
  Arguments iH {vis Exp sc h seq} i x {d} _ _.
  Arguments iK {vis Exp sc h seq} i k x q _.
  Arguments iC {vis Exp sc h seq} i k x q _.
  Arguments iQ {vis Exp sc h seq} i k x q _.

  Definition ExpV (vis : vmap) (u : nat) (e : eref) : Prop := mem u vis = true /\ In e (out_edges v u).
  Definition ExpD (vis : vmap) (x : nat) (done : list eref) (u : nat) (e : eref) : Prop :=
    ExpV vis u e \/ (u = x /\ In e done).

  Lemma mem_cons x y vis : mem y (x :: vis) = orb (Nat.eqb x y) (mem y vis).
  Proof. reflexivity. Qed.

  Lemma Inv_exp_ext vis (E1 E2 : nat -> eref -> Prop) sc h seq :
    (forall u e, E2 u e -> E1 u e) -> Inv vis E1 sc h seq -> Inv vis E2 sc h seq.
  Proof.
    intros Hsub I. constructor; try solve [apply I].
    - intros u e du HE. apply (iE I). auto.
    - intros u e HE. apply (iX I _ _ (Hsub _ _ HE)).
  Qed.

  (* ---------------------------------------------------------------- the frontier argument *)
  Lemma frontier vis sc h seq : Inv vis (ExpV vis) sc h seq ->
    forall a p y, walk v a p y -> forall da, sget sc a = Some da ->
      (mem y vis = true /\ exists dy, sget sc y = Some dy /\ dy <= da + walk_cost p) \/
      (exists z dz, mem z vis = false /\ sget sc z = Some dz /\ dz <= da + walk_cost p).
  Proof.
    intros I a p y W. induction W as [a | a e p b He Hp IH]; intros da Ha.
    - cbn [walk_cost]. destruct (mem a vis) eqn:Em.
      + left. split; auto. exists da; split; auto; lia.
      + right. exists a, da; repeat split; auto; lia.
    - cbn [walk_cost]. pose proof (HN He) as Hw.
      pose proof (walk_cost_nonneg HN Hp) as Hc.
      destruct (mem a vis) eqn:Em.
      + destruct (iE I a e (conj Em He) Ha) as [dt [Ht Hle]].
        destruct (IH _ Ht) as [[Hy [dy [Hdy Hl]]]|[z [dz [Hz [Hdz Hl]]]]].
        * left. split; auto. exists dy; split; auto; lia.
        * right. exists z, dz; repeat split; auto; lia.
      + right. exists a, da; repeat split; auto; lia.
  Qed.

  Lemma pop_min vis sc h seq k x q : Inv vis (ExpV vis) sc h seq ->
    (forall e', In e' h -> k <= hkey e') -> In (k, x, q) h -> mem x vis = false ->
    sget sc x = Some k /\ forall p, walk v s p x -> k <= walk_cost p.
  Proof.
    intros I Hmin Hin Hx.
    destruct (iK I _ _ _ Hin) as [d [Hd Hdk]].
    destruct (iH I _ Hx Hd) as [q' Hq'].
    pose proof (Hmin _ Hq') as Hkd. unfold hkey in Hkd; cbn [fst] in Hkd.
    assert (d = k) as -> by lia. split; auto.
    intros p W. destruct (iS I) as [d0 [Hd0 Hle0]].
    destruct (frontier I W Hd0) as [[Hy _]|[z [dz [Hz [Hdz Hl]]]]]; [congruence|].
    destruct (iH I _ Hz Hdz) as [q'' Hq''].
    pose proof (Hmin _ Hq'') as Hkz. unfold hkey in Hkz; cbn [fst] in Hkz. lia.
  Qed.

  (* nodes strictly closer than a minimal key of an unvisited node are visited and exact *)
  Lemma closer_exact vis sc h seq k : Inv vis (ExpV vis) sc h seq ->
    (forall e', In e' h -> k <= hkey e') ->
    forall y d, is_dist v s y d -> d < k -> sget sc y = Some d.
  Proof.
    intros I Hmin y d [[p [W C]] L] Hlt.
    destruct (iS I) as [d0 [Hd0 Hle0]].
    destruct (frontier I W Hd0) as [[Hy [dy [Hdy Hl]]]|[z [dz [Hz [Hdz Hl]]]]].
    - destruct (iW I _ Hdy) as [p' [W' C']]. pose proof (L _ W'). f_equal; rewrite Hdy; f_equal; lia.
    - destruct (iH I _ Hz Hdz) as [q' Hq'].
      pose proof (Hmin _ Hq') as Hkz. unfold hkey in Hkz; cbn [fst] in Hkz. lia.
  Qed.

  (* an empty heap: the scores are exactly the distances *)
  Lemma final_exact vis sc seq : Inv vis (ExpV vis) sc [] seq ->
    forall x d, sget sc x = Some d <-> is_dist v s x d.
  Proof.
    intros I x d. split.
    - intros Hd. destruct (mem x vis) eqn:Em.
      + destruct (iV I _ Em) as [d' [Hd' L]]. assert (d' = d) as -> by congruence.
        split; auto. apply (iW I _ Hd).
      + destruct (iH I _ Em Hd) as [q []].
    - intros [[p [W C]] L]. destruct (iS I) as [d0 [Hd0 Hle0]].
      destruct (frontier I W Hd0) as [[Hy [dy [Hdy Hl]]]|[z [dz [Hz [Hdz Hl]]]]].
      + destruct (iW I _ Hdy) as [p' [W' C']]. pose proof (L _ W'). rewrite Hdy; f_equal; lia.
      + destruct (iH I _ Hz Hdz) as [q' []].
  Qed.

  (* ---------------------------------------------------------------- popping *)
  Lemma Inv_pop vis vis' Exp sc h h' seq e : Inv vis Exp sc h seq ->
    Permutation h (e :: h') ->
    (forall y, mem y vis' = false -> mem y vis = false /\ y <> hnode e) ->
    (forall y, mem y vis = true -> mem y vis' = true) ->
    (forall y, mem y vis' = true ->
       exists d, sget sc y = Some d /\ forall p, walk v s p y -> d <= walk_cost p) ->
    Inv vis' Exp sc h' seq.
  Proof.
    intros I HP Hsub Hmono HV'.
    assert (Hin : forall e', In e' h' -> In e' h).
    { intros e' H. eapply Permutation_in; [apply Permutation_sym; apply HP|right; auto]. }
    constructor; try solve [apply I]; auto.
    - intros u e0 HE. apply Hmono. apply (iX I _ _ HE).
    - intros y d Hy Hd. destruct (Hsub _ Hy) as [Hy' Hne].
      destruct (iH I _ Hy' Hd) as [q Hq]. exists q.
      pose proof (Permutation_in _ HP Hq) as [He|H]; auto.
      exfalso; apply Hne; rewrite He; reflexivity.
    - intros k x q H. apply (iK I _ _ _ (Hin _ H)).
    - intros k x q H. apply (iC I _ _ _ (Hin _ H)).
    - intros k x q H. apply (iQ I _ _ _ (Hin _ H)).
    - pose proof (Permutation_NoDup (Permutation_map hseq HP) (iN I)) as Hnd.
      cbn [map] in Hnd. inversion Hnd; auto.
  Qed.

  (* ---------------------------------------------------------------- relaxing one out-entry *)
  Lemma ExpD_snoc vis x done e u e' :
    ExpD vis x (done ++ [e]) u e' -> ExpD vis x done u e' \/ (u = x /\ e' = e).
  Proof.
    intros [H|[Hu Hin]]; [left; left; auto|].
    apply in_app_or in Hin. destruct Hin as [Hin|[<-|[]]]; [left; right; auto|right; auto].
  Qed.

  Lemma step_keep vis x k done e sc h seq :
    Inv (x :: vis) (ExpD vis x done) sc h seq -> sget sc x = Some k ->
    (exists dx, sget sc (tgt e) = Some dx /\ dx <= k + ewgt e) ->
    Inv (x :: vis) (ExpD vis x (done ++ [e])) sc h seq.
  Proof.
    intros I Hx Hev. constructor; try solve [apply I].
    - intros u e' du HE Hu. destruct (ExpD_snoc HE) as [HE'|[-> ->]].
      + apply (iE I _ _ HE' Hu).
      + assert (du = k) as -> by congruence. auto.
    - intros u e' HE. destruct (ExpD_snoc HE) as [HE'|[-> ->]].
      + apply (iX I _ _ HE').
      + rewrite mem_cons, Nat.eqb_refl; reflexivity.
  Qed.

  Lemma step_upd vis x k done e sc h seq :
    Inv (x :: vis) (ExpD vis x done) sc h seq -> sget sc x = Some k ->
    In e (out_edges v x) -> mem (tgt e) (x :: vis) = false ->
    (forall old, sget sc (tgt e) = Some old -> k + ewgt e < old) ->
    Inv (x :: vis) (ExpD vis x (done ++ [e])) (sset sc (tgt e) (k + ewgt e))
        (h ++ [(k + ewgt e, tgt e, seq)]) (S seq).
  Proof.
    intros I Hx He Ht Hlt. set (t := tgt e) in *. set (ns := k + ewgt e) in *.
    assert (Hvis : forall y, mem y (x :: vis) = true -> sget (sset sc t ns) y = sget sc y).
    { intros y Hy. rewrite sget_sset. destruct (Nat.eqb_spec t y) as [<-|]; congruence. }
    constructor.
    - intros y d. rewrite sget_sset. destruct (Nat.eqb_spec t y) as [<-|Hne].
      + intros [= <-]. destruct (iW I _ Hx) as [p [W C]].
        exists (p ++ [e]). split; [apply (walk_snoc e W He)|]. rewrite walk_cost_snoc. subst ns; lia.
      + apply (iW I).
    - intros y Hy. rewrite (Hvis _ Hy). apply (iV I _ Hy).
    - intros u e' du HE Hu.
      assert (Hum : mem u (x :: vis) = true).
      { destruct (ExpD_snoc HE) as [HE'|[-> _]]; [apply (iX I _ _ HE')|].
        rewrite mem_cons, Nat.eqb_refl; reflexivity. }
      rewrite (Hvis _ Hum) in Hu.
      destruct (ExpD_snoc HE) as [HE'|[-> ->]].
      + destruct (iE I _ _ HE' Hu) as [dx [Hdx Hle]].
        rewrite sget_sset. destruct (Nat.eqb_spec t (tgt e')) as [Heq|Hne].
        * exists ns; split; auto. rewrite <- Heq in Hdx. pose proof (Hlt _ Hdx). lia.
        * exists dx; auto.
      + assert (du = k) as -> by congruence.
        exists ns. rewrite sget_sset. fold t. rewrite Nat.eqb_refl. split; auto. subst ns; lia.
    - intros u e' HE. destruct (ExpD_snoc HE) as [HE'|[-> _]]; [apply (iX I _ _ HE')|].
      rewrite mem_cons, Nat.eqb_refl; reflexivity.
    - intros y d Hy. rewrite sget_sset. destruct (Nat.eqb_spec t y) as [<-|Hne].
      + intros [= <-]. exists seq. apply in_or_app; right; left; auto.
      + intros Hd. destruct (iH I _ Hy Hd) as [q Hq]. exists q. apply in_or_app; auto.
    - intros k' y q Hin. apply in_app_or in Hin. destruct Hin as [Hin|[[= <- <- <-]|[]]].
      + destruct (iK I _ _ _ Hin) as [d [Hd Hle]]. rewrite sget_sset.
        destruct (Nat.eqb_spec t y) as [<-|Hne].
        * exists ns; split; auto. pose proof (Hlt _ Hd). lia.
        * exists d; auto.
      + exists ns. rewrite sget_sset, Nat.eqb_refl. split; auto; lia.
    - intros k' y q Hin. apply in_app_or in Hin. destruct Hin as [Hin|[[= <- <- <-]|[]]].
      + apply (iC I _ _ _ Hin).
      + apply (vok_cap HV _ _ He).
    - destruct (iS I) as [d0 [Hd0 Hle0]]. rewrite sget_sset.
      destruct (Nat.eqb_spec t s) as [Heq|Hne].
      + exists ns; split; auto. rewrite <- Heq in Hd0. pose proof (Hlt _ Hd0). lia.
      + exists d0; auto.
    - intros k' y q Hin. apply in_app_or in Hin. destruct Hin as [Hin|[[= <- <- <-]|[]]].
      + pose proof (iQ I _ _ _ Hin). lia.
      + lia.
    - rewrite map_app. cbn [map hseq snd].
      apply (Permutation_NoDup (Permutation_cons_append _ _)).
      constructor; [|apply (iN I)].
      intros Hin. apply in_map_iff in Hin. destruct Hin as [[[k' y] q] [Hq Hin]].
      unfold hseq in Hq; cbn [snd] in Hq; subst q.
      pose proof (iQ I _ _ _ Hin). lia.
    - apply sset_nodup. apply (iD I).
  Qed.

  Lemma dij_edges_inv vis x k : mem x vis = false ->
    forall es done sc h seq,
      (forall e, In e es -> In e (out_edges v x)) ->
      Inv (x :: vis) (ExpD vis x done) sc h seq -> sget sc x = Some k ->
      exists sc' h' seq', dij_edges es k vis sc h seq = (sc', h', seq') /\
        Inv (x :: vis) (ExpD vis x (done ++ es)) sc' h' seq' /\ sget sc' x = Some k /\
        (length h' <= length h + length es)%nat.
  Proof.
    intros Hxv. induction es as [|e rest IH]; intros done sc h seq Hes I Hx.
    - exists sc, h, seq. rewrite app_nil_r. cbn [dij_edges length]. split; [reflexivity|split; [exact I|split; [exact Hx|lia]]].
    - assert (He : In e (out_edges v x)) by (apply Hes; left; auto).
      assert (Hrest : forall e', In e' rest -> In e' (out_edges v x)) by (intros e' H; apply Hes; right; auto).
      pose proof (HN He) as Hw.
      assert (Happ : done ++ e :: rest = (done ++ [e]) ++ rest) by (rewrite <- app_assoc; reflexivity).
      rewrite Happ. cbn [dij_edges length]. unfold is_visited.
      destruct (mem (tgt e) vis) eqn:Et.
      + (* target already visited: its score is a lower bound *)
        assert (I' : Inv (x :: vis) (ExpD vis x (done ++ [e])) sc h seq).
        { apply step_keep with (k := k); auto.
          assert (Htm : mem (tgt e) (x :: vis) = true) by (rewrite mem_cons, Et; apply Bool.orb_true_r).
          destruct (iV I _ Htm) as [dt [Hdt L]]. exists dt; split; auto.
          destruct (iW I _ Hx) as [p [W C]].
          pose proof (L _ (walk_snoc e W He)) as Hl. rewrite walk_cost_snoc in Hl. lia. }
        destruct (IH _ _ _ _ Hrest I' Hx) as [sc' [h' [seq' [E [I'' [Hx' Hlen]]]]]].
        exists sc', h', seq'. split; [exact E|split; [exact I''|split; [exact Hx'|lia]]].
      + destruct (sget sc (tgt e)) as [old|] eqn:Eo.
        * destruct (Z.ltb_spec (k + ewgt e) old) as [Hlt|Hge].
          -- assert (Hne : tgt e <> x) by (intros Heq; rewrite Heq in Eo; assert (old = k) by congruence; lia).
             assert (Htm : mem (tgt e) (x :: vis) = false).
             { rewrite mem_cons, Et. destruct (Nat.eqb_spec x (tgt e)); [congruence|reflexivity]. }
             assert (I' := @step_upd vis x k done e sc h seq I Hx He Htm).
             destruct (IH (done ++ [e]) (sset sc (tgt e) (k + ewgt e)) (h ++ [(k + ewgt e, tgt e, seq)]) (S seq) Hrest)
               as [sc' [h' [seq' [E [I'' [Hx' Hlen]]]]]].
             { apply I'. intros old' Ho. assert (old' = old) by congruence. lia. }
             { rewrite sget_sset. destruct (Nat.eqb_spec (tgt e) x); [congruence|auto]. }
             exists sc', h', seq'. rewrite app_length in Hlen. cbn [length] in Hlen.
             split; [exact E|split; [exact I''|split; [exact Hx'|lia]]].
          -- assert (I' : Inv (x :: vis) (ExpD vis x (done ++ [e])) sc h seq).
             { apply step_keep with (k := k); auto. exists old; split; auto. }
             destruct (IH _ _ _ _ Hrest I' Hx) as [sc' [h' [seq' [E [I'' [Hx' Hlen]]]]]].
             exists sc', h', seq'. split; [exact E|split; [exact I''|split; [exact Hx'|lia]]].
        * assert (Hne : tgt e <> x) by (intros Heq; rewrite Heq in Eo; congruence).
          assert (Htm : mem (tgt e) (x :: vis) = false).
          { rewrite mem_cons, Et. destruct (Nat.eqb_spec x (tgt e)); [congruence|reflexivity]. }
          assert (I' := @step_upd vis x k done e sc h seq I Hx He Htm).
          destruct (IH (done ++ [e]) (sset sc (tgt e) (k + ewgt e)) (h ++ [(k + ewgt e, tgt e, seq)]) (S seq) Hrest)
            as [sc' [h' [seq' [E [I'' [Hx' Hlen]]]]]].
          { apply I'. intros old' Ho. congruence. }
          { rewrite sget_sset. destruct (Nat.eqb_spec (tgt e) x); [congruence|auto]. }
          exists sc', h', seq'. rewrite app_length in Hlen. cbn [length] in Hlen.
          split; [exact E|split; [exact I''|split; [exact Hx'|lia]]].
  Qed.

  (* ---------------------------------------------------------------- fuel *)
  Definition Phi (vis : vmap) : nat :=
    list_sum (map (fun a => if mem a vis then 0%nat else length (out_edges v a)) (vnodes v)).

  Lemma list_sum_cons a l : list_sum (a :: l) = (a + list_sum l)%nat.
  Proof. reflexivity. Qed.

  Lemma Phi_aux vis x l : mem x vis = false ->
    (list_sum (map (fun a => if mem a (x :: vis) then 0%nat else length (out_edges v a)) l)
     <= list_sum (map (fun a => if mem a vis then 0%nat else length (out_edges v a)) l))%nat /\
    (In x l ->
     (list_sum (map (fun a => if mem a (x :: vis) then 0%nat else length (out_edges v a)) l)
      + length (out_edges v x)
      <= list_sum (map (fun a => if mem a vis then 0%nat else length (out_edges v a)) l))%nat).
  Proof.
    intros Hx. induction l as [|a t [IH1 IH2]]; cbn [map].
    - split; [cbn; lia|intros []].
    - rewrite !list_sum_cons, mem_cons. destruct (Nat.eqb_spec x a) as [<-|Hne]; cbn [orb].
      + rewrite Hx. split; intros; lia.
      + split.
        * destruct (mem a vis); lia.
        * intros [Heq|Hin]; [congruence|]. specialize (IH2 Hin). destruct (mem a vis); lia.
  Qed.

  Lemma Phi_visit vis x : mem x vis = false ->
    (Phi (x :: vis) + length (out_edges v x) <= Phi vis)%nat.
  Proof.
    intros Hx. unfold Phi. destruct (@Phi_aux vis x (vnodes v) Hx) as [H1 H2].
    assert (Hc : out_edges v x = [] \/ out_edges v x <> []).
    { destruct (out_edges v x); [left; auto|right; discriminate]. }
    destruct Hc as [E|E].
    - rewrite E. cbn [length]. lia.
    - apply H2. apply (vok_nodes HV _ E).
  Qed.

  Lemma Phi_nil : Phi [] = length (all_out v).
  Proof.
    unfold Phi, all_out. cbn [mem]. induction (vnodes v) as [|a t IH]; cbn [map flat_map]; auto.
    rewrite list_sum_cons, app_length, map_length, IH. reflexivity.
  Qed.

  (* ---------------------------------------------------------------- the loop *)
  Definition Post (goal : option nat) (m : smap) : Prop :=
    NoDup (map fst m) /\
    (forall x d, sget m x = Some d -> exists p, walk v s p x /\ walk_cost p = d) /\
    ((forall x d, sget m x = Some d <-> is_dist v s x d) \/
     (exists g k, goal = Some g /\ sget m g = Some k /\ is_dist v s g k /\
                  forall x d, is_dist v s x d -> d < k -> sget m x = Some d)).

  Lemma ExpD_full vis x u e : ExpV (x :: vis) u e -> ExpD vis x ([] ++ out_edges v x) u e.
  Proof.
    intros [Hm He]. rewrite mem_cons in Hm. cbn [app].
    destruct (Nat.eqb_spec x u) as [<-|Hne]; [right; auto|left; split; auto].
  Qed.

  Lemma loop_ok goal : forall fuel vis sc h seq,
    Inv vis (ExpV vis) sc h seq -> (length h + Phi vis < fuel)%nat ->
    exists m, dij_loop_g pop fuel v goal vis sc h seq = Ok m /\ Post goal m.
  Proof.
    induction fuel as [|f IH]; intros vis sc h seq I Hf; [lia|].
    cbn [dij_loop_g]. pose proof (pop_ok (iN I)) as Hpop.
    destruct (pop h) as [[[[k x] q] h']|].
    - destruct Hpop as [HP Hmin].
      assert (Hin : In (k, x, q) h) by (eapply Permutation_in; [apply Permutation_sym; apply HP|left; auto]).
      assert (Hlen : length h = S (length h')) by (rewrite (Permutation_length HP); reflexivity).
      assert (Hmin' : forall e', In e' h -> k <= hkey e') by (intros e' H; apply (Hmin _ H)).
      unfold is_visited. destruct (mem x vis) eqn:Ex.
      + apply IH; [|lia].
        apply (Inv_pop (vis':=vis) I HP); auto.
        * intros y Hy; split; auto. intros ->. unfold hnode in Hy; cbn [fst snd] in Hy. congruence.
        * apply (iV I).
      + destruct (pop_min I Hmin' Hin Ex) as [Hsx Hlow].
        destruct (match goal with Some g => Nat.eqb g x | None => false end) eqn:Eg.
        * exists sc. split; auto. split; [apply (iD I)|]. split; [apply (iW I)|]. right.
          destruct goal as [g|]; [|discriminate]. apply Nat.eqb_eq in Eg; subst g.
          exists x, k. repeat split; auto.
          -- apply (iW I _ Hsx).
          -- apply (closer_exact I Hmin').
        * assert (I0 : Inv (x :: vis) (ExpD vis x []) sc h' seq).
          { apply Inv_exp_ext with (E1 := ExpV vis).
            { intros u e [H|[_ []]]; auto. }
            apply (Inv_pop (vis':=x :: vis) I HP).
            - intros y Hy. rewrite mem_cons in Hy. apply Bool.orb_false_iff in Hy. destruct Hy as [Hy1 Hy2].
              split; auto. unfold hnode; cbn [fst snd]. intros ->. rewrite Nat.eqb_refl in Hy1; discriminate.
            - intros y Hy. rewrite mem_cons, Hy. apply Bool.orb_true_r.
            - intros y Hy. destruct (Nat.eq_dec x y) as [Heq|Hne].
              + subst y. exists k; auto.
              + apply (iV I). rewrite mem_cons in Hy. apply Nat.eqb_neq in Hne. rewrite Hne in Hy. exact Hy. }
          destruct (@dij_edges_inv vis x k Ex (out_edges v x) [] sc h' seq (fun e H => H) I0 Hsx)
            as [sc' [h'' [seq' [E [I1 [_ Hlen']]]]]].
          rewrite E. rewrite (visit_fresh (iC I _ _ _ Hin) Ex). cbn [rbind].
          apply IH.
          -- apply Inv_exp_ext with (E1 := ExpD vis x ([] ++ out_edges v x)); auto.
             intros u e. apply ExpD_full.
          -- pose proof (Phi_visit Ex). lia.
    - subst h. exists sc. split; auto. split; [apply (iD I)|]. split; [apply (iW I)|]. left.
      apply (final_exact I).
  Qed.

  Hypothesis Hs : in_cap v s.

  Lemma Inv_init : Inv [] (ExpV []) [(s, 0)] [(0, s, 0%nat)] 1.
  Proof.
    constructor.
    - intros x d. cbn [sget]. destruct (Nat.eqb_spec s x) as [<-|]; [|discriminate].
      intros [= <-]. exists []; split; [constructor|reflexivity].
    - intros x H; discriminate.
    - intros u e du [H _]; discriminate.
    - intros u e [H _]; discriminate.
    - intros x d _. cbn [sget]. destruct (Nat.eqb_spec s x) as [<-|]; [|discriminate].
      intros [= <-]. exists 0%nat; left; auto.
    - intros k x q [[= <- <- <-]|[]]. exists 0. cbn [sget]. rewrite Nat.eqb_refl. split; auto; lia.
    - intros k x q [[= <- <- <-]|[]]. auto.
    - exists 0. cbn [sget]. rewrite Nat.eqb_refl. split; auto; lia.
    - intros k x q [[= <- <- <-]|[]]. lia.
    - cbn [map]. constructor; [intros []|constructor].
    - cbn [map]. constructor; [intros []|constructor].
  Qed.

  Lemma dijkstra_g_ok goal : exists m, dijkstra_g pop v s goal = Ok m /\ Post goal m.
  Proof.
    unfold dijkstra_g. apply loop_ok; [apply Inv_init|].
    rewrite Phi_nil. cbn [length]. unfold trav_fuel. lia.
  Qed.
End Dijkstra.

(* ------------------------------------------------------------------ the theorems *)
Theorem dijkstra_g_exact pop v s : pop_spec pop -> VOk v -> nonneg v -> in_cap v s ->
  exists m, dijkstra_g pop v s None = Ok m /\ NoDup (map fst m) /\
            forall x d, sget m x = Some d <-> is_dist v s x d.
Proof.
  intros Hp HV HN Hs. destruct (dijkstra_g_ok Hp HV HN Hs None) as [m [E [Hnd [_ [Hex|[g [k [Hg _]]]]]]]].
  - exists m; auto.
  - discriminate.
Qed.

Theorem dijkstra_exact v s : VOk v -> nonneg v -> in_cap v s ->
  exists m, dijkstra v s None = Ok m /\ NoDup (map fst m) /\
            forall x d, sget m x = Some d <-> is_dist v s x d.
Proof. intros HV HN Hs. rewrite <- dijkstra_g_hpop. apply dijkstra_g_exact; auto. apply hpop_spec. Qed.

Theorem dijkstra_g_goal pop v s g : pop_spec pop -> VOk v -> nonneg v -> in_cap v s ->
  exists m, dijkstra_g pop v s (Some g) = Ok m /\ NoDup (map fst m) /\
    (forall d, sget m g = Some d <-> is_dist v s g d) /\
    (forall x d, sget m x = Some d -> exists p, walk v s p x /\ walk_cost p = d) /\
    (forall x d dg, is_dist v s x d -> is_dist v s g dg -> d < dg -> sget m x = Some d) /\
    (~ reachable v s g -> forall x d, sget m x = Some d <-> is_dist v s x d).
Proof.
  intros Hp HV HN Hs.
  destruct (dijkstra_g_ok Hp HV HN Hs (Some g)) as [m [E [Hnd [HW [Hex|[g' [k [Hg [Hmg [Hdg Hcl]]]]]]]]]].
  - exists m. split; [exact E|]. split; [exact Hnd|]. split; [intros d; apply Hex|].
    split; [exact HW|]. split.
    + intros x d dg Hd _ _. apply Hex; auto.
    + intros _. exact Hex.
  - injection Hg as <-. exists m.
    split; [exact E|]. split; [exact Hnd|]. split; [|split; [exact HW|split]].
    + intros d; split.
      * intros Hd. assert (d = k) as -> by congruence. exact Hdg.
      * intros Hd. rewrite (is_dist_unique Hd Hdg). exact Hmg.
    + intros x d dg Hd Hg' Hlt. rewrite (is_dist_unique Hg' Hdg) in Hlt. auto.
    + intros Hnr. exfalso; apply Hnr. apply (is_dist_reachable Hdg).
Qed.

Theorem dijkstra_goal v s g : VOk v -> nonneg v -> in_cap v s ->
  exists m, dijkstra v s (Some g) = Ok m /\ NoDup (map fst m) /\
    (forall d, sget m g = Some d <-> is_dist v s g d) /\
    (forall x d, sget m x = Some d -> exists p, walk v s p x /\ walk_cost p = d) /\
    (forall x d dg, is_dist v s x d -> is_dist v s g dg -> d < dg -> sget m x = Some d) /\
    (~ reachable v s g -> forall x d, sget m x = Some d <-> is_dist v s x d).
Proof. intros HV HN Hs. rewrite <- dijkstra_g_hpop. apply dijkstra_g_goal; auto. apply hpop_spec. Qed.
