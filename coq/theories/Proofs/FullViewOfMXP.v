(* C06b: the view of a MatrixGraph (Model/FullViewOf2.v) is total under the C04 invariant MInv, and
   it is consistent exactly when every edge joins two existing nodes (ELive) -- provided the
   synthetic edge ids k*row+column are distinct, i.e. the matrix capacity is at most k. *)
From Coq Require Import Permutation Lia.
From PG Require Import Lib.Io Model.FullView Model.FullViewOf Model.FullViewOf2 Spec.ViewSpec
  Proofs.FullViewP Proofs.AdaptorP Proofs.FullViewOfP.
From PG Require Import Lib.ListArr Model.MatrixM Spec.MatrixSpec
  Proofs.MatrixReloc Proofs.MatrixTri Proofs.MatrixP Proofs.MatrixH Proofs.MatrixO.

(* ---------------- generic list facts ---------------- *)

Lemma NoDup_app_intro {A} (l1 l2 : list A) :
  NoDup l1 -> NoDup l2 -> (forall x, In x l1 -> In x l2 -> False) -> NoDup (l1 ++ l2).
Proof.
  intros H1 H2 Hd. induction l1 as [|h t IH]; cbn [app]; [exact H2|].
  inversion H1 as [|? ? Hh Ht]; subst. constructor.
  - rewrite in_app_iff. intros [H|H]; [exact (Hh H) | exact (Hd h (or_introl eq_refl) H)].
  - apply IH; [exact Ht|]. intros x Hx. apply Hd. right. exact Hx.
Qed.

Lemma NoDup_flat_map {A B} (f : A -> list B) (l : list A) :
  NoDup l -> (forall x, In x l -> NoDup (f x)) ->
  (forall x y z, In x l -> In y l -> In z (f x) -> In z (f y) -> x = y) ->
  NoDup (flat_map f l).
Proof.
  intros Hl Hf Hd. induction l as [|h t IH]; cbn [flat_map]; [constructor|].
  inversion Hl as [|? ? Hh Ht]; subst. apply NoDup_app_intro.
  - apply Hf. left. reflexivity.
  - apply IH; [exact Ht | intros x Hx; apply Hf; right; exact Hx|].
    intros x y z Hx Hy. apply Hd; right; assumption.
  - intros z Hz Hz'. apply in_flat_map in Hz'. destruct Hz' as (y & Hy & Hzy).
    apply Hh. rewrite (Hd h y z (or_introl eq_refl) (or_intror Hy) Hz Hzy). exact Hy.
Qed.

Lemma NoDup_map_on {A B} (f : A -> B) (l : list A) :
  NoDup l -> (forall x y, In x l -> In y l -> f x = f y -> x = y) -> NoDup (map f l).
Proof.
  intros Hl Hinj. induction l as [|h t IH]; cbn [map]; [constructor|].
  inversion Hl as [|? ? Hh Ht]; subst. constructor.
  - intro H. apply in_map_iff in H. destruct H as (y & E & Hy).
    apply Hh. rewrite (Hinj h y (or_introl eq_refl) (or_intror Hy) (eq_sym E)). exact Hy.
  - apply IH; [exact Ht|]. intros x y Hx Hy. apply Hinj; right; assumption.
Qed.

(* ---------------- membership in spec_out / spec_in ---------------- *)

Lemma q_flip_eq p q : q_flip p = q <-> p = q_flip q.
Proof. split; intro H; [rewrite <- H | rewrite H]; rewrite q_flip_flip; reflexivity. Qed.

Lemma in_spec_out d erefs a q :
  In q (spec_out d erefs a) <->
  (In q erefs /\ q_src q = a) \/
  (d = false /\ In (q_flip q) erefs /\ q_src q = a /\ q_tgt q <> a).
Proof.
  unfold spec_out. rewrite in_app_iff, filter_In, Nat.eqb_eq. destruct d.
  - cbn [In]. split; [intros [H|[]]; left; exact H | intros [H|(H & _)]; [left; exact H | discriminate]].
  - rewrite in_map_iff. split.
    + intros [H|(p & E & Hp)]; [left; exact H|]. right. split; [reflexivity|].
      apply filter_In in Hp. destruct Hp as [Hp Hc]. apply andb_true_iff in Hc.
      destruct Hc as [Ht Hs]. apply Nat.eqb_eq in Ht. apply negb_true_iff, Nat.eqb_neq in Hs.
      subst q. rewrite q_flip_flip, q_flip_src, q_flip_tgt. auto.
    + intros [H|(_ & Hf & Hs & Ht)]; [left; exact H|]. right. exists (q_flip q).
      split; [apply q_flip_flip|]. apply filter_In. split; [exact Hf|].
      rewrite q_flip_src, q_flip_tgt. apply andb_true_iff. split; [apply Nat.eqb_eq; exact Hs|].
      apply negb_true_iff, Nat.eqb_neq. exact Ht.
Qed.

Lemma q_flip_inj p q : q_flip p = q_flip q -> p = q.
Proof. intro H. rewrite <- (q_flip_flip p), H. apply q_flip_flip. Qed.

Lemma spec_out_nodup d erefs a :
  NoDup erefs ->
  (d = false -> forall q, In q erefs -> In (q_flip q) erefs -> q_src q = q_tgt q) ->
  NoDup (spec_out d erefs a).
Proof.
  intros Hn Hanti. unfold spec_out. apply NoDup_app_intro.
  - apply NoDup_filter. exact Hn.
  - destruct d; [constructor|]. apply NoDup_map_on; [apply NoDup_filter; exact Hn|].
    intros x y _ _. apply q_flip_inj.
  - destruct d; [intros x _ []|]. intros x Hx Hx'.
    apply filter_In in Hx. destruct Hx as [Hx Hs]. apply Nat.eqb_eq in Hs.
    apply in_map_iff in Hx'. destruct Hx' as (p & E & Hp). apply filter_In in Hp.
    destruct Hp as [Hp Hc]. apply andb_true_iff in Hc. destruct Hc as [Ht Hns].
    apply Nat.eqb_eq in Ht. apply negb_true_iff, Nat.eqb_neq in Hns.
    subst x. pose proof (Hanti eq_refl p Hp Hx) as E. lia.
Qed.

(* ---------------- the ids ---------------- *)

Lemma mx_id_inj k d r c r' c' : r < k -> c < k -> r' < k -> c' < k ->
  mx_id k d r c = mx_id k d r' c' ->
  (r = r' /\ c = c') \/ (d = false /\ r = c' /\ c = r').
Proof.
  intros Hr Hc Hr' Hc'. unfold mx_id. destruct d; intro E.
  - left. apply (base_inj k); assumption.
  - assert (L1 : Nat.max r c < k) by lia. assert (L2 : Nat.max r' c' < k) by lia.
    destruct (base_inj k (Nat.min r c) (Nat.max r c) (Nat.min r' c') (Nat.max r' c') L1 L2 E)
      as [E1 E2]. lia.
Qed.

Lemma mx_id_sym k r c : mx_id k false r c = mx_id k false c r.
Proof. unfold mx_id. rewrite Nat.min_comm, Nat.max_comm. reflexivity. Qed.

Lemma mx_quad_inj k d t t' : mx_quad k d t = mx_quad k d t' -> t = t'.
Proof.
  destruct t as [[r c] w], t' as [[r' c'] w']. unfold mx_quad. intro E.
  injection E as _ -> -> Ew. apply Nat2Z.inj in Ew. subst. reflexivity.
Qed.

(* ---------------- what the iterators list ---------------- *)

Definition ROW (d : bool) (g : mg) (a : nat) := scan_spec d g false a (seq 0 (ncap g)).
Definition COL (d : bool) (g : mg) (a : nat) := scan_spec d g true a (seq 0 (ncap g)).

Lemma in_scan d g by_rows a ks x y w :
  In (x, y, w) (scan_spec d g by_rows a ks) <->
  if by_rows then y = a /\ In x ks /\ get_edge_weight d g x a = Some w
  else x = a /\ In y ks /\ get_edge_weight d g a y = Some w.
Proof.
  unfold scan_spec. rewrite in_flat_map. destruct by_rows; split.
  - intros (c & Hc & H). destruct (get_edge_weight d g c a) as [w0|] eqn:E; [|destruct H].
    destruct H as [H|[]]. injection H as <- <- <-. auto.
  - intros (-> & Hx & E). exists x. split; [exact Hx|]. rewrite E. left. reflexivity.
  - intros (c & Hc & H). destruct (get_edge_weight d g a c) as [w0|] eqn:E; [|destruct H].
    destruct H as [H|[]]. injection H as <- <- <-. auto.
  - intros (-> & Hy & E). exists y. split; [exact Hy|]. rewrite E. left. reflexivity.
Qed.

Lemma scan_nodup d g by_rows a ks : NoDup ks -> NoDup (scan_spec d g by_rows a ks).
Proof.
  intro H. unfold scan_spec. apply NoDup_flat_map; [exact H| |].
  - intros c _. destruct by_rows.
    + destruct (get_edge_weight d g c a); repeat constructor; intros [].
    + destruct (get_edge_weight d g a c); repeat constructor; intros [].
  - intros c c' z _ _ Hz Hz'. destruct by_rows.
    + destruct (get_edge_weight d g c a); [|destruct Hz].
      destruct (get_edge_weight d g c' a); [|destruct Hz'].
      destruct Hz as [<-|[]]. destruct Hz' as [Hz'|[]]. injection Hz' as ->. reflexivity.
    + destruct (get_edge_weight d g a c); [|destruct Hz].
      destruct (get_edge_weight d g a c'); [|destruct Hz'].
      destruct Hz as [<-|[]]. destruct Hz' as [Hz'|[]]. injection Hz' as ->. reflexivity.
Qed.

Lemma get_some_lt d g x y w : get_edge_weight d g x y = Some w -> x < ncap g /\ y < ncap g.
Proof.
  intro E. destruct (Nat.lt_ge_cases x (ncap g)) as [Lx|Lx];
    [destruct (Nat.lt_ge_cases y (ncap g)) as [Ly|Ly]; [auto|]|];
    rewrite get_ge in E by auto; discriminate.
Qed.

Lemma in_ROW d g a x y w : In (x, y, w) (ROW d g a) <-> x = a /\ get_edge_weight d g a y = Some w.
Proof.
  unfold ROW. rewrite (in_scan d g false). rewrite in_seq. split; [tauto|].
  intros [-> E]. destruct (get_some_lt _ _ _ _ _ E). repeat split; [lia | lia | exact E].
Qed.

Lemma in_COL d g a x y w : In (x, y, w) (COL d g a) <-> y = a /\ get_edge_weight d g x a = Some w.
Proof.
  unfold COL. rewrite (in_scan d g true). rewrite in_seq. split; [tauto|].
  intros [-> E]. destruct (get_some_lt _ _ _ _ _ E). repeat split; [lia | lia | exact E].
Qed.

Lemma in_all_edges d g x y w :
  In (x, y, w) (all_edges d g) <-> get_edge_weight d g x y = Some w /\ (d = true \/ y <= x).
Proof.
  unfold all_edges. rewrite in_flat_map. split.
  - intros (r & Hr & H). apply (in_scan d g false) in H. destruct H as (-> & Hy & E).
    split; [exact E|]. apply in_seq in Hy. destruct d; cbn [row_width] in Hy; [left; reflexivity | right; lia].
  - intros [E Hd]. destruct (get_some_lt _ _ _ _ _ E) as [Lx Ly]. exists x.
    split; [apply in_seq; lia|]. apply (in_scan d g false). split; [reflexivity|].
    split; [|exact E]. apply in_seq. destruct d; cbn [row_width]; [lia|].
    destruct Hd as [Hd|Hd]; [discriminate | lia].
Qed.

Lemma all_edges_nodup d g : NoDup (all_edges d g).
Proof.
  unfold all_edges. apply NoDup_flat_map; [apply seq_NoDup| |].
  - intros r _. apply scan_nodup. apply seq_NoDup.
  - intros r r' [[x y] w] _ _ H H'. apply (in_scan d g false) in H. apply (in_scan d g false) in H'.
    destruct H as [-> _]. destruct H' as [-> _]. reflexivity.
Qed.

(* the view, explicitly *)
Definition F0 (k : nat) (d : bool) (g : mg) : fview :=
  let nodes := iter_ids g in
  let outs := map (fun a => (a, map (mx_quad k d) (ROW d g a))) nodes in
  let ins := if d then map (fun a => (a, map (mx_quad k d) (COL d g a))) nodes else [] in
  mkFv d (ub g) (Some (ub g)) (Some (nbe g)) None (Some (ids_len g)) false true d true
       nodes
       (map (fun a => (a, match get_node_weight g a with Some w => zn w | None => 0%Z end)) nodes)
       outs ins (mapv (map q_tgt) outs) (mapv (map q_src) ins)
       (map (mx_quad k d) (all_edges d g))
       (map (fun a => (a, filter (has_edge d g a) nodes)) nodes).

Lemma edges_of_ROW d g a : MInv d g -> edges_of d g a false = Ok (ROW d g a).
Proof.
  intro I. rewrite (edges_of_spec d g a false I). unfold ROW.
  destruct (Nat.leb_spec (ncap g) a) as [L|L]; [|reflexivity].
  rewrite scan_spec_beyond by exact L. reflexivity.
Qed.

Lemma edges_of_COL d g a : MInv d g -> edges_of d g a true = Ok (COL d g a).
Proof.
  intro I. rewrite (edges_of_spec d g a true I). unfold COL.
  destruct (Nat.leb_spec (ncap g) a) as [L|L]; [|reflexivity].
  rewrite scan_spec_beyond by exact L. reflexivity.
Qed.

Lemma fview_of_matrix_eq k d g : MInv d g -> fview_of_matrix_k k d g = Ok (F0 k d g).
Proof.
  intro I. unfold fview_of_matrix_k. cbv zeta.
  rewrite (rmapM_ok _ (fun a => (a, map (mx_quad k d) (ROW d g a))))
    by (intros a _; rewrite (edges_of_ROW d g a I); reflexivity).
  cbn [rbind].
  assert (Ein : (if d
           then rmapM (fun a => rmap (fun l => (a, map (mx_quad k d) l)) (edges_of d g a true))
                      (iter_ids g)
           else Ok []) =
          Ok (if d then map (fun a => (a, map (mx_quad k d) (COL d g a))) (iter_ids g) else [])).
  { destruct d; [|reflexivity]. apply rmapM_ok. intros a _.
    rewrite (edges_of_COL true g a I). reflexivity. }
  rewrite Ein. cbn [rbind]. rewrite (edge_references_spec d g I). cbn [rbind]. reflexivity.
Qed.

(* ---------------- consistency ---------------- *)

Section Cons.
  Variable k : nat.
  Variable d : bool.
  Variable g : mg.
  Hypothesis I : MInv d g.
  Hypothesis Hk : ncap g <= k.

  Lemma in_erefs q :
    In q (map (mx_quad k d) (all_edges d g)) <->
    exists x y w, q = mx_quad k d (x, y, w) /\ get_edge_weight d g x y = Some w /\
                  (d = true \/ y <= x).
  Proof.
    rewrite in_map_iff. split.
    - intros ([[x y] w] & <- & H). apply in_all_edges in H. exists x, y, w. tauto.
    - intros (x & y & w & -> & E & Hd). exists (x, y, w). split; [reflexivity|].
      apply in_all_edges. auto.
  Qed.

  Lemma erefs_nodup : NoDup (map (mx_quad k d) (all_edges d g)).
  Proof.
    apply NoDup_map_on; [apply all_edges_nodup|]. intros t t' _ _. apply mx_quad_inj.
  Qed.

  Lemma erefs_ids_nodup : NoDup (map q_id (map (mx_quad k d) (all_edges d g))).
  Proof.
    rewrite map_map. apply NoDup_map_on; [apply all_edges_nodup|].
    intros [[x y] w] [[x' y'] w'] H H'. apply in_all_edges in H. apply in_all_edges in H'.
    destruct H as [E Hd]. destruct H' as [E' Hd'].
    destruct (get_some_lt _ _ _ _ _ E) as [Lx Ly]. destruct (get_some_lt _ _ _ _ _ E') as [Lx' Ly'].
    unfold mx_quad. cbn [q_id]. intro Eid.
    assert (Exy : x = x' /\ y = y').
    { destruct (mx_id_inj k d x y x' y' ltac:(lia) ltac:(lia) ltac:(lia) ltac:(lia) Eid)
        as [H|(Hf & -> & ->)]; [exact H|].
      rewrite Hf in Hd, Hd'. destruct Hd as [Hd|Hd]; [discriminate|].
      destruct Hd' as [Hd'|Hd']; [discriminate|]. lia. }
    destruct Exy as [<- <-]. rewrite E in E'. injection E' as <-. reflexivity.
  Qed.

  Lemma erefs_anti : d = false -> forall q,
    In q (map (mx_quad k d) (all_edges d g)) -> In (q_flip q) (map (mx_quad k d) (all_edges d g)) ->
    q_src q = q_tgt q.
  Proof.
    intros Hd q Hq Hf. apply in_erefs in Hq. apply in_erefs in Hf.
    destruct Hq as (x & y & w & -> & _ & Ho). destruct Hf as (x' & y' & w' & Ef & _ & Ho').
    unfold mx_quad, q_flip in Ef. injection Ef as _ E1 E2 _. subst x' y'.
    cbn [mx_quad q_src q_tgt]. rewrite Hd in Ho, Ho'.
    destruct Ho as [Ho|Ho]; [discriminate|]. destruct Ho' as [Ho'|Ho']; [discriminate|]. lia.
  Qed.

  Lemma get_sym x y : d = false -> get_edge_weight d g x y = get_edge_weight d g y x.
  Proof. intros ->. apply get_undirected_sym. Qed.

  Lemma out_perm a :
    Permutation (map (mx_quad k d) (ROW d g a)) (spec_out d (map (mx_quad k d) (all_edges d g)) a).
  Proof.
    apply NoDup_Permutation.
    - apply NoDup_map_on; [apply scan_nodup; apply seq_NoDup|]. intros t t' _ _. apply mx_quad_inj.
    - apply spec_out_nodup; [apply erefs_nodup | apply erefs_anti].
    - intro q. rewrite in_spec_out, in_map_iff. split.
      + intros ([[x y] w] & <- & H). apply in_ROW in H. destruct H as [-> E].
        assert (Hcase : d = true \/ d = false) by (destruct d; auto).
        destruct Hcase as [Ed|Ed].
        * left. split; [|reflexivity]. apply in_erefs. exists a, y, w. auto.
        * destruct (Nat.le_gt_cases y a) as [L|L].
          -- left. split; [|reflexivity]. apply in_erefs. exists a, y, w. auto.
          -- right. split; [exact Ed|]. cbn [mx_quad q_src q_tgt q_flip].
             split; [|split; [reflexivity | lia]].
             apply in_erefs. exists y, a, w. split.
             ++ unfold mx_quad. rewrite Ed. rewrite (mx_id_sym k y a). reflexivity.
             ++ split; [rewrite <- E; apply get_sym; exact Ed | right; lia].
      + intros [[Hq Hs]|(Hd & Hf & Hs & Ht)].
        * apply in_erefs in Hq. destruct Hq as (x & y & w & -> & E & _).
          cbn [mx_quad q_src] in Hs. subst x. exists (a, y, w). split; [reflexivity|].
          apply in_ROW. auto.
        * apply in_erefs in Hf. destruct Hf as (x & y & w & Ef & E & _).
          apply q_flip_eq in Ef. subst q. cbn [mx_quad q_flip q_src q_tgt] in Hs, Ht. subst y.
          exists (a, x, w). split.
          -- unfold mx_quad, q_flip. rewrite Hd. rewrite (mx_id_sym k a x). reflexivity.
          -- apply in_ROW. split; [reflexivity|]. rewrite <- E. apply get_sym. exact Hd.
  Qed.

  Lemma in_perm a : d = true ->
    Permutation (map (mx_quad k d) (COL d g a)) (spec_in d (map (mx_quad k d) (all_edges d g)) a).
  Proof.
    intro Hd.
    assert (Es : forall er, spec_in d er a = filter (fun q => q_tgt q =? a) er)
      by (intro er; unfold spec_in; rewrite Hd; apply app_nil_r).
    rewrite Es. apply NoDup_Permutation.
    - apply NoDup_map_on; [apply scan_nodup; apply seq_NoDup|]. intros t t' _ _. apply mx_quad_inj.
    - apply NoDup_filter. apply erefs_nodup.
    - intro q. rewrite filter_In, Nat.eqb_eq, in_map_iff. split.
      + intros ([[x y] w] & <- & H). apply in_COL in H. destruct H as [-> E].
        split; [|reflexivity]. apply in_erefs. exists x, a, w. auto.
      + intros [Hq Ht]. apply in_erefs in Hq. destruct Hq as (x & y & w & -> & E & _).
        cbn [mx_quad q_tgt] in Ht. subst y. exists (x, a, w). split; [reflexivity|].
        apply in_COL. auto.
  Qed.

  Lemma has_edge_iff a b : has_edge d g a b = true <-> exists w, get_edge_weight d g a b = Some w.
  Proof.
    unfold has_edge. destruct (get_edge_weight d g a b) as [w|]; split.
    - intros _. exists w. reflexivity.
    - reflexivity.
    - discriminate.
    - intros [w H]. discriminate.
  Qed.

  Lemma adj_iff a b :
    has_edge d g a b = true <-> edge_between d (map (mx_quad k d) (all_edges d g)) a b.
  Proof.
    rewrite has_edge_iff. unfold edge_between. split.
    - intros [w E]. assert (Hcase : d = true \/ d = false) by (destruct d; auto).
      destruct Hcase as [Ed|Ed].
      + exists (mx_quad k d (a, b, w)). split; [|left; reflexivity].
        apply in_erefs. exists a, b, w. auto.
      + destruct (Nat.le_gt_cases b a) as [L|L].
        * exists (mx_quad k d (a, b, w)). split; [|left; reflexivity].
          apply in_erefs. exists a, b, w. auto.
        * exists (mx_quad k d (b, a, w)). split; [|right; split; [exact Ed | reflexivity]].
          apply in_erefs. exists b, a, w. split; [reflexivity|].
          split; [rewrite <- E; apply get_sym; exact Ed | right; lia].
    - intros (q & Hq & H). apply in_erefs in Hq. destruct Hq as (x & y & w & -> & E & _).
      cbn [mx_quad q_src q_tgt] in H. destruct H as [H|[Hd H]]; injection H as -> ->.
      + exists w. exact E.
      + exists w. rewrite <- E. apply get_sym. exact Hd.
  Qed.

  Lemma in_nodes a : In a (iter_ids g) <-> live g a.
  Proof. apply in_iter_ids. Qed.

  Theorem F0_consistent : ELive d g -> FConsistent (F0 k d g).
  Proof.
    intro EL. constructor.
    - constructor; unfold F0; fvs.
      + apply (node_identifiers_spec d g I).
      + intros a Ha. apply in_nodes in Ha. apply Ha.
      + intros c Hc a Ha. injection Hc as <-. apply in_nodes in Ha. apply Ha.
      + intros c Hc. injection Hc as <-. apply (node_count_spec d g I).
      + discriminate.
    - unfold NrefsOK, F0. fvs. apply map_fst_tab.
    - constructor; unfold F0; fvs.
      + intros q Hq. apply in_erefs in Hq. destruct Hq as (x & y & w & -> & E & _).
        cbn [mx_quad q_src q_tgt]. destruct (EL x y w E) as [Lx Ly].
        split; apply in_nodes; assumption.
      + intros c Hc. injection Hc as <-. rewrite map_length. symmetry. apply (edge_count_spec d g I).
      + intros _. apply erefs_ids_nodup.
      + intros _ c Hc. discriminate Hc.
    - constructor; unfold F0; fvs.
      + apply map_fst_tab.
      + rewrite map_fst_mapv. apply map_fst_tab.
      + intros Hd. rewrite Hd. apply map_fst_tab.
      + intros Hd. rewrite map_fst_mapv. rewrite Hd. apply map_fst_tab.
    - constructor; unfold F0; fvs; intros a Ha.
      + rewrite (assocl_tab (fun a => map (mx_quad k d) (ROW d g a))) by exact Ha.
        apply same_edges_perm. apply out_perm.
      + rewrite assocl_mapv by reflexivity. reflexivity.
    - constructor; unfold F0; fvs; intros Hd a Ha;
        assert (Ei : (if d then map (fun a => (a, map (mx_quad k d) (COL d g a))) (iter_ids g)
                      else []) = map (fun a => (a, map (mx_quad k d) (COL d g a))) (iter_ids g))
          by (destruct d; [reflexivity | discriminate Hd]);
        rewrite Ei.
      + rewrite (assocl_tab (fun a => map (mx_quad k d) (COL d g a))) by exact Ha.
        apply same_edges_perm. apply in_perm. exact Hd.
      + rewrite assocl_mapv by reflexivity. reflexivity.
    - intros _ a b Ha Hb. unfold F0 in *. fvs.
      rewrite (assocl_tab (fun a => filter (has_edge d g a) (iter_ids g))) by exact Ha.
      rewrite filter_In. rewrite <- adj_iff. tauto.
  Qed.

  (* the condition is necessary: a consistent view has both endpoints of every reference among
     the node identifiers *)
  Theorem F0_needs_elive : FConsistent (F0 k d g) -> ELive d g.
  Proof.
    intros [_ _ He _ _ _ _] x y w E. unfold F0 in He.
    assert (Hends : forall x y w, get_edge_weight d g x y = Some w -> (d = true \/ y <= x) ->
                                  live g x /\ live g y).
    { intros x0 y0 w0 E0 Hd0.
      destruct (er_ends He (mx_quad k d (x0, y0, w0))) as [H1 H2].
      - fvs. apply in_erefs. exists x0, y0, w0. auto.
      - fvs. cbn [mx_quad q_src q_tgt] in H1, H2. split; apply in_nodes; assumption. }
    assert (Hcase : d = true \/ d = false) by (destruct d; auto).
    destruct Hcase as [Ed|Ed]; [apply (Hends x y w E); left; exact Ed|].
    destruct (Nat.le_gt_cases y x) as [L|L].
    - apply (Hends x y w E). right. exact L.
    - rewrite (get_sym x y Ed) in E. destruct (Hends y x w E) as [H1 H2]; [right; lia|].
      split; assumption.
  Qed.

  Lemma F0_keyed : AdjKeyed (F0 k d g).
  Proof. intros _. unfold F0. fvs. rewrite map_fst_tab. apply incl_refl. Qed.
End Cons.

Theorem fview_of_matrix_consistent k directed (g : mg) :
  MInv directed g -> ELive directed g -> ncap g <= k ->
  exists f, fview_of_matrix_k k directed g = Ok f /\ FConsistent f /\ AdjKeyed f /\
            f_directed f = directed /\
            f_nodes f = iter_ids g /\
            f_bound f = ub g /\
            f_vcap f = Some (ub g) /\
            (f_compact f = false /\ f_ids_ok f = true /\ f_has_in f = directed /\
             f_has_adj f = true).
Proof.
  intros I EL Hk. exists (F0 k directed g).
  split; [apply fview_of_matrix_eq; exact I|].
  split; [apply F0_consistent; assumption|].
  split; [apply F0_keyed|].
  repeat split.
Qed.

(* without ELive: still total, and consistent exactly when every edge joins existing nodes *)
Theorem fview_of_matrix_exact k directed (g : mg) :
  MInv directed g -> ncap g <= k ->
  exists f, fview_of_matrix_k k directed g = Ok f /\ (FConsistent f <-> ELive directed g).
Proof.
  intros I Hk. exists (F0 k directed g).
  split; [apply fview_of_matrix_eq; exact I|].
  split; [apply F0_needs_elive; assumption | apply F0_consistent; assumption].
Qed.

Theorem matrix_adaptors k directed (g : mg) f k1 p1 q1 k2 p2 q2 f1 f2 :
  MInv directed g -> ELive directed g -> ncap g <= k -> fview_of_matrix_k k directed g = Ok f ->
  In k1 [1; 3; 4; 5] -> In k2 [1; 3; 4; 5] ->
  apply_adaptor k1 p1 q1 f = Some f1 -> apply_adaptor k2 p2 q2 f1 = Some f2 -> FConsistent f2.
Proof.
  intros I EL Hk E H1 H2 E1 E2.
  destruct (fview_of_matrix_consistent k directed g I EL Hk) as (f' & E' & Hc & Hkey & _).
  rewrite E in E'. injection E' as <-.
  exact (adaptor_depth2 _ _ _ _ _ _ _ _ _ H1 H2 Hc (keyed_rows _ Hkey) E1 E2).
Qed.

(* after every history whose edge operations name existing nodes *)
Theorem matrix_history_view k directed notzero debug cap capcheck ops g s :
  Abs directed g s -> hist_ok directed notzero debug cap capcheck g s ops ->
  ncap (fst (replay directed notzero debug cap capcheck g s ops)) <= k ->
  exists f, fview_of_matrix_k k directed
              (fst (replay directed notzero debug cap capcheck g s ops)) = Ok f /\
            FConsistent f /\ AdjKeyed f.
Proof.
  intros A H Hk.
  pose proof (replay_abs directed notzero debug cap capcheck ops g s A H) as A'.
  destruct (fview_of_matrix_consistent k directed _ (ab_inv _ _ _ A') (ab_elive _ _ _ A') Hk)
    as (f & E & Hc & Hkey & _).
  exists f. split; [exact E|]. split; assumption.
Qed.
