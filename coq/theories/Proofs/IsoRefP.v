(* C13, S1-S3: the exhaustive search of Model/IsoM.v decides the definitions of Spec/IsoSpec.v. *)
From PG Require Import Lib.Io Model.IsoM Spec.IsoSpec.
From Coq Require Import Permutation Sorted.

(* ------------------------------------------------------------------ *)
(* generic list facts                                                   *)

Lemma NoDup_app_intro {A} (l1 l2 : list A) :
  NoDup l1 -> NoDup l2 -> (forall x, In x l1 -> In x l2 -> False) -> NoDup (l1 ++ l2).
Proof.
  induction l1 as [|h t IH]; intros H1 H2 Hd; simpl; auto.
  inversion H1 as [|? ? Hh Ht]; subst.
  constructor.
  - rewrite in_app_iff. intros [Hi|Hi]; [exact (Hh Hi)|].
    exact (Hd h (or_introl eq_refl) Hi).
  - apply IH; auto. intros x Hx Hx2. exact (Hd x (or_intror Hx) Hx2).
Qed.

Lemma NoDup_map_inj_in {A B} (f : A -> B) (l : list A) :
  (forall x y, In x l -> In y l -> f x = f y -> x = y) -> NoDup l -> NoDup (map f l).
Proof.
  induction l as [|h t IH]; intros Hinj Hnd; simpl; [constructor|].
  inversion Hnd as [|? ? Hh Ht]; subst.
  constructor.
  - intros Hi. apply in_map_iff in Hi. destruct Hi as [y [Hy Hyt]].
    assert (Heq : y = h) by (apply Hinj; simpl; auto).
    subst y. exact (Hh Hyt).
  - apply IH; auto. intros x y Hx Hy. apply Hinj; simpl; auto.
Qed.

Lemma NoDup_map_In_inj {A B} (f : A -> B) (l : list A) :
  NoDup (map f l) -> forall x y, In x l -> In y l -> f x = f y -> x = y.
Proof.
  induction l as [|h t IH]; intros Hnd x y Hx Hy Hxy; simpl in *; [contradiction|].
  inversion Hnd as [|? ? Hh Ht]; subst.
  destruct Hx as [Hx|Hx]; destruct Hy as [Hy|Hy]; subst.
  - reflexivity.
  - exfalso. apply Hh. rewrite Hxy. apply in_map. exact Hy.
  - exfalso. apply Hh. rewrite <- Hxy. apply in_map. exact Hx.
  - apply IH; auto.
Qed.

Lemma bool_eq_iff (a b : bool) : (a = true <-> b = true) -> a = b.
Proof.
  destruct a, b; intros [H1 H2]; try reflexivity.
  - symmetry; apply H1; reflexivity.
  - apply H2; reflexivity.
Qed.

(* ------------------------------------------------------------------ *)
(* S1: injections                                                       *)

Lemma remove_nat_In c l x : In x (remove_nat c l) -> In x l.
Proof.
  induction l as [|h t IH]; simpl; auto.
  destruct (Nat.eqb h c); simpl; intros H; auto.
  destruct H as [H|H]; auto.
Qed.

Lemma remove_nat_NoDup_In c l :
  NoDup l -> forall x, In x (remove_nat c l) <-> In x l /\ x <> c.
Proof.
  induction l as [|h t IH]; intros Hnd x; simpl.
  - tauto.
  - inversion Hnd as [|? ? Hh Ht]; subst.
    destruct (Nat.eqb h c) eqn:E.
    + apply Nat.eqb_eq in E. subst h. split.
      * intros Hx. split; auto. intros ->. exact (Hh Hx).
      * intros [[Hx|Hx] Hne]; auto. congruence.
    + apply Nat.eqb_neq in E. simpl. rewrite (IH Ht x). split.
      * intros [Hx|[Hx Hne]]; subst; auto.
      * intros [[Hx|Hx] Hne]; auto.
Qed.

Lemma remove_nat_NoDup c l : NoDup l -> NoDup (remove_nat c l).
Proof.
  induction l as [|h t IH]; intros Hnd; simpl; auto.
  inversion Hnd as [|? ? Hh Ht]; subst.
  destruct (Nat.eqb h c); auto.
  constructor; auto. intros Hi. apply remove_nat_In in Hi. exact (Hh Hi).
Qed.

Lemma injections_In : forall k cands m, NoDup cands ->
  (In m (injections k cands) <-> length m = k /\ NoDup m /\ incl m cands).
Proof.
  induction k as [|k IH]; intros cands m Hnd.
  - simpl. split.
    + intros [H|[]]. subst m. repeat split; [constructor | intros x []].
    + intros [Hl _]. destruct m; [auto | discriminate].
  - simpl. rewrite in_flat_map. split.
    + intros [c [Hc Hm]]. apply in_map_iff in Hm. destruct Hm as [m' [Hm' Hin]]. subst m.
      apply (IH _ _ (remove_nat_NoDup c cands Hnd)) in Hin.
      destruct Hin as [Hl [Hn Hincl]].
      split; [simpl; lia|]. split.
      * constructor; auto. intros Hi. apply Hincl in Hi.
        apply (remove_nat_NoDup_In c cands Hnd) in Hi. destruct Hi as [_ Hi]. apply Hi; reflexivity.
      * intros x [Hx|Hx]; [subst; auto|]. apply Hincl in Hx. exact (remove_nat_In _ _ _ Hx).
    + intros [Hl [Hn Hincl]]. destruct m as [|c m']; [discriminate|].
      inversion Hn as [|? ? Hc Hm']; subst.
      exists c. split; [apply Hincl; simpl; auto|].
      apply in_map. apply (IH _ _ (remove_nat_NoDup c cands Hnd)).
      split; [simpl in Hl; lia|]. split; auto.
      intros x Hx. apply (remove_nat_NoDup_In c cands Hnd). split.
      * apply Hincl; simpl; auto.
      * intros ->. exact (Hc Hx).
Qed.

Lemma NoDup_flat_map_cons (F : nat -> list (list nat)) (l : list nat) :
  NoDup l -> (forall c, In c l -> NoDup (F c)) ->
  NoDup (flat_map (fun c => map (cons c) (F c)) l).
Proof.
  induction l as [|a t IH]; intros Hnd HF; simpl; [constructor|].
  inversion Hnd as [|? ? Ha Ht]; subst.
  apply NoDup_app_intro.
  - apply NoDup_map_inj_in; [|apply HF; simpl; auto].
    intros x y _ _ H. congruence.
  - apply IH; auto. intros c Hc. apply HF; simpl; auto.
  - intros x Hx1 Hx2.
    apply in_map_iff in Hx1. destruct Hx1 as [m1 [E1 _]].
    apply in_flat_map in Hx2. destruct Hx2 as [c [Hc Hx2]].
    apply in_map_iff in Hx2. destruct Hx2 as [m2 [E2 _]].
    subst x. inversion E2; subst. exact (Ha Hc).
Qed.

Lemma injections_NoDup : forall k cands, NoDup cands -> NoDup (injections k cands).
Proof.
  induction k as [|k IH]; intros cands Hnd; simpl.
  - constructor; [intros []|constructor].
  - apply NoDup_flat_map_cons; auto.
    intros c _. apply IH. apply remove_nat_NoDup; auto.
Qed.

(* lexicographic order *)
Lemma StronglySorted_app_intro {A} (R : A -> A -> Prop) (l1 l2 : list A) :
  StronglySorted R l1 -> StronglySorted R l2 ->
  (forall x y, In x l1 -> In y l2 -> R x y) -> StronglySorted R (l1 ++ l2).
Proof.
  induction l1 as [|h t IH]; intros H1 H2 H12; simpl; auto.
  inversion H1 as [|? ? Ht Hh]; subst.
  constructor.
  - apply IH; auto. intros x y Hx Hy. apply H12; simpl; auto.
  - apply Forall_app. split; auto.
    apply Forall_forall. intros y Hy. apply H12; simpl; auto.
Qed.

Lemma StronglySorted_map_cons (c : nat) (l : list (list nat)) :
  StronglySorted lex_lt l -> StronglySorted lex_lt (map (cons c) l).
Proof.
  induction 1 as [|h t Ht IH Hh]; simpl; constructor; auto.
  apply Forall_forall. intros y Hy. apply in_map_iff in Hy. destruct Hy as [y' [<- Hy']].
  apply lex_tail. rewrite Forall_forall in Hh. apply Hh; auto.
Qed.

Lemma remove_nat_sorted c l : StronglySorted lt l -> StronglySorted lt (remove_nat c l).
Proof.
  induction 1 as [|h t Ht IH Hh]; simpl; [constructor|].
  destruct (Nat.eqb h c); auto.
  constructor; auto.
  apply Forall_forall. intros y Hy. apply remove_nat_In in Hy.
  rewrite Forall_forall in Hh. apply Hh; auto.
Qed.

Lemma sorted_flat_map_cons (F : nat -> list (list nat)) (l : list nat) :
  StronglySorted lt l -> (forall c, In c l -> StronglySorted lex_lt (F c)) ->
  StronglySorted lex_lt (flat_map (fun c => map (cons c) (F c)) l).
Proof.
  induction 1 as [|a t Ht IH Ha]; intros HF; simpl; [constructor|].
  apply StronglySorted_app_intro.
  - apply StronglySorted_map_cons. apply HF; simpl; auto.
  - apply IH. intros c Hc. apply HF; simpl; auto.
  - intros x y Hx Hy.
    apply in_map_iff in Hx. destruct Hx as [m1 [<- _]].
    apply in_flat_map in Hy. destruct Hy as [c [Hc Hy]].
    apply in_map_iff in Hy. destruct Hy as [m2 [<- _]].
    apply lex_head. rewrite Forall_forall in Ha. apply Ha; auto.
Qed.

Lemma injections_sorted : forall k cands,
  StronglySorted lt cands -> StronglySorted lex_lt (injections k cands).
Proof.
  induction k as [|k IH]; intros cands Hs; simpl.
  - constructor; constructor.
  - apply sorted_flat_map_cons; auto.
    intros c _. apply IH. apply remove_nat_sorted; auto.
Qed.

Lemma seq_sorted : forall n s, StronglySorted lt (seq s n).
Proof.
  induction n as [|n IH]; intros s; simpl; constructor; auto.
  apply Forall_forall. intros y Hy. apply in_seq in Hy. lia.
Qed.

Lemma lex_lt_irrefl : forall l, ~ lex_lt l l.
Proof.
  induction l as [|h t IH]; intros H; inversion H; subst; try lia. auto.
Qed.

Lemma lex_lt_trans : forall l1 l2 l3, lex_lt l1 l2 -> lex_lt l2 l3 -> lex_lt l1 l3.
Proof.
  intros l1 l2 l3 H12. revert l3.
  induction H12 as [h t|a b l l' Hab|a l l' Hl IH]; intros l3 H23; inversion H23; subst.
  - constructor.
  - constructor.
  - apply lex_head; lia.
  - apply lex_head; auto.
  - apply lex_head; auto.
  - apply lex_tail; auto.
Qed.

Lemma filter_sorted {A} (R : A -> A -> Prop) (f : A -> bool) (l : list A) :
  StronglySorted R l -> StronglySorted R (filter f l).
Proof.
  induction 1 as [|h t Ht IH Hh]; simpl; [constructor|].
  destruct (f h); auto. constructor; auto.
  apply Forall_forall. intros y Hy. apply filter_In in Hy. destruct Hy as [Hy _].
  rewrite Forall_forall in Hh. apply Hh; auto.
Qed.

(* ------------------------------------------------------------------ *)
(* S2: valid_map                                                        *)

Lemma edge_ok_b (em : Z) (o0 o1 : option Z) :
  match o0, o1 with
  | Some w0, Some w1 => wmatch em w0 w1
  | None, None => true
  | _, _ => false
  end = true <-> edge_ok em o0 o1.
Proof.
  destruct o0, o1; simpl; split; auto; try discriminate; try contradiction.
Qed.

Lemma valid_map_iff nm em g0 g1 m :
  valid_map nm em g0 g1 m = true <-> preserves nm em g0 g1 (fun a => nth a m 0).
Proof.
  unfold valid_map, preserves, ew, nwt.
  rewrite andb_true_iff, !forallb_forall. split.
  - intros [Hn He]. split.
    + intros a b Ha Hb.
      assert (Hia : In a (seq 0 (s_n g0))) by (apply in_seq; lia).
      assert (Hib : In b (seq 0 (s_n g0))) by (apply in_seq; lia).
      specialize (He a Hia). rewrite forallb_forall in He. specialize (He b Hib).
      apply edge_ok_b in He. exact He.
    + intros a Ha. apply Hn. apply in_seq; lia.
  - intros [He Hn]. split.
    + intros a Ha. apply in_seq in Ha. apply Hn; lia.
    + intros a Ha. apply in_seq in Ha. rewrite forallb_forall. intros b Hb. apply in_seq in Hb.
      apply edge_ok_b. apply He; lia.
Qed.

(* ------------------------------------------------------------------ *)
(* S3: sub_isos, is_sub_iso, is_iso                                     *)

Lemma preserves_ext nm em g0 g1 f f' :
  (forall a, a < s_n g0 -> f a = f' a) -> preserves nm em g0 g1 f -> preserves nm em g0 g1 f'.
Proof.
  intros Hext [He Hn]. split.
  - intros a b Ha Hb. rewrite <- (Hext a Ha), <- (Hext b Hb). apply He; auto.
  - intros a Ha. rewrite <- (Hext a Ha). apply Hn; auto.
Qed.

Lemma embedding_ext nm em g0 g1 f f' :
  (forall a, a < s_n g0 -> f a = f' a) -> embedding nm em g0 g1 f -> embedding nm em g0 g1 f'.
Proof.
  intros Hext [Hr [Hi Hp]]. split; [|split].
  - intros a Ha. rewrite <- (Hext a Ha). auto.
  - intros a b Ha Hb. rewrite <- (Hext a Ha), <- (Hext b Hb). auto.
  - exact (preserves_ext nm em g0 g1 f f' Hext Hp).
Qed.

Lemma incl_seq_nth (m : list nat) (n : nat) :
  incl m (seq 0 n) <-> (forall a, a < length m -> nth a m 0 < n).
Proof.
  split.
  - intros Hincl a Ha. assert (Hi : In (nth a m 0) (seq 0 n)) by (apply Hincl; apply nth_In; auto).
    apply in_seq in Hi. lia.
  - intros H x Hx. destruct (In_nth m x 0 Hx) as [a [Ha E]]. subst x.
    apply in_seq. specialize (H a Ha). lia.
Qed.

Lemma sub_isos_In nm em g0 g1 m :
  In m (sub_isos nm em g0 g1) <->
  length m = s_n g0 /\ embedding nm em g0 g1 (fun a => nth a m 0).
Proof.
  unfold sub_isos, embedding. rewrite filter_In, valid_map_iff.
  rewrite (injections_In (s_n g0) (seq 0 (s_n g1)) m (seq_NoDup (s_n g1) 0)).
  rewrite incl_seq_nth. rewrite (NoDup_nth m 0). split.
  - intros [[Hl [Hnd Hincl]] Hp]. rewrite Hl in *. auto.
  - intros [Hl [Hr [Hi Hp]]]. rewrite Hl in *. auto.
Qed.

Lemma sub_isos_NoDup nm em g0 g1 : NoDup (sub_isos nm em g0 g1).
Proof. unfold sub_isos. apply NoDup_filter. apply injections_NoDup. apply seq_NoDup. Qed.

Lemma sub_isos_sorted nm em g0 g1 : StronglySorted lex_lt (sub_isos nm em g0 g1).
Proof. unfold sub_isos. apply filter_sorted. apply injections_sorted. apply seq_sorted. Qed.

Lemma nth_map_seq (f : nat -> nat) n a : a < n -> nth a (map f (seq 0 n)) 0 = f a.
Proof.
  intros Ha. rewrite (nth_indep _ 0 (f 0)) by (rewrite map_length, seq_length; auto).
  rewrite map_nth. rewrite seq_nth; auto.
Qed.

Lemma sub_isos_complete nm em g0 g1 f :
  embedding nm em g0 g1 f -> In (map f (seq 0 (s_n g0))) (sub_isos nm em g0 g1).
Proof.
  intros He. apply sub_isos_In. split.
  - rewrite map_length, seq_length; auto.
  - apply (embedding_ext nm em g0 g1 f); auto.
    intros a Ha. symmetry. apply nth_map_seq; auto.
Qed.

Lemma nonempty_iff {A} (l : list A) :
  match l with [] => false | _ => true end = true <-> exists x, In x l.
Proof.
  destruct l as [|h t]; split; try discriminate; auto.
  - intros [x []].
  - intros _. exists h; simpl; auto.
Qed.

Lemma is_sub_iso_iff nm em g0 g1 : is_sub_iso nm em g0 g1 = true <-> SubIsomorphic nm em g0 g1.
Proof.
  unfold is_sub_iso, SubIsomorphic. rewrite nonempty_iff. split.
  - intros [m Hm]. apply sub_isos_In in Hm. destruct Hm as [_ Hm]. eauto.
  - intros [f Hf]. eexists. apply (sub_isos_complete nm em g0 g1 f Hf).
Qed.

Lemma is_iso_iff nm em g0 g1 : is_iso nm em g0 g1 = true <-> Isomorphic nm em g0 g1.
Proof.
  unfold is_iso, Isomorphic. rewrite andb_true_iff, Nat.eqb_eq.
  change (match sub_isos nm em g0 g1 with [] => false | _ => true end) with (is_sub_iso nm em g0 g1).
  rewrite is_sub_iso_iff. unfold SubIsomorphic. tauto.
Qed.

(* the false answers *)
Lemma is_sub_iso_false_iff nm em g0 g1 :
  is_sub_iso nm em g0 g1 = false <-> ~ SubIsomorphic nm em g0 g1.
Proof. rewrite <- is_sub_iso_iff. destruct (is_sub_iso nm em g0 g1); split; congruence. Qed.

Lemma is_iso_false_iff nm em g0 g1 :
  is_iso nm em g0 g1 = false <-> ~ Isomorphic nm em g0 g1.
Proof. rewrite <- is_iso_iff. destruct (is_iso nm em g0 g1); split; congruence. Qed.

(* adjacency form of the plain variant *)
Lemma wmatch_0 x y : wmatch 0 x y = true.
Proof. reflexivity. Qed.

Lemma preserves_Adj nm em g0 g1 f a b :
  preserves nm em g0 g1 f -> a < s_n g0 -> b < s_n g0 -> (Adj g0 a b <-> Adj g1 (f a) (f b)).
Proof.
  intros [He _] Ha Hb. specialize (He a b Ha Hb). unfold Adj, adjb. unfold ew in He.
  destruct (edge_w (s_dir g0) (s_es g0) a b), (edge_w (s_dir g1) (s_es g1) (f a) (f b));
    simpl in He; try contradiction; split; auto; discriminate.
Qed.

Lemma preserves_plain_iff g0 g1 f :
  preserves 0 0 g0 g1 f <->
  (forall a b, a < s_n g0 -> b < s_n g0 -> (Adj g0 a b <-> Adj g1 (f a) (f b))).
Proof.
  split.
  - intros Hp a b Ha Hb. apply (preserves_Adj 0%Z 0%Z g0 g1 f a b Hp); auto.
  - intros H. split; [|intros; apply wmatch_0].
    intros a b Ha Hb. specialize (H a b Ha Hb). unfold Adj, adjb in H. unfold ew, edge_ok.
    destruct (edge_w (s_dir g0) (s_es g0) a b), (edge_w (s_dir g1) (s_es g1) (f a) (f b));
      auto; destruct H as [H1 H2]; try (specialize (H1 eq_refl); discriminate);
      try (specialize (H2 eq_refl); discriminate).
Qed.

Lemma edge_w_undirected_sym es a b : edge_w false es a b = edge_w false es b a.
Proof.
  induction es as [|[[s t] w] r IH]; simpl; auto.
  rewrite IH.
  destruct (Nat.eqb s a), (Nat.eqb t b), (Nat.eqb s b), (Nat.eqb t a); reflexivity.
Qed.

Lemma Adj_undirected_sym g a b : s_dir g = false -> Adj g a b -> Adj g b a.
Proof.
  unfold Adj, adjb. intros Hd. rewrite Hd. rewrite (edge_w_undirected_sym (s_es g) a b). auto.
Qed.
