(* A boolean checker for valid_matching, sound; and a certified run of maximum_matching and
   greedy_inner on a concrete 7-node view (5-cycle with two pendant nodes).  (M3, item 3) *)
From PG Require Import Lib.Io Model.View Model.Traversal Model.MatchM Spec.Reach Spec.MatchSpec
  Proofs.TravBase Proofs.MatchGreedyP.

Definition mate_ok_b (v : view) (m : list (option nat)) (i : nat) : bool :=
  match m_mate m i with
  | None => true
  | Some j =>
      match m_mate m j with Some i' => Nat.eqb i' i | None => false end
      && negb (Nat.eqb i j)
      && (mem j (neighbors v i) || mem i (neighbors v j))
  end.

Definition valid_matching_b (v : view) (m : list (option nat)) (n : nat) : bool :=
  Nat.eqb (length m) (vbound v)
  && forallb (mate_ok_b v m) (seq 0 (length m))
  && Nat.eqb n (length (m_edges m)).

Lemma valid_matching_b_ok v m n : valid_matching_b v m n = true -> valid_matching v m n.
Proof.
  unfold valid_matching_b. rewrite !andb_true_iff, !Nat.eqb_eq, forallb_forall.
  intros [[Hl Hall] Hn].
  assert (Hi : forall i j, m_mate m i = Some j ->
             m_mate m j = Some i /\ i <> j /\ joined v i j).
  { intros i j Hij. assert (Hlt : i < length m) by (eapply m_mate_lt; eauto).
    assert (Hin : In i (seq 0 (length m))) by (apply in_seq; lia).
    specialize (Hall i Hin). unfold mate_ok_b in Hall. rewrite Hij in Hall.
    rewrite !andb_true_iff in Hall. destruct Hall as [[H1 H2] H3].
    destruct (m_mate m j) as [i'|]; [|discriminate]. apply Nat.eqb_eq in H1. subst i'.
    split; [reflexivity|]. split.
    - intros E. subst j. rewrite Nat.eqb_refl in H2. discriminate.
    - unfold joined. apply orb_true_iff in H3. rewrite !mem_In in H3. exact H3. }
  split; [exact Hl|]. split; [|split; [|exact Hn]].
  - intros i j Hij. destruct (Hi i j Hij) as [H1 [H2 _]]. split; assumption.
  - intros i j Hij. destruct (Hi i j Hij) as [_ [H2 H3]]. split; assumption.
Qed.

(* ------------------------------------------------------------------ *)
(* 5-cycle 0-1-2-3-4-0, pendant 5 on 0, pendant 6 on 2; edge ids 0..6  *)

Definition ex_adj : list (nat * list eref) :=
  [ (0, [(0, 1, 1%Z); (4, 4, 1%Z); (5, 5, 1%Z)]);
    (1, [(0, 0, 1%Z); (1, 2, 1%Z)]);
    (2, [(1, 1, 1%Z); (2, 3, 1%Z); (6, 6, 1%Z)]);
    (3, [(2, 2, 1%Z); (3, 4, 1%Z)]);
    (4, [(3, 3, 1%Z); (4, 0, 1%Z)]);
    (5, [(5, 0, 1%Z)]);
    (6, [(6, 2, 1%Z)]) ].

Definition ex_view : view :=
  mkView false 7 (Some 7) [0; 1; 2; 3; 4; 5; 6] ex_adj ex_adj 7 7
         [(0, 0, 1, 1%Z); (1, 1, 2, 1%Z); (2, 2, 3, 1%Z); (3, 3, 4, 1%Z); (4, 4, 0, 1%Z);
          (5, 0, 5, 1%Z); (6, 2, 6, 1%Z)].

Lemma ex_view_mok : MOk ex_view.
Proof.
  split.
  - apply vok_check_ok. vm_compute. reflexivity.
  - intros a Ha. cbn [vnodes ex_view vbound] in *.
    repeat (destruct Ha as [<-|Ha]; [lia|]). destruct Ha.
Qed.

Theorem ex_maximum_matching :
  exists m, maximum_matching ex_view true = Ok (m, 3) /\ valid_matching ex_view m 3.
Proof.
  eexists. split.
  - vm_compute. reflexivity.
  - apply valid_matching_b_ok. vm_compute. reflexivity.
Qed.

Theorem ex_maximum_matching_nodebug :
  exists m, maximum_matching ex_view false = Ok (m, 3) /\ valid_matching ex_view m 3.
Proof.
  eexists. split.
  - vm_compute. reflexivity.
  - apply valid_matching_b_ok. vm_compute. reflexivity.
Qed.

Theorem ex_greedy :
  exists m n, greedy_inner ex_view = Ok (m, n) /\ valid_matching ex_view m n /\ (n = 2 \/ n = 3).
Proof.
  eexists. eexists. split; [vm_compute; reflexivity|]. split.
  - apply valid_matching_b_ok. vm_compute. reflexivity.
  - vm_compute. auto.
Qed.

(* what the two runs return *)
Eval vm_compute in (maximum_matching ex_view true, greedy_inner ex_view).

Print Assumptions valid_matching_b_ok.
Print Assumptions ex_maximum_matching.
Print Assumptions ex_greedy.
