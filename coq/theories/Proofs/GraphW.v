(* The walker primitives of Graph (first_edge / next_edge, the detached walker of the stream's
   opcode 26), the weight-only operations (set_node_weight / set_edge_weight / the map of opcode
   27) and the query theorems restated for an arbitrary direction flag (into_edge_type). *)
From PG Require Import Lib.ListArr Lib.Walk Model.GraphM
  Proofs.GraphP Proofs.GraphQ Proofs.GraphRE Proofs.GraphRN Proofs.GraphH Proofs.GraphT Proofs.GraphX.
Set Implicit Arguments.

(* ------------------------------------------------------------------ *)
(* Generic facts                                                       *)

Lemma hd_error_nth0 {A} (l : list A) : hd_error l = nth_error l 0.
Proof. destruct l; reflexivity. Qed.

Lemma skipn_nth_cons {A} (l : list A) : forall p e,
  nth_error l p = Some e -> skipn p l = e :: skipn (S p) l.
Proof.
  induction l as [|x l IH]; intros [|p] e H; simpl in H; try discriminate.
  - injection H as ->. reflexivity.
  - change (skipn (S p) (x :: l)) with (skipn p l). rewrite (IH p e H). reflexivity.
Qed.

(* the successor, along the links, of the p-th slot of a walked list *)
Lemma lseg_nth_next nx h l t : lseg nx h l t ->
  forall p e, nth_error l p = Some e -> nx e = Some (nth (S p) l t).
Proof.
  intros H; induction H as [h | h h' l t Hh Hl IH]; intros p e Hp.
  - destruct p; discriminate.
  - destruct p as [|p]; simpl in Hp.
    + injection Hp as <-. rewrite Hh. f_equal.
      destruct l as [|y l]; simpl.
      * apply lseg_nil_inv in Hl. auto.
      * apply lseg_cons_inv in Hl. destruct Hl as [-> _]. reflexivity.
    + rewrite (IH p e Hp). reflexivity.
Qed.

(* direction indices: 0 = outgoing, anything else = incoming *)
Definition dirk (k : nat) : nat := match k with 0 => 0 | S _ => 1 end.

Section GraphW.
  Context {NW EW : Type}.
  Variable cap : nat.

  Notation node := (node NW).
  Notation edge := (edge EW).
  Notation graph := (graph NW EW).
  Notation adj := (@adj NW EW cap).
  Notation GInv := (@GInv NW EW cap).
  Notation adjf := (@adjf NW EW cap).

  Lemma chain_dirk fuel : forall (es : list edge) cur k,
    chain fuel es cur k = chain fuel es cur (dirk k).
  Proof.
    induction fuel as [|f IH]; intros es cur k; cbn [chain]; auto.
    destruct (nth_error es cur) as [ed|]; auto.
    rewrite IH. destruct k; reflexivity.
  Qed.

  Lemma adjf_dirk (g : graph) k i : adjf g k i = adjf g (dirk k) i.
  Proof.
    unfold GraphQ.adjf. rewrite chain_dirk. destruct k; reflexivity.
  Qed.

  Lemma ept_dirk (g : graph) k x : ept g k x = ept g (dirk k) x.
  Proof. unfold ept. destruct (nth_error (gedges g) x); auto. destruct k; reflexivity. Qed.

  (* ------------------------------------------------------------------ *)
  (* first_edge / next_edge                                              *)

  Lemma first_edge_absent (g : graph) a k :
    length (gnodes g) <= a -> first_edge cap g a k = None.
  Proof.
    intros H. unfold first_edge. rewrite (proj2 (nth_error_None (gnodes g) a)); auto.
  Qed.

  Lemma next_edge_absent (g : graph) e k :
    length (gedges g) <= e -> next_edge cap g e k = None.
  Proof.
    intros H. unfold next_edge. rewrite (proj2 (nth_error_None (gedges g) e)); auto.
  Qed.

  Theorem first_edge_spec (g : graph) a k :
    GInv g -> first_edge cap g a k = hd_error (adjf g k a).
  Proof.
    intros I. unfold first_edge.
    destruct (nth_error (gnodes g) a) as [n|] eqn:Hn.
    - assert (Ha : a < length (gnodes g)) by (eapply nth_error_Some_lt; eauto).
      pose proof (adjf_empty_iff k a I Hn) as Hiff.
      destruct (Nat.eqb_spec (sel (nnext n) k) cap) as [E|E].
      + rewrite (proj2 Hiff E). reflexivity.
      + destruct (adj_adjf k I Ha) as [n' [Hn' H]].
        assert (n' = n) by congruence. subst n'.
        destruct (lseg_head_in H) as [l' El].
        * intros El. apply E. apply Hiff. exact El.
        * rewrite El. reflexivity.
    - rewrite adjf_oob; auto; [apply (gi_ecap I)|apply nth_error_None; auto].
  Qed.

  Theorem next_edge_spec (g : graph) a k p e :
    GInv g -> nth_error (adjf g k a) p = Some e ->
    next_edge cap g e k = nth_error (adjf g k a) (S p).
  Proof.
    intros I Hp.
    assert (Ha : a < length (gnodes g)).
    { destruct (Nat.lt_ge_cases a (length (gnodes g))) as [H|H]; auto.
      rewrite adjf_oob in Hp; auto; [destruct p; discriminate|apply (gi_ecap I)]. }
    destruct (adj_adjf k I Ha) as [n [Hn H]].
    pose proof (lseg_nth_next H _ Hp) as Hnx.
    destruct (nxe_Some_nth _ _ _ Hnx) as [ed [Hed Hsel]].
    unfold next_edge. rewrite Hed, Hsel.
    destruct (nth_error (adjf g k a) (S p)) as [y|] eqn:Hy.
    - rewrite (nth_error_nth _ _ cap Hy).
      assert (Hlt : y < length (gedges g)).
      { eapply lseg_nxe_lt; eauto. eapply nth_error_In; eauto. }
      pose proof (gi_ecap I).
      destruct (Nat.eqb_spec y cap); [lia|reflexivity].
    - rewrite nth_overflow by (apply nth_error_None; auto).
      rewrite Nat.eqb_refl. reflexivity.
  Qed.

  (* every existing edge sits in the list of its own endpoint: next_edge is its successor there *)
  Corollary next_edge_own (g : graph) e k :
    GInv g -> e < length (gedges g) ->
    exists p, nth_error (adjf g k (ept g k e)) p = Some e /\
              next_edge cap g e k = nth_error (adjf g k (ept g k e)) (S p).
  Proof.
    intros I He.
    assert (Hb : ept g k e < length (gnodes g)).
    { rewrite ept_dirk. destruct k; [apply (src_lt I He)|apply (tgt_lt I He)]. }
    assert (Hin : In e (adjf g k (ept g k e))) by (apply (adjf_in k e I Hb); auto).
    apply In_nth_error in Hin. destruct Hin as [p Hp].
    exists p. split; auto. eapply next_edge_spec; eauto.
  Qed.

  (* ------------------------------------------------------------------ *)
  (* Iterating next_edge from first_edge                                 *)

  Fixpoint walk_next (fuel : nat) (g : graph) (o : option nat) (k : nat) : list nat :=
    match fuel with
    | 0 => []
    | S f => match o with
             | None => []
             | Some e => e :: walk_next f g (next_edge cap g e k) k
             end
    end.

  Definition walk_edges (g : graph) (a k : nat) : list nat :=
    walk_next (fuel_of g) g (first_edge cap g a k) k.

  Lemma walk_next_skipn (g : graph) a k :
    GInv g -> forall fuel p,
    length (adjf g k a) - p < fuel ->
    walk_next fuel g (nth_error (adjf g k a) p) k = skipn p (adjf g k a).
  Proof.
    intros I. induction fuel as [|f IH]; intros p Hf; [lia|].
    cbn [walk_next]. destruct (nth_error (adjf g k a) p) as [e|] eqn:Hp.
    - rewrite (skipn_nth_cons _ _ Hp). f_equal.
      rewrite (next_edge_spec _ _ _ I Hp). apply IH.
      apply nth_error_Some_lt in Hp. lia.
    - apply nth_error_None in Hp. rewrite skipn_all2; auto.
  Qed.

  Theorem walk_edges_spec (g : graph) a k : GInv g -> walk_edges g a k = adjf g k a.
  Proof.
    intros I. unfold walk_edges. rewrite (first_edge_spec a k I), hd_error_nth0.
    rewrite walk_next_skipn; auto.
    rewrite Nat.sub_0_r. unfold fuel_of.
    destruct (Nat.lt_ge_cases a (length (gnodes g))) as [Ha|Ha].
    - pose proof (adj_length (gi_ecap I) (adj_adjf k I Ha)). lia.
    - rewrite adjf_oob; auto; [simpl; lia|apply (gi_ecap I)].
  Qed.

  (* the detached walker (opcode 26 = neighbors_directed(a, k).detach() walked to the end) *)
  Theorem walker_directed (g : graph) a k :
    GInv g ->
    neighbors_directed cap true g a k =
      Ok (map (fun e => (e, ept g (1 - dirk k) e)) (walk_edges g a k)).
  Proof.
    intros I. rewrite (walk_edges_spec a k I), adjf_dirk.
    destruct k as [|k]; cbn [dirk Nat.sub].
    - apply (neighbors_directed_out I).
    - apply (neighbors_directed_in I).
  Qed.

  Theorem walker_undirected (g : graph) a k :
    GInv g ->
    neighbors_directed cap false g a k =
      Ok (map (fun e => (e, tgt g e)) (walk_edges g a 0) ++
          map (fun e => (e, src g e))
              (filter (fun e => negb (Nat.eqb (src g e) a)) (walk_edges g a 1))).
  Proof.
    intros I. rewrite !(walk_edges_spec a _ I).
    rewrite (neighbors_directed_undirected cap g a k). apply (neighbors_undirected_spec I).
  Qed.

  Theorem walker_edges_directed (g : graph) a k :
    GInv g ->
    exists r, edges_directed cap true g a k = Ok r /\
              Forall2 (eref g false) (walk_edges g a k) r.
  Proof.
    intros I. rewrite (walk_edges_spec a k I), adjf_dirk.
    destruct k as [|k]; cbn [dirk].
    - apply (edges_directed_out I).
    - apply (edges_directed_in I).
  Qed.

  Lemma Forall2_eref_fst (g : graph) sw l r :
    Forall2 (eref g sw) l r -> map (fun t => fst (fst t)) r = l.
  Proof.
    intros H; induction H as [|e t l r [ed [_ ->]] _ IH]; simpl; auto. f_equal. exact IH.
  Qed.

  (* ------------------------------------------------------------------ *)
  (* Weight updates: only weights change                                 *)

  Theorem set_weights_links (g : graph) :
    (forall e w g', set_edge_weight g e w = Some g' ->
       gnodes g' = gnodes g /\
       map (@enext EW) (gedges g') = map (@enext EW) (gedges g) /\
       map (@enode EW) (gedges g') = map (@enode EW) (gedges g) /\
       map (@ewt EW) (gedges g') = upd (map (@ewt EW) (gedges g)) e w) /\
    (forall a w g', set_node_weight g a w = Some g' ->
       gedges g' = gedges g /\
       map (@nnext NW) (gnodes g') = map (@nnext NW) (gnodes g) /\
       map (@nwt NW) (gnodes g') = upd (map (@nwt NW) (gnodes g)) a w).
  Proof.
    split.
    - intros e w g'. unfold set_edge_weight.
      destruct (nth_error (gedges g) e) as [ed|] eqn:E; [|discriminate].
      intros [= <-]. cbn [gnodes gedges]. split; auto.
      split; [eapply map_upd_same; eauto|]. split; [eapply map_upd_same; eauto|].
      rewrite map_upd. reflexivity.
    - intros a w g'. unfold set_node_weight.
      destruct (nth_error (gnodes g) a) as [n|] eqn:E; [|discriminate].
      intros [= <-]. cbn [gnodes gedges]. split; auto.
      split; [eapply map_upd_same; eauto|].
      rewrite map_upd. reflexivity.
  Qed.

  (* ------------------------------------------------------------------ *)
  (* The queries for an arbitrary direction flag (what into_edge_type changes) *)

  Theorem neighbors_flag (g : graph) (d : bool) a k :
    GInv g ->
    neighbors_directed cap d g a k =
      Ok (if d then map (fun e => (e, ept g (1 - dirk k) e)) (adjf g (dirk k) a)
          else map (fun e => (e, tgt g e)) (adjf g 0 a) ++
               map (fun e => (e, src g e))
                   (filter (fun e => negb (Nat.eqb (src g e) a)) (adjf g 1 a))).
  Proof.
    intros I. destruct d.
    - rewrite (walker_directed a k I), (walk_edges_spec a k I), <- adjf_dirk. reflexivity.
    - rewrite (walker_undirected a k I), !(walk_edges_spec a _ I). reflexivity.
  Qed.

  Theorem edges_flag (g : graph) (d : bool) a k :
    GInv g ->
    exists r1 r2, edges_directed cap d g a k = Ok (r1 ++ r2) /\
      if d then Forall2 (eref g false) (adjf g (dirk k) a) r1 /\ r2 = []
      else Forall2 (eref g (negb (Nat.eqb k 0))) (adjf g 0 a) r1 /\
           Forall2 (eref g (Nat.eqb k 0))
                   (filter (fun e => negb (Nat.eqb (src g e) a)) (adjf g 1 a)) r2.
  Proof.
    intros I. destruct d.
    - destruct k as [|k]; cbn [dirk].
      + destruct (edges_directed_out I a) as [r [E R]]. exists r, []. rewrite app_nil_r. auto.
      + destruct (edges_directed_in I a k) as [r [E R]]. exists r, []. rewrite app_nil_r. auto.
    - destruct k as [|k]; cbn [Nat.eqb negb].
      + apply (edges_undirected_out I).
      + apply (edges_undirected_in I).
  Qed.

  Theorem find_edge_flag (g : graph) (d : bool) a b :
    GInv g ->
    find_edge d g a b =
      Ok match find (fun x => Nat.eqb (tgt g x) b) (adjf g 0 a) with
         | Some e => Some e
         | None => if d then None else find (fun x => Nat.eqb (src g x) b) (adjf g 1 a)
         end.
  Proof.
    intros I. destruct d.
    - rewrite (find_edge_directed I).
      destruct (find (fun x => Nat.eqb (tgt g x) b) (adjf g 0 a)); reflexivity.
    - apply (find_edge_undirected_spec I).
  Qed.

  Theorem find_edge_undirected_total (g : graph) a b :
    GInv g ->
    find_edge_undirected g a b =
      Ok match find (fun x => Nat.eqb (tgt g x) b) (adjf g 0 a) with
         | Some e => Some (e, 0)
         | None => option_map (fun e => (e, 1)) (find (fun x => Nat.eqb (src g x) b) (adjf g 1 a))
         end.
  Proof.
    intros I. unfold find_edge_undirected.
    destruct (nth_error (gnodes g) a) as [n|] eqn:Hn.
    - rewrite (find_walk_out I a b Hn). cbn [rbind].
      destruct (find (fun x => Nat.eqb (tgt g x) b) (adjf g 0 a)) as [e|]; [reflexivity|].
      rewrite (find_walk_in I a b Hn). reflexivity.
    - assert (Ha : length (gnodes g) <= a) by (apply nth_error_None; auto).
      rewrite !adjf_oob; auto; apply (gi_ecap I).
  Qed.

  Theorem edges_connecting_flag (g : graph) (d : bool) a b :
    GInv g ->
    exists r, edges_directed cap d g a 0 = Ok r /\
      edges_connecting cap d g a b =
        Ok (filter (fun t : nat * (nat * nat) * EW => Nat.eqb (snd (snd (fst t))) b) r).
  Proof.
    intros I. destruct (edges_flag d a 0 I) as [r1 [r2 [E _]]].
    exists (r1 ++ r2). split; auto.
    unfold edges_connecting, edges_connecting_nx.
    unfold edges_directed in E. rewrite E. cbn [rmap]. f_equal.
    apply filter_ext. intros [[i nd] w]. reflexivity.
  Qed.
End GraphW.

(* ------------------------------------------------------------------ *)
(* Mapping both weights (opcode 27: Graph::map)                        *)
Section GMap.
  Context {NW EW NW2 EW2 : Type}.
  Variable f : NW -> NW2.
  Variable h : EW -> EW2.
  Variable cap : nat.

  Definition gmap_n (n : node NW) : node NW2 := mkNode (f (nwt n)) (nnext n).
  Definition gmap_e (e : edge EW) : edge EW2 := mkEdge (h (ewt e)) (enext e) (enode e).
  Definition gmap (g : graph NW EW) : graph NW2 EW2 :=
    mkGraph (map gmap_n (gnodes g)) (map gmap_e (gedges g)).

  Lemma chain_gmap fuel : forall (es : list (edge EW)) cur k,
    chain fuel (map gmap_e es) cur k = chain fuel es cur k.
  Proof.
    induction fuel as [|fu IH]; intros es cur k; cbn [chain]; auto.
    rewrite nth_error_map. destruct (nth_error es cur) as [ed|]; simpl; auto.
    rewrite IH. reflexivity.
  Qed.

  Lemma node_next_gmap g i : node_next cap (gmap g) i = node_next cap g i.
  Proof.
    unfold node_next, gmap. cbn [gnodes]. rewrite nth_error_map.
    destruct (nth_error (gnodes g) i); reflexivity.
  Qed.

  Lemma adjf_gmap g k i : adjf cap (gmap g) k i = adjf cap g k i.
  Proof.
    unfold adjf. rewrite node_next_gmap.
    unfold fuel_of, gmap. cbn [gedges]. rewrite map_length, chain_gmap. reflexivity.
  Qed.

  Lemma nxe_gmap (es : list (edge EW)) k x : nxe (map gmap_e es) k x = nxe es k x.
  Proof. unfold nxe. rewrite nth_error_map. destruct (nth_error es x); reflexivity. Qed.

  Lemma epo_gmap (es : list (edge EW)) k x : epo (map gmap_e es) k x = epo es k x.
  Proof. unfold epo. rewrite nth_error_map. destruct (nth_error es x); reflexivity. Qed.

  Lemma adj_gmap g k i l : adj cap g k i l -> adj cap (gmap g) k i l.
  Proof.
    intros [n [Hn H]]. exists (gmap_n n). split.
    - unfold gmap. cbn [gnodes]. rewrite nth_error_map, Hn. reflexivity.
    - cbn [gmap_n nnext]. eapply lseg_ext; [|exact H]. intros x. apply nxe_gmap.
  Qed.

  Theorem gmap_spec g :
    GInv cap g ->
    GInv cap (gmap g) /\
    map (@nwt NW2) (gnodes (gmap g)) = map f (map (@nwt NW) (gnodes g)) /\
    map (@nnext NW2) (gnodes (gmap g)) = map (@nnext NW) (gnodes g) /\
    map (@ewt EW2) (gedges (gmap g)) = map h (map (@ewt EW) (gedges g)) /\
    map (@enext EW2) (gedges (gmap g)) = map (@enext EW) (gedges g) /\
    map (@enode EW2) (gedges (gmap g)) = map (@enode EW) (gedges g) /\
    (forall k i, adjf cap (gmap g) k i = adjf cap g k i).
  Proof.
    intros I. split; [|unfold gmap; cbn [gnodes gedges]; rewrite !map_map; repeat split; auto;
                       apply adjf_gmap].
    constructor; unfold gmap; cbn [gnodes gedges]; rewrite ?map_length.
    - apply (gi_ncap I).
    - apply (gi_ecap I).
    - intros x ed. rewrite nth_error_map.
      destruct (nth_error (gedges g) x) as [ed0|] eqn:E; simpl; [|discriminate].
      intros [= <-]. apply (gi_ends I _ E).
    - intros k i Hi. destruct (gi_adj I k Hi) as [l [Hl C]]. exists l. split.
      + apply (adj_gmap Hl).
      + intros x. rewrite epo_gmap. apply C.
  Qed.
End GMap.
