(* T3: StableGraph::remove_edge.  The edge is unlinked from its two adjacency lists through
   Graph::change_edge_links and its slot is pushed on the free edge list.  Everything is proved
   for the generalised invariant [SInvP p] so that remove_node can use it while it drains. *)
From PG Require Import Lib.ListArr Lib.ListExtra Lib.Walk Model.GraphM Model.StableM
  Proofs.GraphP Proofs.GraphRE Proofs.StableP.
Set Implicit Arguments.

Section StableRE.
  Variable cap : nat.
  Variable debug : bool.

  Notation adj := (@adj (option nat) (option nat) cap).

  (* what one phase of change_edge_links leaves untouched *)
  Lemma cld_frame (g g' : IG) k enod e enxt n l1 l2 :
    nth_error (gnodes g) (sel enod k) = Some n ->
    lseg (nxe (gedges g) k) (sel (nnext n) k) l1 e -> ~ In e l1 ->
    lseg (nxe (gedges g) k) (sel enxt k) l2 cap ->
    NoDup (l1 ++ l2) ->
    change_links_dir debug g enod e enxt k = Ok (g', true) ->
    (forall j, j <> sel enod k -> nth_error (gnodes g') j = nth_error (gnodes g) j) /\
    (forall x, ~ In x l1 -> nth_error (gedges g') x = nth_error (gedges g) x).
  Proof.
    intros Hn H1 Hne H2 Hnd Hrun. unfold change_links_dir in Hrun. rewrite Hn in Hrun.
    destruct (list_rev_case l1) as [->|[l [p ->]]].
    - apply lseg_nil_inv in H1. rewrite H1, Nat.eqb_refl in Hrun. injection Hrun as <-.
      cbn [gnodes gedges]. split; auto.
      intros j Hj. apply nth_error_upd_neq. auto.
    - assert (Hhd : In (sel (nnext n) k) (l ++ [p])).
      { destruct (lseg_head_in H1) as [l' E]; [destruct l; discriminate|]. rewrite E. simpl; auto. }
      destruct (Nat.eqb_spec (sel (nnext n) k) e) as [E|_]; [rewrite E in Hhd; contradiction|].
      assert (Hnd1 : NoDup (l ++ [p])) by (eapply NoDup_app_l; eauto).
      rewrite (@relink_walk_spec _ (gedges g) k e (sel enxt k) l p) in Hrun; auto.
      + cbn [rmap] in Hrun. injection Hrun as <-. cbn [gnodes gedges]. split; auto.
        intros x Hx. unfold set_nx. destruct (nth_error (gedges g) p) as [ed|]; auto.
        apply nth_error_upd_neq. intros ->. apply Hx. apply in_or_app. simpl; auto.
      + assert (length (l ++ [p]) <= length (gedges g)).
        { apply NoDup_bounded_length; auto. intros x Hx. apply (lseg_nxe_lt x H1 Hx). }
        rewrite app_length in H. simpl in H. unfold fuel_of. lia.
  Qed.

  (* unlink e from the direction-k list it sits in *)
  Lemma s_unlink_dir p (g gA : IG) e k enod enxt :
    GI cap p g -> dir_same k g gA -> data_eq g gA ->
    ewo g e <> None ->
    epo (gedges g) k e = Some (sel enod k) ->
    nxe (gedges g) k e = Some (sel enxt k) ->
    exists gB, change_links_dir debug gA enod e enxt k = Ok (gB, true) /\
      data_eq gA gB /\ dir_same (1 - k) gA gB /\
      (forall j l, lv p g j -> adj g k j l -> adj gB k j (remove Nat.eq_dec e l)) /\
      (forall j, ~ lv p g j -> nth_error (gnodes gB) j = nth_error (gnodes gA) j) /\
      (forall x, ewo g x = None -> nth_error (gedges gB) x = nth_error (gedges gA) x).
  Proof.
    intros I D Dt Hlive Hep Hnx.
    assert (Li : lv p g (sel enod k)) by (apply (sgi_ends I k e); auto).
    destruct (sgi_adj I k Li) as [L [HL CL]].
    assert (HeL : In e L) by (apply CL; auto).
    pose proof (GI_adj_NoDup I HL) as HndL.
    apply in_split in HeL. destruct HeL as [l1 [l2 EL]]. subst L.
    destruct (NoDup_split_notin _ _ _ HndL) as [N1 N2].
    pose proof (dir_same_adj D HL) as HLA.
    destruct HLA as [n [Hn HlA]].
    apply lseg_split in HlA. destruct HlA as [mid [Hl1 Hl2]].
    apply lseg_cons_inv in Hl2. destruct Hl2 as [<- [y [Hy Hl2]]].
    rewrite (proj2 D) in Hy. rewrite Hnx in Hy. injection Hy as <-.
    assert (Hnd12 : NoDup (l1 ++ l2)) by (eapply NoDup_remove_1; eauto).
    destruct (@cld_phase _ _ cap debug gA k enod e enxt n l1 l2 Hn Hl1 N1 Hl2 Hnd12)
      as [gB [Hc [Dt' [Do [Hself Hoth]]]]].
    destruct (@cld_frame gA gB k enod e enxt n l1 l2 Hn Hl1 N1 Hl2 Hnd12 Hc) as [Fn Fe].
    exists gB. split; auto. split; auto. split; auto. split; [|split].
    - intros j l Lj Hl.
      destruct (Nat.eq_dec j (sel enod k)) as [->|Hj].
      + rewrite (adj_det (sgi_ecap I) Hl HL). rewrite remove_split; auto.
      + assert (Hdis : forall x, In x (l1 ++ e :: l2) -> ~ In x l).
        { intros x Hx Hx'. apply Hj. eapply (@GI_adj_disjoint cap p g k j (sel enod k)); eauto. }
        rewrite remove_notin.
        * apply Hoth; auto.
          -- apply (dir_same_adj D); auto.
          -- intros x Hx. apply Hdis. apply in_or_app; auto.
        * apply Hdis. apply in_or_app. simpl; auto.
    - intros j Hj. apply Fn. intros ->. contradiction.
    - intros x Hx. apply Fe. intros Hin.
      assert (Hin' : In x (l1 ++ e :: l2)) by (apply in_or_app; auto).
      apply CL in Hin'. destruct Hin' as [Hin' _]. contradiction.
  Qed.

  (* [s'] is [s] with the live edges selected by P removed *)
  Record Rm (p : option nat) (P : nat -> bool) (s s' : sgraph) : Prop := {
    rm_nodes : forall j, nwo (sg s') j = nwo (sg s) j;
    rm_nlen : length (gnodes (sg s')) = length (gnodes (sg s));
    rm_elen : length (gedges (sg s')) = length (gedges (sg s));
    rm_ewo : forall x, ewo (sg s') x = if P x then None else ewo (sg s) x;
    rm_epo : forall k x, P x = false -> epo (gedges (sg s')) k x = epo (gedges (sg s)) k x;
    rm_adj : forall k i l, lv p (sg s) i -> adj (sg s) k i l ->
               adj (sg s') k i (filter (fun x => negb (P x)) l);
    rm_nc : ncount s' = ncount s;
    rm_fn_nodes : forall j, ~ lv p (sg s) j -> nth_error (gnodes (sg s')) j = nth_error (gnodes (sg s)) j;
    rm_fn : free_node s' = free_node s
  }.

  Lemma s_remove_edge_none s e :
    ewo (sg s) e = None -> s_remove_edge cap debug s e = Ok (None, s).
  Proof.
    intros H. unfold s_remove_edge. unfold ewo in H.
    destruct (nth_error (gedges (sg s)) e) as [ed|]; auto. rewrite H. reflexivity.
  Qed.

  Theorem s_remove_edge_spec p s e w :
    SInvP cap p s -> ewo (sg s) e = Some w ->
    exists s', s_remove_edge cap debug s e = Ok (Some w, s') /\
      SInvP cap p s' /\ Rm p (fun x => Nat.eqb x e) s s' /\ S (ecount s') = ecount s.
  Proof.
    intros I Hw. set (g := sg s) in *.
    pose proof (si_g I) as IG0. fold g in IG0.
    assert (Hlive : ewo g e <> None) by congruence.
    pose proof (ewo_Some_lt g e Hlive) as He.
    destruct (nth_error_lt_Some _ He) as [ed Hed].
    assert (Hwt : ewt ed = Some w) by (rewrite <- (ewo_nth _ _ Hed); auto).
    destruct (@s_unlink_dir p g g e 0 (enode ed) (enext ed) IG0 (dir_same_refl 0 g) (data_eq_refl g)
                Hlive (epo_nth _ 0 _ Hed) (nxe_nth _ 0 _ Hed))
      as [g1 [C0 [Dt1 [Do1 [H1 [Fn1 Fe1]]]]]].
    destruct (@s_unlink_dir p g g1 e 1 (enode ed) (enext ed) IG0 Do1 Dt1
                Hlive (epo_nth _ 1 _ Hed) (nxe_nth _ 1 _ Hed))
      as [g2 [C1 [Dt2 [Do2 [H2 [Fn2 Fe2]]]]]].
    assert (CEL : change_edge_links debug g (enode ed) e (enext ed) = Ok g2)
      by (eapply cel_both; eauto).
    assert (Dt02 : data_eq g g2) by (eapply data_eq_trans; eauto).
    assert (HC : forall k j l, lv p g j -> adj g k j l -> adj g2 k j (remove Nat.eq_dec e l)).
    { intros [|k] j l Lj Hl.
      - apply (dir_same_adj Do2). apply H1; auto.
      - exact (H2 j l Lj Hl). }
    assert (Fn : forall j, ~ lv p g j -> nth_error (gnodes g2) j = nth_error (gnodes g) j).
    { intros j Hj. rewrite Fn2, Fn1; auto. }
    assert (Fe : forall x, ewo g x = None -> nth_error (gedges g2) x = nth_error (gedges g) x).
    { intros x Hx. rewrite Fe2, Fe1; auto. }
    assert (Hlen2 : length (gedges g2) = length (gedges g)) by (apply data_eq_elen; auto).
    assert (Hnlen2 : length (gnodes g2) = length (gnodes g)) by (apply data_eq_nlen; auto).
    assert (He2 : e < length (gedges g2)) by lia.
    destruct (nth_error_lt_Some _ He2) as [ed2 Hed2].
    set (vac := mkEdge None (free_edge s, cap) (cap, cap) : edge (option nat)).
    set (g3 := mkGraph (gnodes g2) (upd (gedges g2) e vac) : IG).
    assert (Hrun : s_remove_edge cap debug s e =
                   Ok (Some w, mkSG g3 (ncount s) (ecount s - 1) (free_node s) e)).
    { unfold s_remove_edge. fold g. rewrite Hed, Hwt, CEL. cbn [rbind].
      unfold upd_edge. rewrite Hed2. reflexivity. }
    rewrite Hrun. eexists; split; [reflexivity|].
    (* views of g3 *)
    assert (Hnw : forall j, nwo g3 j = nwo g j).
    { intros j. rewrite (nwo_map g3 j), (nwo_map g j). unfold g3. cbn [gnodes].
      rewrite (proj1 Dt02). reflexivity. }
    assert (Hmw3 : map (@nwt _) (gnodes g3) = map (@nwt _) (gnodes g)) by exact (proj1 Dt02).
    assert (Hme3 : map (@ewt _) (gedges g3) = upd (map (@ewt _) (gedges g)) e None).
    { unfold g3. cbn [gedges]. rewrite map_upd. rewrite (proj1 (proj2 Dt02)). reflexivity. }
    assert (Hew : forall x, ewo g3 x = if Nat.eqb x e then None else ewo g x).
    { intros x. rewrite (ewo_map g3 x), Hme3, nth_error_upd, map_length, (Nat.eqb_sym x e).
      destruct (Nat.eqb_spec e x) as [<-|Hne].
      - destruct (Nat.ltb_spec e (length (gedges g))); [reflexivity|lia].
      - rewrite <- ewo_map. reflexivity. }
    assert (Hepo : forall k x, x <> e -> epo (gedges g3) k x = epo (gedges g) k x).
    { intros k x Hx. unfold g3. cbn [gedges]. unfold epo at 1. rewrite nth_error_upd_neq by auto.
      apply (data_eq_epo k x Dt02). }
    assert (Hlv : forall j, lv p g3 j <-> lv p g j).
    { intros j. split; apply lv_same_nwt; auto. }
    assert (Hadj3 : forall k j l, lv p g j -> adj g k j l ->
               adj g3 k j (filter (fun x => negb (Nat.eqb x e)) l)).
    { intros k j l Lj Hl. rewrite <- remove_filter.
      destruct (HC k j l Lj Hl) as [n [Hn Hls]]. exists n. split; auto.
      unfold g3. cbn [gedges]. eapply lseg_frame; [exact Hls|].
      intros x Hx. unfold nxe. rewrite nth_error_upd_neq; auto.
      intros ->. revert Hx. apply remove_In. }
    assert (Hlen3 : length (gedges g3) = length (gedges g)).
    { unfold g3. cbn [gedges]. rewrite upd_length. auto. }
    split; [constructor|split; [constructor|]]; cbn [sg ncount ecount free_node free_edge].
    - (* GI *)
      constructor.
      + unfold g3. cbn [gnodes]. rewrite Hnlen2. apply (sgi_ncap IG0).
      + rewrite Hlen3. apply (sgi_ecap IG0).
      + intros k x i Hx Hep. rewrite Hew in Hx.
        destruct (Nat.eqb_spec x e) as [|Hne]; [congruence|].
        rewrite Hepo in Hep by auto. apply Hlv. apply (sgi_ends IG0 k x); auto.
      + intros k i Li. apply Hlv in Li. destruct (sgi_adj IG0 k Li) as [l [Hl C]].
        eexists; split; [apply Hadj3; eauto|].
        intros x. rewrite filter_In, Hew, C.
        destruct (Nat.eqb_spec x e) as [->|Hne]; simpl.
        * split; [intros [_ H]; discriminate|intros [H _]; congruence].
        * rewrite Hepo by auto. tauto.
    - intros a Ha. destruct (si_p I Ha) as [Ha1 Ha2]. fold g in Ha1, Ha2.
      rewrite Hnw. split; auto. unfold g3. cbn [gnodes]. lia.
    - rewrite Hmw3. apply (si_nc I).
    - rewrite Hme3.
      assert (Hn0 : nth_error (map (@ewt _) (gedges g)) e = Some (Some w)).
      { rewrite nth_error_map, Hed. simpl. congruence. }
      pose proof (@nsome_upd _ _ _ _ None Hn0) as Hc. cbn [osome] in Hc.
      rewrite (si_ec I). fold g. lia.
    - apply (@FNL_frame cap p g g3); auto; [|apply (si_fn I)].
      intros j Hj Hp. unfold g3. cbn [gnodes]. apply Fn.
      intros [H|[H _]]; contradiction.
    - destruct (si_fe I) as [fl [Hfl Cf]]. fold g in Hfl, Cf.
      assert (Hefl : ~ In e fl) by (intros Hin; apply Cf in Hin; destruct Hin; contradiction).
      exists (e :: fl). split.
      + econstructor.
        * unfold fex, g3. cbn [gedges]. rewrite nth_error_upd_eq by auto. reflexivity.
        * eapply lseg_frame; [exact Hfl|]. intros x Hx. apply fex_same.
          unfold g3. cbn [gedges]. rewrite nth_error_upd_neq by (intros ->; contradiction).
          apply Fe. apply Cf in Hx. tauto.
      + intros x. rewrite Hlen3, Hew. pose proof (Cf x) as Cx. simpl.
        destruct (Nat.eqb_spec x e) as [->|Hne].
        * split; auto.
        * split.
          -- intros [H|H]; [congruence|]. apply Cx. auto.
          -- intros H. right. apply Cx. auto.
    - exact Hnw.
    - unfold g3. cbn [gnodes]. auto.
    - exact Hlen3.
    - exact Hew.
    - intros k x Hx. apply Hepo. apply Nat.eqb_neq. auto.
    - exact Hadj3.
    - reflexivity.
    - intros j Hj. unfold g3. cbn [gnodes]. apply Fn. auto.
    - reflexivity.
    - assert (Hpos : 0 < ecount s).
      { rewrite (si_ec I). fold g.
        assert (Hn0 : nth_error (map (@ewt _) (gedges g)) e = Some (Some w)).
        { rewrite nth_error_map, Hed. simpl. congruence. }
        pose proof (@nsome_upd _ _ _ _ None Hn0) as Hc. cbn [osome] in Hc. lia. }
      lia.
  Qed.
End StableRE.
