(* C20/Q1, the algorithm: Bron-Kerbosch with pivoting (Model/CliqueM.v) on a symmetric view returns
   exactly the maximal cliques, each once (as sets), whatever pivot of maximal count and whatever
   order of todo the hash order produced.  Neither loop-freeness nor "neighbours are nodes" is
   needed; the maximality of the pivot's count is not needed either (any pivot in p is correct). *)
From Coq Require Import Permutation Lia.
From PG Require Import Lib.Io Model.View Model.MiscM Model.CliqueM Spec.Reach Spec.MiscSpec
                       Proofs.MiscCliqueP.

Scheme bk_mind := Minimality for bk Sort Prop
  with bk_loop_mind := Minimality for bk_loop Sort Prop.
Combined Scheme bk_mutind from bk_mind, bk_loop_mind.

(* ------------------------------------------------------------------ *)
(* vocabulary                                                           *)

(* a maximal clique as a SET: like MaximalClique, without "listed in node order" *)
Definition MaximalCliqueSet (v : view) (c : list nat) : Prop :=
  incl c (vnodes v) /\ Clique v c /\
  forall y, In y (vnodes v) -> ~ In y c -> ~ Clique v (y :: c).

(* y is a node outside r adjacent to every member of r *)
Definition common_nb (v : view) (r : list nat) (y : nat) : Prop :=
  In y (vnodes v) /\ ~ In y r /\ forall a, In a r -> adj_u v a y = true.

(* the classical invariant of Bron-Kerbosch *)
Definition bk_inv (v : view) (r p x : list nat) : Prop :=
  NoDup r /\ incl r (vnodes v) /\ Clique v r /\ NoDup p /\ NoDup x /\
  (forall y, In y p -> ~ In y x) /\
  (forall y, In y p \/ In y x <-> common_nb v r y).

(* no two entries (at different positions) have the same members *)
Definition set_distinct (out : list (list nat)) : Prop :=
  ForallOrdPairs (fun a b => ~ same_set a b) out.

(* the members of c in node order *)
Definition clique_sort (v : view) (c : list nat) : list nat := filter (fun y => mem y c) (vnodes v).

Definition bk_post (v : view) (r p : list nat) (out : list (list nat)) : Prop :=
  (forall c, In c out -> MaximalCliqueSet v c /\ NoDup c /\ incl r c /\ incl c (r ++ p)) /\
  (forall c, MaximalCliqueSet v c -> incl r c -> incl c (r ++ p) ->
     exists c', In c' out /\ same_set c' c) /\
  set_distinct out.

Definition bkl_post (v : view) (r p todo : list nat) (out : list (list nat)) : Prop :=
  (forall c, In c out -> MaximalCliqueSet v c /\ NoDup c /\ incl r c /\ incl c (r ++ p) /\
     exists w, In w todo /\ In w c) /\
  (forall c, MaximalCliqueSet v c -> incl r c -> incl c (r ++ p) -> (exists w, In w todo /\ In w c) ->
     exists c', In c' out /\ same_set c' c) /\
  set_distinct out.

(* ------------------------------------------------------------------ *)
(* lists as sets                                                        *)

Lemma In_sinsert a s y : In y (sinsert a s) <-> y = a \/ In y s.
Proof.
  unfold sinsert. destruct (mem a s) eqn:E.
  - apply mem_In in E. split; [intros H; right; exact H | intros [->|H]; assumption].
  - cbn [In]. split; intros [H|H]; auto.
Qed.

Lemma sinsert_notin a s : ~ In a s -> sinsert a s = a :: s.
Proof. intros H. unfold sinsert. apply mem_false in H. rewrite H. reflexivity. Qed.

Lemma NoDup_sinsert a s : NoDup s -> NoDup (sinsert a s).
Proof.
  intros H. unfold sinsert. destruct (mem a s) eqn:E; [exact H|].
  constructor; [apply mem_false, E | exact H].
Qed.

Lemma In_sremove a s y : In y (sremove a s) <-> In y s /\ y <> a.
Proof.
  unfold sremove. rewrite filter_In, negb_true_iff, Nat.eqb_neq. reflexivity.
Qed.

Lemma In_sinter s n y : In y (sinter s n) <-> In y s /\ In y n.
Proof. unfold sinter. rewrite filter_In, mem_In. reflexivity. Qed.

Lemma length_filter_le {A} (f : A -> bool) l : length (filter f l) <= length l.
Proof. induction l as [|h t IH]; cbn [filter length]; [lia|]. destruct (f h); cbn [length]; lia. Qed.

Lemma length_sremove_lt a s : In a s -> length (sremove a s) < length s.
Proof.
  unfold sremove. induction s as [|h t IH]; intros H; [destruct H|].
  cbn [filter length]. destruct (Nat.eqb_spec h a) as [E|Hne]; cbn [negb].
  - pose proof (length_filter_le (fun y => negb (Nat.eqb y a)) t). lia.
  - destruct H as [H|H]; [contradiction|]. cbn [length]. specialize (IH H). lia.
Qed.

Lemma sremove_comm a b s : sremove a (sremove b s) = sremove b (sremove a s).
Proof.
  unfold sremove. induction s as [|h t IH]; [reflexivity|]. cbn [filter].
  destruct (negb (Nat.eqb h b)) eqn:Eb; destruct (negb (Nat.eqb h a)) eqn:Ea; cbn [filter];
    rewrite ?Eb, ?Ea, IH; reflexivity.
Qed.

Lemma forallb_false_ex {A} (f : A -> bool) l : forallb f l = false -> exists a, In a l /\ f a = false.
Proof.
  induction l as [|h t IH]; cbn [forallb]; [discriminate|].
  destruct (f h) eqn:E; cbn [andb].
  - intros H. destruct (IH H) as [a [Ha Hf]]. exists a. split; [right; exact Ha | exact Hf].
  - intros _. exists h. split; [left; reflexivity | exact E].
Qed.

Lemma FOP_app {A} (R : A -> A -> Prop) l1 l2 :
  ForallOrdPairs R l1 -> ForallOrdPairs R l2 -> (forall a b, In a l1 -> In b l2 -> R a b) ->
  ForallOrdPairs R (l1 ++ l2).
Proof.
  induction 1 as [|a l Ha Hl IH]; intros H2 Hx; cbn [app]; [exact H2|].
  constructor.
  - apply Forall_app. split; [exact Ha|]. apply Forall_forall. intros b Hb. apply Hx; [left; reflexivity | exact Hb].
  - apply IH; [exact H2|]. intros a' b Ha' Hb. apply Hx; [right; exact Ha' | exact Hb].
Qed.

Lemma FOP_nth {A} (R : A -> A -> Prop) d l : ForallOrdPairs R l ->
  forall i j, i < j -> j < length l -> R (nth i l d) (nth j l d).
Proof.
  induction 1 as [|a l Ha Hl IH]; intros i j Hij Hj; cbn [length] in Hj; [lia|].
  destruct j as [|j]; [lia|]. destruct i as [|i]; cbn [nth].
  - rewrite Forall_forall in Ha. apply Ha, nth_In. lia.
  - apply IH; lia.
Qed.

Lemma FOP_map_NoDup {A B} (f : A -> B) l :
  ForallOrdPairs (fun a b => f a <> f b) l -> NoDup (map f l).
Proof.
  induction 1 as [|a l Ha Hl IH]; cbn [map]; constructor; [|exact IH].
  intros Hin. apply in_map_iff in Hin. destruct Hin as [b [E Hb]].
  rewrite Forall_forall in Ha. apply (Ha b Hb). symmetry. exact E.
Qed.

Lemma FOP_impl {A} (R S : A -> A -> Prop) l : (forall a b, In a l -> In b l -> R a b -> S a b) ->
  ForallOrdPairs R l -> ForallOrdPairs S l.
Proof.
  intros HRS H. induction H as [|a l Ha Hl IH]; constructor.
  - rewrite Forall_forall in *. intros b Hb. apply HRS; [left; reflexivity | right; exact Hb | apply Ha, Hb].
  - apply IH. intros a' b Ha' Hb. apply HRS; right; assumption.
Qed.

(* a set-equal entry exists -> exactly one position holds it *)
Lemma set_distinct_unique out c : set_distinct out ->
  (exists c', In c' out /\ same_set c' c) ->
  exists! i, i < length out /\ same_set (nth i out []) c.
Proof.
  intros Hd [c' [Hin Hs]]. destruct (In_nth out c' [] Hin) as [i [Hi Ei]].
  exists i. split.
  - split; [exact Hi|]. rewrite Ei. exact Hs.
  - intros j [Hj Hsj].
    assert (Hss : same_set (nth i out []) (nth j out [])).
    { rewrite Ei. intros y. rewrite (Hs y), (Hsj y). reflexivity. }
    destruct (Nat.lt_trichotomy i j) as [Hlt|[E|Hgt]]; [|exact E|]; exfalso.
    + exact (FOP_nth _ [] out Hd i j Hlt Hj Hss).
    + apply (FOP_nth _ [] out Hd j i Hgt Hi). intros y. symmetry. apply Hss.
Qed.

(* ------------------------------------------------------------------ *)
(* cliques as sets and in node order                                    *)

Lemma Clique_incl v c1 c2 : incl c1 c2 -> Clique v c2 -> Clique v c1.
Proof. intros Hi Hc a b Ha Hb Hab. apply Hc; [apply Hi, Ha | apply Hi, Hb | exact Hab]. Qed.

Lemma sublist_filter {A} (f : A -> bool) l : sublist (filter f l) l.
Proof.
  induction l as [|h t IH]; cbn [filter]; [constructor|]. destruct (f h); constructor; exact IH.
Qed.

Lemma clique_sort_same v c : incl c (vnodes v) -> same_set c (clique_sort v c).
Proof.
  intros Hi y. unfold clique_sort. rewrite filter_In, mem_In. split; [intros H; split; [apply Hi, H | exact H] | tauto].
Qed.

Lemma MaximalCliqueSet_same v c1 c2 : same_set c1 c2 -> MaximalCliqueSet v c1 -> MaximalCliqueSet v c2.
Proof.
  intros Hs [Hi [Hc Hm]]. split; [|split].
  - intros y Hy. apply Hi, Hs, Hy.
  - apply (Clique_incl v c2 c1); [intros y Hy; apply Hs, Hy | exact Hc].
  - intros y Hy Hn Hcy. apply (Hm y Hy); [intros H; apply Hn, Hs, H|].
    apply (Clique_incl v (y :: c1) (y :: c2)); [|exact Hcy].
    intros z [<-|Hz]; [left; reflexivity | right; apply Hs, Hz].
Qed.

Lemma MaximalClique_set v c : MaximalClique v c -> MaximalCliqueSet v c.
Proof. intros [Hs [Hc Hm]]. split; [intros y Hy; exact (sublist_In Hs y Hy) | split; assumption]. Qed.

Lemma MaximalCliqueSet_sort v c : MaximalCliqueSet v c -> MaximalClique v (clique_sort v c).
Proof.
  intros H. pose proof H as [Hi _].
  destruct (MaximalCliqueSet_same v c _ (clique_sort_same v c Hi) H) as [_ [Hc Hm]].
  split; [apply sublist_filter | split; assumption].
Qed.

(* ------------------------------------------------------------------ *)
(* the executable instance is a run (no hypothesis on the view)         *)

Lemma bk_argmax_spec v l : forall best,
  In (bk_argmax v l best) (best :: l) /\ deg v best <= deg v (bk_argmax v l best) /\
  forall w, In w l -> deg v w <= deg v (bk_argmax v l best).
Proof.
  induction l as [|h t IH]; intros best; cbn [bk_argmax].
  - split; [left; reflexivity | split; [lia | intros w []]].
  - destruct (IH (if Nat.ltb (deg v best) (deg v h) then h else best)) as [Hin [Hle Hall]].
    destruct (Nat.ltb_spec (deg v best) (deg v h)) as [Hlt|Hge].
    + split; [destruct Hin as [<-|Hin]; [right; left; reflexivity | right; right; exact Hin]|].
      split; [lia|]. intros w [<-|Hw]; [exact Hle | apply Hall, Hw].
    + split; [destruct Hin as [<-|Hin]; [left; reflexivity | right; right; exact Hin]|].
      split; [exact Hle|]. intros w [<-|Hw]; [lia | apply Hall, Hw].
Qed.

Lemma bk_pivot_spec v p : p <> [] -> bk_pivot_ok v p (bk_pivot v p).
Proof.
  destruct p as [|h t]; [congruence|]. intros _. unfold bk_pivot, bk_pivot_ok.
  destruct (bk_argmax_spec v t h) as [Hin [Hle Hall]].
  split; [exact Hin|]. intros w [<-|Hw]; [exact Hle | apply Hall, Hw].
Qed.

Lemma bk_loop_exec_run v rec n :
  (forall r p x, length p < n -> bk v r p x (rec r p x)) ->
  forall todo r p x, (forall w, In w todo -> length (sremove w p) < n) ->
  bk_loop v r p x todo (bk_loop_exec rec v r p x todo).
Proof.
  intros Hrec. induction todo as [|w t IH]; intros r p x Hlen; cbn [bk_loop_exec].
  - constructor.
  - apply bkl_pop.
    + apply Hrec. unfold sinter.
      pose proof (length_filter_le (fun y => mem y (neighbors v w)) (sremove w p)).
      specialize (Hlen w (or_introl eq_refl)). lia.
    + apply IH. intros w' Hw'. rewrite sremove_comm.
      pose proof (length_filter_le (fun y => negb (Nat.eqb y w)) (sremove w' p)) as Hle.
      fold (sremove w (sremove w' p)) in Hle.
      specialize (Hlen w' (or_intror Hw')). lia.
Qed.

Lemma bk_exec_run v : forall fuel r p x, length p < fuel -> bk v r p x (bk_exec fuel v r p x).
Proof.
  induction fuel as [|f IH]; intros r p x Hlen; [lia|].
  cbn [bk_exec]. destruct p as [|h t].
  - destruct x as [|y x']; [apply bk_report | apply bk_dead; discriminate].
  - apply (bk_branch v r (h :: t) x (bk_pivot v (h :: t)) (bk_candidates v (bk_pivot v (h :: t)) (h :: t))).
    + discriminate.
    + apply bk_pivot_spec. discriminate.
    + apply Permutation_refl.
    + apply (bk_loop_exec_run v (bk_exec f v) f).
      * intros r' p' x' Hl. apply IH, Hl.
      * intros w Hw. apply in_rev in Hw. unfold bk_candidates in Hw. apply filter_In in Hw.
        destruct Hw as [Hw _]. pose proof (length_sremove_lt w (h :: t) Hw). lia.
Qed.

Theorem maximal_cliques_exec_run v : maximal_cliques_run v (maximal_cliques_exec v).
Proof. unfold maximal_cliques_run, maximal_cliques_exec. apply bk_exec_run. lia. Qed.

Theorem bk_total v r p x : exists out, bk v r p x out.
Proof. exists (bk_exec (S (length p)) v r p x). apply bk_exec_run. lia. Qed.

(* ------------------------------------------------------------------ *)
(* correctness of every run on a symmetric view                         *)

Section BK.
Variable v : view.
Hypothesis Hsym : symmetric v.

Lemma adj_mem a b : adj_u v a b = mem b (neighbors v a).
Proof.
  unfold adj_u. destruct (mem b (neighbors v a)) eqn:E1; [reflexivity|].
  destruct (mem a (neighbors v b)) eqn:E2; [|reflexivity].
  apply mem_In in E2. apply (Hsym b a) in E2. unfold step in E2. apply mem_In in E2. congruence.
Qed.

Lemma common_clique r y : Clique v r -> common_nb v r y -> Clique v (y :: r).
Proof. intros Hc [_ [Hn Ha]]. apply (clique_cons Hn Hc). exact Ha. Qed.

Lemma clique_common r y : Clique v r -> In y (vnodes v) -> ~ In y r -> Clique v (y :: r) -> common_nb v r y.
Proof. intros Hc Hy Hn Hcy. split; [exact Hy | split; [exact Hn|]]. apply (clique_cons Hn Hc). exact Hcy. Qed.

(* p empty, x empty: r is reported *)
Lemma case_report r : bk_inv v r [] [] -> bk_post v r [] [r].
Proof.
  intros (Hnr & Hrv & Hcr & _ & _ & _ & Hcom). split; [|split].
  - intros c [<-|[]]. split; [|split; [exact Hnr | split; [apply incl_refl | apply incl_appl, incl_refl]]].
    split; [exact Hrv | split; [exact Hcr|]]. intros y Hy Hn Hcy.
    destruct (proj2 (Hcom y) (clique_common r y Hcr Hy Hn Hcy)) as [[]|[]].
  - intros c _ Hrc Hcr'. exists r. split; [left; reflexivity|].
    intros y. split; [apply Hrc|]. intros Hy. apply Hcr' in Hy. rewrite app_nil_r in Hy. exact Hy.
  - constructor; [constructor | constructor].
Qed.

(* p empty, x not: nothing is reported, rightly *)
Lemma case_dead r x : x <> [] -> bk_inv v r [] x -> bk_post v r [] [].
Proof.
  intros Hx (Hnr & Hrv & Hcr & _ & _ & _ & Hcom). split; [|split].
  - intros c [].
  - intros c [Hi [Hc Hm]] Hrc Hcr'. exfalso.
    destruct x as [|y x']; [congruence|].
    destruct (proj1 (Hcom y) (or_intror (or_introl eq_refl))) as [Hyv [Hyr Hya]].
    assert (Hcr'' : incl c r) by (intros z Hz; apply Hcr' in Hz; rewrite app_nil_r in Hz; exact Hz).
    assert (Hyc : ~ In y c) by (intros H; apply Hyr, Hcr'', H).
    apply (Hm y Hyv Hyc). apply (clique_cons Hyc Hc). intros a Ha. apply Hya, Hcr'', Ha.
  - constructor.
Qed.

(* the loop's update of p and x keeps the invariant *)
Lemma inv_step r p x w : bk_inv v r p x -> In w p -> bk_inv v r (sremove w p) (sinsert w x).
Proof.
  intros (Hnr & Hrv & Hcr & Hnp & Hnx & Hdis & Hcom) Hwp.
  split; [exact Hnr | split; [exact Hrv | split; [exact Hcr|]]].
  split; [apply NoDup_filter, Hnp | split; [apply NoDup_sinsert, Hnx|]]. split.
  - intros y Hy Hy'. apply In_sremove in Hy. apply In_sinsert in Hy'. destruct Hy as [Hyp Hne].
    destruct Hy' as [E|Hyx]; [contradiction | exact (Hdis y Hyp Hyx)].
  - intros y. rewrite <- Hcom, In_sremove, In_sinsert. split.
    + intros [[H _]|[->|H]]; [left; exact H | left; exact Hwp | right; exact H].
    + intros [H|H]; [|right; right; exact H].
      destruct (Nat.eq_dec y w) as [E|Hne]; [right; left; exact E | left; split; assumption].
Qed.

(* the recursive call's arguments satisfy the invariant *)
Lemma inv_rec r p x w : bk_inv v r p x -> In w p ->
  bk_inv v (w :: r) (sinter (sremove w p) (neighbors v w)) (sinter x (neighbors v w)).
Proof.
  intros (Hnr & Hrv & Hcr & Hnp & Hnx & Hdis & Hcom) Hwp.
  pose proof (proj1 (Hcom w) (or_introl Hwp)) as Hwc. pose proof Hwc as [Hwv [Hwr Hwa]].
  split; [constructor; assumption|].
  split; [intros a [<-|Ha]; [exact Hwv | apply Hrv, Ha]|].
  split; [apply common_clique; assumption|].
  split; [apply NoDup_filter, NoDup_filter, Hnp|].
  split; [apply NoDup_filter, Hnx|]. split.
  - intros y Hy Hy'. apply In_sinter in Hy. apply In_sinter in Hy'.
    destruct Hy as [Hy _]. apply In_sremove in Hy. exact (Hdis y (proj1 Hy) (proj1 Hy')).
  - intros y. split.
    + intros H.
      assert (H' : (In y p \/ In y x) /\ y <> w /\ In y (neighbors v w)).
      { destruct H as [H|H]; apply In_sinter in H; destruct H as [H HN].
        - apply In_sremove in H. destruct H as [H Hne]. split; [left; exact H | split; assumption].
        - split; [right; exact H | split; [|exact HN]]. intros ->. exact (Hdis w Hwp H). }
      destruct H' as [Hpx [Hne HN]]. destruct (proj1 (Hcom y) Hpx) as [Hyv [Hyr Hya]].
      split; [exact Hyv | split].
      * intros [E|Hy]; [apply Hne; symmetry; exact E | exact (Hyr Hy)].
      * intros a [<-|Ha]; [rewrite adj_mem; apply mem_In, HN | apply Hya, Ha].
    + intros [Hyv [Hyr Hya]].
      assert (Hne : y <> w) by (intros ->; apply Hyr; left; reflexivity).
      assert (HN : In y (neighbors v w)).
      { apply mem_In. rewrite <- adj_mem. apply Hya. left; reflexivity. }
      assert (Hpx : In y p \/ In y x).
      { apply Hcom. split; [exact Hyv | split].
        - intros H. apply Hyr. right; exact H.
        - intros a Ha. apply Hya. right; exact Ha. }
      destruct Hpx as [H|H].
      * left. apply In_sinter. split; [apply In_sremove; split; assumption | exact HN].
      * right. apply In_sinter. split; assumption.
Qed.

(* one iteration of the loop *)
Lemma case_pop r p x w todo o1 o2 : bk_inv v r p x -> NoDup (w :: todo) -> incl (w :: todo) p ->
  bk_post v (w :: r) (sinter (sremove w p) (neighbors v w)) o1 ->
  bkl_post v r (sremove w p) todo o2 ->
  bkl_post v r p (w :: todo) (o1 ++ o2).
Proof.
  intros (Hnr & Hrv & Hcr & Hnp & Hnx & Hdis & Hcom) Hnd Hin (S1 & C1 & D1) (S2 & C2 & D2).
  assert (Hwp : In w p) by (apply Hin; left; reflexivity).
  destruct (proj1 (Hcom w) (or_introl Hwp)) as [Hwv [Hwr Hwa]].
  assert (Hwt : ~ In w todo) by (inversion Hnd; assumption).
  split; [|split].
  - intros c Hc. apply in_app_or in Hc. destruct Hc as [Hc|Hc].
    + destruct (S1 c Hc) as (M & Nc & Hr' & Hc').
      split; [exact M | split; [exact Nc|]].
      split; [intros a Ha; apply Hr'; right; exact Ha|]. split.
      * intros a Ha. apply Hc' in Ha. cbn [app] in Ha. destruct Ha as [<-|Ha].
        { apply in_or_app. right. exact Hwp. }
        apply in_app_or in Ha. apply in_or_app. destruct Ha as [Ha|Ha]; [left; exact Ha|right].
        apply In_sinter in Ha. destruct Ha as [Ha _]. apply In_sremove in Ha. exact (proj1 Ha).
      * exists w. split; [left; reflexivity | apply Hr'; left; reflexivity].
    + destruct (S2 c Hc) as (M & Nc & Hr' & Hc' & w' & Hw't & Hw'c).
      split; [exact M | split; [exact Nc | split; [exact Hr'|]]]. split.
      * intros a Ha. apply Hc' in Ha. apply in_app_or in Ha. apply in_or_app.
        destruct Ha as [Ha|Ha]; [left; exact Ha | right]. apply In_sremove in Ha. exact (proj1 Ha).
      * exists w'. split; [right; exact Hw't | exact Hw'c].
  - intros c M Hrc Hcp [w' [Hw' Hw'c]]. pose proof M as [Hcv [Hcc Hmax]].
    destruct (in_dec Nat.eq_dec w c) as [Hwc|Hwc].
    + destruct (C1 c M) as [c' [Hc' Hs]].
      * intros a [<-|Ha]; [exact Hwc | apply Hrc, Ha].
      * intros a Ha. cbn [app]. destruct (Nat.eq_dec w a) as [E|Hne]; [left; exact E | right].
        pose proof (Hcp a Ha) as Ha'. apply in_app_or in Ha'. apply in_or_app.
        destruct Ha' as [Ha'|Ha']; [left; exact Ha' | right].
        apply In_sinter. split.
        { apply In_sremove. split; [exact Ha' | intros E; apply Hne; symmetry; exact E]. }
        apply mem_In. rewrite <- adj_mem. apply Hcc; assumption.
      * exists c'. split; [apply in_or_app; left; exact Hc' | exact Hs].
    + destruct (C2 c M Hrc) as [c' [Hc' Hs]].
      * intros a Ha. pose proof (Hcp a Ha) as Ha'. apply in_app_or in Ha'. apply in_or_app.
        destruct Ha' as [Ha'|Ha']; [left; exact Ha' | right].
        apply In_sremove. split; [exact Ha' | intros ->; exact (Hwc Ha)].
      * exists w'. split; [|exact Hw'c]. destruct Hw' as [<-|Hw']; [contradiction | exact Hw'].
      * exists c'. split; [apply in_or_app; right; exact Hc' | exact Hs].
  - apply FOP_app; [exact D1 | exact D2|]. intros a b Ha Hb Hs.
    destruct (S1 a Ha) as (_ & _ & Hra & _). destruct (S2 b Hb) as (_ & _ & _ & Hbp & _).
    assert (Hwb : In w b) by (apply Hs, Hra; left; reflexivity).
    apply Hbp in Hwb. apply in_app_or in Hwb. destruct Hwb as [H|H]; [exact (Hwr H)|].
    apply In_sremove in H. destruct H as [_ H]. apply H; reflexivity.
Qed.

(* the pivot argument: the filtered candidates meet every maximal clique between r and r + p *)
Lemma pivot_meets r p x u c : bk_inv v r p x -> In u p ->
  MaximalCliqueSet v c -> incl c (r ++ p) ->
  exists w, In w (bk_candidates v u p) /\ In w c.
Proof.
  intros (Hnr & Hrv & Hcr & Hnp & Hnx & Hdis & Hcom) Hu [Hcv [Hcc Hmax]] Hcp.
  destruct (proj1 (Hcom u) (or_introl Hu)) as [Huv [Hur Hua]].
  destruct (in_dec Nat.eq_dec u c) as [Huc|Huc].
  - exists u. split; [|exact Huc]. apply filter_In. split; [exact Hu|].
    unfold bk_keep. rewrite Nat.eqb_refl. reflexivity.
  - destruct (forallb (fun a => adj_u v a u) c) eqn:Ef.
    + exfalso. apply (Hmax u Huv Huc). apply (clique_cons Huc Hcc).
      rewrite forallb_forall in Ef. exact Ef.
    + apply forallb_false_ex in Ef. destruct Ef as [a [Ha Hf]]. exists a. split; [|exact Ha].
      pose proof (Hcp a Ha) as Ha'. apply in_app_or in Ha'. destruct Ha' as [Har|Hap].
      * rewrite (Hua a Har) in Hf. discriminate Hf.
      * apply filter_In. split; [exact Hap|]. unfold bk_keep, is_adjacent.
        rewrite adj_mem in Hf. rewrite Hf. cbn [negb]. apply orb_true_r.
Qed.

Lemma case_branch r p x u todo out : bk_inv v r p x -> In u p ->
  Permutation todo (bk_candidates v u p) ->
  bkl_post v r p (rev todo) out -> bk_post v r p out.
Proof.
  intros Hinv Hu Hperm (S & C & D). split; [|split; [|exact D]].
  - intros c Hc. destruct (S c Hc) as (M & Nc & Hr' & Hc' & _). repeat split; try assumption; apply M.
  - intros c M Hrc Hcp. apply (C c M Hrc Hcp).
    destruct (pivot_meets r p x u c Hinv Hu M Hcp) as [w [Hw Hwc]].
    exists w. split; [|exact Hwc]. apply -> in_rev.
    apply (Permutation_in w (Permutation_sym Hperm) Hw).
Qed.

Theorem bk_correct_mut :
  (forall r p x out, bk v r p x out -> bk_inv v r p x -> bk_post v r p out) /\
  (forall r p x todo out, bk_loop v r p x todo out ->
     bk_inv v r p x -> NoDup todo -> incl todo p -> bkl_post v r p todo out).
Proof.
  apply (bk_mutind v).
  - intros r Hinv. apply case_report, Hinv.
  - intros r x Hx Hinv. apply (case_dead r x Hx Hinv).
  - intros r p x u todo out Hp [Hu _] Hperm _ IH Hinv.
    apply (case_branch r p x u todo out Hinv Hu Hperm). pose proof Hinv as (_ & _ & _ & Hnp & _).
    assert (Hnt : NoDup todo).
    { apply (Permutation_NoDup (Permutation_sym Hperm)). apply NoDup_filter, Hnp. }
    apply IH; [exact Hinv | apply NoDup_rev, Hnt|].
    intros a Ha. apply in_rev in Ha. apply (Permutation_in a Hperm) in Ha.
    apply filter_In in Ha. exact (proj1 Ha).
  - intros r p x _ _ _. split; [intros c [] | split; [|constructor]].
    intros c _ _ _ [w [[] _]].
  - intros r p x w todo o1 o2 _ IH1 _ IH2 Hinv Hnd Hin.
    assert (Hwp : In w p) by (apply Hin; left; reflexivity).
    pose proof Hinv as (_ & _ & _ & _ & _ & _ & Hcom).
    destruct (proj1 (Hcom w) (or_introl Hwp)) as [_ [Hwr _]].
    rewrite (sinsert_notin w r Hwr) in IH1.
    apply (case_pop r p x w todo o1 o2 Hinv Hnd Hin).
    + apply IH1, inv_rec; assumption.
    + inversion Hnd as [|w' t' Hwt Hnt]; subst.
      apply IH2; [apply inv_step; assumption | exact Hnt|].
      intros a Ha. apply In_sremove. split; [apply Hin; right; exact Ha | intros ->; exact (Hwt Ha)].
Qed.

(* K1 *)
Theorem bk_invariant r p x out : bk_inv v r p x -> bk v r p x out ->
  (forall c, In c out -> MaximalCliqueSet v c /\ NoDup c /\ incl r c /\ incl c (r ++ p)) /\
  (forall c, MaximalCliqueSet v c -> incl r c -> incl c (r ++ p) ->
     exists! i, i < length out /\ same_set (nth i out []) c) /\
  set_distinct out.
Proof.
  intros Hinv Hbk. destruct (proj1 bk_correct_mut r p x out Hbk Hinv) as (S & C & D).
  split; [exact S | split; [|exact D]].
  intros c M Hrc Hcp. apply (set_distinct_unique out c D). exact (C c M Hrc Hcp).
Qed.

(* the initial call satisfies the invariant *)
Lemma bk_inv_init : NoDup (vnodes v) -> bk_inv v [] (vnodes v) [].
Proof.
  intros Hn. split; [constructor|]. split; [intros y []|]. split; [intros a b []|].
  split; [exact Hn|]. split; [constructor|]. split; [intros y _ []|].
  intros y. split.
  - intros [H|[]]. split; [exact H | split; [intros [] | intros a []]].
  - intros [H _]. left; exact H.
Qed.

(* K2 *)
Theorem maximal_cliques_run_sets out : NoDup (vnodes v) -> maximal_cliques_run v out ->
  (forall c, In c out -> MaximalCliqueSet v c /\ NoDup c) /\
  (forall c, MaximalCliqueSet v c -> exists! i, i < length out /\ same_set (nth i out []) c) /\
  set_distinct out.
Proof.
  intros Hn Hrun. destruct (bk_invariant [] (vnodes v) [] out (bk_inv_init Hn) Hrun) as (S & C & D).
  split; [|split; [|exact D]].
  - intros c Hc. destruct (S c Hc) as (M & Nc & _). split; assumption.
  - intros c M. apply (C c M); [intros y [] | cbn [app]; apply M].
Qed.

(* the same, against the reference: sorted into node order, the output is a permutation of the
   reference (so: the same number of cliques, the same cliques, each once) *)
Theorem maximal_cliques_run_ref out : NoDup (vnodes v) -> maximal_cliques_run v out ->
  (forall c, In c out -> NoDup c /\ incl c (vnodes v)) /\
  Permutation (map (clique_sort v) out) (maximal_cliques_ref v).
Proof.
  intros Hn Hrun. destruct (maximal_cliques_run_sets out Hn Hrun) as (S & C & D).
  split; [intros c Hc; destruct (S c Hc) as [M Nc]; split; [exact Nc | apply M]|].
  apply NoDup_Permutation.
  - apply FOP_map_NoDup. apply (FOP_impl (fun a b => ~ same_set a b)); [|exact D].
    intros a b Ha Hb Hab E. apply Hab. intros y.
    destruct (S a Ha) as [[Hia _] _]. destruct (S b Hb) as [[Hib _] _].
    rewrite (clique_sort_same v a Hia y), (clique_sort_same v b Hib y), E. reflexivity.
  - apply cliques_NoDup, Hn.
  - intros c'. split.
    + intros H. apply in_map_iff in H. destruct H as [c [<- Hc]].
      apply cliques_iff, MaximalCliqueSet_sort, S, Hc.
    + intros H. apply cliques_iff in H. pose proof H as [Hs' _].
      destruct (C c' (MaximalClique_set v c' H)) as [i [[Hi Hsi] _]].
      apply in_map_iff. exists (nth i out []). split; [|apply nth_In, Hi].
      assert (Hin : In (nth i out []) out) by (apply nth_In, Hi).
      destruct (S _ Hin) as [[Hiv _] _].
      apply (sublist_same_set Hn); [apply sublist_filter | exact Hs'|].
      intros y. rewrite <- (clique_sort_same v _ Hiv y). apply Hsi.
Qed.

End BK.

(* the empty view: one empty clique, as the reference *)
Theorem maximal_cliques_run_empty v out : vnodes v = [] -> maximal_cliques_run v out -> out = [[]].
Proof.
  unfold maximal_cliques_run. intros E H. rewrite E in H.
  inversion H as [r|r x Hx|r p x u todo o Hp]; subst; [reflexivity | congruence | congruence].
Qed.

(* ------------------------------------------------------------------ *)
(* the statements in index form, and against the reference              *)

Lemma set_distinct_nth out : set_distinct out ->
  forall i j, i < j < length out -> ~ same_set (nth i out []) (nth j out []).
Proof. intros Hd i j [Hij Hj]. exact (FOP_nth _ [] out Hd i j Hij Hj). Qed.

Theorem MaximalCliqueSet_iff v c :
  MaximalCliqueSet v c <-> exists c', MaximalClique v c' /\ same_set c c'.
Proof.
  split.
  - intros M. exists (clique_sort v c). split; [apply MaximalCliqueSet_sort, M|].
    apply clique_sort_same, M.
  - intros [c' [M Hs]]. apply (MaximalCliqueSet_same v c' c).
    + intros y. symmetry. apply Hs.
    + apply MaximalClique_set, M.
Qed.

Theorem bk_invariant_full v r p x out : symmetric v ->
  NoDup r -> incl r (vnodes v) -> Clique v r -> NoDup p -> NoDup x ->
  (forall y, In y p -> ~ In y x) ->
  (forall y, In y p \/ In y x <->
             In y (vnodes v) /\ ~ In y r /\ forall a, In a r -> adj_u v a y = true) ->
  bk v r p x out ->
  (forall c, In c out -> MaximalCliqueSet v c /\ NoDup c /\ incl r c /\ incl c (r ++ p)) /\
  (forall c, MaximalCliqueSet v c -> incl r c -> incl c (r ++ p) ->
     exists! i, i < length out /\ same_set (nth i out []) c) /\
  (forall i j, i < j < length out -> ~ same_set (nth i out []) (nth j out [])).
Proof.
  intros Hsym H1 H2 H3 H4 H5 H6 H7 Hbk.
  destruct (bk_invariant v Hsym r p x out) as (S & C & D); [|exact Hbk|].
  - unfold bk_inv, common_nb.
    exact (conj H1 (conj H2 (conj H3 (conj H4 (conj H5 (conj H6 H7)))))).
  - split; [exact S | split; [exact C | apply set_distinct_nth, D]].
Qed.

Theorem maximal_cliques_run_correct v out : symmetric v -> NoDup (vnodes v) ->
  maximal_cliques_run v out ->
  (forall c, In c out -> MaximalCliqueSet v c /\ NoDup c) /\
  (forall c, MaximalCliqueSet v c -> exists! i, i < length out /\ same_set (nth i out []) c) /\
  (forall i j, i < j < length out -> ~ same_set (nth i out []) (nth j out [])).
Proof.
  intros Hsym Hn Hrun. destruct (maximal_cliques_run_sets v Hsym out Hn Hrun) as (S & C & D).
  split; [exact S | split; [exact C | apply set_distinct_nth, D]].
Qed.

Theorem maximal_cliques_run_vs_ref v out : symmetric v -> NoDup (vnodes v) ->
  maximal_cliques_run v out ->
  (forall c, In c out -> NoDup c /\ exists c', In c' (maximal_cliques_ref v) /\ same_set c c') /\
  (forall c', In c' (maximal_cliques_ref v) ->
     exists! i, i < length out /\ same_set (nth i out []) c') /\
  (forall i j, i < j < length out -> ~ same_set (nth i out []) (nth j out [])) /\
  Permutation (map (clique_sort v) out) (maximal_cliques_ref v) /\
  length out = length (maximal_cliques_ref v).
Proof.
  intros Hsym Hn Hrun. destruct (maximal_cliques_run_correct v out Hsym Hn Hrun) as (S & C & D).
  destruct (maximal_cliques_run_ref v Hsym out Hn Hrun) as [_ Hperm].
  split; [|split; [|split; [exact D | split; [exact Hperm|]]]].
  - intros c Hc. destruct (S c Hc) as [M Nc]. split; [exact Nc|].
    exists (clique_sort v c). split; [apply cliques_iff, MaximalCliqueSet_sort, M|].
    apply clique_sort_same, M.
  - intros c' Hc'. apply C, MaximalClique_set, cliques_iff, Hc'.
  - rewrite <- (Permutation_length Hperm). symmetry. apply map_length.
Qed.

Theorem bk_total_full v :
  (forall r p x, exists out, bk v r p x out) /\
  (exists out, maximal_cliques_run v out) /\
  maximal_cliques_run v (maximal_cliques_exec v).
Proof.
  split; [intros r p x; apply bk_total|].
  split; [exists (maximal_cliques_exec v)|]; apply maximal_cliques_exec_run.
Qed.

(* the executable instance against the reference *)
Theorem maximal_cliques_exec_ref v : symmetric v -> NoDup (vnodes v) ->
  Permutation (map (clique_sort v) (maximal_cliques_exec v)) (maximal_cliques_ref v) /\
  forall c, In c (maximal_cliques_exec v) -> NoDup c /\ incl c (vnodes v).
Proof.
  intros Hsym Hn.
  destruct (maximal_cliques_run_ref v Hsym _ Hn (maximal_cliques_exec_run v)) as [H1 H2].
  split; assumption.
Qed.
