(* M4, M5: the exhaustive search [mms] computes the size of a maximum matching of the
   undirected graph (nodes, uadj adj); and the bridge from mate vectors to pair lists. *)
From PG Require Import Lib.Io Model.View Model.MatchM Spec.Reach Spec.MatchSpec Proofs.MatchAccP.

(* ------------------------------------------------------------------ *)
(* drop                                                                 *)

Lemma In_drop x y l : In y (drop x l) <-> In y l /\ y <> x.
Proof.
  unfold drop. rewrite filter_In, negb_true_iff, Nat.eqb_neq. tauto.
Qed.

Lemma drop_length x l : length (drop x l) <= length l.
Proof.
  unfold drop. induction l as [|h t IH]; cbn [filter length]; [lia|].
  destruct (negb (Nat.eqb h x)); cbn [length]; lia.
Qed.

Lemma uadj_comm adj i j : uadj adj i j = uadj adj j i.
Proof. unfold uadj. apply orb_comm. Qed.

(* ------------------------------------------------------------------ *)
(* the shape of the fold in mms                                          *)

Definition pick (p : nat -> bool) (c : nat -> nat) (best b : nat) : nat :=
  if p b then Nat.max best (c b) else best.

Lemma fold_pick_ge_init p c l init : init <= fold_left (pick p c) l init.
Proof.
  revert init; induction l as [|b t IH]; intros init; cbn [fold_left]; [lia|].
  specialize (IH (pick p c init b)).
  assert (H : init <= pick p c init b) by (unfold pick; destruct (p b); lia). lia.
Qed.

Lemma fold_pick_ge_cand p c l init b :
  In b l -> p b = true -> c b <= fold_left (pick p c) l init.
Proof.
  revert init; induction l as [|h t IH]; intros init Hin Hp; [destruct Hin|].
  cbn [fold_left]. destruct Hin as [Hin|Hin].
  - subst h. pose proof (fold_pick_ge_init p c t (pick p c init b)) as H.
    assert (H' : c b <= pick p c init b) by (unfold pick; rewrite Hp; lia). lia.
  - apply IH; assumption.
Qed.

Lemma fold_pick_attained p c l init :
  fold_left (pick p c) l init = init \/
  exists b, In b l /\ p b = true /\ fold_left (pick p c) l init = c b.
Proof.
  revert init; induction l as [|h t IH]; intros init; cbn [fold_left]; [left; reflexivity|].
  destruct (IH (pick p c init h)) as [E|[b [Hin [Hp E]]]].
  - rewrite E. unfold pick. destruct (p h) eqn:Hp; [|left; reflexivity].
    destruct (Nat.max_spec init (c h)) as [[_ Em]|[_ Em]]; rewrite Em.
    + right. exists h. split; [left; reflexivity | split; [exact Hp | reflexivity]].
    + left; reflexivity.
  - right. exists b. split; [right; exact Hin | split; [exact Hp | exact E]].
Qed.

Lemma mms_step f a rest0 adj :
  mms (S f) (a :: rest0) adj =
  fold_left (pick (uadj adj a) (fun b => S (mms f (drop b (drop a rest0)) adj)))
            (drop a rest0) (mms f (drop a rest0) adj).
Proof. reflexivity. Qed.

(* ------------------------------------------------------------------ *)
(* matchings                                                            *)

Lemma matching_nil nodes adj : is_matching nodes adj [].
Proof. split; [constructor | intros i j []]. Qed.

Lemma matching_endpoints nodes adj M x :
  is_matching nodes adj M -> In x (endpoints M) -> In x nodes.
Proof.
  intros [_ Hm] Hx. apply In_endpoints in Hx. destruct Hx as [i [j [Hin Hx]]].
  destruct (Hm _ _ Hin) as [Hi [Hj _]]. destruct Hx as [Hx|Hx]; subst x; assumption.
Qed.

Lemma matching_no_nodes adj M : is_matching [] adj M -> M = [].
Proof.
  intros [_ Hm]. destruct M as [|[i j] t]; [reflexivity|].
  destruct (Hm i j) as [[] _]. left; reflexivity.
Qed.

Arguments matching_endpoints {nodes adj M x}.
Arguments matching_no_nodes {adj M}.

(* change of node list: it is enough that the new list holds every endpoint *)
Lemma matching_nodes nodes nodes' adj M :
  is_matching nodes adj M -> (forall x, In x (endpoints M) -> In x nodes') ->
  is_matching nodes' adj M.
Proof.
  intros [Hnd Hm] Hsub. split; [exact Hnd|]. intros i j Hin.
  destruct (Hm _ _ Hin) as [_ [_ Hu]].
  split; [|split; [|exact Hu]]; apply Hsub, In_endpoints; exists i, j; auto.
Qed.

Arguments matching_nodes {nodes nodes' adj M}.

Lemma matching_cons nodes adj M a b :
  is_matching nodes adj M -> In a nodes -> In b nodes -> uadj adj a b = true ->
  a <> b -> ~ In a (endpoints M) -> ~ In b (endpoints M) ->
  is_matching nodes adj ((a, b) :: M).
Proof.
  intros [Hnd Hm] Ha Hb Hu Hab Hna Hnb. split.
  - rewrite endpoints_cons. constructor; [|constructor; assumption].
    intros [E|Hin]; [apply Hab; congruence | contradiction].
  - intros i j [E|Hin]; [|apply Hm; exact Hin].
    injection E as E1 E2. subst i j. auto.
Qed.

(* one pair taken out of a matching *)
Lemma matching_remove nodes adj M i j :
  is_matching nodes adj M -> In (i, j) M ->
  exists M', length M = S (length M') /\ is_matching nodes adj M' /\
             ~ In i (endpoints M') /\ ~ In j (endpoints M') /\ i <> j.
Proof.
  intros [Hnd Hm] Hin. apply in_split in Hin. destruct Hin as [M1 [M2 E]]. subst M.
  exists (M1 ++ M2).
  rewrite endpoints_app, endpoints_cons in Hnd.
  apply NoDup_remove in Hnd. destruct Hnd as [Hnd Hi].
  assert (Hij : i <> j).
  { intros E. apply Hi. rewrite in_app_iff. right; left; congruence. }
  apply NoDup_remove in Hnd. destruct Hnd as [Hnd Hj].
  rewrite endpoints_app.
  split; [rewrite !app_length; cbn [length]; lia|].
  split; [|split; [|split; [exact Hj | exact Hij]]].
  - split; [rewrite endpoints_app; exact Hnd|]. intros x y Hxy. apply Hm.
    rewrite in_app_iff in Hxy |- *. cbn [In]. tauto.
  - intros Hin. apply Hi. rewrite in_app_iff in Hin |- *. cbn [In]. tauto.
Qed.

Arguments matching_remove {nodes adj M i j}.

(* ------------------------------------------------------------------ *)
(* mms is attained ...                                                   *)

Lemma mms_attained_fuel adj f : forall nodes, length nodes <= f ->
  exists M, is_matching nodes adj M /\ length M = mms f nodes adj.
Proof.
  induction f as [|f IH]; intros nodes Hlen.
  - exists []. split; [apply matching_nil | reflexivity].
  - destruct nodes as [|a rest0].
    + exists []. split; [apply matching_nil | reflexivity].
    + cbn [length] in Hlen. rewrite mms_step.
      pose proof (drop_length a rest0) as Hd.
      destruct (fold_pick_attained (uadj adj a)
                  (fun b => S (mms f (drop b (drop a rest0)) adj))
                  (drop a rest0) (mms f (drop a rest0) adj)) as [E|[b [Hb [Hu E]]]];
        rewrite E; clear E.
      * destruct (IH (drop a rest0)) as [M [HM HL]]; [lia|].
        exists M. split; [|exact HL].
        apply (matching_nodes HM). intros x Hx.
        apply (matching_endpoints HM) in Hx. apply In_drop in Hx. right; tauto.
      * pose proof (drop_length b (drop a rest0)) as Hd'.
        destruct (IH (drop b (drop a rest0))) as [M [HM HL]]; [lia|].
        exists ((a, b) :: M). split; [|cbn [length]; rewrite HL; reflexivity].
        assert (Hsub : forall x, In x (endpoints M) -> In x rest0 /\ x <> a /\ x <> b).
        { intros x Hx. apply (matching_endpoints HM) in Hx.
          apply In_drop in Hx. destruct Hx as [Hx Hxb]. apply In_drop in Hx. tauto. }
        apply In_drop in Hb. destruct Hb as [Hb Hba].
        apply matching_cons; auto.
        -- apply (matching_nodes HM). intros x Hx. right. apply (Hsub x Hx).
        -- left; reflexivity.
        -- right; exact Hb.
        -- intros Hx. apply Hsub in Hx. tauto.
        -- intros Hx. apply Hsub in Hx. tauto.
Qed.

(* ... and bounds every matching *)

Lemma mms_upper_fuel adj f : forall nodes, length nodes <= f ->
  forall M, is_matching nodes adj M -> length M <= mms f nodes adj.
Proof.
  induction f as [|f IH]; intros nodes Hlen M HM.
  - destruct nodes as [|a t]; [|cbn [length] in Hlen; lia].
    rewrite (matching_no_nodes HM). cbn [length]; lia.
  - destruct nodes as [|a rest0].
    + rewrite (matching_no_nodes HM). cbn [length]; lia.
    + cbn [length] in Hlen. rewrite mms_step.
      pose proof (drop_length a rest0) as Hd.
      destruct (in_dec Nat.eq_dec a (endpoints M)) as [Ha|Ha].
      * (* a is matched, with b say *)
        apply In_endpoints in Ha. destruct Ha as [i [j [Hin Hx]]].
        destruct (matching_remove HM Hin) as [M' [HL [HM' [Hi [Hj Hij]]]]].
        destruct HM as [_ Hm]. destruct (Hm _ _ Hin) as [Hin_i [Hin_j Hu]].
        (* b is the other endpoint *)
        assert (Hb : exists b, (b = i \/ b = j) /\ b <> a /\ In b (a :: rest0) /\
                               uadj adj a b = true /\ (a = i \/ a = j)).
        { destruct Hx as [Hx|Hx]; subst a.
          - exists j. repeat split; auto.
          - exists i. repeat split; auto. rewrite uadj_comm; exact Hu. }
        destruct Hb as [b [Hbij [Hba [Hbin [Hub Haij]]]]].
        assert (Hbr : In b (drop a rest0)).
        { apply In_drop. split; [|exact Hba]. destruct Hbin as [E|Hbin]; [congruence | exact Hbin]. }
        pose proof (drop_length b (drop a rest0)) as Hd'.
        assert (HM'' : is_matching (drop b (drop a rest0)) adj M').
        { apply (matching_nodes HM'). intros x Hx'.
          assert (Hxa : x <> a) by (intros E; subst x; destruct Haij; subst a; contradiction).
          assert (Hxb : x <> b) by (intros E; subst x; destruct Hbij; subst b; contradiction).
          apply (matching_endpoints HM') in Hx'.
          apply In_drop. split; [|exact Hxb]. apply In_drop. split; [|exact Hxa].
          destruct Hx' as [E|Hx']; [congruence | exact Hx']. }
        apply IH in HM''; [|lia].
        pose proof (fold_pick_ge_cand (uadj adj a)
                      (fun b => S (mms f (drop b (drop a rest0)) adj))
                      (drop a rest0) (mms f (drop a rest0) adj) b Hbr Hub) as Hge.
        cbv beta in Hge. lia.
      * (* a is unmatched *)
        assert (HM' : is_matching (drop a rest0) adj M).
        { apply (matching_nodes HM). intros x Hx.
          apply In_drop. split.
          - destruct (matching_endpoints HM Hx) as [E|Hx']; [|exact Hx'].
            subst x. contradiction.
          - intros E; subst x; contradiction. }
        apply IH in HM'; [|lia].
        pose proof (fold_pick_ge_init (uadj adj a)
                      (fun b => S (mms f (drop b (drop a rest0)) adj))
                      (drop a rest0) (mms f (drop a rest0) adj)) as Hge.
        lia.
Qed.

Theorem mms_attained nodes adj :
  exists M, is_matching nodes adj M /\ length M = max_matching_size nodes adj.
Proof. unfold max_matching_size. apply mms_attained_fuel. lia. Qed.

Theorem mms_upper nodes adj M :
  is_matching nodes adj M -> length M <= max_matching_size nodes adj.
Proof. unfold max_matching_size. apply mms_upper_fuel. lia. Qed.

(* M5 *)
Theorem mms_is_maximum nodes adj M :
  is_matching nodes adj M -> length M = max_matching_size nodes adj -> is_maximum nodes adj M.
Proof.
  intros HM HL. split; [exact HM|]. intros M' HM'. rewrite HL. apply mms_upper; exact HM'.
Qed.

(* ------------------------------------------------------------------ *)
(* from the mate vector to pair lists                                   *)

Theorem valid_is_matching v m n : VOk v -> valid_matching v m n ->
  is_matching (vnodes v) (vadj v) (m_edges m) /\ length (m_edges m) = n.
Proof.
  intros [_ [Hnodes _]] [_ [Hs [Hj Hn]]]. split; [|symmetry; exact Hn].
  split; [apply m_edges_endpoints_nodup; exact Hs|].
  intros i j Hin. apply m_edges_spec in Hin. destruct Hin as [_ Hm].
  destruct (Hj _ _ Hm) as [Hjo _]. unfold uadj, vadj. rewrite orb_true_iff, !mem_In.
  destruct Hjo as [H|H]; destruct (Hnodes _ _ H) as [H1 H2]; auto.
Qed.

Theorem valid_max_is_maximum v m n : VOk v -> valid_matching v m n ->
  n = max_matching_size (vnodes v) (vadj v) ->
  forall m' n', valid_matching v m' n' -> n' <= n.
Proof.
  intros Hv _ Hn m' n' Hm'. destruct (valid_is_matching v m' n' Hv Hm') as [HM HL].
  subst n n'. apply mms_upper; exact HM.
Qed.

Print Assumptions mms_attained.
Print Assumptions mms_upper.
Print Assumptions mms_is_maximum.
Print Assumptions valid_is_matching.
Print Assumptions valid_max_is_maximum.
