(* maximum_matching (Gabow): find_join preserves the search invariant, when edge ids identify
   edges (EidOk).  Puts together MatchJoinP (what join_loop / relabel / refresh compute) and
   MatchBlossomP (the invariant after a blossom step).  (M3) *)
From PG Require Import Lib.Io Model.View Model.Traversal Model.MatchM Spec.Reach Spec.MatchSpec
  Proofs.TravBase Proofs.MatchGreedyP Proofs.MatchShapeP Proofs.MatchAugP Proofs.MatchFlipP
  Proofs.MatchInvP Proofs.MatchSeqP Proofs.MatchJoinP Proofs.MatchBlossomP Proofs.MatchMaxP.

(* two entries of the out-lists with the same edge id are the same edge, seen from the same end or
   from the two ends *)
Definition EidOk (v : view) : Prop :=
  forall a er b er', In er (out_edges v a) -> In er' (out_edges v b) -> eid er = eid er' ->
    (a = b /\ tgt er = tgt er') \/ (a = tgt er' /\ b = tgt er).

Lemma hd_split (X Xa Xb : list nat) j d : X = Xa ++ j :: Xb -> hd d X = hd d (Xa ++ [j]).
Proof. intros ->. destruct Xa; reflexivity. Qed.

Section FindJoin.
Variable v : view.
Hypothesis HE : EidOk v.
Variable start : nat.
Variable s : mst.
Variable pth : nat -> list nat.
Variable rk : nat -> nat.
Hypothesis I : SI v start s pth rk.
Variables e es et : nat.
Variable er : eref.
Hypothesis Her : In er (out_edges v es).
Hypothesis Heid : eid er = e.
Hypothesis Htgt : tgt er = et.
Hypothesis Hes : outerv (lab s) es.
Hypothesis Het : outerv (lab s) et.

Let d := vbound v.
Let Sq (X : list nat) : Prop := exists u, outerv (lab s) u /\ X = xs v s pth u.

Lemma SQ1 : forall X, Sq X -> NoDup X.
Proof. intros X [u [Hu ->]]. apply (xs_nodup v start s pth rk I u Hu). Qed.

Lemma SQ2 : forall X, Sq X -> exists X0, X = X0 ++ [vbound v].
Proof. intros X [u [Hu ->]]. eexists. reflexivity. Qed.

Lemma SQ3 : forall X Y f a1 b1 a2 b2, Sq X -> Sq Y -> X = a1 ++ f :: b1 -> Y = a2 ++ f :: b2 -> b1 = b2.
Proof.
  intros X Y f a1 b1 a2 b2 [u [Hu ->]] [u' [Hu' ->]] E1 E2.
  apply (xs_common v start s pth rk I u u' f a1 b1 a2 b2 Hu Hu' E1 E2).
Qed.

Lemma SQ4 : forall X a f y b s', Sq X -> X = a ++ f :: y :: b -> Agree s s' -> step_inner s' f = Ok y.
Proof.
  intros X a f y b s' [u [Hu ->]] E HA. apply (xs_step v start s pth rk I u a f y b s' Hu E HA).
Qed.

Lemma SQ5 : forall X x, Sq X -> In x X -> x < length (lab s) /\ ~ outerv (lab s) x.
Proof.
  intros X x [u [Hu ->]] Hx. destruct (xs_range v start s pth rk I u x Hu Hx) as [H1 H2].
  split; [rewrite (si_lablen _ _ _ _ _ I); lia | exact H2].
Qed.

Lemma xs_cons u : outerv (lab s) u -> exists r, xs v s pth u = hd d (xs v s pth u) :: r.
Proof.
  intros Hu. destruct (xs v s pth u) as [|x r] eqn:E.
  - unfold xs in E. apply app_eq_nil in E. destruct E; discriminate.
  - exists r. reflexivity.
Qed.

Lemma find_join_SI s' : es <> et -> find_join v s e es et = Ok s' ->
  SInv v start s' /\ (forall u, outerv (lab s) u -> outerv (lab s') u).
Proof.
  intros Hne H. unfold find_join in H.
  rb H as E1 lft. apply getp_ok in E1. rb H as E2 rgt. apply getp_ok in E2.
  rewrite (xs_hd v start s pth rk I es Hes) in E1. injection E1 as E1.
  rewrite (xs_hd v start s pth rk I et Het) in E2. injection E2 as E2. fold d in E1, E2.
  destruct (Nat.eqb_spec lft rgt) as [Heq|Hlr].
  { injection H as <-. split; [exists pth, rk; exact I | auto]. }
  assert (NoFlag : forall z, nth_error (lab s) z <> Some (LFlag e)).
  { intros z Hz. destruct (si_flag _ _ _ _ _ I z e Hz es er Her Heid) as [_ [_ Hf]].
    rewrite Htgt, (xs_hd v start s pth rk I es Hes), (xs_hd v start s pth rk I et Het) in Hf.
    injection Hf as Hf. fold d in Hf. congruence. }
  rb H as E3 lab1. apply setp_ok in E3. destruct E3 as [Hl1 ->].
  rb H as E4 lab2. apply setp_ok in E4. destruct E4 as [Hl2 ->]. rewrite upd_length in Hl2.
  rb H as E5 [join s1]. rb H as E6 i1. rb H as E7 s2. rb H as E8 i2. rb H as E9 s3. rb H as E10 fin'.
  injection H as <-.
  assert (SqX : Sq (xs v s pth es)) by (exists es; auto).
  assert (SqY : Sq (xs v s pth et)) by (exists et; auto).
  destruct (xs_cons es Hes) as [Xr EXr]. destruct (xs_cons et Het) as [Yr EYr].
  rewrite E1 in EXr. rewrite E2 in EYr.
  (* join_loop *)
  set (s0 := mkMst (mate s) (upd (upd (lab s) lft (LFlag e)) rgt (LFlag e)) (fin s) (vis s) (queue s) (nedges s)) in *.
  assert (J : JRes s e (xs v s pth es) (xs v s pth et) join s0 s1).
  { apply (join_loop_ok v s e Sq SQ1 SQ2 SQ3 SQ4 SQ5 NoFlag (4 * (vbound v + 2))
             (xs v s pth es) (xs v s pth et) [lft] Xr [rgt] Yr s0 join s1); auto.
    - discriminate.
    - discriminate.
    - intros x [<-|[]] [E|[]]. congruence.
    - split; [cbn [lab s0]; rewrite !upd_length; reflexivity|].
      intros z. cbn [lab s0]. rewrite !nth_error_upd, upd_length.
      rewrite (proj2 (Nat.ltb_lt _ _) Hl1), (proj2 (Nat.ltb_lt _ _) Hl2).
      destruct (Nat.eqb_spec rgt z) as [<-|N1].
      + split; [reflexivity|]. intros Hn. exfalso. apply Hn. right; left; reflexivity.
      + destruct (Nat.eqb_spec lft z) as [<-|N2].
        * split; [reflexivity|]. intros Hn. exfalso. apply Hn. left; reflexivity.
        * split; [|reflexivity]. intros [E|[E|[]]]; congruence. }
  destruct J as [Xa [Xb [Ya [Yb [V [EX [EY [DX [DY [M1 [F1 [FL1 [HV [_ [Q1 N1]]]]]]]]]]]]]]].
  cbn [queue nedges s0] in Q1, N1.
  assert (HVno : forall z, In z V -> ~ outerv (lab s) z).
  { intros z Hz. destruct (HV z Hz) as [Hin|Hin]; [apply (SQ5 _ z SqX Hin) | apply (SQ5 _ z SqY Hin)]. }
  assert (A1 : Agree s s1) by (apply (FL_Agree s e V s1 M1 F1 FL1 HVno)).
  (* relabel, es side *)
  apply getp_ok in E6. rewrite F1, (xs_hd v start s pth rk I es Hes) in E6. injection E6 as E6. fold d in E6.
  rewrite (hd_split _ Xa Xb join d EX) in E6. subst i1.
  assert (R2 : RL e es et join s1 s2 ([] ++ Xa)).
  { apply (relabel_ok v s e es et Sq SQ1 SQ2 SQ4 SQ5 (xs v s pth es) join Xb s1 SqX A1
             (4 * (vbound v + 2)) [] Xa s1 s2); [exact EX | apply RL_refl | exact E7]. }
  cbn [app] in R2.
  assert (HXano : forall z, In z Xa -> ~ outerv (lab s) z).
  { intros z Hz. apply (SQ5 _ z SqX). rewrite EX. apply in_or_app; left; exact Hz. }
  assert (HYano : forall z, In z Ya -> ~ outerv (lab s) z).
  { intros z Hz. apply (SQ5 _ z SqY). rewrite EY. apply in_or_app; left; exact Hz. }
  assert (A2 : Agree s s2) by (apply (RL_Agree s e es et join s1 s2 Xa A1 R2 HXano)).
  (* relabel, et side *)
  apply getp_ok in E8. destruct A2 as [A2m A2o]. rewrite (proj2 (A2o et Het)) in E8.
  rewrite (xs_hd v start s pth rk I et Het) in E8. injection E8 as E8. fold d in E8.
  rewrite (hd_split _ Ya Yb join d EY) in E8. subst i2.
  assert (A2 : Agree s s2) by (split; assumption).
  assert (R3 : RL e es et join s2 s3 ([] ++ Ya)).
  { apply (relabel_ok v s e es et Sq SQ1 SQ2 SQ4 SQ5 (xs v s pth et) join Yb s2 SqY A2
             (4 * (vbound v + 2)) [] Ya s2 s3); [exact EY | apply RL_refl | exact E9]. }
  cbn [app] in R3.
  (* refresh *)
  apply refresh_spec in E10. destruct E10 as [r' [Er [Lr Hr]]]. cbn [rev app] in Er. subst fin'.
  destruct R2 as [R2m [R2n [R2l [R2f [R2a [R2b R2q]]]]]].
  destruct R3 as [R3m [R3n [R3l [R3f [R3a [R3b R3q]]]]]].
  destruct FL1 as [FLl FLz].
  assert (Hdisj : forall z, In z Xa -> ~ In z Ya).
  { intros z Hx Hy. apply (DX z Hx). rewrite EY. apply in_or_app; left; exact Hy. }
  (* the labels of s3 *)
  assert (Lnew : forall z, In z (Xa ++ Ya) -> nth_error (lab s3) z = Some (LEdge e es et)).
  { intros z Hz. apply in_app_or in Hz. destruct Hz as [Hz|Hz].
    - rewrite (proj1 (R3b z (Hdisj z Hz))). apply (R2a z Hz).
    - apply (R3a z Hz). }
  assert (Lold : forall z, ~ In z (Xa ++ Ya) ->
            nth_error (lab s3) z = nth_error (lab s) z \/
            (nth_error (lab s3) z = Some (LFlag e) /\ ~ outerv (lab s) z)).
  { intros z Hz.
    assert (Hx : ~ In z Xa) by (intros Hin; apply Hz; apply in_or_app; left; exact Hin).
    assert (Hy : ~ In z Ya) by (intros Hin; apply Hz; apply in_or_app; right; exact Hin).
    rewrite (proj1 (R3b z Hy)), (proj1 (R2b z Hx)).
    destruct (in_dec Nat.eq_dec z V) as [Hin|Hnin].
    - right. split; [apply (proj1 (FLz z) Hin) | apply HVno, Hin].
    - left. apply (proj2 (FLz z) Hnin). }
  assert (Fin3 : forall z, nth_error (fin s3) z = if mem z (Xa ++ Ya) then Some join else nth_error (fin s) z).
  { intros z. destruct (mem z (Xa ++ Ya)) eqn:Em.
    - apply mem_In in Em. apply in_app_or in Em. destruct Em as [Hz|Hz].
      + rewrite (proj2 (R3b z (Hdisj z Hz))). apply (R2a z Hz).
      + apply (R3a z Hz).
    - apply mem_false in Em.
      assert (Hx : ~ In z Xa) by (intros Hin; apply Em; apply in_or_app; left; exact Hin).
      assert (Hy : ~ In z Ya) by (intros Hin; apply Em; apply in_or_app; right; exact Hin).
      rewrite (proj2 (R3b z Hy)), (proj2 (R2b z Hx)), F1. reflexivity. }
  assert (Hjno : ~ outerv (lab s) join).
  { apply (SQ5 _ join SqX). rewrite EX. apply in_or_app; right; left; reflexivity. }
  assert (Hjnn : ~ In join (Xa ++ Ya)).
  { intros Hin. apply in_app_or in Hin. destruct Hin as [Hin|Hin].
    - apply (DX join Hin). rewrite EY. apply in_or_app; right; left; reflexivity.
    - apply (DY join Hin). rewrite EX. apply in_or_app; right; left; reflexivity. }
  assert (Hnewno : forall z, In z (Xa ++ Ya) -> ~ outerv (lab s) z).
  { intros z Hz. apply in_app_or in Hz. destruct Hz; auto. }
  (* outer in s3 *)
  assert (Hout3 : forall z, ~ outerv (lab s) z -> ~ In z (Xa ++ Ya) -> outb (lab s3) z = false).
  { intros z Hno Hnn. destruct (outb (lab s3) z) eqn:Eo; [|reflexivity]. exfalso.
    apply outerv_outb in Eo. destruct Eo as [lb [Hlb Hlo]].
    destruct (Lold z Hnn) as [E|[E _]]; rewrite E in Hlb.
    - apply Hno. exists lb. auto.
    - injection Hlb as <-. discriminate. }
  assert (Hlen3 : length (lab s3) = S (vbound v)).
  { rewrite R3l, R2l, FLl. apply (si_lablen _ _ _ _ _ I). }
  set (sf := mkMst (mate s3) (lab s3) r' (vis s3) (queue s3) (nedges s3)).
  assert (ISf : SI v start sf (pth' pth es et Xa Ya) (rk' s rk Xa Ya)).
  { apply (blossom_SI v start s pth rk I HE e es et er Her Heid Htgt Hes Het join Xa Xb Ya Yb EX EY DX DY);
      cbn [mate lab fin queue nedges sf].
    - intros En. apply app_eq_nil in En. destruct En as [-> ->]. cbn [app] in EX, EY.
      apply Hlr. rewrite <- E1, <- E2, EX, EY. reflexivity.
    - congruence.
    - congruence.
    - exact Hlen3.
    - exact Lnew.
    - exact Lold.
    - rewrite Lr. exact Hlen3.
    - intros z Hz. pose proof Hz as [lb [Hlb Hlo]].
      destruct (Hr z lb Hlb) as [cur [Hc Hv]]. cbn [Nat.add] in Hc, Hv.
      exists cur. split; [rewrite <- Fin3; exact Hc|]. rewrite Hv.
      assert (Hzd : Nat.eqb z (vbound v) = false).
      { apply Nat.eqb_neq. intros ->.
        assert (Hdn : ~ In (vbound v) (Xa ++ Ya)).
        { intros Hin. rewrite (Lnew _ Hin) in Hlb.
          apply in_app_or in Hin. destruct Hin as [Hin|Hin].
          - apply in_split in Hin. destruct Hin as [a1 [a2 Ea]].
            assert (E : xs v s pth es = a1 ++ vbound v :: (a2 ++ join :: Xb)) by (rewrite EX, Ea, <- app_assoc; reflexivity).
            apply (xs_last v start s pth rk I es _ _ E) in Hes. destruct a2; discriminate.
          - apply in_split in Hin. destruct Hin as [a1 [a2 Ea]].
            assert (E : xs v s pth et = a1 ++ vbound v :: (a2 ++ join :: Yb)) by (rewrite EY, Ea, <- app_assoc; reflexivity).
            apply (xs_last v start s pth rk I et _ _ E) in Het. destruct a2; discriminate. }
        pose proof (Hout3 (vbound v) (dummy_not_outer v start s pth rk I) Hdn) as Ho.
        unfold outb in Ho. rewrite (nth_error_nth _ _ LNone Hlb) in Ho. congruence. }
      rewrite Hzd, Hlo. cbn [negb andb]. f_equal.
      assert (Hcur : ~ outerv (lab s) cur).
      { rewrite Fin3 in Hc. destruct (mem z (Xa ++ Ya)) eqn:Em.
        - injection Hc as <-. exact Hjno.
        - apply mem_false in Em.
          assert (Hzo : outerv (lab s) z).
          { destruct (Lold z Em) as [E|[E _]]; rewrite E in Hlb; [exists lb; auto|].
            injection Hlb as <-. discriminate. }
          rewrite (xs_hd v start s pth rk I z Hzo) in Hc. injection Hc as <-.
          destruct (xs_cons z Hzo) as [r Er]. fold d.
          apply (xs_range v start s pth rk I z _ Hzo). rewrite Er at 2. left; reflexivity. }
      destruct (mem cur (Xa ++ Ya)) eqn:Emc.
      + apply mem_In in Emc. unfold outb. rewrite (nth_error_nth _ _ LNone (Lnew cur Emc)). reflexivity.
      + apply mem_false in Emc. rewrite (Hout3 cur Hcur Emc). reflexivity.
    - intros x Hx. destruct (R3q x Hx) as [Hq|Hq]; [|right; apply in_or_app; right; exact Hq].
      destruct (R2q x Hq) as [Hq'|Hq']; [|right; apply in_or_app; left; exact Hq'].
      left. rewrite Q1 in Hq'. exact Hq'. }
  split; [exists (pth' pth es et Xa Ya), (rk' s rk Xa Ya); exact ISf|].
  intros u Hu. change (outerv (lab s3) u). pose proof Hu as [lb [Hlb Hlo]].
  assert (Hnn : ~ In u (Xa ++ Ya)) by (intros Hin; apply (Hnewno u Hin Hu)).
  destruct (Lold u Hnn) as [E|[_ Hn]]; [|contradiction].
  exists lb. rewrite E. auto.
Qed.

End FindJoin.

Theorem find_join_preserves_ok v : EidOk v -> find_join_preserves v.
Proof.
  intros HE start s e es et er s' [pth [rk I]] Hes Het Her Heid Htgt Hne H.
  apply (find_join_SI v HE start s pth rk I e es et er Her Heid Htgt Hes Het s' Hne H).
Qed.

(* ------------------------------------------------------------------ *)
(* M3: maximum_matching returns a valid matching                       *)

Theorem maximum_matching_valid v debug m n :
  MOk v -> EidOk v -> maximum_matching v debug = Ok (m, n) -> valid_matching v m n.
Proof.
  intros HM HE. apply maximum_matching_valid_partial; [apply find_join_preserves_ok, HE | exact HM].
Qed.

Print Assumptions find_join_preserves_ok.
Print Assumptions maximum_matching_valid.
