(* maximum_matching (matching.rs, Gabow): shape facts.  Every function of the model keeps the
   lengths of the mate / label / first_inner vectors; the returned mate vector has
   node_bound entries.  (M3, item 1) *)
From PG Require Import Lib.Io Model.View Model.Traversal Model.MatchM Spec.Reach Spec.MatchSpec
  Proofs.TravBase Proofs.MatchGreedyP.

(* one step of case analysis on an rbind / rmap chain that is known to be Ok *)
Tactic Notation "rb" hyp(H) "as" ident(E) simple_intropattern(p) :=
  lazymatch type of H with
  | rbind ?e _ = Ok _ =>
      destruct e as [p| |] eqn:E; cbn [rbind] in H; [|discriminate H|discriminate H]
  | rmap _ ?e = Ok _ =>
      destruct e as [p| |] eqn:E; cbn [rmap] in H; [|discriminate H|discriminate H]
  end.

Lemma setp_len {A} (l : list A) i x l' : setp l i x = Ok l' -> length l' = length l.
Proof.
  unfold setp. destruct (Nat.ltb i (length l)); [|discriminate].
  intros H; injection H as <-. apply upd_length.
Qed.

Lemma setp_ok {A} (l : list A) i x l' : setp l i x = Ok l' -> i < length l /\ l' = upd l i x.
Proof.
  unfold setp. destruct (Nat.ltb_spec i (length l)) as [Hl|Hl]; [|discriminate].
  intros H; injection H as <-. auto.
Qed.

Lemma setp_lt {A} (l : list A) i x : i < length l -> setp l i x = Ok (upd l i x).
Proof. intros H. unfold setp. rewrite (proj2 (Nat.ltb_lt _ _) H). reflexivity. Qed.

Lemma getp_ok {A} (l : list A) i x : getp l i = Ok x -> nth_error l i = Some x.
Proof. unfold getp. destruct (nth_error l i); [|discriminate]. intros H; injection H as <-; reflexivity. Qed.

Lemma getp_lt {A} (l : list A) i : i < length l -> exists x, getp l i = Ok x /\ nth_error l i = Some x.
Proof.
  intros H. destruct (@nth_error_lt_Some _ l i H) as [x E]. exists x. unfold getp. rewrite E. auto.
Qed.

Definition shp (s : mst) : nat * nat * nat := (length (mate s), length (lab s), length (fin s)).

Section Shape.
Variable v : view.

Lemma label_visit_same s x s' : label_visit v s x = Ok s' ->
  mate s' = mate s /\ lab s' = lab s /\ fin s' = fin s /\ nedges s' = nedges s.
Proof.
  unfold label_visit. intros H. rb H as E [fresh m]. injection H as <-.
  cbn [mate lab fin nedges]. auto.
Qed.

Lemma label_visit_shp s x s' : label_visit v s x = Ok s' -> shp s' = shp s.
Proof.
  intros H. apply label_visit_same in H. destruct H as [H1 [H2 [H3 _]]].
  unfold shp. rewrite H1, H2, H3. reflexivity.
Qed.

Lemma join_loop_shp : forall fuel s e l r j s',
  join_loop v fuel s e l r = Ok (j, s') -> shp s' = shp s /\ mate s' = mate s /\ nedges s' = nedges s.
Proof.
  induction fuel as [|f IH]; intros s e l r j s' H; cbn [join_loop] in H; [discriminate|].
  destruct (Nat.eqb r (vbound v)).
  - rb H as E1 l'. rb H as E2 lb. destruct (is_flagged lb e).
    + injection H as <- <-. auto.
    + rb H as E3 lab'. apply IH in H. destruct H as [H1 [H2 H3]].
      cbn [mate nedges] in H2, H3. rewrite H1. unfold shp. cbn [mate lab fin].
      rewrite (setp_len _ _ _ _ E3). auto.
  - rb H as E1 l'. rb H as E2 lb. destruct (is_flagged lb e).
    + injection H as <- <-. auto.
    + rb H as E3 lab'. apply IH in H. destruct H as [H1 [H2 H3]].
      cbn [mate nedges] in H2, H3. rewrite H1. unfold shp. cbn [mate lab fin].
      rewrite (setp_len _ _ _ _ E3). auto.
Qed.

Lemma relabel_shp : forall fuel s e es et join inner s',
  relabel v fuel s e es et join inner = Ok s' ->
  shp s' = shp s /\ mate s' = mate s /\ nedges s' = nedges s.
Proof.
  induction fuel as [|f IH]; intros s e es et join inner s' H; cbn [relabel] in H; [discriminate|].
  destruct (Nat.eqb inner join).
  - injection H as <-. auto.
  - rb H as E1 s1. rb H as E2 lab'. rb H as E3 fin'. rb H as E4 inner'.
    apply IH in H. destruct H as [H1 [H2 H3]]. cbn [mate nedges] in H2, H3.
    assert (Hs1 : shp s1 = shp s /\ mate s1 = mate s /\ nedges s1 = nedges s).
    { destruct (Nat.eqb inner (vbound v)).
      - injection E1 as <-. auto.
      - pose proof (label_visit_shp _ _ _ E1). apply label_visit_same in E1. tauto. }
    destruct Hs1 as [Hs1 [Hm1 Hn1]].
    split; [|split; congruence]. rewrite H1, <- Hs1. unfold shp. cbn [mate lab fin].
    rewrite (setp_len _ _ _ _ E2), (setp_len _ _ _ _ E3). reflexivity.
Qed.

Lemma refresh_len : forall labs s idx join acc r,
  refresh v labs s idx join acc = Ok r -> length r = length acc + length labs.
Proof.
  induction labs as [|l rest IH]; intros s idx join acc r H; cbn [refresh] in H.
  - injection H as <-. rewrite rev_length. cbn [length]. lia.
  - rb H as E1 cur. destruct (negb (Nat.eqb idx (vbound v)) && is_outer l).
    + rb H as E2 l2. apply IH in H. cbn [length] in *. lia.
    + apply IH in H. cbn [length] in *. lia.
Qed.

Lemma find_join_shp s e es et s' : length (lab s) = length (fin s) -> find_join v s e es et = Ok s' ->
  shp s' = shp s /\ mate s' = mate s /\ nedges s' = nedges s.
Proof.
  unfold find_join. intros Hlf H. rb H as E1 lft. rb H as E2 rgt.
  destruct (Nat.eqb lft rgt).
  - injection H as <-. auto.
  - rb H as E3 lab1. rb H as E4 lab2. rb H as E5 [join s1]. rb H as E6 i1. rb H as E7 s2.
    rb H as E8 i2. rb H as E9 s3. rb H as E10 fin'. injection H as <-.
    apply join_loop_shp in E5. apply relabel_shp in E7. apply relabel_shp in E9.
    apply refresh_len in E10. cbn [length Nat.add] in E10.
    destruct E5 as [A1 [A2 A3]]. destruct E7 as [B1 [B2 B3]]. destruct E9 as [C1 [C2 C3]].
    cbn [mate nedges] in A2, A3.
    assert (Hs3 : shp s3 = shp s).
    { rewrite C1, B1, A1. unfold shp. cbn [mate lab fin].
      rewrite (setp_len _ _ _ _ E4), (setp_len _ _ _ _ E3). reflexivity. }
    cbn [mate nedges]. split; [|split; congruence].
    unfold shp in *. cbn [mate lab fin]. rewrite E10.
    injection Hs3 as Q1 Q2 Q3. rewrite Q1, Q2. congruence.
Qed.

Lemma augment_path_len : forall fuel labs m outer other m',
  augment_path v fuel labs m outer other = Ok m' -> length m' = length m.
Proof.
  induction fuel as [|f IH]; intros labs m outer other m' H; cbn [augment_path] in H; [discriminate|].
  rb H as E1 temp. rb H as E2 m1. rb H as E3 back.
  pose proof (setp_len _ _ _ _ E2) as L1.
  destruct (negb match back with Some x => Nat.eqb x outer | None => false end).
  - injection H as <-. exact L1.
  - rb H as E4 l. destruct l as [| |vertex|e0 s t|e0]; try discriminate.
    + rb H as E5 m2. pose proof (setp_len _ _ _ _ E5) as L2. destruct temp as [t|].
      * apply IH in H. congruence.
      * injection H as <-. congruence.
    + rb H as E5 m2. apply IH in E5. apply IH in H. congruence.
Qed.

Lemma scan_edge_shp start outer s e b s' : length (lab s) = length (fin s) ->
  scan_edge v start outer s e = Ok (b, s') -> shp s' = shp s.
Proof.
  unfold scan_edge. intros Hlf H. destruct (Nat.eqb (tgt e) outer).
  - injection H as <- <-. reflexivity.
  - rb H as E1 mo.
    destruct (match mo with None => true | Some _ => false end && negb (Nat.eqb (tgt e) start)).
    + rb H as E2 m1. rb H as E3 m2. injection H as <- <-.
      apply augment_path_len in E3. unfold shp. cbn [mate lab fin].
      rewrite E3, (setp_len _ _ _ _ E2). reflexivity.
    + rb H as E2 lo. destruct (is_outer lo).
      * rb H as E3 s2. injection H as <- <-. apply find_join_shp in E3; [apply E3 | exact Hlf].
      * rb H as E3 lm. rb H as E4 s1.
        assert (Hs1 : shp s1 = shp s).
        { destruct (is_outer lm).
          - injection E4 as <-. reflexivity.
          - rb E4 as E5 lab'. rb E4 as E6 fin'. injection E4 as <-.
            unfold shp. cbn [mate lab fin].
            rewrite (setp_len _ _ _ _ E5), (setp_len _ _ _ _ E6). reflexivity. }
        destruct mo as [mv|].
        -- rb H as E5 s2. injection H as <- <-. apply label_visit_shp in E5. congruence.
        -- injection H as <- <-. exact Hs1.
Qed.

Lemma shp_lf s s' : shp s' = shp s -> length (lab s) = length (fin s) -> length (lab s') = length (fin s').
Proof. unfold shp. intros H; injection H as Q1 Q2 Q3. congruence. Qed.

Lemma scan_edges_shp start outer : forall es s b s', length (lab s) = length (fin s) ->
  scan_edges v start outer s es = Ok (b, s') -> shp s' = shp s.
Proof.
  induction es as [|e rest IH]; intros s b s' Hlf H; cbn [scan_edges] in H.
  - injection H as <- <-. reflexivity.
  - rb H as E1 [found s1]. apply scan_edge_shp in E1; [|exact Hlf]. destruct found.
    + injection H as <- <-. exact E1.
    + apply IH in H; [congruence|]. eapply shp_lf; eauto.
Qed.

Lemma search_shp start : forall fuel s s', length (lab s) = length (fin s) ->
  search v fuel start s = Ok s' -> shp s' = shp s.
Proof.
  induction fuel as [|f IH]; intros s s' Hlf H; cbn [search] in H; [discriminate|].
  destruct (queue s) as [|outer q].
  - injection H as <-. reflexivity.
  - rb H as E1 [found s1]. apply scan_edges_shp in E1; [|exact Hlf].
    assert (E1' : shp s1 = shp s) by exact E1.
    destruct found.
    + injection H as <-. exact E1'.
    + apply IH in H; [congruence|]. eapply shp_lf; eauto.
Qed.

Definition shape (s : mst) : Prop :=
  length (mate s) = S (vbound v) /\ length (lab s) = S (vbound v) /\ length (fin s) = S (vbound v).

Lemma try_start_shape s start s' : shape s -> try_start v s start = Ok s' -> shape s'.
Proof.
  unfold try_start. intros Hs H. rb H as E1 m. destruct m as [x|].
  - injection H as <-. exact Hs.
  - rb H as E2 lab1. rb H as E3 fin1. rb H as E4 [b vis1]. rb H as E5 s1. injection H as <-.
    destruct Hs as [S1 [S2 S3]].
    apply search_shp in E5;
      [|cbn [lab fin]; rewrite (setp_len _ _ _ _ E2), (setp_len _ _ _ _ E3); congruence].
    unfold shp in E5. cbn [mate lab fin] in E5. injection E5 as Q1 Q2 Q3.
    unfold shape. cbn [mate lab fin]. cbn [length]. rewrite repeat_length, Q1, Q3, (setp_len _ _ _ _ E3). auto.
Qed.

Lemma try_fold_shape : forall l s s',
  shape s -> fold_left (fun acc start => rbind acc (fun s => try_start v s start)) l (Ok s) = Ok s' ->
  shape s'.
Proof.
  induction l as [|a t IH]; intros s s' Hs H; cbn [fold_left] in H.
  - injection H as <-. exact Hs.
  - cbn [rbind] in H. destruct (try_start v s a) as [s1| |] eqn:E.
    + eapply IH; [|exact H]. eapply try_start_shape; eauto.
    + exfalso. clear -H. induction t as [|b t IHt]; cbn [fold_left rbind] in H; [discriminate | auto].
    + exfalso. clear -H. induction t as [|b t IHt]; cbn [fold_left rbind] in H; [discriminate | auto].
Qed.

(* the returned mate vector has node_bound entries *)
Theorem maximum_matching_length debug m n :
  MOk v -> maximum_matching v debug = Ok (m, n) -> length m = vbound v.
Proof.
  intros HM H. unfold maximum_matching in H.
  destruct (greedy_inner_valid v HM) as [m0 [n0 [Eg [Hl0 _]]]]. rewrite Eg in H. cbn [rbind] in H.
  destruct (debug && negb (Nat.eqb (length (m0 ++ [None])) (S (vbound v)))); [discriminate|].
  rb H as E s. injection H as <- _.
  apply try_fold_shape in E.
  - destruct E as [E _]. destruct (mate s) as [|x t] eqn:Em using rev_ind; [discriminate|].
    rewrite removelast_last. rewrite app_length in E. cbn [length] in E. lia.
  - unfold shape. cbn [mate lab fin]. rewrite app_length, !repeat_length, Hl0. cbn [length]. lia.
Qed.

End Shape.

Print Assumptions maximum_matching_length.
