(* Small facts about the well-formedness MOk used by the matching theorems (C15): its boolean
   check, and why plain VOk is not enough for greedy_matching. *)
From PG Require Import Lib.Io Model.View Model.Traversal Model.MatchM Spec.Reach Spec.MatchSpec.

Lemma mok_b_ok v : mok_b v = true -> MOk v.
Proof.
  unfold mok_b. intros H. apply andb_true_iff in H. destruct H as [H1 H2].
  split; [apply vok_check_ok; exact H1|].
  rewrite forallb_forall in H2. intros a Ha. apply Nat.ltb_lt, H2, Ha.
Qed.

(* VOk says nothing about node_bound: with node_bound = 0 the mate vector is empty and the first
   matched pair is written out of range *)
Definition tiny_view : view :=
  mkView false 0 None [0; 1] [(0, [(0, 1, 1%Z)]); (1, [(0, 0, 1%Z)])]
         [(0, [(0, 1, 1%Z)]); (1, [(0, 0, 1%Z)])] 1 1 [].

Lemma greedy_needs_bound : exists v, VOk v /\ greedy_inner v = Panic.
Proof.
  exists tiny_view. split; [apply vok_check_ok; vm_compute; reflexivity | vm_compute; reflexivity].
Qed.

Print Assumptions mok_b_ok.
Print Assumptions greedy_needs_bound.
