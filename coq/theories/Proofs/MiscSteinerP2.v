(* steiner_tree checker (C20), part 2: steiner_opt is the minimum weight of a tree of the graph that
   contains the terminals (Kruskal on every induced subgraph, minimised over the node subsets). *)
From Coq Require Import Lia ZArith Bool.
From PG Require Import Lib.Io Model.View Model.UnionFindM Model.MstM Model.MiscM
  Spec.Partition Spec.Forest Spec.Reach Spec.MiscSpec
  Proofs.ForestP Proofs.MiscSteinerP1 Props.C12.

(* ------------------------------------------------------------------ *)
(* subseqs lists the sublists                                           *)

Lemma subseqs_In_st {A} (K l : list A) : In K (subseqs l) <-> sublist K l.
Proof.
  split.
  - revert K. induction l as [|x t IH]; intros K H; cbn [subseqs] in H.
    + destruct H as [<-|[]]. constructor.
    + apply in_app_or in H. destruct H as [H|H].
      * apply in_map_iff in H. destruct H as [K' [<- HK']]. apply sl_take, IH, HK'.
      * apply sl_skip, IH, H.
  - intros H. induction H as [|x K l H IH|x K l H IH]; cbn [subseqs].
    + left; reflexivity.
    + apply in_or_app; right; exact IH.
    + apply in_or_app; left. apply in_map; exact IH.
Qed.

Lemma sublist_incl {A} (K l : list A) : sublist K l -> incl K l.
Proof.
  intros H. induction H as [|x K l H IH|x K l H IH]; intros a Ha.
  - exact Ha.
  - right; apply IH, Ha.
  - destruct Ha as [<-|Ha]; [left; reflexivity | right; apply IH, Ha].
Qed.

Lemma sublist_NoDup {A} (K l : list A) : sublist K l -> NoDup l -> NoDup K.
Proof.
  intros H. induction H as [|x K l H IH|x K l H IH]; intros ND.
  - exact ND.
  - inversion ND; subst. apply IH; assumption.
  - inversion ND as [|x' l' Hx Hl]; subst. constructor; [|apply IH; exact Hl].
    intros Hin. apply Hx. apply (sublist_incl K l H), Hin.
Qed.

Lemma sublist_filter {A} (f : A -> bool) l : sublist (filter f l) l.
Proof.
  induction l as [|x t IH]; cbn [filter]; [constructor|].
  destruct (f x); [apply sl_take | apply sl_skip]; exact IH.
Qed.

Lemma sublist_filter_mem K l : sublist K l -> NoDup l -> filter (fun a => mem a K) l = K.
Proof.
  intros H. induction H as [|x K l H IH|x K l H IH]; intros ND.
  - reflexivity.
  - inversion ND as [|x' l' Hx Hl]; subst. cbn [filter].
    assert (Em : mem x K = false).
    { apply mem_false. intros Hin. apply Hx. apply (sublist_incl K l H), Hin. }
    rewrite Em. apply IH, Hl.
  - inversion ND as [|x' l' Hx Hl]; subst. cbn [filter mem]. rewrite Nat.eqb_refl. cbn [orb].
    f_equal. transitivity (filter (fun a => mem a K) l); [|apply IH, Hl].
    apply filter_ext_in. intros a Ha. cbn [mem].
    destruct (Nat.eqb_spec x a) as [->|Hne]; [exfalso; apply Hx, Ha | reflexivity].
Qed.

(* ------------------------------------------------------------------ *)
(* the induced view                                                     *)

Lemma induced_nodes v K : vnodes (induced_view v K) = filter (fun a => mem a K) (vnodes v).
Proof. reflexivity. Qed.

Lemma induced_nodes_sub v K : MOk v -> sublist K (vnodes v) -> vnodes (induced_view v K) = K.
Proof. intros [ND _] H. rewrite induced_nodes. apply sublist_filter_mem; assumption. Qed.

Lemma induced_erefs v K i a b w :
  In (i, a, b, w) (verefs (induced_view v K)) <-> In (i, a, b, w) (verefs v) /\ In a K /\ In b K.
Proof.
  unfold induced_view. cbn [verefs]. rewrite filter_In. cbn beta iota.
  rewrite andb_true_iff, !mem_In. reflexivity.
Qed.

Lemma gedges_In v a b w : In (a, b, w) (gedges v) <-> exists i, In (i, a, b, w) (verefs v).
Proof.
  unfold gedges. rewrite in_map_iff. split.
  - intros [[[[i s] t] w'] [E Hin]]. injection E as -> -> ->. exists i; exact Hin.
  - intros [i Hin]. exists (i, a, b, w). split; [reflexivity | exact Hin].
Qed.

Lemma induced_gedges v K a b w :
  In (a, b, w) (gedges (induced_view v K)) <-> In (a, b, w) (gedges v) /\ In a K /\ In b K.
Proof.
  rewrite !gedges_In. split.
  - intros [i H]. apply induced_erefs in H. destruct H as [H [Ha Hb]]. split; [exists i; exact H | split; assumption].
  - intros [[i H] [Ha Hb]]. exists i. apply induced_erefs. split; [exact H | split; assumption].
Qed.

Lemma MOk_induced v K : MOk v -> MOk (induced_view v K).
Proof.
  intros [ND [Hb He]]. split; [|split].
  - rewrite induced_nodes. apply NoDup_filter, ND.
  - intros a Ha. rewrite induced_nodes in Ha. apply filter_In in Ha. apply Hb. apply Ha.
  - intros i a b w Hin. apply induced_erefs in Hin. destruct Hin as [Hin [Ha Hb']].
    destruct (He i a b w Hin) as [Ha' Hb'']. rewrite induced_nodes. split; apply filter_In; split; try assumption;
      apply mem_In; assumption.
Qed.

(* ------------------------------------------------------------------ *)
(* sumw is weight                                                       *)

Lemma sumw_acc : forall (es : list (nat * nat * Z)) (s : Z),
  fold_left (fun s '(_, _, w) => (s + w)%Z) es s = (s + weight es)%Z.
Proof.
  induction es as [|[[a b] w] t IH]; intros s.
  - unfold weight. cbn [fold_left map fold_right]. lia.
  - cbn [fold_left]. rewrite IH. unfold weight. cbn [map fold_right snd]. lia.
Qed.

Lemma sumw_weight es : sumw es = weight es.
Proof. unfold sumw. rewrite sumw_acc. lia. Qed.

Lemma map_triple_id (es : list (nat * nat * Z)) : map (fun '(a, b, w) => (a, b, w)) es = es.
Proof.
  induction es as [|[[a b] w] t IH]; [reflexivity|]. cbn [map]. rewrite IH. reflexivity.
Qed.

(* ------------------------------------------------------------------ *)
(* steiner_opt as a minimum over candidates                             *)

(* what the node set keep contributes: the weight of Kruskal's forest of the induced subgraph when
   keep holds the terminals and that forest is a tree on keep *)
Definition st_cand (v : view) (T keep : list nat) : option Z :=
  if negb (forallb (fun t => mem t keep) T) then None
  else match kruskal (induced_view v keep) with
       | Ok es => if Nat.eqb (S (length es)) (length keep) then Some (weight es) else None
       | _ => None
       end.

Definition omin_step {K} (c : K -> option Z) (best : option Z) (k : K) : option Z :=
  match c k with
  | None => best
  | Some w => match best with Some b => Some (Z.min b w) | None => Some w end
  end.

Lemma steiner_opt_fold v T :
  steiner_opt v T = fold_left (omin_step (st_cand v T)) (subseqs (vnodes v)) None.
Proof.
  unfold steiner_opt. generalize (@None Z). generalize (subseqs (vnodes v)).
  induction l as [|k t IH]; intros best; [reflexivity|].
  cbn [fold_left]. rewrite IH. f_equal.
  unfold omin_step, st_cand.
  destruct (negb (forallb (fun t0 => mem t0 k) T)); [reflexivity|].
  destruct (kruskal (induced_view v k)) as [es| |]; try reflexivity.
  rewrite map_triple_id, sumw_weight.
  destruct (Nat.eqb (S (length es)) (length k)); reflexivity.
Qed.

Lemma omin_fold {K} (c : K -> option Z) : forall l best,
  (fold_left (omin_step c) l best = None <-> best = None /\ forall k, In k l -> c k = None) /\
  (forall w, fold_left (omin_step c) l best = Some w ->
     (best = Some w \/ exists k, In k l /\ c k = Some w) /\
     (forall b, best = Some b -> (w <= b)%Z) /\
     (forall k w', In k l -> c k = Some w' -> (w <= w')%Z)).
Proof.
  induction l as [|k t IH]; intros best.
  - cbn [fold_left]. split.
    + split; [intros H; split; [exact H | intros k []] | intros [H _]; exact H].
    + intros w E. split; [left; exact E|]. split.
      * intros b Eb. rewrite Eb in E. injection E as <-. lia.
      * intros k w' [].
  - cbn [fold_left]. destruct (IH (omin_step c best k)) as [IHn IHs]. split.
    + rewrite IHn. unfold omin_step. destruct (c k) as [wk|] eqn:Ek.
      * split.
        -- intros [H _]. destruct best; discriminate H.
        -- intros [_ H]. specialize (H k (or_introl eq_refl)). rewrite Ek in H. discriminate H.
      * split.
        -- intros [Hb H]. split; [exact Hb|]. intros k' [<-|Hk']; [exact Ek | apply H, Hk'].
        -- intros [Hb H]. split; [exact Hb|]. intros k' Hk'. apply H. right; exact Hk'.
    + intros w E. destruct (IHs w E) as [Hex [Hlb Hall]]. unfold omin_step in Hex, Hlb.
      destruct (c k) as [wk|] eqn:Ek.
      * destruct best as [b|].
        -- specialize (Hlb _ eq_refl). split; [|split].
           ++ destruct Hex as [Hex|[k' [Hk' Ec]]].
              ** injection Hex as Hex.
                 destruct (Z.min_spec b wk) as [[_ Em]|[_ Em]]; rewrite Em in Hex; subst w.
                 --- left; reflexivity.
                 --- right. exists k. split; [left; reflexivity | exact Ek].
              ** right. exists k'. split; [right; exact Hk' | exact Ec].
           ++ intros b' Eb. injection Eb as <-. lia.
           ++ intros k' w' [<-|Hk'] Ec; [rewrite Ek in Ec; injection Ec as <-; lia | apply (Hall k' w' Hk' Ec)].
        -- specialize (Hlb _ eq_refl). split; [|split].
           ++ right. destruct Hex as [Hex|[k' [Hk' Ec]]].
              ** injection Hex as <-. exists k. split; [left; reflexivity | exact Ek].
              ** exists k'. split; [right; exact Hk' | exact Ec].
           ++ intros b' Eb. discriminate Eb.
           ++ intros k' w' [<-|Hk'] Ec; [rewrite Ek in Ec; injection Ec as <-; lia | apply (Hall k' w' Hk' Ec)].
      * split; [|split].
        -- destruct Hex as [Hex|[k' [Hk' Ec]]]; [left; exact Hex | right; exists k'; split; [right; exact Hk' | exact Ec]].
        -- exact Hlb.
        -- intros k' w' [<-|Hk'] Ec; [rewrite Ek in Ec; discriminate Ec | apply (Hall k' w' Hk' Ec)].
Qed.

(* ------------------------------------------------------------------ *)
(* what a candidate is                                                  *)

Lemma induced_ends_in v K F : incl F (gedges (induced_view v K)) -> ends_in K (ends F).
Proof.
  intros Hi a b Hin. apply ends_In in Hin. destruct Hin as [w Hin].
  apply Hi, induced_gedges in Hin. destruct Hin as [_ [Ha Hb]]. split; assumption.
Qed.

Lemma induced_incl v K F : incl F (gedges (induced_view v K)) -> incl F (gedges v).
Proof. intros Hi [[a b] w] Hin. apply Hi, induced_gedges in Hin. apply Hin. Qed.

(* a candidate value is the weight of a tree on keep made of edges of the induced subgraph *)
Lemma cand_some v T K w : MOk v -> sublist K (vnodes v) -> st_cand v T K = Some w ->
  incl T K /\ exists F, incl F (gedges (induced_view v K)) /\ IsTree K (ends F) /\ weight F = w.
Proof.
  intros Hok Hs. unfold st_cand.
  destruct (forallb (fun t => mem t K) T) eqn:ET; cbn [negb]; [|discriminate].
  destruct (kruskal (induced_view v K)) as [l| |] eqn:Ek; try discriminate.
  destruct (Nat.eqb_spec (S (length l)) (length K)) as [El|El]; [|discriminate].
  intros E. injection E as <-.
  split; [apply forallb_mem_incl; exact ET|].
  pose proof (MOk_induced v K Hok) as HokK.
  destruct (C12_kruskal_minimal (induced_view v K) l HokK Ek) as [[Hin [Hac _]] [Ew _]].
  exists (decode (induced_view v K) l). split; [exact Hin|]. split; [|exact Ew].
  apply forest_count_tree.
  - intros ->. cbn [length] in El. discriminate El.
  - apply (sublist_NoDup K (vnodes v) Hs). apply Hok.
  - apply (induced_ends_in v K), Hin.
  - exact Hac.
  - rewrite ends_length. unfold decode. rewrite map_length. exact El.
Qed.

(* every tree on keep made of edges of the graph is at least as heavy as the candidate value, which exists *)
Lemma cand_lower v T K F : MOk v -> sublist K (vnodes v) -> incl T K ->
  incl F (gedges v) -> IsTree K (ends F) ->
  exists w, st_cand v T K = Some w /\ (w <= weight F)%Z.
Proof.
  intros Hok Hs HT HF HTr.
  pose proof (MOk_induced v K Hok) as HokK.
  pose proof (induced_nodes_sub v K Hok Hs) as EnK.
  pose proof HTr as [Hne [ND [He [Hac Hc]]]].
  assert (HFK : incl F (gedges (induced_view v K))).
  { intros [[a b] w] Hin. apply induced_gedges. split; [apply HF, Hin|].
    apply He. apply ends_In. exists w; exact Hin. }
  assert (Hsf : spanning_forest (induced_view v K) F).
  { split; [exact HFK|]. split; [exact Hac|]. intros x y. unfold uconn. split.
    - apply ForestP.conn_incl. unfold ends. intros p Hp. apply in_map_iff in Hp.
      destruct Hp as [e [<- Hin]]. apply in_map, HFK, Hin.
    - apply ForestP.conn_sub. intros a b Hin. apply ends_In in Hin. destruct Hin as [w Hin].
      apply induced_gedges in Hin. destruct Hin as [_ [Ha Hb]]. apply Hc; assumption. }
  destruct (C12_kruskal_total (induced_view v K) HokK) as [l Ek].
  destruct (C12_components_exist (induced_view v K) HokK) as [reps Hreps].
  destruct (C12_kruskal_forest (induced_view v K) l HokK Ek) as [_ [_ Hcnt]].
  pose proof (Hcnt reps Hreps) as E1.
  pose proof (C12_spanning_forest_count (induced_view v K) F reps HokK Hsf Hreps) as E2.
  pose proof (IsTree_count K (ends F) HTr) as E3. rewrite ends_length in E3. rewrite EnK in E1, E2.
  destruct (C12_kruskal_minimal (induced_view v K) l HokK Ek) as [_ [_ Hmin]].
  exists (weight l). split; [|apply Hmin, Hsf].
  unfold st_cand. apply forallb_mem_incl in HT. rewrite HT. cbn [negb]. rewrite Ek.
  assert (El : Nat.eqb (S (length l)) (length K) = true) by (apply Nat.eqb_eq; lia).
  rewrite El. reflexivity.
Qed.

(* a tree on any node set of the graph can be read on the node set in the order of the graph *)
Lemma tree_reorder v K' prs : incl K' (vnodes v) -> NoDup (vnodes v) -> IsTree K' prs ->
  IsTree (filter (fun a => mem a K') (vnodes v)) prs /\
  (forall x, In x (filter (fun a => mem a K') (vnodes v)) <-> In x K').
Proof.
  intros Hi NDv [Hne [ND [He [Hac Hc]]]].
  assert (Hsame : forall x, In x (filter (fun a => mem a K') (vnodes v)) <-> In x K').
  { intros x. rewrite filter_In, mem_In. split; [intros [_ H]; exact H | intros H; split; [apply Hi, H | exact H]]. }
  split; [|exact Hsame]. split; [|split; [|split; [|split]]].
  - destruct K' as [|x0 K0]; [exfalso; apply Hne; reflexivity|].
    intros E. assert (Hx : In x0 (filter (fun a => mem a (x0 :: K0)) (vnodes v))) by (apply Hsame; left; reflexivity).
    rewrite E in Hx. destruct Hx.
  - apply NoDup_filter, NDv.
  - intros a b Hin. destruct (He a b Hin) as [Ha Hb]. split; apply Hsame; assumption.
  - exact Hac.
  - intros x y Hx Hy. apply Hc; apply Hsame; assumption.
Qed.

(* ------------------------------------------------------------------ *)
(* D. steiner_opt is the minimum weight of a tree of the graph holding the terminals *)

Theorem steiner_opt_minimum v T w : MOk v -> steiner_opt v T = Some w ->
  (exists K F, sublist K (vnodes v) /\ incl F (gedges (induced_view v K)) /\
               SteinerTreeOf v T K F /\ weight F = w) /\
  (forall K' F', SteinerTreeOf v T K' F' -> (w <= weight F')%Z).
Proof.
  intros Hok E. rewrite steiner_opt_fold in E.
  destruct (omin_fold (st_cand v T) (subseqs (vnodes v)) None) as [_ Hs].
  destruct (Hs w E) as [Hex [_ Hall]]. split.
  - destruct Hex as [Hex|[K [HK Ec]]]; [discriminate Hex|].
    apply subseqs_In_st in HK.
    destruct (cand_some v T K w Hok HK Ec) as [HT [F [HF [HTr Ew]]]].
    exists K, F. split; [exact HK|]. split; [exact HF|]. split; [|exact Ew].
    split; [apply sublist_incl, HK|]. split; [exact HT|]. split; [apply (induced_incl v K), HF | exact HTr].
  - intros K' F' [Hi [HT [HF HTr]]].
    destruct (tree_reorder v K' (ends F') Hi (proj1 Hok) HTr) as [HTr2 Hsame].
    set (K := filter (fun a => mem a K') (vnodes v)) in *.
    assert (HsK : sublist K (vnodes v)) by apply sublist_filter.
    assert (HTK : incl T K) by (intros t Ht; apply Hsame, HT, Ht).
    destruct (cand_lower v T K F' Hok HsK HTK HF HTr2) as [w' [Ec Hle]].
    assert (Hw : (w <= w')%Z).
    { apply (Hall K w'); [apply subseqs_In_st; exact HsK | exact Ec]. }
    lia.
Qed.

Theorem steiner_opt_none v T : MOk v -> steiner_opt v T = None ->
  forall K' F', ~ SteinerTreeOf v T K' F'.
Proof.
  intros Hok E K' F' [Hi [HT [HF HTr]]]. rewrite steiner_opt_fold in E.
  destruct (omin_fold (st_cand v T) (subseqs (vnodes v)) None) as [Hn _].
  apply Hn in E. destruct E as [_ Hall].
  destruct (tree_reorder v K' (ends F') Hi (proj1 Hok) HTr) as [HTr2 Hsame].
  set (K := filter (fun a => mem a K') (vnodes v)) in *.
  assert (HsK : sublist K (vnodes v)) by apply sublist_filter.
  assert (HTK : incl T K) by (intros t Ht; apply Hsame, HT, Ht).
  destruct (cand_lower v T K F' Hok HsK HTK HF HTr2) as [w' [Ec _]].
  rewrite (Hall K) in Ec; [discriminate Ec|]. apply subseqs_In_st; exact HsK.
Qed.

(* an accepted result weighs at most twice any tree of the graph that holds the terminals *)
Theorem steiner_check_two_approx v T nodes es : MOk v -> steiner_check v T nodes es = 0 ->
  forall K' F', SteinerTreeOf v T K' F' -> (sumw es <= 2 * weight F')%Z.
Proof.
  intros Hok H K' F' HS.
  destruct (steiner_check_sound v T nodes es Hok H) as [_ [_ [_ [_ H5]]]].
  destruct (steiner_opt v T) as [w|] eqn:E.
  - pose proof (proj2 (steiner_opt_minimum v T w Hok E) K' F' HS) as Hle.
    specialize (H5 w eq_refl). lia.
  - exfalso. exact (steiner_opt_none v T Hok E K' F' HS).
Qed.
