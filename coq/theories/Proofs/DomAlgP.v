(* The Cooper-Harvey-Kennedy iteration (intersect / dom_sweep / dom_fix of Model/CutM.v) on
   the index graph given by the predecessor lists: it never panics, and every result it
   returns is the immediate-dominator array of the index graph rooted at n - 1.

   Hypotheses on the index graph (met by a depth-first post-order numbering): predecessor
   indices are < n, and every index below n - 1 has a predecessor with a larger index. *)
From PG Require Import Lib.Io Model.View Model.Traversal Model.MatchM Model.CutM
                       Spec.DomSpec Proofs.DomSpecP.

Definition pedge (preds : list (list nat)) (p i : nat) : Prop :=
  exists ps, nth_error preds i = Some ps /\ In p ps.

Definition dget (doms : list (option nat)) (i : nat) : option nat :=
  match nth_error doms i with Some (Some d) => Some d | _ => None end.

Definition defd (doms : list (option nat)) (i : nat) : Prop := exists d, dget doms i = Some d.

Definition dfilter (doms : list (option nat)) (ps : list nat) : list nat :=
  filter (fun p => match nth_error doms p with Some (Some _) => true | _ => false end) ps.

Lemma dget_getp doms i d : dget doms i = Some d -> getp doms i = Ok (Some d).
Proof.
  unfold dget, getp. destruct (nth_error doms i) as [[x|]|]; intros H; try discriminate H.
  injection H as ->. reflexivity.
Qed.

Lemma dget_lt doms i d : dget doms i = Some d -> i < length doms.
Proof.
  unfold dget. destruct (nth_error doms i) as [o|] eqn:E; [|discriminate].
  intros _. apply nth_error_Some. congruence.
Qed.

Lemma dget_upd doms idx x j : idx < length doms ->
  dget (upd doms idx (Some x)) j = if Nat.eqb idx j then Some x else dget doms j.
Proof.
  intros Hl. unfold dget. rewrite nth_error_upd.
  destruct (Nat.eqb idx j); [|reflexivity]. apply Nat.ltb_lt in Hl. rewrite Hl. reflexivity.
Qed.

Lemma dfilter_In doms ps x : In x (dfilter doms ps) <-> In x ps /\ defd doms x.
Proof.
  unfold dfilter, defd, dget. rewrite filter_In.
  destruct (nth_error doms x) as [[d|]|]; split; intros [H1 H2]; split; auto; try discriminate.
  - exists d; reflexivity.
  - destruct H2 as [d' H2]; discriminate.
  - destruct H2 as [d' H2]; discriminate.
Qed.

Section Alg.
Variable n : nat.
Variable preds : list (list nat).
Hypothesis Hnpos : 0 < n.
Hypothesis Hlen : length preds = n.
Hypothesis Hpb : forall i ps p, nth_error preds i = Some ps -> In p ps -> p < n.
Hypothesis Hpar : forall i, i < n - 1 -> exists ps t, nth_error preds i = Some ps /\ In t ps /\ i < t.

Notation r := (n - 1).
Notation E := (pedge preds).

Lemma E_lt p i : E p i -> p < n /\ i < n.
Proof.
  intros [ps [H1 H2]]. split; [apply (Hpb i ps p H1 H2)|].
  rewrite <- Hlen. apply nth_error_Some. congruence.
Qed.

Lemma all_reach : forall i, i < n -> greach E r i.
Proof.
  assert (H : forall k i, r - i <= k -> i < n -> greach E r i).
  { induction k as [|k IH]; intros i Hk Hi.
    - assert (i = r) by lia. subst i. exists []. reflexivity.
    - destruct (Nat.eq_dec i r) as [->|Hne]; [exists []; reflexivity|].
      destruct (Hpar i ltac:(lia)) as [ps [t [H1 [H2 H3]]]].
      assert (Ht : t < n) by (apply (Hpb i ps t H1 H2)).
      destruct (IH t ltac:(lia) Ht) as [l Hl]. exists (l ++ [i]).
      apply (gwalk_snoc E r l t i Hl). exists ps. split; assumption. }
  intros i Hi. apply (H (r - i) i (le_n _) Hi).
Qed.

(* ------------------------------------------------------------------ *)
(* The tree encoded by doms                                            *)

Record WF (doms : list (option nat)) : Prop := {
  wf_len : length doms = n;
  wf_root : dget doms r = Some r;
  wf_up : forall i d, dget doms i = Some d -> i <> r -> i < d /\ d < n /\ defd doms d
}.

Inductive anc (doms : list (option nat)) : nat -> nat -> Prop :=
| anc_refl i d : dget doms i = Some d -> anc doms i i
| anc_step i d a : dget doms i = Some d -> i <> r -> anc doms d a -> anc doms i a.

Lemma anc_le doms i a : WF doms -> anc doms i a -> i <= a /\ a < n.
Proof.
  intros W H. induction H as [i d Hd | i d a Hd Hne Ha IH].
  - split; [lia|]. rewrite <- (wf_len doms W). apply (dget_lt doms i d Hd).
  - destruct (wf_up doms W i d Hd Hne) as [H1 _]. lia.
Qed.

Lemma anc_defd doms i a : anc doms i a -> defd doms a.
Proof. induction 1 as [i d Hd | i d a Hd Hne Ha IH]; [exists d; exact Hd | exact IH]. Qed.

Lemma anc_defd_l doms i a : anc doms i a -> defd doms i.
Proof. destruct 1 as [i d Hd | i d a Hd Hne Ha]; exists d; exact Hd. Qed.

Lemma anc_trans doms i a c : anc doms i a -> anc doms a c -> anc doms i c.
Proof.
  intros H1 H2. induction H1 as [i d Hd | i d a Hd Hne Ha IH]; [exact H2|].
  apply (anc_step doms i d c Hd Hne). apply IH; exact H2.
Qed.

Lemma anc_inv doms i a : anc doms i a ->
  a = i \/ exists d, dget doms i = Some d /\ i <> r /\ anc doms d a.
Proof. destruct 1 as [i d Hd | i d a Hd Hne Ha]; [left; reflexivity | right; exists d; auto]. Qed.

Lemma anc_root_inv doms a : anc doms r a -> a = r.
Proof. intros H. apply anc_inv in H. destruct H as [H|[d [_ [H _]]]]; [exact H | congruence]. Qed.

(* ------------------------------------------------------------------ *)
(* intersect computes the nearest common ancestor                      *)

Lemma intersect_ok doms : WF doms -> forall fuel f1 f2, defd doms f1 -> defd doms f2 ->
  (n - f1) + (n - f2) < fuel ->
  exists c, intersect fuel doms f1 f2 = Ok c /\ anc doms f1 c /\ anc doms f2 c /\
            forall a, anc doms f1 a -> anc doms f2 a -> anc doms c a.
Proof.
  intros W. induction fuel as [|f IH]; intros f1 f2 [d1 D1] [d2 D2] Hf; [lia|].
  assert (L1 : f1 < n) by (rewrite <- (wf_len doms W); apply (dget_lt doms f1 d1 D1)).
  assert (L2 : f2 < n) by (rewrite <- (wf_len doms W); apply (dget_lt doms f2 d2 D2)).
  cbn [intersect]. destruct (Nat.ltb_spec f1 f2) as [Hlt|Hge].
  - rewrite (dget_getp doms f1 d1 D1). cbn [rbind].
    assert (Hne : f1 <> r) by lia.
    destruct (wf_up doms W f1 d1 D1 Hne) as [U1 [U2 U3]].
    destruct (IH d1 f2 U3 (ex_intro _ d2 D2) ltac:(lia)) as [c [Ec [A1 [A2 A3]]]].
    exists c. split; [exact Ec|]. split; [apply (anc_step doms f1 d1 c D1 Hne A1)|]. split; [exact A2|].
    intros a Ha1 Ha2. apply A3; [|exact Ha2].
    destruct (anc_inv doms f1 a Ha1) as [->|[d [Hd [_ Ha]]]].
    + pose proof (anc_le doms f2 f1 W Ha2). lia.
    + rewrite D1 in Hd. injection Hd as <-. exact Ha.
  - destruct (Nat.ltb_spec f2 f1) as [Hlt|Hge2].
    + rewrite (dget_getp doms f2 d2 D2). cbn [rbind].
      assert (Hne : f2 <> r) by lia.
      destruct (wf_up doms W f2 d2 D2 Hne) as [U1 [U2 U3]].
      destruct (IH f1 d2 (ex_intro _ d1 D1) U3 ltac:(lia)) as [c [Ec [A1 [A2 A3]]]].
      exists c. split; [exact Ec|]. split; [exact A1|]. split; [apply (anc_step doms f2 d2 c D2 Hne A2)|].
      intros a Ha1 Ha2. apply A3; [exact Ha1|].
      destruct (anc_inv doms f2 a Ha2) as [->|[d [Hd [_ Ha]]]].
      * pose proof (anc_le doms f1 f2 W Ha1). lia.
      * rewrite D2 in Hd. injection Hd as <-. exact Ha.
    + assert (f1 = f2) by lia. subst f2. exists f1. split; [reflexivity|].
      split; [apply (anc_refl doms f1 d1 D1)|]. split; [apply (anc_refl doms f1 d1 D1)|].
      intros a Ha _. exact Ha.
Qed.

Lemma fold_intersect_ok doms : WF doms -> forall more cur, defd doms cur ->
  (forall p, In p more -> defd doms p) ->
  exists c, fold_left (fun acc p => rbind acc (fun cur => intersect (S (S (n + n))) doms cur p)) more (Ok cur) = Ok c /\
    anc doms cur c /\ (forall p, In p more -> anc doms p c) /\
    (forall a, anc doms cur a -> (forall p, In p more -> anc doms p a) -> anc doms c a).
Proof.
  intros W. induction more as [|p t IH]; intros cur Hc Hm; cbn [fold_left].
  - exists cur. split; [reflexivity|]. destruct Hc as [d Hd].
    split; [apply (anc_refl doms cur d Hd)|]. split; [intros p []|]. intros a Ha _. exact Ha.
  - cbn [rbind].
    destruct (intersect_ok doms W (S (S (n + n))) cur p Hc (Hm p (or_introl eq_refl)) ltac:(lia))
      as [c1 [E1 [A1 [A2 A3]]]].
    rewrite E1.
    destruct (IH c1 (anc_defd doms cur c1 A1) (fun q Hq => Hm q (or_intror Hq))) as [c [Ec [B1 [B2 B3]]]].
    exists c. split; [exact Ec|]. split; [apply (anc_trans doms cur c1 c A1 B1)|]. split.
    + intros q [<-|Hq]; [apply (anc_trans doms p c1 c A2 B1) | apply B2; exact Hq].
    + intros a Ha Hall. apply B3.
      * apply A3; [exact Ha | apply Hall; left; reflexivity].
      * intros q Hq. apply Hall; right; exact Hq.
Qed.

(* ------------------------------------------------------------------ *)
(* The invariants of the iteration                                     *)

(* a walk from d to i through nodes numbered at most d *)
Definition loww (d i : nat) : Prop := exists l, gwalk E d l i /\ Forall (fun x => x <= d) l.

Record Inv (doms : list (option nat)) : Prop := {
  inv_wf : WF doms;
  inv_low : forall i d, dget doms i = Some d -> i <> r -> loww d i;
  inv_comp : forall i a, defd doms i -> gdom E r a i -> anc doms i a
}.

Lemma anc_loww doms i b : Inv doms -> anc doms i b -> loww b i.
Proof.
  intros I H. induction H as [i d Hd | i d a Hd Hne Ha IH].
  - exists []. split; [reflexivity | constructor].
  - destruct IH as [l [Hl Fl]]. destruct (inv_low doms I i d Hd Hne) as [l' [Hl' Fl']].
    pose proof (anc_le doms d a (inv_wf doms I) Ha) as [Hle _].
    exists (l ++ l'). split; [apply (gwalk_app E a l d l' i Hl Hl')|].
    apply Forall_app. split; [exact Fl|]. eapply Forall_impl; [|exact Fl']. intros x Hx. cbn beta in *. lia.
Qed.

Lemma inv_init : Inv (upd (repeat None n) r (Some r)).
Proof.
  assert (Hl : r < length (repeat (@None nat) n)) by (rewrite repeat_length; lia).
  assert (Hg : forall i d, dget (upd (repeat None n) r (Some r)) i = Some d -> i = r /\ d = r).
  { intros i d. rewrite (dget_upd _ r r i Hl). destruct (Nat.eqb_spec r i) as [->|Hne].
    - intros H; injection H as <-. split; reflexivity.
    - unfold dget. destruct (nth_error (repeat None n) i) as [o|] eqn:En; [|discriminate].
      apply nth_error_In, repeat_spec in En. subst o. discriminate. }
  assert (W : WF (upd (repeat None n) r (Some r))).
  { constructor.
    - rewrite upd_length, repeat_length. reflexivity.
    - rewrite (dget_upd _ r r r Hl), Nat.eqb_refl. reflexivity.
    - intros i d H Hne. destruct (Hg i d H) as [-> _]. congruence. }
  constructor; [exact W | |].
  - intros i d H Hne. destruct (Hg i d H) as [-> _]. congruence.
  - intros i a [d Hd] [_ Hdom]. destruct (Hg i d Hd) as [-> ->].
    specialize (Hdom [] eq_refl). destruct Hdom as [<-|[]].
    apply (anc_refl _ r r Hd).
Qed.

(* ------------------------------------------------------------------ *)
(* Extra invariants, used only for the bound on the number of sweeps   *)

Lemma anc_linear doms i a c : WF doms -> anc doms i a -> anc doms i c -> a <= c -> anc doms a c.
Proof.
  intros W Ha. revert c. induction Ha as [i d Hd | i d a Hd Hne Ha IH]; intros c Hc Hle.
  - exact Hc.
  - destruct (anc_inv doms i c Hc) as [->|[d' [Hd' [_ Hc']]]].
    + destruct (wf_up doms W i d Hd Hne) as [U1 _]. pose proof (anc_le doms d a W Ha). lia.
    + rewrite Hd in Hd'. injection Hd' as <-. apply IH; assumption.
Qed.

(* what the defined predecessors of b have in common lies above doms[b]: an update moves
   doms[b] up its own chain *)
Definition Linv (doms : list (option nat)) : Prop :=
  forall b ps e c, nth_error preds b = Some ps -> dget doms b = Some e -> b <> r ->
    (forall p, In p (dfilter doms ps) -> anc doms p c) -> anc doms e c.

(* about to process index k - 1: the chain of doms[b] lies on the chain of every higher
   predecessor of b - entirely for the b already processed in this sweep, below k otherwise *)
Definition KP (k : nat) (doms : list (option nat)) : Prop :=
  forall b ps e p c, nth_error preds b = Some ps -> dget doms b = Some e -> In p ps -> b < p ->
    anc doms e c -> (c < k \/ k <= b) -> anc doms p c.

Definition DD (doms : list (option nat)) : Prop :=
  forall b j, defd doms b -> b <= j -> j < n -> defd doms j.

(* retreating edges of a walk: those that do not go down in the numbering *)
Fixpoint retr (a : nat) (l : list nat) : nat :=
  match l with
  | [] => 0
  | x :: t => (if Nat.leb a x then 1 else 0) + retr x t
  end.

Lemma retr_snoc l : forall a p y, gwalk E a l p ->
  retr a (l ++ [y]) = retr a l + (if Nat.leb p y then 1 else 0).
Proof.
  induction l as [|x t IH]; intros a p y H; cbn [gwalk app retr] in *.
  - subst p. lia.
  - destruct H as [_ H]. rewrite (IH x p y H). lia.
Qed.

Lemma retr_le l : forall a, retr a l <= length l.
Proof. induction l as [|x t IH]; intros a; cbn [retr length]; [lia|]. specialize (IH x). destruct (Nat.leb a x); lia. Qed.

Lemma walk_lt l : forall a q, a < n -> gwalk E a l q -> Forall (fun x => x < n) l.
Proof.
  induction l as [|x t IH]; intros a q Ha H; [constructor|]. cbn [gwalk] in H. destruct H as [He H].
  destruct (E_lt a x He) as [_ Hx]. constructor; [exact Hx | apply (IH x q Hx H)].
Qed.

(* a walk from the root to q avoiding a, with at most m retreating edges *)
Definition Rk (m q a : nat) : Prop :=
  exists l, gwalk E r l q /\ ~ In a (r :: l) /\ retr r l <= m.

Lemma Rk_mono m m' q a : m <= m' -> Rk m q a -> Rk m' q a.
Proof. intros H [l [H1 [H2 H3]]]. exists l. split; [exact H1|]. split; [exact H2 | lia]. Qed.

Lemma walk_bound l q a : gwalk E r l q -> ~ In a (r :: l) -> Rk (n - 2) q a.
Proof.
  intros Hl Ha. destruct (gwalk_simple E l r q Hl) as [l' [Hl' [Hi Hnd]]].
  exists l'. split; [exact Hl'|]. split.
  - intros [H|H]; apply Ha; [left; exact H | right; apply Hi; exact H].
  - pose proof (walk_lt l' r q ltac:(lia) Hl') as Hlt. rewrite Forall_forall in Hlt.
    assert (Hlen' : length (r :: l') <= length (seq 0 n)).
    { apply NoDup_incl_length; [exact Hnd|]. intros x [<-|Hx]; apply in_seq; [lia|]. specialize (Hlt x Hx). lia. }
    rewrite seq_length in Hlen'. cbn [length] in Hlen'.
    destruct l' as [|x t]; [cbn [retr]; lia|]. cbn [retr].
    assert (Hx : x < n) by (apply Hlt; left; reflexivity).
    assert (Hxr : x <> r) by (intros ->; inversion Hnd as [|? ? Hn _]; apply Hn; left; reflexivity).
    destruct (Nat.leb_spec r x); [lia|]. pose proof (retr_le t x). cbn [length] in Hlen'. lia.
Qed.

Definition KUA (k m : nat) (doms : list (option nat)) : Prop :=
  forall q a, k <= q -> Rk m q a -> ~ anc doms q a.
Definition KUB (k m : nat) (doms : list (option nat)) : Prop :=
  forall q a m', q < k -> S m' <= m -> Rk m' q a -> ~ anc doms q a.

(* one update: doms[idx] := the nearest common ancestor of the defined predecessors *)
Section Update.
Variable doms : list (option nat).
Variable idx nw : nat.
Variable ps : list nat.
Hypothesis I : Inv doms.
Hypothesis Hidx : idx < r.
Hypothesis Hps : nth_error preds idx = Some ps.
Hypothesis Hne : dfilter doms ps <> [].
Hypothesis Hlt : idx < nw.
Hypothesis Hanc : forall p, In p (dfilter doms ps) -> anc doms p nw.
Hypothesis Hglb : forall a, (forall p, In p (dfilter doms ps) -> anc doms p a) -> anc doms nw a.

Let W := inv_wf doms I.
Notation doms' := (upd doms idx (Some nw)).

Lemma upd_dget j : dget doms' j = if Nat.eqb idx j then Some nw else dget doms j.
Proof. apply dget_upd. rewrite (wf_len doms W). lia. Qed.

Lemma upd_defd j : defd doms j -> defd doms' j.
Proof.
  intros [d Hd]. unfold defd. rewrite upd_dget. destruct (Nat.eqb idx j); [exists nw | exists d]; auto.
Qed.

Lemma upd_defd_idx : defd doms' idx.
Proof. exists nw. rewrite upd_dget, Nat.eqb_refl. reflexivity. Qed.

Lemma nw_facts : nw < n /\ defd doms nw.
Proof.
  destruct (dfilter doms ps) as [|p0 more] eqn:Ef; [congruence|].
  pose proof (Hanc p0 (or_introl eq_refl)) as H.
  split; [apply (anc_le doms p0 nw W H) | apply (anc_defd doms p0 nw H)].
Qed.

Lemma upd_wf : WF doms'.
Proof.
  destruct nw_facts as [N1 N2]. constructor.
  - rewrite upd_length. apply (wf_len doms W).
  - rewrite upd_dget. destruct (Nat.eqb_spec idx r) as [H|H]; [lia | apply (wf_root doms W)].
  - intros i d. rewrite upd_dget. destruct (Nat.eqb_spec idx i) as [<-|Hn].
    + intros H _. injection H as <-. split; [exact Hlt|]. split; [exact N1 | apply upd_defd; exact N2].
    + intros H Hi. destruct (wf_up doms W i d H Hi) as [U1 [U2 U3]].
      split; [exact U1|]. split; [exact U2 | apply upd_defd; exact U3].
Qed.

(* chains starting above idx do not see the update *)
Lemma anc_above j a : idx < j -> anc doms j a -> anc doms' j a.
Proof.
  intros Hj H. induction H as [i d Hd | i d a Hd Hn Ha IH].
  - apply (anc_refl doms' i d). rewrite upd_dget. destruct (Nat.eqb_spec idx i); [lia | exact Hd].
  - apply (anc_step doms' i d a); [|exact Hn|].
    + rewrite upd_dget. destruct (Nat.eqb_spec idx i); [lia | exact Hd].
    + apply IH. destruct (wf_up doms W i d Hd Hn) as [U1 _]. lia.
Qed.

Lemma anc_keep i a : anc doms i a -> anc doms' i a \/ (anc doms i idx /\ idx < a).
Proof.
  intros H. induction H as [i d Hd | i d a Hd Hn Ha IH].
  - left. destruct (upd_defd i (ex_intro _ d Hd)) as [d' Hd']. apply (anc_refl doms' i d' Hd').
  - destruct (Nat.eq_dec i idx) as [->|Hni].
    + right. split; [apply (anc_refl doms idx d Hd)|].
      destruct (wf_up doms W idx d Hd Hn) as [U1 _]. pose proof (anc_le doms d a W Ha). lia.
    + destruct IH as [IH|[IH1 IH2]].
      * left. apply (anc_step doms' i d a); [|exact Hn|exact IH].
        rewrite upd_dget. destruct (Nat.eqb_spec idx i); [congruence | exact Hd].
      * right. split; [apply (anc_step doms i d idx Hd Hn IH1) | exact IH2].
Qed.

Lemma anc_to_idx i : anc doms i idx -> anc doms' i idx.
Proof.
  assert (G : forall j b, anc doms j b -> b = idx -> anc doms' j idx).
  { intros j b H. induction H as [j d Hd | j d a Hd Hnr Ha IH]; intros Eb.
    - subst j. destruct upd_defd_idx as [d' Hd']. apply (anc_refl doms' idx d' Hd').
    - subst a. destruct (Nat.eq_dec j idx) as [->|Hni].
      + destruct (wf_up doms W idx d Hd Hnr) as [U1 _]. pose proof (anc_le doms d idx W Ha). lia.
      + apply (anc_step doms' j d idx); [|exact Hnr|apply IH; reflexivity].
        rewrite upd_dget. destruct (Nat.eqb_spec idx j); [congruence | exact Hd]. }
  intros H. apply (G i idx H eq_refl).
Qed.

Lemma idx_comp a : gdom E r a idx -> anc doms' idx a.
Proof.
  intros Hd. destruct (Nat.eq_dec a idx) as [->|Hna].
  - destruct upd_defd_idx as [d' Hd']. apply (anc_refl doms' idx d' Hd').
  - apply (anc_step doms' idx nw a); [rewrite upd_dget, Nat.eqb_refl; reflexivity | lia |].
    apply (anc_above nw a Hlt). apply Hglb. intros p Hp. apply dfilter_In in Hp. destruct Hp as [Hp Hdp].
    apply (inv_comp doms I p a Hdp).
    assert (Ep : E p idx) by (exists ps; split; assumption).
    apply (gsdom_pred E r a idx p); [split; assumption | exact Ep|].
    apply all_reach. apply (E_lt p idx Ep).
Qed.

Lemma upd_inv : Inv doms'.
Proof.
  constructor.
  - exact upd_wf.
  - intros i d. rewrite upd_dget. destruct (Nat.eqb_spec idx i) as [<-|Hn].
    + intros H _. injection H as <-.
      destruct (dfilter doms ps) as [|p0 more] eqn:Ef; [congruence|].
      assert (Hp0 : In p0 (dfilter doms ps)) by (rewrite Ef; left; reflexivity).
      destruct (anc_loww doms p0 nw I (Hanc p0 (or_introl eq_refl))) as [l [Hl Fl]].
      apply dfilter_In in Hp0. destruct Hp0 as [Hp0 _].
      exists (l ++ [idx]). split.
      * apply (gwalk_snoc E nw l p0 idx Hl). exists ps. split; assumption.
      * apply Forall_app. split; [exact Fl|]. constructor; [lia | constructor].
    + intros H Hi. apply (inv_low doms I i d H Hi).
  - intros i a Hdi Hdom. destruct (Nat.eq_dec i idx) as [->|Hni]; [apply idx_comp; exact Hdom|].
    assert (Hdi' : defd doms i).
    { destruct Hdi as [d Hd]. rewrite upd_dget in Hd. destruct (Nat.eqb_spec idx i); [congruence|].
      exists d; exact Hd. }
    destruct (anc_keep i a (inv_comp doms I i a Hdi' Hdom)) as [H|[H1 H2]]; [exact H|].
    apply (anc_trans doms' i idx a (anc_to_idx i H1)). apply idx_comp.
    destruct (anc_loww doms i idx I H1) as [l [Hl Fl]].
    split; [apply all_reach; lia|]. intros w Hw.
    pose proof (proj2 Hdom _ (gwalk_app E r w idx l i Hw Hl)) as Hin.
    destruct Hin as [Hin|Hin]; [left; exact Hin|]. apply in_app_or in Hin.
    destruct Hin as [Hin|Hin]; [right; exact Hin|]. exfalso.
    rewrite Forall_forall in Fl. specialize (Fl a Hin). cbn beta in Fl. lia.
Qed.
(* ---- the extra invariants through an update ---- *)
Hypothesis Hdefab : forall j, idx < j -> j < n -> defd doms j.
Hypothesis HL : Linv doms.

Lemma idx_old_nw e : dget doms idx = Some e -> anc doms e nw.
Proof. intros He. apply (HL idx ps e nw Hps He ltac:(lia) Hanc). Qed.

(* chains only shrink *)
Lemma anc_shrink j a : defd doms j -> anc doms' j a -> anc doms j a.
Proof.
  intros Hj H. induction H as [j d Hd | j d a Hd Hnr Ha IH].
  - destruct Hj as [d0 Hd0]. apply (anc_refl doms j d0 Hd0).
  - rewrite upd_dget in Hd. destruct (Nat.eqb_spec idx j) as [<-|Hn].
    + injection Hd as <-. destruct Hj as [e He].
      apply (anc_step doms idx e a He Hnr). apply (anc_trans doms e nw a (idx_old_nw e He)).
      apply IH. apply nw_facts.
    + apply (anc_step doms j d a Hd Hnr). apply IH. apply (wf_up doms W j d Hd Hnr).
Qed.

Hypothesis HKP : KP (S idx) doms.
Hypothesis HDD : DD doms.

Lemma upd_L : Linv doms'.
Proof.
  intros b ps' e c Hps' He Hbr Hc.
  assert (Hold : forall p, In p (dfilter doms ps') -> anc doms p c).
  { intros p Hp. apply dfilter_In in Hp. destruct Hp as [Hp1 Hp2]. apply (anc_shrink p c Hp2).
    apply Hc. apply dfilter_In. split; [exact Hp1 | apply upd_defd; exact Hp2]. }
  rewrite upd_dget in He. destruct (Nat.eqb_spec idx b) as [<-|Hn].
  - injection He as <-. rewrite Hps in Hps'. injection Hps' as <-.
    apply (anc_above nw c Hlt). apply Hglb. exact Hold.
  - pose proof (HL b ps' e c Hps' He Hbr Hold) as Hec.
    destruct (anc_keep e c Hec) as [H|[H1 H2]]; [exact H|].
    assert (Hbn : b < n) by (rewrite <- (wf_len doms W); apply (dget_lt doms b e He)).
    destruct (Hpar b ltac:(lia)) as [ps2 [t [Hps2 [Ht Hbt]]]]. rewrite Hps' in Hps2. injection Hps2 as <-.
    assert (Htn : t < n) by (apply (Hpb b ps' t Hps' Ht)).
    pose proof (HKP b ps' e t idx Hps' He Ht Hbt H1 (or_introl (Nat.lt_succ_diag_r idx))) as Htidx.
    assert (Htd : defd doms t) by (apply (HDD b t (ex_intro _ e He)); lia).
    assert (Htc : anc doms' t c).
    { apply Hc. apply dfilter_In. split; [exact Ht | apply upd_defd; exact Htd]. }
    pose proof (anc_linear doms' t idx c upd_wf (anc_to_idx t Htidx) Htc ltac:(lia)) as Hic.
    apply (anc_trans doms' e idx c (anc_to_idx e H1) Hic).
Qed.

Lemma upd_KP : KP idx doms'.
Proof.
  intros b ps' e p c Hps' He Hp Hbp Hec Hcond.
  assert (Hpn : p < n) by (apply (Hpb b ps' p Hps' Hp)).
  rewrite upd_dget in He. destruct (Nat.eqb_spec idx b) as [<-|Hn].
  - injection He as <-. rewrite Hps in Hps'. injection Hps' as <-.
    assert (Hpd : defd doms p) by (apply Hdefab; assumption).
    apply (anc_above p c Hbp). apply (anc_trans doms p nw c).
    + apply Hanc, dfilter_In. split; assumption.
    + apply anc_shrink; [apply nw_facts | exact Hec].
  - assert (Hed : defd doms e) by (apply (wf_up doms W b e He ltac:(lia))).
    pose proof (anc_shrink e c Hed Hec) as Hec0.
    destruct (Nat.lt_ge_cases idx b) as [Hgt|Hle].
    + apply (anc_above p c ltac:(lia)). apply (HKP b ps' e p c Hps' He Hp Hbp Hec0). right; lia.
    + assert (Hc : c < idx) by (destruct Hcond; lia).
      assert (Hc' : c < S idx \/ S idx <= b) by (left; lia).
      pose proof (HKP b ps' e p c Hps' He Hp Hbp Hec0 Hc') as Hpc.
      destruct (anc_keep p c Hpc) as [H|[_ H]]; [exact H | lia].
Qed.

Lemma upd_DD : DD doms'.
Proof.
  intros b j [d Hd] Hbj Hjn. rewrite upd_dget in Hd. destruct (Nat.eqb_spec idx b) as [<-|Hn].
  - destruct (Nat.eq_dec j idx) as [->|Hne']; [apply upd_defd_idx | apply upd_defd, Hdefab; lia].
  - apply upd_defd. apply (HDD b j (ex_intro _ d Hd) Hbj Hjn).
Qed.

Lemma upd_KU m : KUA (S idx) m doms -> KUB (S idx) m doms ->
  (m = 0 \/ forall j, j < n -> defd doms j) -> KUA idx m doms' /\ KUB idx m doms'.
Proof.
  intros HA HB Hm.
  assert (Hsh : forall q a, ~ anc doms q a -> q <> idx -> ~ anc doms' q a).
  { intros q a Hnq Hq H. apply Hnq. apply anc_shrink; [|exact H].
    destruct (anc_defd_l doms' q a H) as [d Hd]. rewrite upd_dget in Hd.
    destruct (Nat.eqb_spec idx q); [congruence|]. exists d; exact Hd. }
  split.
  - intros q a Hq HR. destruct (Nat.eq_dec q idx) as [->|Hne']; [|apply Hsh; [apply HA; [lia | exact HR] | exact Hne']].
    intros Hanc'. destruct HR as [l [Hl [Hnin Hretr]]].
    destruct (exists_last (l := l)) as [l' [y El]].
    { intros ->. cbn [gwalk] in Hl. lia. }
    subst l. destruct (gwalk_snoc_inv E r l' y idx Hl) as [-> [m0 [Hl' Hm0]]].
    rewrite (retr_snoc l' r m0 idx Hl') in Hretr.
    assert (Hnin' : ~ In a (r :: l')).
    { intros H. apply Hnin. destruct H as [H|H]; [left; exact H | right; apply in_or_app; left; exact H]. }
    assert (Hai : a <> idx).
    { intros ->. apply Hnin. right. apply in_or_app. right. left. reflexivity. }
    assert (Hp : In m0 (dfilter doms ps) /\ ~ anc doms m0 a).
    { destruct Hm0 as [ps0 [Hps0 Hin0]]. rewrite Hps in Hps0. injection Hps0 as <-.
      assert (Hm0n : m0 < n) by (apply (Hpb idx ps m0 Hps Hin0)).
      destruct (Nat.leb_spec m0 idx) as [Hle|Hgt].
      - destruct m as [|m']; [lia|]. destruct Hm as [Hm|Hm]; [discriminate|].
        split; [apply dfilter_In; split; [exact Hin0 | apply Hm; exact Hm0n]|].
        apply (HB m0 a m' ltac:(lia) (le_n _)). exists l'. split; [exact Hl'|]. split; [exact Hnin' | lia].
      - split; [apply dfilter_In; split; [exact Hin0 | apply Hdefab; assumption]|].
        apply (HA m0 a ltac:(lia)). exists l'. split; [exact Hl'|]. split; [exact Hnin' | lia]. }
    destruct Hp as [Hp1 Hp2]. apply Hp2.
    destruct (anc_inv doms' idx a Hanc') as [->|[d [Hd [_ Hda]]]]; [congruence|].
    rewrite upd_dget, Nat.eqb_refl in Hd. injection Hd as <-.
    apply (anc_trans doms m0 nw a (Hanc m0 Hp1)). apply anc_shrink; [apply nw_facts | exact Hda].
  - intros q a m' Hq Hm' HR. apply Hsh; [apply (HB q a m'); [lia | exact Hm' | exact HR] | lia].
Qed.
End Update.

(* ------------------------------------------------------------------ *)
(* A sweep                                                             *)

(* doms[idx] lies on the chain of every defined predecessor of idx *)
Definition stable_at (doms : list (option nat)) (idx : nat) : Prop :=
  exists nw, dget doms idx = Some nw /\ forall p, E p idx -> defd doms p -> anc doms p nw.

Lemma rev_seq_S k : rev (seq 0 (S k)) = k :: rev (seq 0 k).
Proof. rewrite seq_S, rev_app_distr. reflexivity. Qed.

Lemma sweep_ok : forall k doms c, k <= r -> Inv doms ->
  (forall j, k <= j -> j < n -> defd doms j) ->
  exists doms' c', dom_sweep n preds (rev (seq 0 k)) doms c = Ok (doms', c') /\ Inv doms' /\
    (forall j, j < n -> defd doms' j) /\
    (c' = false -> c = false /\ doms' = doms /\ forall idx, idx < k -> stable_at doms idx).
Proof.
  induction k as [|k IH]; intros doms c Hk I Hdef.
  - exists doms, c. split; [reflexivity|]. split; [exact I|]. split; [intros j Hj; apply Hdef; lia|].
    intros ->. split; [reflexivity|]. split; [reflexivity|]. intros idx Hi; lia.
  - rewrite rev_seq_S. cbn [dom_sweep].
    destruct (Hpar k ltac:(lia)) as [ps [t [Hps [Htin Hkt]]]].
    unfold getp at 1. rewrite Hps. cbn [rbind].
    fold (dfilter doms ps).
    assert (Ht : t < n) by (apply (Hpb k ps t Hps Htin)).
    assert (Htf : In t (dfilter doms ps)) by (apply dfilter_In; split; [exact Htin | apply Hdef; lia]).
    destruct (dfilter doms ps) as [|p0 more] eqn:Ef; [destruct Htf|].
    assert (Hdf : forall p, In p (p0 :: more) -> defd doms p).
    { intros p Hp. rewrite <- Ef in Hp. apply dfilter_In in Hp. apply Hp. }
    destruct (fold_intersect_ok doms (inv_wf doms I) more p0 (Hdf p0 (or_introl eq_refl))
                (fun p Hp => Hdf p (or_intror Hp))) as [nw [Efold [A1 [A2 A3]]]].
    rewrite Efold. cbn [rbind].
    assert (Hanc : forall p, In p (dfilter doms ps) -> anc doms p nw).
    { rewrite Ef. intros p [<-|Hp]; [exact A1 | apply A2; exact Hp]. }
    assert (Hglb : forall a, (forall p, In p (dfilter doms ps) -> anc doms p a) -> anc doms nw a).
    { rewrite Ef. intros a Ha. apply A3; [apply Ha; left; reflexivity | intros p Hp; apply Ha; right; exact Hp]. }
    assert (Hlt : k < nw).
    { rewrite Ef in Hanc. pose proof (anc_le doms t nw (inv_wf doms I) (Hanc t Htf)). lia. }
    assert (Hne : dfilter doms ps <> []) by (rewrite Ef; discriminate).
    assert (Hkr : k < r) by lia.
    pose proof (upd_inv doms k nw ps I Hkr Hps Hne Hlt Hanc Hglb) as I'.
    assert (Hkl : k < length doms) by (rewrite (wf_len doms (inv_wf doms I)); lia).
    destruct (nth_error doms k) as [old|] eqn:Eold; [|apply nth_error_None in Eold; lia].
    unfold getp at 1. rewrite Eold. cbn [rbind].
    destruct (match old with Some o => Nat.eqb o nw | None => false end) eqn:Eq.
    + (* unchanged *)
      assert (Hold : old = Some nw).
      { destruct old as [o|]; [|discriminate]. apply Nat.eqb_eq in Eq. subst o. reflexivity. }
      subst old.
      assert (Hdk : dget doms k = Some nw) by (unfold dget; rewrite Eold; reflexivity).
      destruct (IH doms c ltac:(lia) I) as [doms' [c' [Es [I2 [D2 S2]]]]].
      { intros j Hj Hjn. destruct (Nat.eq_dec j k) as [->|Hn']; [exists nw; exact Hdk | apply Hdef; lia]. }
      exists doms', c'. split; [exact Es|]. split; [exact I2|]. split; [exact D2|].
      intros Hc'. destruct (S2 Hc') as [S21 [S22 S23]]. split; [exact S21|]. split; [exact S22|].
      intros idx Hi. destruct (Nat.eq_dec idx k) as [->|Hn']; [|apply S23; lia].
      exists nw. split; [exact Hdk|]. intros p [ps' [Hps' Hp]] Hdp.
      rewrite Hps in Hps'. injection Hps' as <-. apply Hanc. apply dfilter_In. split; assumption.
    + (* changed *)
      unfold setp. apply Nat.ltb_lt in Hkl. rewrite Hkl. cbn [rbind].
      destruct (IH (upd doms k (Some nw)) true ltac:(lia) I') as [doms' [c' [Es [I2 [D2 S2]]]]].
      { intros j Hj Hjn. destruct (Nat.eq_dec j k) as [->|Hn'].
        - apply (upd_defd_idx doms k nw I Hkr Hlt).
        - apply (upd_defd doms k nw I Hkr Hlt). apply Hdef; lia. }
      exists doms', c'. split; [exact Es|]. split; [exact I2|]. split; [exact D2|].
      intros Hc'. destruct (S2 Hc') as [S21 _]. discriminate S21.
Qed.

Definition Final (doms : list (option nat)) : Prop :=
  Inv doms /\ (forall j, j < n -> defd doms j) /\ (forall idx, idx < r -> stable_at doms idx).

Lemma dom_fix_ok : forall fuel doms, Inv doms ->
  dom_fix fuel n preds doms = OutOfFuel \/ exists doms', dom_fix fuel n preds doms = Ok doms' /\ Final doms'.
Proof.
  induction fuel as [|f IH]; intros doms I; [left; reflexivity|].
  cbn [dom_fix].
  destruct (sweep_ok r doms false (le_n _) I) as [doms' [c' [Es [I2 [D2 S2]]]]].
  { intros j Hj Hjn. assert (j = r) by lia. subst j. exists r. apply (wf_root doms (inv_wf doms I)). }
  rewrite Es. cbn [rbind]. destruct c'.
  - apply IH; exact I2.
  - right. exists doms'. split; [reflexivity|]. destruct (S2 eq_refl) as [_ [-> S23]].
    split; [exact I|]. split; [exact D2 | exact S23].
Qed.

(* ------------------------------------------------------------------ *)
(* A final array is the immediate-dominator array                      *)

Lemma final_sound doms : Final doms -> forall l i a, gwalk E r l i -> anc doms i a -> In a (r :: l).
Proof.
  intros [I [D S]] l. induction l as [|y l' IH] using rev_ind; intros i a Hw Ha.
  - cbn [gwalk] in Hw. subst i. apply anc_root_inv in Ha. left; symmetry; exact Ha.
  - apply gwalk_snoc_inv in Hw. destruct Hw as [-> [m [Hw Hmi]]].
    destruct (Nat.eq_dec i r) as [->|Hir]; [apply anc_root_inv in Ha; left; symmetry; exact Ha|].
    destruct (anc_inv doms i a Ha) as [->|[d [Hd [_ Had]]]].
    + right. apply in_or_app; right; left; reflexivity.
    + destruct (E_lt m i Hmi) as [Hm Hi].
      destruct (S i ltac:(lia)) as [nw [Hnw Hst]]. rewrite Hd in Hnw. injection Hnw as <-.
      pose proof (Hst m Hmi (D m Hm)) as Hmd.
      pose proof (IH m a Hw (anc_trans doms m d a Hmd Had)) as Hin.
      destruct Hin as [Hin|Hin]; [left; exact Hin | right; apply in_or_app; left; exact Hin].
Qed.

Lemma final_dom doms : Final doms -> forall i a, i < n -> (anc doms i a <-> gdom E r a i).
Proof.
  intros F i a Hi. split.
  - intros Ha. split; [apply all_reach; exact Hi|]. intros l Hl. apply (final_sound doms F l i a Hl Ha).
  - destruct F as [I [D S]]. apply (inv_comp doms I i a (D i Hi)).
Qed.

Theorem final_idom doms : Final doms -> forall i, i < r ->
  exists d, dget doms i = Some d /\ i < d /\ d < n /\ gidom E r d i.
Proof.
  intros F i Hi. pose proof F as [I [D S]]. destruct (D i ltac:(lia)) as [d Hd].
  destruct (wf_up doms (inv_wf doms I) i d Hd ltac:(lia)) as [U1 [U2 [d' U3]]].
  exists d. split; [exact Hd|]. split; [exact U1|]. split; [exact U2|].
  assert (Hdi : anc doms i d).
  { apply (anc_step doms i d d Hd ltac:(lia)). apply (anc_refl doms d d' U3). }
  split.
  - split; [apply (final_dom doms F i d ltac:(lia)); exact Hdi | lia].
  - intros c [Hc Hne]. apply (final_dom doms F i c ltac:(lia)) in Hc.
    apply (final_dom doms F d c U2).
    destruct (anc_inv doms i c Hc) as [->|[x [Hx [_ Hxa]]]]; [congruence|].
    rewrite Hd in Hx. injection Hx as <-. exact Hxa.
Qed.

Theorem dom_fix_spec fuel :
  dom_fix fuel n preds (upd (repeat None n) r (Some r)) = OutOfFuel \/
  exists doms, dom_fix fuel n preds (upd (repeat None n) r (Some r)) = Ok doms /\
    length doms = n /\ dget doms r = Some r /\
    forall i, i < r -> exists d, dget doms i = Some d /\ i < d /\ d < n /\ gidom E r d i.
Proof.
  destruct (dom_fix_ok fuel _ inv_init) as [H|[doms [Ed F]]]; [left; exact H | right].
  exists doms. split; [exact Ed|]. pose proof F as [I _].
  split; [apply (wf_len doms (inv_wf doms I))|]. split; [apply (wf_root doms (inv_wf doms I))|].
  apply final_idom; exact F.
Qed.
(* ------------------------------------------------------------------ *)
(* The bound on the number of sweeps                                   *)

Record Inv2 (doms : list (option nat)) : Prop := {
  i2_inv : Inv doms; i2_L : Linv doms; i2_DD : DD doms
}.

Lemma sweep_ok2 : forall k doms c m, k <= r -> Inv2 doms -> KP k doms ->
  (forall j, k <= j -> j < n -> defd doms j) -> KUA k m doms -> KUB k m doms ->
  (m = 0 \/ forall j, j < n -> defd doms j) ->
  exists doms' c', dom_sweep n preds (rev (seq 0 k)) doms c = Ok (doms', c') /\
    Inv2 doms' /\ KP 0 doms' /\ (forall j, j < n -> defd doms' j) /\ KUA 0 m doms' /\
    (forall j, k <= j -> dget doms' j = dget doms j) /\
    (c' = true -> c = true \/ exists idx, idx < k /\ dget doms' idx <> dget doms idx).
Proof.
  induction k as [|k IH]; intros doms c m Hk I2 HKP Hdef HA HB Hm.
  - exists doms, c. split; [reflexivity|]. split; [exact I2|]. split; [exact HKP|].
    split; [intros j Hj; apply Hdef; lia|]. split; [exact HA|]. split; [reflexivity|].
    intros ->. left; reflexivity.
  - pose proof (i2_inv doms I2) as I.
    rewrite rev_seq_S. cbn [dom_sweep].
    destruct (Hpar k ltac:(lia)) as [ps [t [Hps [Htin Hkt]]]].
    unfold getp at 1. rewrite Hps. cbn [rbind].
    fold (dfilter doms ps).
    assert (Ht : t < n) by (apply (Hpb k ps t Hps Htin)).
    assert (Htf : In t (dfilter doms ps)) by (apply dfilter_In; split; [exact Htin | apply Hdef; lia]).
    destruct (dfilter doms ps) as [|p0 more] eqn:Ef; [destruct Htf|].
    assert (Hdf : forall p, In p (p0 :: more) -> defd doms p).
    { intros p Hp. rewrite <- Ef in Hp. apply dfilter_In in Hp. apply Hp. }
    destruct (fold_intersect_ok doms (inv_wf doms I) more p0 (Hdf p0 (or_introl eq_refl))
                (fun p Hp => Hdf p (or_intror Hp))) as [nw [Efold [A1 [A2 A3]]]].
    rewrite Efold. cbn [rbind].
    assert (Hanc : forall p, In p (dfilter doms ps) -> anc doms p nw).
    { rewrite Ef. intros p [<-|Hp]; [exact A1 | apply A2; exact Hp]. }
    assert (Hglb : forall a, (forall p, In p (dfilter doms ps) -> anc doms p a) -> anc doms nw a).
    { rewrite Ef. intros a Ha. apply A3; [apply Ha; left; reflexivity | intros p Hp; apply Ha; right; exact Hp]. }
    assert (Hlt : k < nw).
    { rewrite Ef in Hanc. pose proof (anc_le doms t nw (inv_wf doms I) (Hanc t Htf)). lia. }
    assert (Hne : dfilter doms ps <> []) by (rewrite Ef; discriminate).
    assert (Hkr : k < r) by lia.
    assert (Hdefab : forall j, k < j -> j < n -> defd doms j) by (intros j Hj Hjn; apply Hdef; lia).
    pose proof (upd_inv doms k nw ps I Hkr Hps Hne Hlt Hanc Hglb) as I'.
    pose proof (upd_L doms k nw ps I Hkr Hps Hne Hlt Hanc Hglb (i2_L doms I2) HKP (i2_DD doms I2)) as L'.
    pose proof (upd_KP doms k nw ps I Hkr Hps Hne Hlt Hanc Hglb Hdefab (i2_L doms I2) HKP) as KP'.
    pose proof (upd_DD doms k nw I Hkr Hlt Hdefab (i2_DD doms I2)) as DD'.
    destruct (upd_KU doms k nw ps I Hkr Hps Hne Hlt Hanc Hglb Hdefab (i2_L doms I2) m HA HB Hm) as [HA' HB'].
    assert (Hdef' : forall j, k <= j -> j < n -> defd (upd doms k (Some nw)) j).
    { intros j Hj Hjn. destruct (Nat.eq_dec j k) as [->|Hn'].
      - apply (upd_defd_idx doms k nw I Hkr Hlt).
      - apply (upd_defd doms k nw I Hkr Hlt). apply Hdef; lia. }
    assert (Hm' : m = 0 \/ forall j, j < n -> defd (upd doms k (Some nw)) j).
    { destruct Hm as [Hm|Hm]; [left; exact Hm | right]. intros j Hj. apply (upd_defd doms k nw I Hkr Hlt), Hm, Hj. }
    assert (I2' : Inv2 (upd doms k (Some nw))) by (constructor; assumption).
    assert (Hkl : k < length doms) by (rewrite (wf_len doms (inv_wf doms I)); lia).
    destruct (nth_error doms k) as [old|] eqn:Eold; [|apply nth_error_None in Eold; lia].
    unfold getp at 1. rewrite Eold. cbn [rbind].
    destruct (match old with Some o => Nat.eqb o nw | None => false end) eqn:Eq.
    + assert (Hold : old = Some nw).
      { destruct old as [o|]; [|discriminate]. apply Nat.eqb_eq in Eq. subst o. reflexivity. }
      subst old.
      assert (ED : upd doms k (Some nw) = doms) by (apply upd_same; exact Eold).
      rewrite ED in *.
      destruct (IH doms c m ltac:(lia) I2' KP' Hdef' HA' HB' Hm') as [doms' [c' [Es [J1 [J2 [J3 [J4 [J5 J6]]]]]]]].
      exists doms', c'. split; [exact Es|]. split; [exact J1|]. split; [exact J2|]. split; [exact J3|].
      split; [exact J4|]. split; [intros j Hj; apply J5; lia|].
      intros Hc. destruct (J6 Hc) as [H|[idx [H1 H2]]]; [left; exact H | right; exists idx; split; [lia | exact H2]].
    + unfold setp. apply Nat.ltb_lt in Hkl. rewrite Hkl. cbn [rbind].
      destruct (IH (upd doms k (Some nw)) true m ltac:(lia) I2' KP' Hdef' HA' HB' Hm') as [doms' [c' [Es [J1 [J2 [J3 [J4 [J5 J6]]]]]]]].
      exists doms', c'. split; [exact Es|]. split; [exact J1|]. split; [exact J2|]. split; [exact J3|].
      split; [exact J4|]. split.
      * intros j Hj. rewrite (J5 j ltac:(lia)). rewrite (upd_dget doms k nw I Hkr Hlt).
        destruct (Nat.eqb_spec k j); [lia | reflexivity].
      * intros _. right. exists k. split; [lia|]. rewrite (J5 k (le_n _)), (upd_dget doms k nw I Hkr Hlt), Nat.eqb_refl.
        unfold dget. rewrite Eold. destruct old as [o|]; [|discriminate].
        intros H. injection H as <-. rewrite Nat.eqb_refl in Eq. discriminate.
Qed.

Definition settled (doms : list (option nat)) : Prop := forall q a, anc doms q a -> gdom E r a q.

Lemma KUA_settled doms m : WF doms -> n - 2 <= m -> KUA 0 m doms -> settled doms.
Proof.
  intros W Hm HK q a Ha. pose proof (anc_le doms q a W Ha) as [Hqa Han].
  split; [apply all_reach; lia|]. intros l Hl.
  destruct (in_dec Nat.eq_dec a (r :: l)) as [Hin|Hout]; [exact Hin | exfalso].
  apply (HK q a (Nat.le_0_l _) (Rk_mono _ _ q a Hm (walk_bound l q a Hl Hout)) Ha).
Qed.

Lemma settled_unique d1 d2 : Inv d1 -> Inv d2 -> settled d1 -> settled d2 ->
  forall q, defd d1 q -> defd d2 q -> dget d1 q = dget d2 q.
Proof.
  assert (G : forall e1 e2, Inv e1 -> Inv e2 -> settled e1 ->
            forall q x y, q <> r -> dget e1 q = Some x -> dget e2 q = Some y -> y <= x).
  { intros e1 e2 I1 I2 S1 q x y Hq Hx Hy.
    destruct (wf_up e1 (inv_wf e1 I1) q x Hx Hq) as [U1 [U2 [x' U3]]].
    assert (Hax : anc e1 q x) by (apply (anc_step e1 q x x Hx Hq), (anc_refl e1 x x' U3)).
    pose proof (inv_comp e2 I2 q x (ex_intro _ y Hy) (S1 q x Hax)) as H2.
    destruct (anc_inv e2 q x H2) as [->|[y' [Hy' [_ Hyx]]]]; [lia|].
    rewrite Hy in Hy'. injection Hy' as <-. apply (anc_le e2 y x (inv_wf e2 I2) Hyx). }
  intros I1 I2 S1 S2 q [x Hx] [y Hy]. destruct (Nat.eq_dec q r) as [->|Hq].
  - rewrite (wf_root d1 (inv_wf d1 I1)), (wf_root d2 (inv_wf d2 I2)). reflexivity.
  - pose proof (G d1 d2 I1 I2 S1 q x y Hq Hx Hy). pose proof (G d2 d1 I2 I1 S2 q y x Hq Hy Hx).
    rewrite Hx, Hy. f_equal. lia.
Qed.

(* the state after j sweeps *)
Definition Prog (j : nat) (doms : list (option nat)) : Prop :=
  Inv2 doms /\ KP 0 doms /\ (j = 0 \/ ((forall i, i < n -> defd doms i) /\ KUA 0 (j - 1) doms)).

Lemma init_dget i d : dget (upd (repeat None n) r (Some r)) i = Some d -> i = r /\ d = r.
Proof.
  assert (Hl : r < length (repeat (@None nat) n)) by (rewrite repeat_length; lia).
  rewrite (dget_upd _ r r i Hl). destruct (Nat.eqb_spec r i) as [->|Hne].
  - intros H; injection H as <-. split; reflexivity.
  - unfold dget. destruct (nth_error (repeat None n) i) as [o|] eqn:En; [|discriminate].
    apply nth_error_In, repeat_spec in En. subst o. discriminate.
Qed.

Lemma prog_init : Prog 0 (upd (repeat None n) r (Some r)).
Proof.
  split; [|split; [|left; reflexivity]].
  - constructor; [exact inv_init | |].
    + intros b ps e c _ He Hb. destruct (init_dget b e He) as [-> _]. congruence.
    + intros b j [d Hd] Hbj Hjn. destruct (init_dget b d Hd) as [-> _].
      assert (j = r) by lia. subst j. exists d; exact Hd.
  - intros b ps e p c Hps He Hp Hbp. destruct (init_dget b e He) as [-> _].
    pose proof (Hpb r ps p Hps Hp). lia.
Qed.

Lemma dom_fix_total : forall f j doms, Prog j doms -> n - 1 - j < f ->
  exists doms', dom_fix f n preds doms = Ok doms' /\ Final doms'.
Proof.
  induction f as [|f IH]; intros j doms [I2 [HKP HK]] Hf; [lia|].
  cbn [dom_fix]. pose proof (i2_inv doms I2) as I.
  assert (HKPr : KP r doms).
  { intros b ps e p c H1 H2 H3 H4 H5 _. apply (HKP b ps e p c H1 H2 H3 H4 H5). right; lia. }
  assert (Hdef : forall j0, r <= j0 -> j0 < n -> defd doms j0).
  { intros j0 H1 H2. assert (j0 = r) by lia. subst j0. exists r. apply (wf_root doms (inv_wf doms I)). }
  assert (HA : KUA r j doms).
  { intros q a Hq [l [Hl [Hnin _]]] Ha. pose proof (anc_le doms q a (inv_wf doms I) Ha) as [H1 H2].
    assert (q = r) by lia. subst q. apply anc_root_inv in Ha. apply Hnin. left; symmetry; exact Ha. }
  assert (HB : KUB r j doms).
  { intros q a m' Hq Hm' HR. destruct HK as [->|[_ HK]]; [lia|].
    apply (HK q a (Nat.le_0_l _)). apply (Rk_mono m' (j - 1) q a); [lia | exact HR]. }
  assert (Hm : j = 0 \/ forall i, i < n -> defd doms i).
  { destruct HK as [H|[H _]]; [left; exact H | right; exact H]. }
  destruct (sweep_ok2 r doms false j (le_n _) I2 HKPr Hdef HA HB Hm)
    as [doms' [c' [Es [I2' [KP' [D' [KA' [Hfr Hch]]]]]]]].
  destruct (sweep_ok r doms false (le_n _) I Hdef) as [doms'' [c'' [Es' [_ [_ S2]]]]].
  rewrite Es in Es'. injection Es' as <- <-.
  rewrite Es. cbn [rbind]. destruct c'.
  - assert (Hj : j < n - 1).
    { destruct (Nat.lt_ge_cases j (n - 1)) as [H|H]; [exact H | exfalso].
      destruct (Hch eq_refl) as [Hd|[idx [Hi Hd]]]; [discriminate|].
      destruct HK as [->|[Hall HK]]; [lia|].
      assert (S1 : settled doms) by (apply (KUA_settled doms (j - 1) (inv_wf doms I)); [lia | exact HK]).
      assert (S2' : settled doms').
      { apply (KUA_settled doms' j (inv_wf doms' (i2_inv doms' I2'))); [lia | exact KA']. }
      apply Hd. symmetry.
      apply (settled_unique doms doms' I (i2_inv doms' I2') S1 S2' idx); [apply Hall | apply D']; lia. }
    apply (IH (S j) doms'); [|lia].
    split; [exact I2'|]. split; [exact KP'|]. right. split; [exact D'|].
    replace (S j - 1) with j by lia. exact KA'.
  - exists doms'. split; [reflexivity|]. destruct (S2 eq_refl) as [_ [-> S23]].
    split; [exact I|]. split; [|exact S23]. intros i Hi. apply D'; exact Hi.
Qed.

(* the model's budget of S (S n) sweeps suffices *)
Theorem dom_fix_conv :
  exists doms, dom_fix (S (S n)) n preds (upd (repeat None n) r (Some r)) = Ok doms /\
    length doms = n /\ dget doms r = Some r /\
    forall i, i < r -> exists d, dget doms i = Some d /\ i < d /\ d < n /\ gidom E r d i.
Proof.
  destruct (dom_fix_total (S (S n)) 0 _ prog_init ltac:(lia)) as [doms [Ed F]].
  exists doms. split; [exact Ed|]. pose proof F as [I _].
  split; [apply (wf_len doms (inv_wf doms I))|]. split; [apply (wf_root doms (inv_wf doms I))|].
  apply final_idom; exact F.
Qed.
End Alg.
