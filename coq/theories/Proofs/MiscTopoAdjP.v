(* dag_to_toposorted_adjacency_list (Model/MiscM.v, first half of tred): on a topological order
   of a well-formed view it never panics, revmap is the rank of every node, and the adjacency
   list over ranks has exactly the edges of the view (with multiplicities), all forward, rows sorted. *)
From Coq Require Import Sorted Permutation.
From PG Require Import Lib.Io Model.View Model.Traversal Model.AlgoBasic Model.MatchM Model.MiscM
                       Spec.Reach Spec.MiscSpec Props.C09.

Local Notation cnt := (count_occ Nat.eq_dec).

(* ------------------------------------------------------------------ *)
(* list facts                                                          *)

Lemma nth_error_snoc {A} (l : list A) a i :
  nth_error (l ++ [a]) i =
  if Nat.ltb i (length l) then nth_error l i else if Nat.eqb i (length l) then Some a else None.
Proof.
  destruct (Nat.ltb_spec i (length l)) as [Hl|Hl].
  - apply nth_error_app1; exact Hl.
  - rewrite nth_error_app2 by exact Hl.
    destruct (Nat.eqb_spec i (length l)) as [->|Hn].
    + rewrite Nat.sub_diag. reflexivity.
    + destruct (i - length l) as [|k] eqn:E; [lia|]. cbn [nth_error]. destruct k; reflexivity.
Qed.

Lemma nth_snoc_default {A} (l : list A) d i : nth i (l ++ [d]) d = nth i l d.
Proof.
  destruct (Nat.lt_ge_cases i (length l)) as [Hl|Hl].
  - apply app_nth1; exact Hl.
  - rewrite app_nth2 by exact Hl. rewrite (nth_overflow l d Hl).
    destruct (i - length l) as [|k]; cbn [nth]; [reflexivity|destruct k; reflexivity].
Qed.

Lemma nth_nil_nil {A} i : nth i (@nil (list A)) [] = [].
Proof. destruct i; reflexivity. Qed.

Lemma NoDup_nth_error_inj {A} (l : list A) i j x :
  NoDup l -> nth_error l i = Some x -> nth_error l j = Some x -> i = j.
Proof.
  intros Hnd Hi Hj. apply (proj1 (NoDup_nth_error l) Hnd).
  - eapply nth_error_Some_lt; exact Hi.
  - congruence.
Qed.

Lemma NoDup_app_l {A} (l1 l2 : list A) : NoDup (l1 ++ l2) -> NoDup l1.
Proof.
  induction l1 as [|h t IH]; cbn [app]; intros H; [constructor|].
  inversion H as [|x l Hn Ht]; subst. constructor; [|apply IH; exact Ht].
  intros Hin. apply Hn, in_or_app. left; exact Hin.
Qed.

Lemma cnt_pos_In l x : 0 < cnt l x <-> In x l.
Proof. symmetry. apply count_occ_In. Qed.

Lemma cnt_repeat x n j : cnt (repeat x n) j = if Nat.eqb j x then n else 0.
Proof.
  destruct (Nat.eqb_spec j x) as [->|Hn].
  - apply count_occ_repeat_eq; reflexivity.
  - apply count_occ_repeat_neq; exact Hn.
Qed.

(* counting through a map that, on the list, hits i exactly at a *)
Lemma cnt_map_at (f : nat -> nat) l i a :
  (forall p, In p l -> (f p = i <-> p = a)) -> cnt (map f l) i = cnt l a.
Proof.
  induction l as [|h t IH]; intros H; [reflexivity|].
  cbn [map count_occ].
  assert (Hh : f h = i <-> h = a) by (apply H; left; reflexivity).
  assert (Ht : cnt (map f t) i = cnt t a) by (apply IH; intros p Hp; apply H; right; exact Hp).
  destruct (Nat.eq_dec (f h) i) as [E|E]; destruct (Nat.eq_dec h a) as [E'|E']; try tauto; lia.
Qed.

Lemma cnt_map_none (f : nat -> nat) l i :
  (forall p, In p l -> f p <> i) -> cnt (map f l) i = 0.
Proof.
  intros H. apply count_occ_not_In. intros Hin. apply in_map_iff in Hin.
  destruct Hin as [p [E Hp]]. exact (H p Hp E).
Qed.

Lemma sorted_le_app_repeat row x n :
  StronglySorted le row -> (forall j, In j row -> j <= x) -> StronglySorted le (row ++ repeat x n).
Proof.
  induction row as [|h t IH]; intros Hs Hb.
  - cbn [app]. induction n as [|n IHn]; cbn [repeat]; constructor; [exact IHn|].
    apply Forall_forall. intros y Hy. apply repeat_spec in Hy. lia.
  - cbn [app]. apply StronglySorted_inv in Hs. destruct Hs as [Hs Hf]. constructor.
    + apply IH; [exact Hs|]. intros j Hj. apply Hb. right; exact Hj.
    + apply Forall_app. split; [exact Hf|].
      apply Forall_forall. intros y Hy. apply repeat_spec in Hy. subst y. apply Hb. left; reflexivity.
Qed.

Lemma sorted_lt_app_repeat row x n :
  StronglySorted lt row -> (forall j, In j row -> j < x) -> n <= 1 -> StronglySorted lt (row ++ repeat x n).
Proof.
  induction row as [|h t IH]; intros Hs Hb Hn.
  - cbn [app]. destruct n as [|[|n]]; [constructor | | lia].
    cbn [repeat]. constructor; constructor.
  - cbn [app]. apply StronglySorted_inv in Hs. destruct Hs as [Hs Hf]. constructor.
    + apply IH; [exact Hs| |exact Hn]. intros j Hj. apply Hb. right; exact Hj.
    + apply Forall_app. split; [exact Hf|].
      apply Forall_forall. intros y Hy. apply repeat_spec in Hy. subst y. apply Hb. left; reflexivity.
Qed.

(* ------------------------------------------------------------------ *)
(* the inner loop as a pure function                                   *)

Definition add_pure (l : list (list nat)) (a b : nat) : list (list nat) := upd l a (nth a l [] ++ [b]).
Definition add_many (l : list (list nat)) (sources : list nat) (ix : nat) : list (list nat) :=
  fold_left (fun l a => add_pure l a ix) sources l.

Lemma al_add_edge_ok l a b :
  a < length l -> b < length l -> al_add_edge l a b = Ok (add_pure l a b).
Proof.
  intros Ha Hb. unfold al_add_edge, add_pure, getp, setp.
  destruct (Nat.leb_spec (length l) (Nat.max a b)) as [H|H]; [lia|].
  destruct (nth_error l a) as [row|] eqn:E.
  - cbn [rbind]. rewrite (nth_error_nth_default _ _ [] E).
    destruct (Nat.ltb_spec a (length l)) as [H'|H']; [reflexivity|lia].
  - apply nth_error_None in E. lia.
Qed.

Lemma add_pure_length l a b : length (add_pure l a b) = length l.
Proof. apply upd_length. Qed.

Lemma add_many_length sources : forall l ix, length (add_many l sources ix) = length l.
Proof.
  induction sources as [|a t IH]; intros l ix; [reflexivity|].
  unfold add_many in *. cbn [fold_left]. rewrite IH. apply add_pure_length.
Qed.

Lemma add_many_nth ix sources : forall l i,
  (forall a, In a sources -> a < length l) ->
  nth i (add_many l sources ix) [] = nth i l [] ++ repeat ix (cnt sources i).
Proof.
  induction sources as [|a t IH]; intros l i Hb.
  - cbn [add_many fold_left count_occ repeat]. unfold add_many. cbn [fold_left]. rewrite app_nil_r. reflexivity.
  - unfold add_many. cbn [fold_left]. fold (add_many (add_pure l a ix) t ix).
    rewrite IH.
    2:{ intros a' Ha'. rewrite add_pure_length. apply Hb. right; exact Ha'. }
    unfold add_pure. rewrite nth_upd. cbn [count_occ].
    assert (Ha : a < length l) by (apply Hb; left; reflexivity).
    destruct (Nat.ltb_spec a (length l)) as [_|H']; [|lia].
    destruct (Nat.eqb_spec a i) as [->|Hn]; cbn [andb].
    + destruct (Nat.eq_dec i i) as [_|Hc]; [|congruence].
      cbn [repeat]. rewrite <- app_assoc. reflexivity.
    + destruct (Nat.eq_dec a i) as [Hc|_]; [congruence|reflexivity].
Qed.

Lemma inner_ok (rm : list nat) ix : forall ps l,
  ix < length l ->
  (forall p, In p ps -> exists k, nth_error rm p = Some k /\ k < length l) ->
  fold_left (fun acc old_pre =>
               rbind acc (fun l => rbind (getp rm old_pre) (fun pre => al_add_edge l pre ix)))
            ps (Ok l)
  = Ok (add_many l (map (fun p => nth p rm 0) ps) ix).
Proof.
  induction ps as [|p t IH]; intros l Hix Hp; [reflexivity|].
  cbn [fold_left map rbind].
  destruct (Hp p (or_introl eq_refl)) as [k [Ek Hk]].
  assert (E1 : rbind (getp rm p) (fun pre => al_add_edge l pre ix) = Ok (add_pure l k ix)).
  { unfold getp. rewrite Ek. cbn [rbind]. apply al_add_edge_ok; assumption. }
  rewrite E1. rewrite (nth_error_nth_default _ _ 0 Ek).
  unfold add_many. cbn [fold_left]. fold (add_many (add_pure l k ix) (map (fun p => nth p rm 0) t) ix).
  apply IH.
  - rewrite add_pure_length; exact Hix.
  - intros q Hq. rewrite add_pure_length. apply Hp. right; exact Hq.
Qed.

(* ------------------------------------------------------------------ *)
(* the outer loop                                                      *)

Section Loop.
  Variable v : view.
  Variable order : list nat.
  Hypothesis Hnodes : nodes_ok v.
  Hypothesis Hinout : inout_ok v.
  Hypothesis Hbound : forall a, In a (vnodes v) -> a < vbound v.
  Hypothesis Hnd : NoDup order.
  Hypothesis Hall : forall x, In x order <-> In x (vnodes v).
  Hypothesis Htopo : forall l1 u l2 w, order = l1 ++ u :: l2 -> step v u w -> In w l2.

  (* the state after the nodes of [done] have been placed *)
  Definition Inv (done : list nat) (res_l : list (list nat)) (revmap : list nat) : Prop :=
    length res_l = length done /\ length revmap = vbound v /\
    (forall i x, nth_error done i = Some x -> nth_error revmap x = Some i) /\
    (forall x, x < vbound v -> ~ In x done -> nth_error revmap x = Some 0) /\
    (forall i j, cnt (nth i res_l []) j = edge_mult v done i j) /\
    (forall i, StronglySorted le (nth i res_l [])) /\
    (no_parallel_in v -> forall i, StronglySorted lt (nth i res_l [])).

  Lemma Inv_init : Inv [] [] (repeat 0 (vbound v)).
  Proof.
    unfold Inv. split; [reflexivity|]. split; [apply repeat_length|].
    split; [intros i x H; destruct i; discriminate|].
    split; [intros x Hx _; apply nth_error_repeat; exact Hx|].
    split; [|split].
    - intros i j. rewrite nth_nil_nil. unfold edge_mult. destruct i; reflexivity.
    - intros i. rewrite nth_nil_nil. constructor.
    - intros _ i. rewrite nth_nil_nil. constructor.
  Qed.

  Lemma edge_mult_lt done i j : 0 < edge_mult v done i j -> i < length done /\ j < length done.
  Proof.
    unfold edge_mult. destruct (nth_error done i) as [a|] eqn:Ei; [|lia].
    destruct (nth_error done j) as [b|] eqn:Ej; [|lia].
    intros _. split; eapply nth_error_Some_lt; eassumption.
  Qed.

  Section Step.
    Variables (done rest : list nat) (old : nat).
    Hypothesis Eo : order = done ++ old :: rest.

    Lemma old_not_done : ~ In old done.
    Proof.
      intros H. rewrite Eo in Hnd. apply NoDup_remove_2 in Hnd. apply Hnd, in_or_app. left; exact H.
    Qed.

    Lemma old_not_rest : ~ In old rest.
    Proof.
      intros H. rewrite Eo in Hnd. apply NoDup_remove_2 in Hnd. apply Hnd, in_or_app. right; exact H.
    Qed.

    Lemma done_NoDup : NoDup done.
    Proof. rewrite Eo in Hnd. apply NoDup_app_l in Hnd. exact Hnd. Qed.

    Lemma old_node : In old (vnodes v).
    Proof. apply Hall. rewrite Eo. apply in_or_app. right; left; reflexivity. Qed.

    Lemma done_node x : In x done -> In x (vnodes v).
    Proof. intros H. apply Hall. rewrite Eo. apply in_or_app. left; exact H. Qed.

    (* predecessors of old are already placed *)
    Lemma pre_done p : step v p old -> In p done.
    Proof.
      intros Hs. assert (Hp : In p order) by (apply Hall; apply (Hnodes _ _ Hs)).
      rewrite Eo in Hp. apply in_app_or in Hp. destruct Hp as [Hp|[Hp|Hp]]; [exact Hp| |].
      - subst p. exfalso. apply old_not_rest. exact (Htopo _ _ _ _ Eo Hs).
      - exfalso. apply in_split in Hp. destruct Hp as [r1 [r2 Er]].
        assert (E2 : order = (done ++ old :: r1) ++ p :: r2).
        { rewrite Eo, Er, <- app_assoc. reflexivity. }
        pose proof (Htopo _ _ _ _ E2 Hs) as Hin.
        apply old_not_rest. rewrite Er. apply in_or_app. right; right; exact Hin.
    Qed.

    Lemma in_pre_done p : In p (neighbors_in v old) -> In p done.
    Proof. intros H. apply pre_done. apply (Hinout p old old_node). exact H. Qed.

    (* successors of old are not yet placed *)
    Lemma succ_not_done b : step v old b -> ~ In b done /\ b <> old.
    Proof.
      intros Hs. pose proof (Htopo _ _ _ _ Eo Hs) as Hin. split.
      - intros Hd. rewrite Eo in Hnd. apply NoDup_remove_1 in Hnd.
        apply in_split in Hd. destruct Hd as [d1 [d2 Ed]]. rewrite Ed, <- app_assoc in Hnd.
        apply NoDup_remove_2 in Hnd. apply Hnd. apply in_or_app. right. apply in_or_app. right; exact Hin.
      - intros ->. exact (old_not_rest Hin).
    Qed.

    Variables (res_l : list (list nat)) (revmap : list nat).
    Hypothesis HI : Inv done res_l revmap.

    Let ix := length done.
    Let rm1 := upd revmap old ix.
    Let sources := map (fun p => nth p rm1 0) (neighbors_in v old).
    Let res2 := add_many (res_l ++ [[]]) sources ix.

    Lemma rm1_done i x : nth_error done i = Some x -> nth_error rm1 x = Some i.
    Proof.
      destruct HI as [_ [_ [H3 _]]]. intros H. unfold rm1.
      rewrite nth_error_upd_neq; [apply H3; exact H|].
      intros E. apply old_not_done. rewrite E. eapply nth_error_In; exact H.
    Qed.

    Lemma rm1_old : nth_error rm1 old = Some ix.
    Proof.
      destruct HI as [_ [H2 _]]. unfold rm1. apply nth_error_upd_eq. rewrite H2. apply Hbound, old_node.
    Qed.

    Lemma sources_lt a : In a sources -> a < ix.
    Proof.
      unfold sources. intros H. apply in_map_iff in H. destruct H as [p [E Hp]].
      apply in_pre_done in Hp. apply In_nth_error in Hp. destruct Hp as [k Hk].
      rewrite (nth_error_nth_default _ _ 0 (rm1_done _ _ Hk)) in E. subst a.
      eapply nth_error_Some_lt; exact Hk.
    Qed.

    Lemma sources_cnt i :
      cnt sources i = match nth_error done i with Some a => cnt (neighbors_in v old) a | None => 0 end.
    Proof.
      unfold sources. destruct (nth_error done i) as [a|] eqn:Ei.
      - apply cnt_map_at. intros p Hp. apply in_pre_done in Hp.
        apply In_nth_error in Hp. destruct Hp as [k Hk].
        rewrite (nth_error_nth_default _ _ 0 (rm1_done _ _ Hk)). split.
        + intros ->. congruence.
        + intros ->. eapply NoDup_nth_error_inj; [apply done_NoDup|eassumption|eassumption].
      - apply cnt_map_none. intros p Hp E.
        assert (Hs : In i sources) by (unfold sources; apply in_map_iff; exists p; split; assumption).
        apply sources_lt in Hs. apply nth_error_None in Ei. unfold ix in Hs. lia.
    Qed.

    Lemma res2_nth i : nth i res2 [] = nth i res_l [] ++ repeat ix (cnt sources i).
    Proof.
      unfold res2. rewrite add_many_nth.
      - rewrite nth_snoc_default. reflexivity.
      - intros a Ha. apply sources_lt in Ha. destruct HI as [H1 _].
        rewrite app_length, H1. cbn [length]. unfold ix in Ha. lia.
    Qed.

    Lemma row_lt i j : In j (nth i res_l []) -> j < ix.
    Proof.
      destruct HI as [_ [_ [_ [_ [H5 _]]]]]. intros H. apply cnt_pos_In in H. rewrite H5 in H.
      apply edge_mult_lt in H. unfold ix. lia.
    Qed.

    Lemma edge_mult_snoc i j :
      edge_mult v (done ++ [old]) i j =
      edge_mult v done i j + (if Nat.eqb j ix then cnt sources i else 0).
    Proof.
      rewrite sources_cnt. unfold edge_mult. rewrite !nth_error_snoc. fold ix.
      destruct (Nat.ltb_spec j ix) as [Hj|Hj].
      - destruct (Nat.eqb_spec j ix) as [->|_]; [lia|].
        destruct (Nat.ltb_spec i ix) as [Hi|Hi]; [lia|].
        assert (Ei : nth_error done i = None) by (apply nth_error_None; exact Hi).
        rewrite Ei. destruct (Nat.eqb_spec i ix) as [->|Hn]; [|reflexivity].
        destruct (nth_error done j) as [b|] eqn:Ej; [|reflexivity].
        rewrite Nat.add_0_r. apply count_occ_not_In. intros Hin.
        assert (Hb : In b done) by (eapply nth_error_In; exact Ej).
        apply (Hinout old b (done_node _ Hb)) in Hin. apply succ_not_done in Hin. tauto.
      - assert (Ej : nth_error done j = None) by (apply nth_error_None; exact Hj).
        rewrite Ej. destruct (Nat.eqb_spec j ix) as [->|Hn].
        + destruct (Nat.ltb_spec i ix) as [Hi|Hi].
          * destruct (nth_error done i) as [a|]; reflexivity.
          * assert (Ei : nth_error done i = None) by (apply nth_error_None; exact Hi).
            rewrite Ei. destruct (Nat.eqb_spec i ix) as [->|Hn']; [|reflexivity].
            cbn [Nat.add]. apply count_occ_not_In. intros Hin. apply old_not_done, in_pre_done, Hin.
        + destruct (Nat.ltb i ix); destruct (nth_error done i); try lia; destruct (Nat.eqb i ix); lia.
    Qed.

    Lemma Inv_step : exists rm, setp revmap old ix = Ok rm /\
      fold_left (fun acc old_pre =>
                   rbind acc (fun l => rbind (getp rm old_pre) (fun pre => al_add_edge l pre ix)))
                (neighbors_in v old) (Ok (res_l ++ [[]])) = Ok res2 /\
      Inv (done ++ [old]) res2 rm.
    Proof.
      exists rm1. pose proof HI as [H1 [H2 [H3 [H4 [H5 [H6 H7]]]]]].
      split; [|split].
      - unfold setp. destruct (Nat.ltb_spec old (length revmap)) as [_|H]; [reflexivity|].
        rewrite H2 in H. pose proof (Hbound _ old_node). lia.
      - unfold res2, sources. apply inner_ok.
        + rewrite app_length, H1. cbn [length]. unfold ix. lia.
        + intros p Hp. apply in_pre_done in Hp. apply In_nth_error in Hp. destruct Hp as [k Hk].
          exists k. split; [apply rm1_done; exact Hk|].
          apply nth_error_Some_lt in Hk. rewrite app_length, H1. lia.
      - unfold Inv. split; [|split; [|split; [|split; [|split; [|split]]]]].
        + unfold res2. rewrite add_many_length, !app_length, H1. reflexivity.
        + unfold rm1. rewrite upd_length. exact H2.
        + intros i x. rewrite nth_error_snoc. fold ix.
          destruct (Nat.ltb_spec i ix) as [Hi|Hi]; [apply rm1_done|].
          destruct (Nat.eqb_spec i ix) as [->|Hn]; [|discriminate].
          intros E; injection E as <-. apply rm1_old.
        + intros x Hx Hnin. unfold rm1. rewrite nth_error_upd_neq.
          * apply H4; [exact Hx|]. intros H. apply Hnin, in_or_app. left; exact H.
          * intros E. apply Hnin, in_or_app. right; left; exact E.
        + intros i j. rewrite res2_nth, count_occ_app, cnt_repeat, H5, edge_mult_snoc. reflexivity.
        + intros i. rewrite res2_nth. apply sorted_le_app_repeat; [apply H6|].
          intros j Hj. apply row_lt in Hj. lia.
        + intros Hnp i. rewrite res2_nth. apply sorted_lt_app_repeat; [apply H7; exact Hnp|apply row_lt|].
          rewrite sources_cnt. destruct (nth_error done i) as [a|]; [|lia].
          apply NoDup_count_occ. apply Hnp, old_node.
    Qed.
  End Step.

  Lemma loop_ok : forall rest done res_l revmap,
    order = done ++ rest -> Inv done res_l revmap ->
    exists g rm, topo_adj_loop v rest (length done) res_l revmap = Ok (g, rm) /\ Inv order g rm.
  Proof.
    induction rest as [|old rest IH]; intros done res_l revmap Eo HI.
    - exists res_l, revmap. split; [reflexivity|]. rewrite Eo, app_nil_r. exact HI.
    - destruct (Inv_step _ _ _ Eo _ _ HI) as [rm [E1 [E2 HI']]].
      cbn [topo_adj_loop]. rewrite E1. cbn [rbind]. rewrite E2. cbn [rbind].
      assert (Eo' : order = (done ++ [old]) ++ rest) by (rewrite <- app_assoc; exact Eo).
      pose proof (IH _ _ _ Eo' HI') as IH'. rewrite app_length in IH'. cbn [length] in IH'.
      rewrite Nat.add_1_r in IH'. exact IH'.
  Qed.

  Lemma topo_adj_inv :
    exists g rm, dag_to_toposorted_adjacency_list v order = Ok (g, rm) /\ Inv order g rm.
  Proof. exact (loop_ok order [] [] _ eq_refl Inv_init). Qed.

  Lemma order_node i a : nth_error order i = Some a -> In a (vnodes v).
  Proof. intros H. apply Hall. eapply nth_error_In; exact H. Qed.

  Lemma mult_edges g i j :
    (forall i j, cnt (nth i g []) j = edge_mult v order i j) ->
    (In j (nth i g []) <->
     exists a b, nth_error order i = Some a /\ nth_error order j = Some b /\ step v a b).
  Proof.
    intros H5. rewrite <- cnt_pos_In, H5. unfold edge_mult. split.
    - destruct (nth_error order i) as [a|] eqn:Ei; [|lia].
      destruct (nth_error order j) as [b|] eqn:Ej; [|lia].
      intros H. apply cnt_pos_In in H. exists a, b. split; [reflexivity|]. split; [reflexivity|].
      apply (Hinout a b (order_node _ _ Ej)). exact H.
    - intros [a [b [Ea [Eb Hs]]]]. rewrite Ea, Eb. apply cnt_pos_In.
      apply (Hinout a b (order_node _ _ Eb)). exact Hs.
  Qed.

  (* edges of the view point forward in the order *)
  Lemma order_forward i j a b :
    nth_error order i = Some a -> nth_error order j = Some b -> step v a b -> i < j.
  Proof.
    intros Ea Eb Hs. destruct (nth_error_split _ _ Ea) as [l1 [l2 [Eo El]]].
    pose proof (Htopo _ _ _ _ Eo Hs) as Hin. apply In_nth_error in Hin. destruct Hin as [k Hk].
    assert (E : nth_error order (i + S k) = Some b).
    { rewrite Eo at 1. rewrite nth_error_app2 by lia.
      replace (i + S k - length l1) with (S k) by lia. exact Hk. }
    pose proof (NoDup_nth_error_inj _ _ _ _ Hnd Eb E). lia.
  Qed.

  Lemma Inv_ok g rm : Inv order g rm -> topo_adj_ok v order g rm.
  Proof.
    intros [H1 [H2 [H3 [H4 [H5 [H6 H7]]]]]]. unfold topo_adj_ok.
    split; [exact H1|]. split; [exact H2|]. split; [exact H3|]. split; [exact H4|].
    split; [intros i j; apply mult_edges; exact H5|].
    split; [|split; [exact H6|exact H7]].
    intros i j H. apply (mult_edges g i j H5) in H. destruct H as [a [b [Ea [Eb Hs]]]].
    split; [eapply order_forward; eassumption|eapply nth_error_Some_lt; exact Eb].
  Qed.
End Loop.

(* ------------------------------------------------------------------ *)
(* theorems                                                            *)

Theorem topo_adj_correct : forall v order,
  VOk v -> (forall a, In a (vnodes v) -> a < vbound v) -> topo_order v order ->
  exists g revmap,
    dag_to_toposorted_adjacency_list v order = Ok (g, revmap) /\ topo_adj_ok v order g revmap.
Proof.
  intros v order [_ [Hn Hio]] Hb [Hnd [Hall Htopo]].
  destruct (topo_adj_inv v order Hn Hio Hb Hnd Hall Htopo) as [g [rm [E HI]]].
  exists g, rm. split; [exact E|]. eapply Inv_ok; eassumption.
Qed.

(* the same with the hypotheses and conclusions spelled out *)
Corollary topo_adj_correct_unfolded : forall v order,
  VOk v -> (forall a, In a (vnodes v) -> a < vbound v) ->
  NoDup order -> (forall x, In x order <-> In x (vnodes v)) ->
  (forall l1 u l2 w, order = l1 ++ u :: l2 -> step v u w -> In w l2) ->
  exists g revmap,
    dag_to_toposorted_adjacency_list v order = Ok (g, revmap) /\
    length g = length order /\ length revmap = vbound v /\
    (forall i x, nth_error order i = Some x -> nth_error revmap x = Some i) /\
    (forall x, x < vbound v -> ~ In x order -> nth_error revmap x = Some 0) /\
    (forall i j, In j (nth i g []) <->
                 exists a b, nth_error order i = Some a /\ nth_error order j = Some b /\ step v a b) /\
    (forall i j, In j (nth i g []) -> i < j < length order) /\
    (forall i, StronglySorted le (nth i g [])) /\
    ((forall b, In b (vnodes v) -> NoDup (neighbors_in v b)) -> forall i, StronglySorted lt (nth i g [])).
Proof.
  intros v order Hv Hb Hnd Hall Htopo.
  exact (topo_adj_correct v order Hv Hb (conj Hnd (conj Hall Htopo))).
Qed.

(* row i holds j exactly as many times as the view has edges order[i] -> order[j] *)
Theorem topo_adj_mult : forall v order g revmap,
  VOk v -> (forall a, In a (vnodes v) -> a < vbound v) -> topo_order v order ->
  dag_to_toposorted_adjacency_list v order = Ok (g, revmap) ->
  forall i j, count_occ Nat.eq_dec (nth i g []) j = edge_mult v order i j.
Proof.
  intros v order g revmap [_ [Hn Hio]] Hb [Hnd [Hall Htopo]] E.
  destruct (topo_adj_inv v order Hn Hio Hb Hnd Hall Htopo) as [g' [rm' [E' HI]]].
  rewrite E in E'. injection E' as <- <-. apply HI.
Qed.

Lemma topo_adj_ok_DagAL v order g revmap :
  topo_adj_ok v order g revmap -> no_parallel_in v -> DagAL g.
Proof.
  intros [H1 [_ [_ [_ [_ [Hf [_ Hlt]]]]]]] Hnp i row Ei.
  pose proof (nth_error_nth_default _ _ [] Ei) as En. split.
  - rewrite <- En. apply Hlt; exact Hnp.
  - intros j Hj. rewrite <- En in Hj. rewrite H1. apply Hf; exact Hj.
Qed.

Theorem topo_adj_DagAL : forall v order g revmap,
  VOk v -> (forall a, In a (vnodes v) -> a < vbound v) -> topo_order v order ->
  (forall b, In b (vnodes v) -> NoDup (neighbors_in v b)) ->
  dag_to_toposorted_adjacency_list v order = Ok (g, revmap) -> DagAL g.
Proof.
  intros v order g revmap Hv Hb Ho Hnp E.
  destruct (topo_adj_correct v order Hv Hb Ho) as [g' [rm' [E' Hok]]].
  rewrite E in E'. injection E' as <- <-. eapply topo_adj_ok_DagAL; eassumption.
Qed.

(* non-empty paths *)
Lemma al_plus_snoc G i k j : al_plus G i k -> al_step G k j -> al_plus G i j.
Proof.
  induction 1 as [i k H|i m k H Hp IH]; intros Hs.
  - eapply alp_cons; [exact H|apply alp_one; exact Hs].
  - eapply alp_cons; [exact H|apply IH; exact Hs].
Qed.

Lemma topo_adj_ok_plus v order g revmap :
  nodes_ok v -> topo_order v order -> topo_adj_ok v order g revmap ->
  forall i j, al_plus g i j <->
    exists a b, nth_error order i = Some a /\ nth_error order j = Some b /\
                (exists c, step v a c /\ reachable v c b).
Proof.
  intros Hn [Hnd [Hall _]] [_ [_ [_ [_ [He _]]]]] i j. split.
  - induction 1 as [i j H|i k j H Hp IH].
    + apply He in H. destruct H as [a [b [Ea [Eb Hs]]]].
      exists a, b. split; [exact Ea|]. split; [exact Eb|]. exists b. split; [exact Hs|apply reach_refl].
    + apply He in H. destruct H as [a [c [Ea [Ec Hs]]]].
      destruct IH as [c' [b [Ec' [Eb [d [Hs' Hr]]]]]].
      assert (c' = c) by congruence. subst c'.
      exists a, b. split; [exact Ea|]. split; [exact Eb|]. exists c. split; [exact Hs|].
      eapply reachable_left; eassumption.
  - intros [a [b [Ea [Eb [c [Hs Hr]]]]]]. revert j Eb.
    induction Hr as [|x y Hr IH Hxy]; intros j Eb.
    + apply alp_one. apply He. exists a, c. auto.
    + assert (Hx : In x order) by (apply Hall; apply (Hn _ _ Hxy)).
      apply In_nth_error in Hx. destruct Hx as [k Ek].
      eapply al_plus_snoc; [apply IH; exact Ek|].
      apply He. exists x, y. auto.
Qed.

Theorem topo_adj_plus : forall v order g revmap,
  VOk v -> (forall a, In a (vnodes v) -> a < vbound v) -> topo_order v order ->
  dag_to_toposorted_adjacency_list v order = Ok (g, revmap) ->
  forall i j, al_plus g i j <->
    exists a b, nth_error order i = Some a /\ nth_error order j = Some b /\
                (exists c, step v a c /\ reachable v c b).
Proof.
  intros v order g revmap Hv Hb Ho E.
  destruct (topo_adj_correct v order Hv Hb Ho) as [g' [rm' [E' Hok]]].
  rewrite E in E'. injection E' as <- <-.
  apply (topo_adj_ok_plus _ _ _ _ (proj1 (proj2 Hv)) Ho Hok).
Qed.

(* ------------------------------------------------------------------ *)
(* on the output of toposort                                           *)

Lemma toposort_topo_order v order : VOk v -> toposort v = Ok (inr order) -> topo_order v order.
Proof.
  intros Hv E. destruct (C09_toposort_ok_sound v order Hv E) as [H1 [H2 [_ [H3 _]]]].
  split; [exact H1|]. split; [exact H2|exact H3].
Qed.

Theorem topo_adj_of_toposort : forall v order,
  VOk v -> (forall a, In a (vnodes v) -> a < vbound v) -> toposort v = Ok (inr order) ->
  exists g revmap,
    dag_to_toposorted_adjacency_list v order = Ok (g, revmap) /\ topo_adj_ok v order g revmap /\
    (no_parallel_in v -> DagAL g) /\
    (forall i j, al_plus g i j <->
       exists a b, nth_error order i = Some a /\ nth_error order j = Some b /\
                   (exists c, step v a c /\ reachable v c b)).
Proof.
  intros v order Hv Hb E. pose proof (toposort_topo_order v order Hv E) as Ho.
  destruct (topo_adj_correct v order Hv Hb Ho) as [g [rm [Eg Hok]]].
  exists g, rm. split; [exact Eg|]. split; [exact Hok|]. split.
  - intros Hnp. eapply topo_adj_ok_DagAL; eassumption.
  - apply (topo_adj_ok_plus _ _ _ _ (proj1 (proj2 Hv)) Ho Hok).
Qed.

(* ------------------------------------------------------------------ *)
(* a 6-node DAG with a shortcut edge 0 -> 2 beside 0 -> 1 -> 2         *)

Definition topo_adj_ex : view :=
  mkView true 6 (Some 6) [0;1;2;3;4;5]
    [(0, [(0,1,0%Z); (2,2,0%Z)]); (1, [(1,2,0%Z); (5,5,0%Z)]); (2, [(3,3,0%Z)]); (3, [(4,4,0%Z)]);
     (5, [(6,4,0%Z)])]
    [(1, [(0,0,0%Z)]); (2, [(1,1,0%Z); (2,0,0%Z)]); (3, [(3,2,0%Z)]); (4, [(4,3,0%Z); (6,5,0%Z)]);
     (5, [(5,1,0%Z)])]
    7 7 [(0,0,1,0%Z); (1,1,2,0%Z); (2,0,2,0%Z); (3,2,3,0%Z); (4,3,4,0%Z); (5,1,5,0%Z); (6,5,4,0%Z)].

Example topo_adj_ex_ok :
  VOk topo_adj_ex /\ (forall a, In a (vnodes topo_adj_ex) -> a < vbound topo_adj_ex) /\ no_parallel_in topo_adj_ex.
Proof.
  split; [apply vok_check_ok; vm_compute; reflexivity|]. split.
  - intros a Ha. cbn [topo_adj_ex vnodes vbound In] in *. lia.
  - intros b Hb. cbn [topo_adj_ex vnodes In] in Hb.
    repeat (destruct Hb as [<-|Hb]; [vm_compute; repeat constructor; cbn [In]; intuition discriminate|]).
    destruct Hb.
Qed.

(* ranks: 0->0 1->1 5->2 2->3 3->4 4->5; the shortcut 0 -> 2 is the 3 in row 0 *)
Example topo_adj_ex_values :
  toposort topo_adj_ex = Ok (inr [0; 1; 5; 2; 3; 4]) /\
  dag_to_toposorted_adjacency_list topo_adj_ex [0; 1; 5; 2; 3; 4]
  = Ok ([[1; 3]; [2; 3]; [5]; [4]; [5]; []], [0; 1; 3; 4; 5; 2]).
Proof. vm_compute; split; reflexivity. Qed.

(* parallel edges: a row is then only weakly increasing *)
Definition topo_adj_par : view :=
  mkView true 2 (Some 2) [0;1]
    [(0, [(0,1,0%Z); (1,1,0%Z)])]
    [(1, [(0,0,0%Z); (1,0,0%Z)])]
    2 2 [(0,0,1,0%Z); (1,0,1,0%Z)].

Example topo_adj_par_values :
  vok_check topo_adj_par = true /\ toposort topo_adj_par = Ok (inr [0; 1]) /\
  dag_to_toposorted_adjacency_list topo_adj_par [0; 1] = Ok ([[1; 1]; []], [0; 1]) /\
  (* an order that is not topological: no panic, but the edges land in row 0 as self-loops *)
  dag_to_toposorted_adjacency_list topo_adj_par [1; 0] = Ok ([[0; 0]; []], [1; 0]).
Proof. vm_compute; repeat split; reflexivity. Qed.

(* ------------------------------------------------------------------ *)

Check topo_adj_correct : forall v order,
  VOk v -> (forall a, In a (vnodes v) -> a < vbound v) -> topo_order v order ->
  exists g revmap,
    dag_to_toposorted_adjacency_list v order = Ok (g, revmap) /\ topo_adj_ok v order g revmap.
Check topo_adj_DagAL : forall v order g revmap,
  VOk v -> (forall a, In a (vnodes v) -> a < vbound v) -> topo_order v order ->
  (forall b, In b (vnodes v) -> NoDup (neighbors_in v b)) ->
  dag_to_toposorted_adjacency_list v order = Ok (g, revmap) -> DagAL g.
Check topo_adj_plus : forall v order g revmap,
  VOk v -> (forall a, In a (vnodes v) -> a < vbound v) -> topo_order v order ->
  dag_to_toposorted_adjacency_list v order = Ok (g, revmap) ->
  forall i j, al_plus g i j <->
    exists a b, nth_error order i = Some a /\ nth_error order j = Some b /\
                (exists c, step v a c /\ reachable v c b).

Print Assumptions topo_adj_correct.
Print Assumptions topo_adj_correct_unfolded.
Print Assumptions topo_adj_mult.
Print Assumptions topo_adj_DagAL.
Print Assumptions topo_adj_of_toposort.
Print Assumptions topo_adj_plus.
Print Assumptions topo_adj_ex_values.
