(* C20: dag_transitive_reduction_closure (mirror in Model/MiscM.v) is total and exact on
   topologically numbered DAG adjacency lists. *)
From Coq Require Import List Arith Lia Bool Sorted.
From PG Require Import Lib.Io Lib.ListArr Model.View Model.MatchM Model.MiscM Spec.MiscSpec.
Import ListNotations.

(* ------------------------------------------------------------------ al_plus facts *)
Lemma al_step_row G i j : al_step G i j -> exists row, nth_error G i = Some row /\ In j row.
Proof.
  unfold al_step. intros H. destruct (nth_error G i) as [row|] eqn:E.
  - exists row. split; [reflexivity|]. erewrite nth_error_nth in H by exact E. exact H.
  - apply nth_error_None in E. rewrite nth_overflow in H by exact E. destruct H.
Qed.

Lemma al_step_fwd G i j : DagAL G -> al_step G i j -> i < j < length G.
Proof.
  intros HG H. destruct (al_step_row G i j H) as (row & E & Hin).
  destruct (HG i row E) as [_ Hb]. apply Hb; exact Hin.
Qed.

Lemma al_plus_fwd G i j : DagAL G -> al_plus G i j -> i < j < length G.
Proof.
  intros HG H. induction H as [i j H|i k j H _ IH].
  - apply al_step_fwd; assumption.
  - pose proof (al_step_fwd G i k HG H). lia.
Qed.

Lemma al_plus_irrefl G i : DagAL G -> ~ al_plus G i i.
Proof. intros HG H. pose proof (al_plus_fwd G i i HG H). lia. Qed.

Lemma al_plus_trans G i k j : al_plus G i k -> al_plus G k j -> al_plus G i j.
Proof.
  intros H1 H2. induction H1 as [i k H|i k' k H _ IH].
  - eapply alp_cons; eassumption.
  - eapply alp_cons; [exact H|apply IH; exact H2].
Qed.

Lemma al_plus_mono H G i j : al_sub H G -> al_plus H i j -> al_plus G i j.
Proof.
  intros Hs Hp. induction Hp as [i j Hp|i k j Hp _ IH].
  - apply alp_one, Hs, Hp.
  - eapply alp_cons; [apply Hs, Hp|exact IH].
Qed.

Lemma al_plus_first G i j : al_plus G i j <-> al_step G i j \/ exists k, al_step G i k /\ al_plus G k j.
Proof.
  split.
  - intros H. inversion H; subst; [left; assumption|right; eauto].
  - intros [H|(k & H1 & H2)]; [apply alp_one; exact H|eapply alp_cons; eassumption].
Qed.

(* ------------------------------------------------------------------ array helpers *)
Lemma getp_nth {A} (l : list A) i d : i < length l -> getp l i = Ok (nth i l d).
Proof. intros H. unfold getp. rewrite (nth_error_nth' l d H). reflexivity. Qed.

Lemma setp_ok {A} (l : list A) i x : i < length l -> setp l i x = Ok (upd l i x).
Proof. intros H. unfold setp. destruct (Nat.ltb_spec i (length l)); [reflexivity|lia]. Qed.

Lemma upd_upd {A} (l : list A) i a b : upd (upd l i a) i b = upd l i b.
Proof. revert i; induction l as [|h t IH]; intros [|i]; cbn [upd]; try reflexivity. f_equal. apply IH. Qed.

Lemma nth_upd_same {A} (l : list A) i v d : i < length l -> nth i (upd l i v) d = v.
Proof.
  intros H. rewrite nth_upd. rewrite Nat.eqb_refl.
  destruct (Nat.ltb_spec i (length l)); [reflexivity|lia].
Qed.

Lemma nth_upd_other {A} (l : list A) i j v d : i <> j -> nth j (upd l i v) d = nth j l d.
Proof.
  intros H. rewrite nth_upd. destruct (Nat.eqb_spec i j); [contradiction|reflexivity].
Qed.

Lemma upd_nth_same {A} (l : list A) i d : upd l i (nth i l d) = l.
Proof.
  destruct (Nat.lt_ge_cases i (length l)) as [H|H].
  - apply upd_same. apply nth_error_nth'. exact H.
  - apply upd_oob. exact H.
Qed.

Lemma al_add_edge_ok l a b : a < length l -> b < length l ->
  al_add_edge l a b = Ok (upd l a (nth a l [] ++ [b])).
Proof.
  intros Ha Hb. unfold al_add_edge.
  destruct (Nat.leb_spec (length l) (Nat.max a b)); [lia|].
  rewrite (getp_nth l a [] Ha). cbn [rbind]. apply setp_ok; exact Ha.
Qed.

(* ------------------------------------------------------------------ pure versions of the loops *)
(* marking the closure of one successor: ys = tclos[x] *)
Definition mark_step (p : list bool * list nat) (y : nat) : list bool * list nat :=
  if nth y (fst p) false then p else (upd (fst p) y true, snd p ++ [y]).
Definition mark_fold (ys : list nat) (mk : list bool) (row : list nat) : list bool * list nat :=
  fold_left mark_step ys (mk, row).

(* one row: rt / rc are the rows i of tred / tclos, TC the closure table (rows > i are read) *)
Fixpoint nb_pure (TC : list (list nat)) (xs : list nat) (mk : list bool) (rt rc : list nat)
  : list bool * list nat * list nat :=
  match xs with
  | [] => (mk, rt, rc)
  | x :: rest =>
      if nth x mk false then nb_pure TC rest mk rt rc
      else let r := mark_fold (nth x TC []) mk (rc ++ [x]) in
           nb_pure TC rest (fst r) (rt ++ [x]) (snd r)
  end.

Definition unmark (ys : list nat) (mk : list bool) : list bool :=
  fold_left (fun m y => upd m y false) ys mk.

Lemma mark_fold_length ys : forall mk row, length (fst (mark_fold ys mk row)) = length mk.
Proof.
  induction ys as [|y ys IH]; intros mk row; [reflexivity|].
  unfold mark_fold. cbn [fold_left]. unfold mark_step at 2. cbn [fst snd].
  destruct (nth y mk false).
  - apply IH.
  - fold (mark_fold ys (upd mk y true) (row ++ [y])). rewrite IH. apply upd_length.
Qed.

Lemma unmark_length ys : forall mk, length (unmark ys mk) = length mk.
Proof.
  induction ys as [|y ys IH]; intros mk; [reflexivity|].
  unfold unmark. cbn [fold_left]. fold (unmark ys (upd mk y false)). rewrite IH. apply upd_length.
Qed.

(* ------------------------------------------------------------------ the code computes the pure versions *)
Definition inner_f (i : nat) :=
  fun (acc : res (list bool * list (list nat))) (y : nat) =>
    rbind acc (fun p : list bool * list (list nat) =>
      let '(mk, tc) := p in
      rbind (getp mk y) (fun my : bool =>
        if my then Ok (mk, tc)
        else rbind (setp mk y true) (fun mk' =>
             rmap (fun tc' => (mk', tc')) (al_add_edge tc i y)))).

Lemma inner_refine i ys : forall mk tc,
  length mk = length tc -> i < length tc -> (forall y, In y ys -> y < length tc) ->
  fold_left (inner_f i) ys (Ok (mk, tc)) =
  Ok (fst (mark_fold ys mk (nth i tc [])), upd tc i (snd (mark_fold ys mk (nth i tc [])))).
Proof.
  induction ys as [|y ys IH]; intros mk tc Hl Hi Hys.
  - cbn [fold_left mark_fold fst snd]. rewrite upd_nth_same. reflexivity.
  - assert (Hy : y < length tc) by (apply Hys; left; reflexivity).
    cbn [fold_left]. unfold inner_f at 2. cbn [rbind].
    rewrite (getp_nth mk y false) by lia. cbn [rbind].
    unfold mark_fold. cbn [fold_left]. unfold mark_step at 2 4. cbn [fst snd].
    destruct (nth y mk false) eqn:Emy.
    + apply IH; auto. intros z Hz; apply Hys; right; exact Hz.
    + rewrite setp_ok by lia. cbn [rbind]. rewrite al_add_edge_ok by assumption. cbn [rmap].
      rewrite IH.
      * rewrite nth_upd_same by exact Hi. rewrite upd_upd. reflexivity.
      * rewrite !upd_length. exact Hl.
      * rewrite upd_length. exact Hi.
      * intros z Hz. rewrite upd_length. apply Hys; right; exact Hz.
Qed.

Lemma nb_refine i TC n xs : forall mark tred tclos,
  length mark = n -> length tred = n -> length tclos = n -> i < n ->
  (forall x, In x xs -> x < n /\ x <> i /\ nth x tclos [] = nth x TC [] /\
                        forall y, In y (nth x TC []) -> y < n) ->
  tred_neighbors xs i mark tred tclos =
  Ok (fst (fst (nb_pure TC xs mark (nth i tred []) (nth i tclos []))),
      upd tred i (snd (fst (nb_pure TC xs mark (nth i tred []) (nth i tclos [])))),
      upd tclos i (snd (nb_pure TC xs mark (nth i tred []) (nth i tclos [])))).
Proof.
  induction xs as [|x xs IH]; intros mark tred tclos Hm Ht Hc Hi Hxs.
  - cbn [tred_neighbors nb_pure fst snd]. rewrite !upd_nth_same. reflexivity.
  - destruct (Hxs x (or_introl eq_refl)) as (Hx & Hxi & HTC & Hys).
    assert (Hxs' : forall x0, In x0 xs -> x0 < n /\ x0 <> i /\ nth x0 tclos [] = nth x0 TC [] /\
                        forall y, In y (nth x0 TC []) -> y < n)
      by (intros x0 H0; apply Hxs; right; exact H0).
    cbn [tred_neighbors nb_pure].
    rewrite (getp_nth mark x false) by lia. cbn [rbind].
    destruct (nth x mark false) eqn:Emx.
    + apply IH; assumption.
    + rewrite al_add_edge_ok by lia. cbn [rbind].
      rewrite al_add_edge_ok by lia. cbn [rbind].
      rewrite (getp_nth _ x []) by (rewrite upd_length; lia). cbn [rbind].
      rewrite nth_upd_other by (intros E; apply Hxi; symmetry; exact E).
      rewrite HTC.
      change (fold_left _ (nth x TC []) (Ok (mark, upd tclos i (nth i tclos [] ++ [x]))))
        with (fold_left (inner_f i) (nth x TC []) (Ok (mark, upd tclos i (nth i tclos [] ++ [x])))).
      rewrite inner_refine.
      * cbn [rbind]. rewrite nth_upd_same by lia. rewrite upd_upd.
        rewrite IH.
        -- rewrite !nth_upd_same by lia. rewrite !upd_upd. reflexivity.
        -- rewrite mark_fold_length. exact Hm.
        -- rewrite upd_length. exact Ht.
        -- rewrite upd_length. exact Hc.
        -- exact Hi.
        -- intros x0 H0. destruct (Hxs' x0 H0) as (H1 & H2 & H3 & H4).
           repeat split; auto.
           rewrite nth_upd_other by (intros E; apply H2; symmetry; exact E). exact H3.
      * rewrite upd_length. lia.
      * rewrite upd_length. lia.
      * intros y Hy. rewrite upd_length. rewrite Hc. apply Hys; exact Hy.
Qed.

Lemma unmark_refine ys : forall mk, (forall y, In y ys -> y < length mk) ->
  fold_left (fun acc y => rbind acc (fun m => setp m y false)) ys (Ok mk) = Ok (unmark ys mk).
Proof.
  induction ys as [|y ys IH]; intros mk Hys; [reflexivity|].
  cbn [fold_left rbind]. rewrite setp_ok by (apply Hys; left; reflexivity).
  unfold unmark. cbn [fold_left]. apply IH.
  intros z Hz. rewrite upd_length. apply Hys; right; exact Hz.
Qed.

(* ------------------------------------------------------------------ what the pure loops compute *)
Lemma NoDup_app_intro {A} (a b : list A) :
  NoDup a -> NoDup b -> (forall z, In z a -> ~ In z b) -> NoDup (a ++ b).
Proof.
  induction a as [|h t IH]; intros Ha Hb Hd; [exact Hb|].
  inversion Ha as [|h' t' Hn Ht]; subst. cbn [app]. constructor.
  - intros Hin. apply in_app_or in Hin. destruct Hin as [Hin|Hin]; [contradiction|].
    apply (Hd h); [left; reflexivity|exact Hin].
  - apply IH; auto. intros z Hz. apply Hd. right; exact Hz.
Qed.

Lemma SSorted_snoc l x :
  StronglySorted lt l -> (forall d, In d l -> d < x) -> StronglySorted lt (l ++ [x]).
Proof.
  induction l as [|h t IH]; intros Hs Hlt; cbn [app].
  - constructor; constructor.
  - inversion Hs as [|h' t' Hs' Hfa]; subst. constructor.
    + apply IH; [exact Hs'|]. intros d Hd. apply Hlt. right; exact Hd.
    + apply Forall_app. split; [exact Hfa|]. constructor; [|constructor]. apply Hlt. left; reflexivity.
Qed.

Lemma mark_fold_spec ys : forall mk row, (forall y, In y ys -> y < length mk) ->
  exists mk' added,
    mark_fold ys mk row = (mk', row ++ added) /\
    (forall z, nth z mk' false = true <-> nth z mk false = true \/ In z ys) /\
    (forall z, In z added <-> In z ys /\ nth z mk false = false) /\
    NoDup added.
Proof.
  induction ys as [|y ys IH]; intros mk row Hys.
  - exists mk, []. unfold mark_fold. cbn [fold_left]. rewrite app_nil_r.
    split; [reflexivity|]. split; [|split].
    + intros z. cbn [In]. tauto.
    + intros z. cbn [In]. tauto.
    + constructor.
  - assert (Hy : y < length mk) by (apply Hys; left; reflexivity).
    unfold mark_fold. cbn [fold_left]. unfold mark_step at 2. cbn [fst snd].
    destruct (nth y mk false) eqn:Emy.
    + destruct (IH mk row) as (mk' & added & E & HM & HA & HN).
      { intros z Hz; apply Hys; right; exact Hz. }
      exists mk', added. split; [exact E|]. split; [|split].
      * intros z. rewrite HM. cbn [In]. split; [tauto|].
        intros [H|[H|H]]; auto. subst z. left; exact Emy.
      * intros z. rewrite HA. cbn [In]. split; [tauto|].
        intros [[H|H] H']; auto. subst z. congruence.
      * exact HN.
    + destruct (IH (upd mk y true) (row ++ [y])) as (mk' & added & E & HM & HA & HN).
      { intros z Hz. rewrite upd_length. apply Hys; right; exact Hz. }
      assert (Hupd : forall z, nth z (upd mk y true) false = true <-> z = y \/ nth z mk false = true).
      { intros z. rewrite nth_upd. destruct (Nat.eqb_spec y z) as [->|Hne].
        - destruct (Nat.ltb_spec z (length mk)); [|lia]. cbn [andb]. tauto.
        - cbn [andb]. split; [tauto|]. intros [H|H]; [congruence|exact H]. }
      exists mk', (y :: added). split; [|split; [|split]].
      * fold (mark_fold ys (upd mk y true) (row ++ [y])). rewrite E. rewrite <- app_assoc. reflexivity.
      * intros z. rewrite HM, Hupd. cbn [In]. split.
        -- intros [[H|H]|H]; auto.
        -- intros [H|[H|H]]; auto.
      * intros z. cbn [In]. rewrite HA. split.
        -- intros [H|[H H']].
           ++ subst z. auto.
           ++ split; [right; exact H|].
              destruct (nth z mk false) eqn:Ez; [|reflexivity].
              assert (Ht : nth z (upd mk y true) false = true) by (apply Hupd; right; exact Ez).
              congruence.
        -- intros [[H|H] H']; [left; exact H|].
           destruct (Nat.eq_dec y z) as [Heq|Hne]; [left; exact Heq|right].
           split; [exact H|].
           destruct (nth z (upd mk y true) false) eqn:Ez; [|reflexivity].
           apply Hupd in Ez. destruct Ez as [Ez|Ez]; [congruence|congruence].
      * constructor; [|exact HN]. intros Hin. apply HA in Hin. destruct Hin as [_ Hin].
        assert (Ht : nth y (upd mk y true) false = true) by (apply Hupd; left; reflexivity).
        congruence.
Qed.

Lemma unmark_all_false ys : forall mk,
  (forall z, nth z mk false = true -> In z ys) -> forall z, nth z (unmark ys mk) false = false.
Proof.
  induction ys as [|y ys IH]; intros mk H z.
  - cbn [unmark fold_left]. destruct (nth z mk false) eqn:E; [|reflexivity]. destruct (H z E).
  - unfold unmark. cbn [fold_left]. apply (IH (upd mk y false)).
    intros w Hw. rewrite nth_upd in Hw.
    destruct (Nat.eqb_spec y w) as [->|Hne].
    + destruct (Nat.ltb_spec w (length mk)) as [Hl|Hl]; cbn [andb] in Hw; [discriminate|].
      rewrite nth_overflow in Hw by exact Hl. discriminate.
    + cbn [andb] in Hw. destruct (H w Hw) as [Heq|Hin]; [contradiction|exact Hin].
Qed.

(* ------------------------------------------------------------------ the invariant of one row *)
(* final content of row i of tred (rt) and tclos (rc) *)
Definition RowOK (G : list (list nat)) (i : nat) (rt rc : list nat) : Prop :=
  (forall j, In j rc <-> al_plus G i j) /\ NoDup rc /\
  (forall j, In j rt <-> al_step G i j /\ ~ al_implied G i j) /\ NoDup rt /\
  StronglySorted lt rt.

Section Row.
Variable G : list (list nat).
Hypothesis HG : DagAL G.
Variable TC : list (list nat).

(* after the prefix [done] of row i of G *)
Definition Inv (done : list nat) (mk : list bool) (rt rc : list nat) : Prop :=
  (forall y, nth y mk false = true <-> exists x, In x done /\ al_plus G x y) /\
  (forall y, In y rc <-> In y done \/ nth y mk false = true) /\
  (forall y, In y rt <-> In y done /\ nth y mk false = false) /\
  NoDup rc /\ NoDup rt /\ StronglySorted lt rt.

Lemma Inv_skip done mk rt rc x :
  Inv done mk rt rc -> nth x mk false = true -> Inv (done ++ [x]) mk rt rc.
Proof.
  intros (HM & HC & HT & HNc & HNt & HSt) Emx. split; [|split; [|split; [|split; [|split]]]]; auto.
  - intros y. rewrite HM. split.
    + intros (x' & Hin & Hp). exists x'. split; [apply in_or_app; left; exact Hin|exact Hp].
    + intros (x' & Hin & Hp). apply in_app_or in Hin. destruct Hin as [Hin|[<-|[]]].
      * exists x'. auto.
      * apply HM in Emx. destruct Emx as (x0 & H0 & Hp0).
        exists x0. split; [exact H0|]. eapply al_plus_trans; eassumption.
  - intros y. rewrite HC. rewrite in_app_iff. cbn [In]. split; [tauto|].
    intros [[H|[<-|[]]]|H]; auto.
  - intros y. rewrite HT. rewrite in_app_iff. cbn [In]. split; [tauto|].
    intros [[H|[<-|[]]] H']; auto. congruence.
Qed.

Lemma Inv_take done mk rt rc x mk' added :
  Inv done mk rt rc -> nth x mk false = false ->
  (forall d, In d done -> d < x) ->
  (forall y, In y (nth x TC []) <-> al_plus G x y) ->
  (forall z, nth z mk' false = true <-> nth z mk false = true \/ In z (nth x TC [])) ->
  (forall z, In z added <-> In z (nth x TC []) /\ nth z mk false = false) ->
  NoDup added ->
  Inv (done ++ [x]) mk' (rt ++ [x]) ((rc ++ [x]) ++ added).
Proof.
  intros (HM & HC & HT & HNc & HNt & HSt) Emx Hlt HTC HM' HA HNa.
  assert (Hxx : ~ In x (nth x TC [])).
  { intros H. apply HTC in H. exact (al_plus_irrefl G x HG H). }
  assert (Hxd : ~ In x done) by (intros H; apply Hlt in H; lia).
  assert (Hback : forall y, In y done -> ~ In y (nth x TC [])).
  { intros y Hy H. apply HTC in H. apply (al_plus_fwd G x y HG) in H. apply Hlt in Hy. lia. }
  split; [|split; [|split; [|split; [|split]]]].
  - intros y. rewrite HM'. split.
    + intros [H|H].
      * apply HM in H. destruct H as (x' & Hin & Hp). exists x'. split; [apply in_or_app; left; exact Hin|exact Hp].
      * exists x. split; [apply in_or_app; right; left; reflexivity|apply HTC; exact H].
    + intros (x' & Hin & Hp). apply in_app_or in Hin. destruct Hin as [Hin|[<-|[]]].
      * left. apply HM. exists x'. auto.
      * right. apply HTC; exact Hp.
  - intros y. rewrite !in_app_iff. cbn [In]. rewrite HC, HA, HM'. split.
    + intros [[[H|H]|[H|[]]]|[H H']]; auto.
    + intros [[H|[H|[]]]|[H|H]]; auto.
      destruct (nth y mk false) eqn:Ey; auto.
  - intros y. rewrite !in_app_iff. cbn [In]. rewrite HT. split.
    + intros [[H H']|[<-|[]]].
      * split; [left; exact H|].
        destruct (nth y mk' false) eqn:Ey; [|reflexivity].
        apply HM' in Ey. destruct Ey as [Ey|Ey]; [congruence|]. destruct (Hback y H Ey).
      * split; [right; left; reflexivity|].
        destruct (nth x mk' false) eqn:Ex; [|reflexivity].
        apply HM' in Ex. destruct Ex as [Ex|Ex]; [congruence|contradiction].
    + intros [[H|[<-|[]]] H']; auto. left. split; [exact H|].
      destruct (nth y mk false) eqn:Ey; [|reflexivity].
      assert (Ht : nth y mk' false = true) by (apply HM'; left; exact Ey). congruence.
  - apply NoDup_app_intro.
    + apply NoDup_app_intro; [exact HNc|constructor; [intros []|constructor]|].
      intros z Hz [<-|[]]. apply HC in Hz. destruct Hz as [Hz|Hz]; [contradiction|congruence].
    + exact HNa.
    + intros z Hz Hza. apply HA in Hza. destruct Hza as [Hz1 Hz2].
      apply in_app_or in Hz. destruct Hz as [Hz|[<-|[]]].
      * apply HC in Hz. destruct Hz as [Hz|Hz]; [exact (Hback z Hz Hz1)|congruence].
      * contradiction.
  - apply NoDup_app_intro; [exact HNt|constructor; [intros []|constructor]|].
    intros z Hz [<-|[]]. apply HT in Hz. destruct Hz as [Hz _]. contradiction.
  - apply SSorted_snoc; [exact HSt|]. intros d Hd. apply HT in Hd. apply Hlt. apply Hd.
Qed.

Lemma nb_pure_inv xs : forall done mk rt rc,
  length mk = length G ->
  StronglySorted lt xs -> (forall d x, In d done -> In x xs -> d < x) ->
  (forall x, In x xs -> forall y, In y (nth x TC []) <-> al_plus G x y) ->
  Inv done mk rt rc ->
  length (fst (fst (nb_pure TC xs mk rt rc))) = length G /\
  Inv (done ++ xs) (fst (fst (nb_pure TC xs mk rt rc))) (snd (fst (nb_pure TC xs mk rt rc)))
      (snd (nb_pure TC xs mk rt rc)).
Proof.
  induction xs as [|x xs IH]; intros done mk rt rc Hl Hs Hlt HTC HI.
  - cbn [nb_pure fst snd]. rewrite app_nil_r. auto.
  - inversion Hs as [|x' xs' Hs' Hfa]; subst.
    assert (Hlt' : forall d x0, In d (done ++ [x]) -> In x0 xs -> d < x0).
    { intros d x0 Hd H0. apply in_app_or in Hd. destruct Hd as [Hd|[<-|[]]].
      - apply Hlt; [exact Hd|right; exact H0].
      - rewrite Forall_forall in Hfa. apply Hfa; exact H0. }
    assert (HTC' : forall x0, In x0 xs -> forall y, In y (nth x0 TC []) <-> al_plus G x0 y)
      by (intros x0 H0; apply HTC; right; exact H0).
    replace (done ++ x :: xs) with ((done ++ [x]) ++ xs) by (rewrite <- app_assoc; reflexivity).
    cbn [nb_pure]. destruct (nth x mk false) eqn:Emx.
    + apply IH; auto. apply Inv_skip; assumption.
    + destruct (mark_fold_spec (nth x TC []) mk (rc ++ [x])) as (mk' & added & E & HM' & HA & HNa).
      { intros y Hy. apply (HTC x (or_introl eq_refl)) in Hy.
        apply (al_plus_fwd G x y HG) in Hy. lia. }
      assert (Hl' : length mk' = length G).
      { rewrite <- Hl. rewrite <- (mark_fold_length (nth x TC []) mk (rc ++ [x])). rewrite E. reflexivity. }
      rewrite E. cbn [fst snd].
      apply IH; auto.
      apply Inv_take with (mk := mk); auto.
      * intros d Hd. apply Hlt; [exact Hd|left; reflexivity].
      * apply HTC. left; reflexivity.
Qed.

Lemma Inv_final i mk rt rc : Inv (nth i G []) mk rt rc -> RowOK G i rt rc.
Proof.
  intros (HM & HC & HT & HNc & HNt & HSt). split; [|split; [|split; [|split]]]; auto.
  - intros j. rewrite HC, HM, al_plus_first. unfold al_step. tauto.
  - intros j. rewrite HT. fold (al_step G i j). unfold al_implied.
    rewrite <- Bool.not_true_iff_false. rewrite HM. split.
    + intros [Hs Hn]. split; [exact Hs|]. intros (k & H1 & H2). apply Hn.
      apply al_plus_first in H1. destruct H1 as [H1|(x & H1 & H1')].
      * exists k. auto.
      * exists x. split; [exact H1|]. eapply al_plus_trans; eassumption.
    + intros [Hs Hn]. split; [exact Hs|]. intros (x & H1 & H2). apply Hn.
      exists x. split; [apply alp_one; exact H1|exact H2].
Qed.
End Row.

(* ------------------------------------------------------------------ the sweep *)
(* before node m-1 is processed: rows >= m are final, rows < m are still empty, no mark is set *)
Definition SInv (G : list (list nat)) (m : nat) (mark : list bool) (tred tclos : list (list nat)) : Prop :=
  length mark = length G /\ length tred = length G /\ length tclos = length G /\
  (forall z, nth z mark false = false) /\
  (forall i, i < m -> nth i tred [] = [] /\ nth i tclos [] = []) /\
  (forall i, m <= i < length G -> RowOK G i (nth i tred []) (nth i tclos [])).

Lemma Inv_nil G mark : (forall z, nth z mark false = false) -> Inv G [] mark [] [].
Proof.
  intros Hf. split; [|split; [|split; [|split; [|split]]]]; try constructor.
  - rewrite Hf. discriminate.
  - intros (x & [] & _).
  - intros [].
  - intros [[]|H]. rewrite Hf in H. discriminate.
  - intros [].
  - intros [[] _].
Qed.

Lemma sweep_step G m rest mark tred tclos :
  DagAL G -> m < length G -> SInv G (S m) mark tred tclos ->
  exists mark' tred' tclos',
    tred_sweep (m :: rest) G mark tred tclos = tred_sweep rest G mark' tred' tclos' /\
    SInv G m mark' tred' tclos'.
Proof.
  intros HG Hm (Hlm & Hlt & Hlc & Hf & Hemp & Hrows).
  assert (Exs : nth_error G m = Some (nth m G [])) by (apply nth_error_nth'; exact Hm).
  destruct (HG m _ Exs) as [Hsort Hfwd].
  destruct (Hemp m (Nat.lt_succ_diag_r m)) as [Et Ec].
  assert (HTC : forall x, In x (nth m G []) -> forall y, In y (nth x tclos []) <-> al_plus G x y).
  { intros x Hx. apply Hfwd in Hx. destruct (Hrows x) as (H & _); [lia|exact H]. }
  destruct (nb_pure_inv G HG tclos (nth m G []) [] mark [] []) as [Hl' HI]; auto.
  { intros d x []. }
  { apply Inv_nil; exact Hf. }
  cbn [app] in HI.
  pose proof (Inv_final G m _ _ _ HI) as Hrow.
  cbn [tred_sweep]. rewrite (getp_nth G m []) by exact Hm. cbn [rbind].
  rewrite (nb_refine m tclos (length G)); auto.
  2:{ intros x Hx. pose proof (Hfwd x Hx) as Hb. split; [lia|]. split; [lia|]. split; [reflexivity|].
      intros y Hy. apply (HTC x Hx) in Hy. apply (al_plus_fwd G x y HG) in Hy. lia. }
  rewrite Et, Ec. cbn [rbind].
  set (r := nb_pure tclos (nth m G []) mark [] []) in *.
  rewrite (getp_nth _ m []) by (rewrite upd_length; lia).
  rewrite nth_upd_same by lia. cbn [rbind].
  destruct Hrow as (HRc & HNc & HRt & HNt & HSt).
  rewrite unmark_refine.
  2:{ intros y Hy. apply HRc in Hy. apply (al_plus_fwd G m y HG) in Hy. lia. }
  cbn [rbind].
  exists (unmark (snd r) (fst (fst r))), (upd tred m (snd (fst r))), (upd tclos m (snd r)).
  split; [reflexivity|].
  split; [|split; [|split; [|split; [|split]]]].
  - rewrite unmark_length. exact Hl'.
  - rewrite upd_length. exact Hlt.
  - rewrite upd_length. exact Hlc.
  - apply unmark_all_false. intros z Hz. destruct HI as (_ & HC & _). apply HC. right; exact Hz.
  - intros i Hi. rewrite !nth_upd_other by lia. apply Hemp. lia.
  - intros i Hi. destruct (Nat.eq_dec i m) as [->|Hne].
    + rewrite !nth_upd_same by lia. split; [exact HRc|split; [exact HNc|split; [exact HRt|split; [exact HNt|exact HSt]]]].
    + rewrite !nth_upd_other by lia. apply Hrows. lia.
Qed.

Lemma sweep_correct G : DagAL G -> forall m mark tred tclos,
  m <= length G -> SInv G m mark tred tclos ->
  exists tred' tclos',
    tred_sweep (rev (seq 0 m)) G mark tred tclos = Ok (tred', tclos') /\
    length tred' = length G /\ length tclos' = length G /\
    forall i, i < length G -> RowOK G i (nth i tred' []) (nth i tclos' []).
Proof.
  intros HG. induction m as [|m IH]; intros mark tred tclos Hm HS.
  - cbn [seq rev tred_sweep]. exists tred, tclos.
    destruct HS as (_ & Hlt & Hlc & _ & _ & Hrows).
    split; [reflexivity|]. split; [exact Hlt|]. split; [exact Hlc|].
    intros i Hi. apply Hrows; lia.
  - rewrite seq_S, rev_app_distr. cbn [rev app Nat.add].
    destruct (sweep_step G m (rev (seq 0 m)) mark tred tclos HG) as (mark' & tred' & tclos' & E & HS'); auto.
    rewrite E. apply IH; [lia|exact HS'].
Qed.

Lemma nth_repeat_def {A} (a : A) n i : nth i (repeat a n) a = a.
Proof. revert i; induction n as [|n IH]; intros [|i]; cbn [repeat nth]; auto. Qed.

Lemma RowOK_oob G i : length G <= i -> RowOK G i [] [].
Proof.
  intros Hi.
  assert (Hs : forall j, ~ al_step G i j).
  { intros j H. unfold al_step in H. rewrite nth_overflow in H by exact Hi. destruct H. }
  assert (Hp : forall j, ~ al_plus G i j).
  { intros j H. inversion H; subst; eapply Hs; eassumption. }
  split; [|split; [|split; [|split]]]; try constructor.
  - intros [].
  - intros H; destruct (Hp j H).
  - intros [].
  - intros [H _]; destruct (Hs j H).
Qed.

(* ------------------------------------------------------------------ main theorem *)
Theorem tred_closure_correct G : DagAL G ->
  exists tred tclos,
    dag_transitive_reduction_closure G = Ok (tred, tclos) /\
    length tred = length G /\ length tclos = length G /\
    forall i,
      (forall j, In j (nth i tclos []) <-> al_plus G i j) /\
      NoDup (nth i tclos []) /\
      (forall j, In j (nth i tred []) <->
                 al_step G i j /\ ~ exists k, al_plus G i k /\ al_plus G k j) /\
      NoDup (nth i tred []) /\
      StronglySorted lt (nth i tred []).
Proof.
  intros HG. unfold dag_transitive_reduction_closure.
  destruct (sweep_correct G HG (length G) (repeat false (length G)) (repeat [] (length G))
              (repeat [] (length G)) (le_n _)) as (tred & tclos & E & Hlt & Hlc & Hrows).
  { split; [|split; [|split; [|split; [|split]]]]; try apply repeat_length.
    - intros z. apply nth_repeat_def.
    - intros i _. split; apply nth_repeat_def.
    - intros i Hi. lia. }
  exists tred, tclos. split; [exact E|]. split; [exact Hlt|]. split; [exact Hlc|].
  intros i. destruct (Nat.lt_ge_cases i (length G)) as [Hi|Hi].
  - exact (Hrows i Hi).
  - rewrite !nth_overflow by lia. exact (RowOK_oob G i Hi).
Qed.

(* ------------------------------------------------------------------ corollaries *)
(* the result of a successful run is the one described by tred_closure_correct *)
Lemma tred_run_spec G tred tclos : DagAL G ->
  dag_transitive_reduction_closure G = Ok (tred, tclos) ->
  length tred = length G /\ length tclos = length G /\
  (forall i j, al_step tclos i j <-> al_plus G i j) /\
  (forall i j, al_step tred i j <-> al_step G i j /\ ~ al_implied G i j) /\
  (forall i, StronglySorted lt (nth i tred [])).
Proof.
  intros HG E. destruct (tred_closure_correct G HG) as (tred' & tclos' & E' & Hlt & Hlc & Hrows).
  rewrite E in E'. injection E' as <- <-.
  split; [exact Hlt|]. split; [exact Hlc|]. split; [|split].
  - intros i j. apply (Hrows i).
  - intros i j. apply (Hrows i).
  - intros i. apply (Hrows i).
Qed.

(* tred is a subgraph of G *)
Lemma tred_sub G tred tclos : DagAL G ->
  dag_transitive_reduction_closure G = Ok (tred, tclos) -> al_sub tred G.
Proof.
  intros HG E i j H. destruct (tred_run_spec G tred tclos HG E) as (_ & _ & _ & Ht & _).
  apply Ht in H. apply H.
Qed.

Lemma al_implied_dec G tclos i j :
  (forall a b, al_step tclos a b <-> al_plus G a b) -> {al_implied G i j} + {~ al_implied G i j}.
Proof.
  intros Hc.
  destruct (Exists_dec (fun k => In j (nth k tclos [])) (nth i tclos [])
              (fun k => in_dec Nat.eq_dec j (nth k tclos []))) as [H|H].
  - left. apply Exists_exists in H. destruct H as (k & H1 & H2).
    exists k. split; apply Hc; assumption.
  - right. intros (k & H1 & H2). apply H. apply Exists_exists.
    exists k. split; apply Hc; assumption.
Qed.

(* the reduction has the same reachability relation as G *)
Theorem tred_same_closure G tred tclos : DagAL G ->
  dag_transitive_reduction_closure G = Ok (tred, tclos) ->
  forall i j, al_plus tred i j <-> al_plus G i j.
Proof.
  intros HG E. destruct (tred_run_spec G tred tclos HG E) as (_ & _ & Hc & Ht & _).
  intros i j. split.
  - apply al_plus_mono. exact (tred_sub G tred tclos HG E).
  - assert (Hd : forall d a b, b - a <= d -> al_plus G a b -> al_plus tred a b).
    { induction d as [|d IH]; intros a b Hab Hp.
      - apply (al_plus_fwd G a b HG) in Hp. lia.
      - destruct (al_implied_dec G tclos a b Hc) as [(k & H1 & H2)|Hn].
        + pose proof (al_plus_fwd G a k HG H1). pose proof (al_plus_fwd G k b HG H2).
          apply al_plus_trans with k; apply IH; auto; lia.
        + apply al_plus_first in Hp. destruct Hp as [Hp|(k & H1 & H2)].
          * apply alp_one. apply Ht. split; assumption.
          * destruct Hn. exists k. split; [apply alp_one; exact H1|exact H2]. }
    apply (Hd (j - i)). lia.
Qed.

(* the closure table is transitively closed, and it is the closure of G, of tred and of itself *)
Lemma tclos_transitive G tred tclos : DagAL G ->
  dag_transitive_reduction_closure G = Ok (tred, tclos) ->
  forall i j, (al_plus tclos i j <-> In j (nth i tclos [])) /\
              (In j (nth i tclos []) <-> al_plus G i j) /\
              (al_plus G i j <-> al_plus tred i j).
Proof.
  intros HG E. destruct (tred_run_spec G tred tclos HG E) as (_ & _ & Hc & _ & _).
  intros i j. split; [|split].
  - fold (al_step tclos i j). split; [|apply alp_one].
    intros H. apply Hc. induction H as [a b H|a k b H _ IH].
    + apply Hc; exact H.
    + apply al_plus_trans with k; [apply Hc; exact H|exact IH].
  - apply Hc.
  - symmetry. apply (tred_same_closure G tred tclos HG E).
Qed.

(* every graph with the same reachability as G contains every edge of tred
   (neither "H is a subgraph of G" nor "same length" is needed) *)
Lemma tred_in_every_generator G tred tclos H : DagAL G ->
  dag_transitive_reduction_closure G = Ok (tred, tclos) ->
  al_same_closure H G -> al_sub tred H.
Proof.
  intros HG E Hsame i j Hij. destruct (tred_run_spec G tred tclos HG E) as (_ & _ & _ & Ht & _).
  apply Ht in Hij. destruct Hij as [Hs Hn].
  assert (Hp : al_plus H i j) by (apply Hsame; apply alp_one; exact Hs).
  apply al_plus_first in Hp. destruct Hp as [Hp|(k & H1 & H2)]; [exact Hp|].
  destruct Hn. exists k. split; apply Hsame; [apply alp_one; exact H1|exact H2].
Qed.

(* tred is the least subgraph of G with the same closure: it is one (tred_sub, tred_same_closure),
   and it is contained in every other one *)
Theorem tred_minimal_unique G tred tclos : DagAL G ->
  dag_transitive_reduction_closure G = Ok (tred, tclos) ->
  (al_sub tred G /\ al_same_closure tred G) /\
  forall H, length H = length G -> al_sub H G -> al_same_closure H G -> al_sub tred H.
Proof.
  intros HG E. split.
  - split; [exact (tred_sub G tred tclos HG E)|exact (tred_same_closure G tred tclos HG E)].
  - intros H _ _ Hsame. exact (tred_in_every_generator G tred tclos H HG E Hsame).
Qed.

(* hence a minimal subgraph of G with the same closure has exactly the edges of tred *)
Corollary tred_unique G tred tclos H : DagAL G ->
  dag_transitive_reduction_closure G = Ok (tred, tclos) ->
  al_sub H G -> al_same_closure H G ->
  (forall H', al_sub H' H -> al_same_closure H' G -> al_sub H H') ->
  forall i j, al_step H i j <-> al_step tred i j.
Proof.
  intros HG E Hsub Hsame Hmin i j.
  pose proof (tred_in_every_generator G tred tclos H HG E Hsame) as Hin.
  split; [|apply Hin].
  apply (Hmin tred Hin). exact (tred_same_closure G tred tclos HG E).
Qed.

(* tred is again a topologically numbered DAG adjacency list *)
Lemma tred_DagAL G tred tclos : DagAL G ->
  dag_transitive_reduction_closure G = Ok (tred, tclos) -> DagAL tred.
Proof.
  intros HG E. destruct (tred_run_spec G tred tclos HG E) as (Hl & _ & _ & Ht & Hs).
  intros i row Hrow.
  assert (Er : nth i tred [] = row) by (apply nth_error_nth; exact Hrow). split.
  - rewrite <- Er. apply Hs.
  - intros j Hj. rewrite Hl. apply (al_step_fwd G i j HG).
    apply (tred_sub G tred tclos HG E). unfold al_step. rewrite Er. exact Hj.
Qed.

(* ------------------------------------------------------------------ an example *)
(* 0 -> 3 is implied by 0 -> 1 -> 3 (and 0 -> 2 -> 3) and is dropped *)
Example tred_example :
  dag_transitive_reduction_closure [[1;2;3];[3];[3;4];[5];[5];[]] =
  Ok ([[1;2];[3];[3;4];[5];[5];[]],
      [[1;3;5;2;4];[3;5];[3;5;4];[5];[5];[]]).
Proof. vm_compute; reflexivity. Qed.

Print Assumptions tred_closure_correct.
Print Assumptions tred_same_closure.
Print Assumptions tred_minimal_unique.
