(* Proofs about the Graph model (intrusive adjacency lists): the structural invariant,
   explicit adjacency lists, and the add_node / add_edge theorems (T1). *)
From PG Require Import Lib.ListArr Lib.Walk Model.GraphM.
Set Implicit Arguments.

Section GraphP.
  Context {NW EW : Type}.
  Variable cap : nat.

  Notation node := (node NW).
  Notation edge := (edge EW).
  Notation graph := (graph NW EW).

  (* ------------------------------------------------------------------ *)
  (* Views of the two vectors                                            *)

  (* successor of edge slot h along direction k (0 = outgoing list, 1 = incoming list) *)
  Definition nxe (es : list edge) (k h : nat) : option nat :=
    option_map (fun ed => sel (enext ed) k) (nth_error es h).
  (* endpoint k of edge x (0 = source, 1 = target) *)
  Definition epo (es : list edge) (k x : nat) : option nat :=
    option_map (fun ed => sel (enode ed) k) (nth_error es x).

  (* [adj g k i l]: node i exists and its direction-k list, read through the links, is l
     and ends with the sentinel [cap]. *)
  Definition adj (g : graph) (k i : nat) (l : list nat) : Prop :=
    exists n, nth_error (gnodes g) i = Some n /\
              lseg (nxe (gedges g) k) (sel (nnext n) k) l cap.

  Definition outs (g : graph) := adj g 0.
  Definition ins (g : graph) := adj g 1.

  Record GInv (g : graph) : Prop := {
    gi_ncap : length (gnodes g) <= cap;
    gi_ecap : length (gedges g) <= cap;
    gi_ends : forall x ed, nth_error (gedges g) x = Some ed ->
                fst (enode ed) < length (gnodes g) /\ snd (enode ed) < length (gnodes g);
    gi_adj : forall k i, i < length (gnodes g) ->
                exists l, adj g k i l /\ forall x, In x l <-> epo (gedges g) k x = Some i
  }.

  (* ------------------------------------------------------------------ *)
  (* Elementary facts                                                    *)

  Lemma sel_SS (p : nat * nat) k : sel p (S k) = snd p.
  Proof. reflexivity. Qed.

  Lemma nxe_Some es k h y : nxe es k h = Some y -> h < length es.
  Proof.
    unfold nxe. destruct (nth_error es h) eqn:E; simpl; [|discriminate].
    intros _. eapply nth_error_Some_lt; eauto.
  Qed.

  Lemma nxe_oob es k h : length es <= h -> nxe es k h = None.
  Proof. intros H. unfold nxe. rewrite (proj2 (nth_error_None es h)); auto. Qed.

  Lemma epo_Some es k x i : epo es k x = Some i -> x < length es.
  Proof.
    unfold epo. destruct (nth_error es x) eqn:E; simpl; [|discriminate].
    intros _. eapply nth_error_Some_lt; eauto.
  Qed.

  Lemma epo_oob es k x : length es <= x -> epo es k x = None.
  Proof. intros H. unfold epo. rewrite (proj2 (nth_error_None es x)); auto. Qed.

  Lemma epo_nth es k x ed : nth_error es x = Some ed -> epo es k x = Some (sel (enode ed) k).
  Proof. intros H. unfold epo. rewrite H. reflexivity. Qed.

  Lemma nxe_nth es k x ed : nth_error es x = Some ed -> nxe es k x = Some (sel (enext ed) k).
  Proof. intros H. unfold nxe. rewrite H. reflexivity. Qed.

  Lemma lseg_nxe_lt es k h l t x : lseg (nxe es k) h l t -> In x l -> x < length es.
  Proof.
    intros H Hin. destruct (lseg_in_some x H Hin) as [y Hy]. eapply nxe_Some; eauto.
  Qed.

  Lemma lseg_nxe_length es k h l t :
    nxe es k t = None -> lseg (nxe es k) h l t -> length l <= length es.
  Proof.
    intros Ht H. apply NoDup_bounded_length.
    - eapply lseg_NoDup; eauto.
    - intros x Hx. eapply lseg_nxe_lt; eauto.
  Qed.

  Lemma adj_det g k i l1 l2 :
    length (gedges g) <= cap -> adj g k i l1 -> adj g k i l2 -> l1 = l2.
  Proof.
    intros Hc [n1 [Hn1 H1]] [n2 [Hn2 H2]].
    assert (n2 = n1) by congruence. subst n2.
    eapply lseg_det; eauto. apply nxe_oob; auto.
  Qed.

  (* the same list through the recommended predicate: the walk falls off after l *)
  Lemma adj_chainP g k i l :
    length (gedges g) <= cap -> adj g k i l ->
    exists n, nth_error (gnodes g) i = Some n /\ chainP (nxe (gedges g) k) (sel (nnext n) k) l.
  Proof.
    intros Hc [n [Hn H]]. exists n. split; auto. apply chainP_lseg.
    exists cap. split; auto. apply nxe_oob; auto.
  Qed.

  Lemma adj_NoDup g k i l : length (gedges g) <= cap -> adj g k i l -> NoDup l.
  Proof.
    intros Hc [n [Hn H]]. eapply lseg_NoDup; eauto. apply nxe_oob; auto.
  Qed.

  Lemma adj_lt g k i l : adj g k i l -> i < length (gnodes g).
  Proof. intros [n [Hn _]]. eapply nth_error_Some_lt; eauto. Qed.

  Lemma adj_in_lt g k i l x : adj g k i l -> In x l -> x < length (gedges g).
  Proof. intros [n [Hn H]] Hin. eapply lseg_nxe_lt; eauto. Qed.

  Lemma adj_length g k i l : length (gedges g) <= cap -> adj g k i l -> length l <= length (gedges g).
  Proof.
    intros Hc [n [Hn H]]. eapply lseg_nxe_length; eauto. apply nxe_oob; auto.
  Qed.

  (* direction indices above 1 behave as 1 *)
  Lemma adj_SS g k i l : adj g (S k) i l <-> adj g 1 i l.
  Proof. split; intros H; exact H. Qed.

  (* Under the invariant the list of a node is unique and characterised by the endpoints. *)
  Lemma GInv_adj_in g k i l x :
    GInv g -> adj g k i l -> (In x l <-> epo (gedges g) k x = Some i).
  Proof.
    intros I H.
    destruct (gi_adj I k (adj_lt H)) as [l0 [H0 C0]].
    rewrite (adj_det (gi_ecap I) H H0). apply C0.
  Qed.

  Lemma GInv_adj_ex g k i : GInv g -> i < length (gnodes g) -> exists l, adj g k i l.
  Proof. intros I Hi. destruct (gi_adj I k Hi) as [l [H _]]. eauto. Qed.

  Lemma GInv_adj_disjoint g k i j li lj x :
    GInv g -> adj g k i li -> adj g k j lj -> In x li -> In x lj -> i = j.
  Proof.
    intros I Hi Hj Xi Xj.
    apply (GInv_adj_in x I Hi) in Xi. apply (GInv_adj_in x I Hj) in Xj. congruence.
  Qed.

  (* every edge sits in the out-list of its source and in the in-list of its target *)
  Lemma GInv_edge_in g k x ed :
    GInv g -> nth_error (gedges g) x = Some ed ->
    exists l, adj g k (sel (enode ed) k) l /\ In x l.
  Proof.
    intros I Hx.
    assert (Hb : sel (enode ed) k < length (gnodes g)).
    { destruct (gi_ends I _ Hx) as [H0 H1]. destruct k; simpl; auto. }
    destruct (gi_adj I k Hb) as [l [Hl C]].
    exists l; split; auto. apply C. apply epo_nth; auto.
  Qed.

  (* ------------------------------------------------------------------ *)
  (* T1: the empty graph, add_node, add_edge                             *)

  Lemma GInv_empty : GInv g_empty.
  Proof.
    constructor.
    - simpl; lia.
    - simpl; lia.
    - intros x ed H. destruct x; discriminate.
    - intros k i H. simpl in H. lia.
  Qed.

  Section AddNode.
    Variable capcheck : bool.
    Variables (g : graph) (w : NW).

    Lemma try_add_node_limit :
      capcheck = true -> length (gnodes g) = cap ->
      try_add_node cap capcheck g w = (inl NodeIxLimit, g).
    Proof.
      intros -> E. unfold try_add_node. rewrite E, Nat.eqb_refl. reflexivity.
    Qed.

    Lemma try_add_node_ok :
      capcheck = false \/ length (gnodes g) <> cap ->
      try_add_node cap capcheck g w =
        (inr (length (gnodes g)), mkGraph (gnodes g ++ [mkNode w (cap, cap)]) (gedges g)).
    Proof.
      intros H. unfold try_add_node.
      destruct capcheck; simpl.
      - destruct H as [H|H]; [discriminate|].
        destruct (Nat.eqb_spec (length (gnodes g)) cap); [contradiction|reflexivity].
      - reflexivity.
    Qed.

    Let g' := mkGraph (gnodes g ++ [mkNode w (cap, cap)]) (gedges g).

    Lemma add_node_adj_old k i l : adj g k i l -> adj g' k i l.
    Proof.
      intros [n [Hn H]]. exists n; split; auto. simpl.
      rewrite nth_error_app1; auto. eapply nth_error_Some_lt; eauto.
    Qed.

    Lemma add_node_adj_new k : adj g' k (length (gnodes g)) [].
    Proof.
      exists (mkNode w (cap, cap)); split.
      - simpl. rewrite nth_error_app2 by lia. rewrite Nat.sub_diag. reflexivity.
      - destruct k; simpl; constructor.
    Qed.

    Lemma add_node_GInv : GInv g -> length (gnodes g) < cap -> GInv g'.
    Proof.
      intros I Hlt. constructor; simpl.
      - rewrite app_length; simpl. lia.
      - apply (gi_ecap I).
      - intros x ed Hx. rewrite app_length; simpl.
        destruct (gi_ends I _ Hx). lia.
      - intros k i. rewrite app_length; simpl. intros Hi.
        destruct (Nat.eq_dec i (length (gnodes g))) as [->|Hne].
        + exists []; split; [apply add_node_adj_new|].
          intros x; split; [intros []|].
          intros Hx. exfalso.
          unfold epo in Hx. destruct (nth_error (gedges g) x) as [ed|] eqn:E; [|discriminate].
          simpl in Hx. injection Hx as Hx.
          destruct (gi_ends I _ E). destruct k; simpl in Hx; lia.
        + destruct (gi_adj I k (i := i)) as [l [Hl C]]; [lia|].
          exists l; split; auto. apply add_node_adj_old; auto.
    Qed.
  End AddNode.

  Section AddEdge.
    Variable capcheck : bool.
    Variables (g : graph) (a b : nat) (w : EW).

    Lemma try_add_edge_limit :
      capcheck = true -> length (gedges g) = cap ->
      try_add_edge cap capcheck g a b w = (inl EdgeIxLimit, g).
    Proof.
      intros -> E. unfold try_add_edge. rewrite E, Nat.eqb_refl. reflexivity.
    Qed.

    Lemma try_add_edge_oob :
      capcheck = false \/ length (gedges g) <> cap ->
      length (gnodes g) <= a \/ length (gnodes g) <= b ->
      try_add_edge cap capcheck g a b w = (inl NodeOutBounds, g).
    Proof.
      intros H Hab. unfold try_add_edge.
      assert (E : andb capcheck (Nat.eqb (length (gedges g)) cap) = false).
      { destruct capcheck; simpl; auto. destruct H as [H|H]; [discriminate|].
        apply Nat.eqb_neq; auto. }
      rewrite E.
      destruct (Nat.leb_spec (length (gnodes g)) (Nat.max a b)) as [_|Hlt]; auto. lia.
    Qed.

    (* the state after a successful add_edge, described link by link *)
    Record add_edge_shape (g' : graph) : Prop := {
      ae_nlen : length (gnodes g') = length (gnodes g);
      ae_nodes : forall k j n, nth_error (gnodes g) j = Some n ->
         exists n', nth_error (gnodes g') j = Some n' /\ nwt n' = nwt n /\
            sel (nnext n') k = if Nat.eqb j (sel (a, b) k) then length (gedges g) else sel (nnext n) k;
      ae_edges : exists ed', gedges g' = gedges g ++ [ed'] /\ ewt ed' = w /\ enode ed' = (a, b) /\
         forall k nk, nth_error (gnodes g) (sel (a, b) k) = Some nk -> sel (enext ed') k = sel (nnext nk) k
    }.

    Lemma try_add_edge_ok :
      capcheck = false \/ length (gedges g) <> cap ->
      a < length (gnodes g) -> b < length (gnodes g) ->
      exists g', try_add_edge cap capcheck g a b w = (inr (length (gedges g)), g') /\
                 add_edge_shape g'.
    Proof.
      intros H Ha Hb. unfold try_add_edge.
      assert (E : andb capcheck (Nat.eqb (length (gedges g)) cap) = false).
      { destruct capcheck; simpl; auto. destruct H as [H|H]; [discriminate|].
        apply Nat.eqb_neq; auto. }
      rewrite E.
      destruct (Nat.leb_spec (length (gnodes g)) (Nat.max a b)) as [Hle|_]; [lia|].
      destruct (nth_error_lt_Some (gnodes g) Ha) as [an Han].
      destruct (nth_error_lt_Some (gnodes g) Hb) as [bn Hbn].
      rewrite Han, Hbn.
      destruct (Nat.eqb_spec a b) as [Eab|Nab].
      - assert (bn = an) by congruence. subst bn.
        eexists; split; [reflexivity|]. constructor; simpl.
        + apply upd_length.
        + rewrite <- Eab.
          intros k j n Hj. rewrite nth_error_upd.
          assert (Hs : sel (a, a) k = a) by (destruct k; reflexivity). rewrite Hs.
          destruct (Nat.eqb_spec a j) as [<-|Hne].
          * destruct (Nat.ltb_spec a (length (gnodes g))); [|lia].
            assert (n = an) by congruence. subst n.
            eexists; split; [reflexivity|]. split; [reflexivity|].
            rewrite Nat.eqb_refl. destruct k; reflexivity.
          * exists n; split; auto. split; auto.
            destruct (Nat.eqb_spec j a); [congruence|reflexivity].
        + eexists; split; [reflexivity|]. simpl. split; auto. split; auto.
          rewrite <- Eab.
          intros k nk. assert (Hs : sel (a, a) k = a) by (destruct k; reflexivity). rewrite Hs.
          intros Hk. assert (nk = an) by congruence. subst nk. reflexivity.
      - eexists; split; [reflexivity|]. constructor; simpl.
        + rewrite !upd_length. reflexivity.
        + intros k j n Hj. rewrite nth_error_upd, upd_length.
          destruct (Nat.eqb_spec b j) as [<-|Hnb].
          * destruct (Nat.ltb_spec b (length (gnodes g))); [|lia].
            assert (n = bn) by congruence. subst n.
            eexists; split; [reflexivity|]. split; [reflexivity|].
            destruct k; simpl.
            -- destruct (Nat.eqb_spec b a); [congruence|reflexivity].
            -- rewrite Nat.eqb_refl. reflexivity.
          * rewrite nth_error_upd.
            destruct (Nat.eqb_spec a j) as [<-|Hna].
            -- destruct (Nat.ltb_spec a (length (gnodes g))); [|lia].
               assert (n = an) by congruence. subst n.
               eexists; split; [reflexivity|]. split; [reflexivity|].
               destruct k; simpl.
               ++ rewrite Nat.eqb_refl. reflexivity.
               ++ destruct (Nat.eqb_spec a b); [congruence|reflexivity].
            -- exists n; split; auto. split; auto.
               destruct k; simpl.
               ++ destruct (Nat.eqb_spec j a); [congruence|reflexivity].
               ++ destruct (Nat.eqb_spec j b); [congruence|reflexivity].
        + eexists; split; [reflexivity|]. simpl. split; auto. split; auto.
          intros k nk Hk. destruct k; simpl in *.
          * assert (nk = an) by congruence. subst nk. reflexivity.
          * assert (nk = bn) by congruence. subst nk. reflexivity.
    Qed.

    Section Shape.
      Variable g' : graph.
      Hypothesis Sh : add_edge_shape g'.
      Let m := length (gedges g).

      Lemma ae_nth_old x : x < m -> nth_error (gedges g') x = nth_error (gedges g) x.
      Proof.
        intros Hx. destruct (ae_edges Sh) as [ed' [E _]]. rewrite E.
        apply nth_error_app1; auto.
      Qed.

      Lemma ae_elen : length (gedges g') = S m.
      Proof.
        destruct (ae_edges Sh) as [ed' [E _]]. rewrite E, app_length. simpl. unfold m. lia.
      Qed.

      Lemma ae_epo k x :
        epo (gedges g') k x = if Nat.eqb x m then Some (sel (a, b) k) else epo (gedges g) k x.
      Proof.
        destruct (ae_edges Sh) as [ed' [E [_ [En _]]]].
        destruct (Nat.eqb_spec x m) as [->|Hne].
        - unfold epo. rewrite E, nth_error_app2 by (unfold m; lia).
          unfold m. rewrite Nat.sub_diag. simpl. rewrite En. reflexivity.
        - destruct (Nat.lt_ge_cases x m) as [Hlt|Hge].
          + unfold epo. rewrite ae_nth_old; auto.
          + rewrite !epo_oob; auto. rewrite ae_elen. lia.
      Qed.

      (* every old list survives; the new edge is pushed at the head of the list of its endpoint *)
      Lemma add_edge_adj k i l :
        adj g k i l ->
        adj g' k i (if Nat.eqb i (sel (a, b) k) then m :: l else l).
      Proof.
        intros [n [Hn H]].
        destruct (ae_nodes Sh k _ Hn) as [n' [Hn' [_ Hh]]].
        assert (F : lseg (nxe (gedges g') k) (sel (nnext n) k) l cap).
        { eapply lseg_frame; eauto. intros x Hx. unfold nxe.
          rewrite ae_nth_old; auto. eapply lseg_nxe_lt; eauto. }
        exists n'; split; auto. rewrite Hh.
        destruct (Nat.eqb_spec i (sel (a, b) k)) as [Ei|Ni]; auto.
        econstructor; eauto.
        destruct (ae_edges Sh) as [ed' [E [_ [_ Enx]]]].
        unfold nxe. rewrite E, nth_error_app2 by (unfold m; lia).
        unfold m. rewrite Nat.sub_diag. simpl. f_equal. apply Enx. rewrite <- Ei. auto.
      Qed.

      Lemma add_edge_GInv :
        GInv g -> m < cap -> a < length (gnodes g) -> b < length (gnodes g) -> GInv g'.
      Proof.
        intros I Hm Ha Hb. constructor.
        - rewrite (ae_nlen Sh). apply (gi_ncap I).
        - rewrite ae_elen. lia.
        - intros x ed Hx. rewrite (ae_nlen Sh).
          destruct (ae_edges Sh) as [ed' [E [_ [En _]]]].
          rewrite E in Hx.
          destruct (Nat.lt_ge_cases x m) as [Hlt|Hge].
          + rewrite nth_error_app1 in Hx by auto. apply (gi_ends I _ Hx).
          + rewrite nth_error_app2 in Hx by auto.
            destruct (x - length (gedges g)) as [|d]; simpl in Hx.
            * injection Hx as <-. rewrite En. simpl. auto.
            * destruct d; discriminate.
        - intros k i. rewrite (ae_nlen Sh). intros Hi.
          destruct (gi_adj I k Hi) as [l [Hl C]].
          eexists; split; [apply add_edge_adj; eauto|].
          intros x. rewrite ae_epo.
          destruct (Nat.eqb_spec x m) as [->|Nx].
          + destruct (Nat.eqb_spec i (sel (a, b) k)) as [->|Ni].
            * split; auto. intros _. simpl; auto.
            * split.
              -- intros Hin. apply C in Hin. apply epo_Some in Hin. unfold m in Hin. lia.
              -- intros Hs. congruence.
          + rewrite <- C. destruct (Nat.eqb_spec i (sel (a, b) k)); [|tauto].
            simpl. split; [intros [Hx|Hx]; [congruence|auto]|auto].
      Qed.

      Lemma add_edge_nwt j n :
        nth_error (gnodes g) j = Some n ->
        exists n', nth_error (gnodes g') j = Some n' /\ nwt n' = nwt n.
      Proof.
        intros Hn. destruct (ae_nodes Sh 0 _ Hn) as [n' [Hn' [Hw _]]]. eauto.
      Qed.

      Lemma add_edge_old_edges x ed :
        nth_error (gedges g) x = Some ed ->
        exists ed1, nth_error (gedges g') x = Some ed1 /\ ewt ed1 = ewt ed /\ enode ed1 = enode ed.
      Proof.
        intros Hx. exists ed. rewrite ae_nth_old; auto. eapply nth_error_Some_lt; eauto.
      Qed.

      Lemma add_edge_new_edge :
        exists ed', nth_error (gedges g') m = Some ed' /\ ewt ed' = w /\ enode ed' = (a, b).
      Proof.
        destruct (ae_edges Sh) as [ed' [E [Ew [En _]]]]. exists ed'.
        rewrite E, nth_error_app2 by (unfold m; lia). unfold m. rewrite Nat.sub_diag. auto.
      Qed.
    End Shape.
  End AddEdge.
End GraphP.
