(* C14, towards T6: what the Acyclic wrapper needs to know of a wrapped StableDiGraph -- derived
   from the C02 theorems: the view of view_of, and the edge relation after each mutation. *)
From Coq Require Import Sorted Permutation.
From PG Require Import Lib.Io Lib.ListExtra Lib.Walk Model.GraphM Model.StableM Model.StableIO
                       Proofs.GraphP Proofs.GraphQ Proofs.GraphRE Proofs.StableP Proofs.StableT Props.C02.
From PG Require Import Model.View Model.Traversal Model.AcyclicM Model.AcyclicIO
                       Spec.Reach Spec.AcyclicSpec Proofs.AcyclicViewP.

(* a live edge a -> b exists *)
Definition sedge (s : sgraph) (a b : nat) : Prop :=
  exists e, ewo (sg s) e <> None /\ epo (gedges (sg s)) 0 e = Some a /\ epo (gedges (sg s)) 1 e = Some b.

Definition slive (s : sgraph) (a : nat) : Prop := nwo (sg s) a <> None.

Lemma contains_node_iff s a : contains_node s a = true <-> slive s a.
Proof.
  unfold contains_node, get_node, slive, nwo. destruct (nth_error (gnodes (sg s)) a) as [n|].
  - destruct (nwt n); split; congruence.
  - split; congruence.
Qed.

Lemma epo_ept_iff {NW EW} (g : graph NW EW) k x i :
  epo (gedges g) k x = Some i <-> x < length (gedges g) /\ ept g k x = i.
Proof.
  unfold epo, ept. destruct (nth_error (gedges g) x) as [ed|] eqn:E; cbn [option_map].
  - split.
    + intros H. injection H as <-. split; [eapply nth_error_Some_lt; exact E | reflexivity].
    + intros [_ <-]. reflexivity.
  - split; [discriminate|]. intros [H _]. apply nth_error_None in E. lia.
Qed.

(* the live nodes come in increasing index order *)
Lemma live_nodes_asc (ns : list (node (option nat))) : forall a,
  let L := flat_map (fun '(i, n) => match nwt n with Some w => [(i, w)] | None => [] end)
                    (combine (seq a (length ns)) ns) in
  ascending (map fst L) /\ forall i, In i (map fst L) -> a <= i.
Proof.
  induction ns as [|n ns IH]; intros a L.
  - split; [constructor | intros i []].
  - unfold L. cbn [length seq combine flat_map]. destruct (IH (S a)) as [IH1 IH2].
    rewrite map_app. destruct (nwt n) as [w|]; cbn [map fst app].
    + split.
      * constructor; [exact IH1|]. rewrite Forall_forall. intros i Hi. specialize (IH2 i Hi). lia.
      * intros i [<-|Hi]; [lia | specialize (IH2 i Hi); lia].
    + split; [exact IH1|]. intros i Hi. specialize (IH2 i Hi). lia.
Qed.

Lemma live_nodes_nodup s : NoDup (map fst (live_nodes s)).
Proof. apply ascending_NoDup. apply (proj1 (live_nodes_asc (gnodes (sg s)) 0)). Qed.

Lemma find_walk_some {EW} fuel : forall (es : list (edge EW)) cur k b e,
  find_walk fuel es cur k b = Ok (Some e) ->
  exists ed, nth_error es e = Some ed /\ sel (enode ed) (1 - k) = b.
Proof.
  induction fuel as [|f IH]; intros es cur k b e H; cbn [find_walk] in H; [discriminate H|].
  destruct (nth_error es cur) as [ed|] eqn:E; [|discriminate H].
  destruct (Nat.eqb_spec (sel (enode ed) (1 - k)) b) as [Eb|_].
  - injection H as <-. exists ed. split; assumption.
  - apply (IH _ _ _ _ _ H).
Qed.

Section S.
Variable cap : nat.
Variable capcheck debug : bool.

Notation SI := (SInv cap).

Lemma slive_in s a : In a (map fst (live_nodes s)) <-> slive s a.
Proof.
  unfold slive. rewrite in_map_iff. split.
  - intros [[i w] [E Hin]]. cbn [fst] in E. subst i. apply (live_nodes_In s a w) in Hin. congruence.
  - intros H. destruct (nwo (sg s) a) as [w|] eqn:E; [|contradiction H; reflexivity].
    exists (a, w). split; [reflexivity | apply (live_nodes_In s a w); exact E].
Qed.

Lemma sedge_live s a b : SI s -> sedge s a b -> slive s a /\ slive s b.
Proof.
  intros I [e [He [H0 H1]]]. apply C02_invariant_meaning in I. destruct I as [_ [_ [Hends _]]].
  split; [apply (Hends 0 e a He H0) | apply (Hends 1 e b He H1)].
Qed.

Lemma slive_bound s a : SI s -> slive s a -> a < node_bound s.
Proof.
  intros I H. destruct (C02_counts_bounds_iterators_agree cap debug s I) as [_ [_ [_ [_ [Hb _]]]]].
  apply Hb, H.
Qed.

(* ------------------------------------------------------------------ *)
(* view_of                                                             *)

Definition eref_of (g : IG) (e : nat) (r : nat * (nat * nat) * option nat) : Prop :=
  exists ed, nth_error (gedges g) e = Some ed /\ r = (e, enode ed, ewt ed).

Lemma flat_map_refs (g : IG) (skip : iedge -> bool) l :
  (forall x, In x l -> x < length (gedges g)) -> (forall ed, skip ed = false) ->
  Forall2 (eref_of g) l
    (flat_map (fun i => match edge_at g i with
                        | Some ed => if skip ed then [] else [(i, enode ed, ewt ed)]
                        | None => [] end) l).
Proof.
  intros Hl Hs. induction l as [|x t IH]; cbn [flat_map]; [constructor|].
  destruct (nth_error_lt_Some (gedges g) (Hl x (or_introl eq_refl))) as [ed Ed].
  unfold edge_at at 1. rewrite Ed, Hs. cbn [app]. constructor.
  - exists ed. split; [exact Ed | reflexivity].
  - apply IH. intros y Hy. apply Hl. right; exact Hy.
Qed.

Lemma erefs_s_out (g : IG) l r : Forall2 (eref_of g) l r ->
  Forall2 (fun e x => eid x = e /\ View.tgt x = ept g 1 e) l (erefs_s 0 r).
Proof.
  induction 1 as [|e x t u [ed [Ed Ex]] Htu IH]; cbn [erefs_s map]; [constructor|].
  constructor; [|exact IH]. subst x. destruct (enode ed) as [s0 t0] eqn:En. cbn [Nat.eqb].
  unfold eid, View.tgt, ept. cbn [fst snd]. rewrite Ed, En. cbn [sel]. split; reflexivity.
Qed.

Lemma erefs_s_in (g : IG) l r : Forall2 (eref_of g) l r ->
  Forall2 (fun e x => eid x = e /\ View.tgt x = ept g 0 e) l (erefs_s 1 r).
Proof.
  induction 1 as [|e x t u [ed [Ed Ex]] Htu IH]; cbn [erefs_s map]; [constructor|].
  constructor; [|exact IH]. subst x. destruct (enode ed) as [s0 t0] eqn:En. cbn [Nat.eqb].
  unfold eid, View.tgt, ept. cbn [fst snd]. rewrite Ed, En. cbn [sel]. split; reflexivity.
Qed.

(* the adjacency list of a live node, as the iterator walks it *)
Lemma s_adj_list s k a : SI s -> slive s a ->
  exists l, chain (fuel_of (sg s)) (gedges (sg s)) (sel (s_next cap s a) k) k = Ok l /\
    NoDup l /\ (forall x, In x l <-> ewo (sg s) x <> None /\ epo (gedges (sg s)) k x = Some a).
Proof.
  intros I Ha. pose proof I as I0. apply C02_invariant_meaning in I0.
  destruct I0 as [_ [_ [_ [Hadj _]]]]. destruct (Hadj k a Ha) as [l [Hl _]].
  destruct (C02_walks cap s k a I) as [Hw _]. exists l. apply (Hw l Ha Hl).
Qed.

Lemma s_adj0 s a : SI s -> slive s a ->
  exists l r, AcyclicIO.adj cap (InS s) 0 a = Ok (a, erefs_s 0 r) /\ Forall2 (eref_of (sg s)) l r /\
    NoDup l /\ (forall x, In x l <-> ewo (sg s) x <> None /\ epo (gedges (sg s)) 0 x = Some a).
Proof.
  intros I Ha. destruct (s_adj_list s 0 a I Ha) as [l [Ec [Hnd Hin]]].
  cbn [AcyclicIO.adj]. unfold edges_directed_nx. cbn [negb orb andb Nat.eqb].
  cbn [sel] in Ec. rewrite Ec. cbn [rbind flat_map]. rewrite app_nil_r. cbn [rmap].
  eexists l, _. split; [reflexivity|]. split; [|split; [exact Hnd | exact Hin]].
  apply (flat_map_refs (sg s) (fun _ => false)); [|reflexivity].
  intros x Hx. apply Hin in Hx. apply ewo_Some_lt, Hx.
Qed.

Lemma s_adj1 s a : SI s -> slive s a ->
  exists l r, AcyclicIO.adj cap (InS s) 1 a = Ok (a, erefs_s 1 r) /\ Forall2 (eref_of (sg s)) l r /\
    NoDup l /\ (forall x, In x l <-> ewo (sg s) x <> None /\ epo (gedges (sg s)) 1 x = Some a).
Proof.
  intros I Ha. destruct (s_adj_list s 1 a I Ha) as [l [Ec [Hnd Hin]]].
  cbn [AcyclicIO.adj]. unfold edges_directed_nx. cbn [negb orb andb Nat.eqb].
  cbn [sel] in Ec. rewrite Ec. cbn [rbind flat_map app rmap].
  eexists l, _. split; [reflexivity|]. split; [|split; [exact Hnd | exact Hin]].
  apply (flat_map_refs (sg s) (fun _ => false)); [|reflexivity].
  intros x Hx. apply Hin in Hx. apply ewo_Some_lt, Hx.
Qed.

Theorem view_of_S (s : sgraph) : SI s ->
  exists v, view_of cap (InS s) = Ok v /\ VWf v /\
    vnodes v = map fst (live_nodes s) /\ vbound v = node_bound s /\
    (forall a b, Reach.step v a b <-> sedge s a b).
Proof.
  intros I. unfold view_of. cbn [live ibound].
  set (L := map fst (live_nodes s)).
  set (Q0 := fun a (x : list eref) => exists l, Forall2 (fun e x0 => eid x0 = e /\ View.tgt x0 = ept (sg s) 1 e) l x /\
               NoDup l /\ (forall y, In y l <-> ewo (sg s) y <> None /\ epo (gedges (sg s)) 0 y = Some a)).
  set (Q1 := fun a (x : list eref) => exists l, Forall2 (fun e x0 => eid x0 = e /\ View.tgt x0 = ept (sg s) 0 e) l x /\
               NoDup l /\ (forall y, In y l <-> ewo (sg s) y <> None /\ epo (gedges (sg s)) 1 y = Some a)).
  destruct (rmapM_ok (AcyclicIO.adj cap (InS s) 0) L) as [outs Eo].
  { intros a Ha. apply slive_in in Ha. destruct (s_adj0 s a I Ha) as [l [r [Er _]]]. eexists; exact Er. }
  destruct (rmapM_ok (AcyclicIO.adj cap (InS s) 1) L) as [ins Ei].
  { intros a Ha. apply slive_in in Ha. destruct (s_adj1 s a I Ha) as [l [r [Er _]]]. eexists; exact Er. }
  rewrite Eo, Ei. cbn [rbind]. eexists. split; [reflexivity|].
  set (v := mkView true (node_bound s) (Some (node_bound s)) L outs ins 0 0 []).
  assert (Ho : forall a, (In a L -> exists x, assoc_nat outs a = Some x /\ Q0 a x) /\
                         (~ In a L -> assoc_nat outs a = None)).
  { apply assoc_along.
    assert (HF : Forall2 (fun a y => In a L /\ AcyclicIO.adj cap (InS s) 0 a = Ok y) L outs).
    { pose proof (rmapM_inv _ _ _ Eo) as HF. clear - HF. induction HF as [|a y t u Hay Htu IH]; constructor.
      - split; [left; reflexivity | exact Hay].
      - eapply Forall2_weaken; [|exact IH]. intros a0 y0 [H1 H2]. split; [right; exact H1 | exact H2]. }
    eapply Forall2_weaken; [|exact HF]. intros a y [Ha Ey]. apply slive_in in Ha.
    destruct (s_adj0 s a I Ha) as [l [r [Er [Hr [Hnd Hin]]]]]. rewrite Er in Ey. injection Ey as <-.
    cbn [fst snd]. split; [reflexivity|]. exists l. split; [apply erefs_s_out, Hr | split; assumption]. }
  assert (Hi : forall a, (In a L -> exists x, assoc_nat ins a = Some x /\ Q1 a x) /\
                         (~ In a L -> assoc_nat ins a = None)).
  { apply assoc_along.
    assert (HF : Forall2 (fun a y => In a L /\ AcyclicIO.adj cap (InS s) 1 a = Ok y) L ins).
    { pose proof (rmapM_inv _ _ _ Ei) as HF. clear - HF. induction HF as [|a y t u Hay Htu IH]; constructor.
      - split; [left; reflexivity | exact Hay].
      - eapply Forall2_weaken; [|exact IH]. intros a0 y0 [H1 H2]. split; [right; exact H1 | exact H2]. }
    eapply Forall2_weaken; [|exact HF]. intros a y [Ha Ey]. apply slive_in in Ha.
    destruct (s_adj1 s a I Ha) as [l [r [Er [Hr [Hnd Hin]]]]]. rewrite Er in Ey. injection Ey as <-.
    cbn [fst snd]. split; [reflexivity|]. exists l. split; [apply erefs_s_in, Hr | split; assumption]. }
  (* the list functions: the walk of the model, through adjf *)
  set (isedge := fun e => ewo (sg s) e <> None).
  assert (Hlist : forall k a l, (forall y, In y l <-> ewo (sg s) y <> None /\ epo (gedges (sg s)) k y = Some a) ->
            forall e, In e l <-> isedge e /\ ept (sg s) k e = a).
  { intros k a l Hl e. rewrite Hl. unfold isedge. rewrite epo_ept_iff. split.
    - intros [H1 [_ H2]]. split; assumption.
    - intros [H1 H2]. split; [exact H1|]. split; [apply ewo_Some_lt, H1 | exact H2]. }
  (* choose the lists *)
  set (outl := fun a => match assoc_nat outs a with Some x => map eid x | None => [] end).
  set (inl := fun a => match assoc_nat ins a with Some x => map eid x | None => [] end).
  assert (Hmap : forall (tg : nat -> nat) l (x : list eref),
            Forall2 (fun e x0 => eid x0 = e /\ View.tgt x0 = tg e) l x -> map eid x = l).
  { intros tg l x H. apply Forall2_map_eq. eapply Forall2_weaken; [|exact H]. intros e r [E _]; exact E. }
  assert (G1 : NoDup (vnodes v)) by (apply live_nodes_nodup).
  assert (G2 : forall a, In a (vnodes v) -> a < vbound v).
  { intros a Ha. cbn [v vnodes vbound] in *. apply slive_in in Ha. apply (slive_bound s a I Ha). }
  assert (G3 : vcap v = Some (vbound v)) by reflexivity.
  assert (G4 : forall a, In a (vnodes v) ->
            Forall2 (fun e r => eid r = e /\ View.tgt r = ept (sg s) 1 e) (outl a) (out_edges v a)).
  { intros a Ha. unfold out_edges, outl; cbn [v vout]. destruct (proj1 (Ho a) Ha) as [x [Ex [l [Hx _]]]].
    rewrite Ex. rewrite (Hmap _ l x Hx). exact Hx. }
  assert (G5 : forall a, ~ In a (vnodes v) -> out_edges v a = []).
  { intros a Ha. unfold out_edges; cbn [v vout]. rewrite (proj2 (Ho a) Ha). reflexivity. }
  assert (G6 : forall a, In a (vnodes v) ->
            Forall2 (fun e r => eid r = e /\ View.tgt r = ept (sg s) 0 e) (inl a) (in_edges v a)).
  { intros a Ha. unfold in_edges, inl; cbn [v vin]. destruct (proj1 (Hi a) Ha) as [x [Ex [l [Hx _]]]].
    rewrite Ex. rewrite (Hmap _ l x Hx). exact Hx. }
  assert (G7 : forall a, ~ In a (vnodes v) -> in_edges v a = []).
  { intros a Ha. unfold in_edges; cbn [v vin]. rewrite (proj2 (Hi a) Ha). reflexivity. }
  assert (G8 : forall a, In a (vnodes v) -> NoDup (outl a) /\
            forall e, In e (outl a) <-> isedge e /\ ept (sg s) 0 e = a).
  { intros a Ha. unfold outl. destruct (proj1 (Ho a) Ha) as [x [Ex [l [Hx [Hnd Hin]]]]].
    rewrite Ex, (Hmap _ l x Hx). split; [exact Hnd | apply (Hlist 0 a l Hin)]. }
  assert (G9 : forall a, In a (vnodes v) -> NoDup (inl a) /\
            forall e, In e (inl a) <-> isedge e /\ ept (sg s) 1 e = a).
  { intros a Ha. unfold inl. destruct (proj1 (Hi a) Ha) as [x [Ex [l [Hx [Hnd Hin]]]]].
    rewrite Ex, (Hmap _ l x Hx). split; [exact Hnd | apply (Hlist 1 a l Hin)]. }
  assert (G10 : forall e, isedge e -> In (ept (sg s) 0 e) (vnodes v) /\ In (ept (sg s) 1 e) (vnodes v)).
  { intros e He. pose proof (ewo_Some_lt _ _ He) as Hlt.
    destruct (sedge_live s (ept (sg s) 0 e) (ept (sg s) 1 e) I) as [H1 H2].
    - exists e. split; [exact He|]. split; apply epo_ept_iff; split; (exact Hlt || reflexivity).
    - split; apply slive_in; assumption. }
  split.
  { apply (gen_vwf v) with (isedge := isedge) (sr := ept (sg s) 0) (tg := ept (sg s) 1)
                           (outl := outl) (inl := inl); assumption. }
  split; [reflexivity|]. split; [reflexivity|].
  intros a b. rewrite (gen_step v isedge (ept (sg s) 0) (ept (sg s) 1) outl G4 G5 G8 G10 a b).
  unfold sedge, isedge. split.
  - intros [e [He [H0 H1]]]. exists e. split; [exact He|].
    split; apply epo_ept_iff; (split; [apply ewo_Some_lt, He | assumption]).
  - intros [e [He [H0 H1]]]. exists e. split; [exact He|].
    apply epo_ept_iff in H0. apply epo_ept_iff in H1. split; [apply H0 | apply H1].
Qed.

(* ------------------------------------------------------------------ *)
(* the empty graph                                                     *)

Lemma sg_empty_inv : SI (sg_empty cap) /\ (forall a, ~ slive (sg_empty cap) a) /\
  forall a b, ~ sedge (sg_empty cap) a b.
Proof.
  split; [apply (C02_inv_init_add_node cap capcheck debug)|]. split.
  - intros a H. apply H. unfold nwo. cbn [sg_empty sg g_empty gnodes]. destruct a; reflexivity.
  - intros a b [e [He _]]. apply He. unfold ewo. cbn [sg_empty sg g_empty gedges]. destruct e; reflexivity.
Qed.

(* ------------------------------------------------------------------ *)
(* mutations                                                           *)

Notation sroom := (StableH.room cap capcheck).

Lemma sedge_same s s' : (forall x, ewo (sg s') x <> None -> ewo (sg s) x <> None /\
                            forall k, epo (gedges (sg s')) k x = epo (gedges (sg s)) k x) ->
  forall a b, sedge s' a b -> sedge s a b.
Proof.
  intros H a b [e [He [H0 H1]]]. destruct (H e He) as [He' Hk]. exists e. split; [exact He'|].
  rewrite <- !Hk. split; assumption.
Qed.

Lemma S_add_node s w r n s' : SI s -> sroom s 1 ->
  s_try_add_node cap capcheck debug s w = Ok r -> lift_idx r = Ok (n, s') ->
  SI s' /\ ~ slive s n /\ (forall j, slive s' j <-> j = n \/ slive s j) /\
  (forall a b, sedge s' a b -> sedge s a b) /\
  length (gnodes (sg s')) <= S (length (gnodes (sg s))) /\ length (gedges (sg s')) <= S (length (gedges (sg s))).
Proof.
  intros I Hroom E El.
  assert (HroomN : capcheck = false -> free_node s = cap -> length (gnodes (sg s)) < cap).
  { intros Hc _. destruct (Hroom Hc). lia. }
  destruct (proj2 (C02_inv_init_add_node cap capcheck debug) s w I HroomN) as [r0 [s0 [E0 [I0 Hr]]]].
  destruct (StableH.sstep_ok debug (StableH.OAddNode w) I Hroom) as [r1 [s1 [E1 [_ [Hl1 Hl2]]]]].
  cbn [StableH.sstep] in E1. rewrite E0 in E1. cbn [rmap] in E1. injection E1 as _ <-.
  rewrite E0 in E. injection E as <-. destruct r0 as [err|i]; cbn [lift_idx] in El; [discriminate El|].
  injection El as <- <-. destruct Hr as [Ei [Hn [Hn' [Hoth [Hge _]]]]].
  split; [exact I0|]. split; [unfold slive; rewrite Hn; intros H; apply H; reflexivity|]. split.
  { intros j. unfold slive. destruct (Nat.eq_dec j i) as [->|Hne].
    - rewrite Hn'. split; [intros _; left; reflexivity | intros _; discriminate].
    - rewrite (Hoth j Hne). split; [intros H; right; exact H | intros [H|H]; [contradiction | exact H]]. }
  split.
  { apply sedge_same. intros x Hx. unfold ewo in *. rewrite Hge in *. split; [exact Hx | reflexivity]. }
  split; assumption.
Qed.

Lemma S_add_edge s a b w r e s' : SI s -> sroom s 1 ->
  s_try_add_edge cap capcheck debug s a b w = Ok r -> lift_idx r = Ok (e, s') ->
  SI s' /\ slive s a /\ slive s b /\ (forall j, slive s' j <-> slive s j) /\
  (forall x y, sedge s' x y -> sedge s x y \/ (x = a /\ y = b)) /\
  length (gnodes (sg s')) <= S (length (gnodes (sg s))) /\ length (gedges (sg s')) <= S (length (gedges (sg s))).
Proof.
  intros I Hroom E El.
  assert (HroomE : capcheck = false -> free_edge s = cap -> length (gedges (sg s)) < cap).
  { intros Hc _. destruct (Hroom Hc). lia. }
  destruct (C02_add_edge cap capcheck debug s a b w I HroomE) as [r0 [s0 [E0 [I0 Hr]]]].
  destruct (StableH.sstep_ok debug (StableH.OAddEdge a b w) I Hroom) as [r1 [s1 [E1 [_ [Hl1 Hl2]]]]].
  cbn [StableH.sstep] in E1. rewrite E0 in E1. cbn [rmap] in E1. injection E1 as _ <-.
  rewrite E0 in E. injection E as <-. destruct r0 as [err|x]; cbn [lift_idx] in El; [discriminate El|].
  injection El as <- <-.
  destruct Hr as [Ha [Hb [Ex [Hx0 [Hx1 [Hxe [Hoe [Hoep [Hnw _]]]]]]]]].
  split; [exact I0|]. split; [exact Ha|]. split; [exact Hb|]. split.
  { intros j. unfold slive. rewrite Hnw. reflexivity. }
  split; [|split; assumption].
  intros u v [e0 [He0 [H0 H1]]]. destruct (Nat.eq_dec e0 x) as [->|Hne].
  - right. rewrite (Hxe 0) in H0. rewrite (Hxe 1) in H1. cbn [sel] in H0, H1.
    injection H0 as <-. injection H1 as <-. split; reflexivity.
  - left. exists e0. rewrite (Hoe e0 Hne) in He0. rewrite (Hoep 0 e0 Hne) in H0. rewrite (Hoep 1 e0 Hne) in H1.
    split; [exact He0 | split; assumption].
Qed.

Lemma S_remove_edge s e r s' : SI s -> s_remove_edge cap debug s e = Ok (r, s') ->
  SI s' /\ (forall j, slive s' j <-> slive s j) /\ (forall x y, sedge s' x y -> sedge s x y) /\
  length (gnodes (sg s')) = length (gnodes (sg s)) /\ length (gedges (sg s')) = length (gedges (sg s)).
Proof.
  intros I E. destruct (C02_remove_edge cap debug s e I) as [Hnone Hsome].
  destruct (ewo (sg s) e) as [w|] eqn:Ew.
  - destruct (Hsome w eq_refl) as [s0 [E0 [I0 [_ [_ [Hln [Hle [Hnw [Hew [Hep _]]]]]]]]]].
    rewrite E0 in E. injection E as _ <-. split; [exact I0|]. split.
    { intros j. unfold slive. rewrite Hnw. reflexivity. }
    split; [|split; assumption].
    apply sedge_same. intros x Hx. rewrite Hew in Hx. destruct (Nat.eqb_spec x e) as [Heq|Hne]; [contradiction Hx; reflexivity|].
    split; [exact Hx | intros k; apply Hep, Hne].
  - rewrite (Hnone eq_refl) in E. injection E as _ <-. split; [exact I|]. split; [intros j; reflexivity|].
    split; [intros x y H; exact H | split; reflexivity].
Qed.

Lemma S_remove_node s a r s' : SI s -> slive s a -> s_remove_node cap debug s a = Ok (r, s') ->
  SI s' /\ (forall j, slive s' j <-> slive s j /\ j <> a) /\ (forall x y, sedge s' x y -> sedge s x y) /\
  length (gnodes (sg s')) = length (gnodes (sg s)) /\ length (gedges (sg s')) = length (gedges (sg s)).
Proof.
  intros I Ha E. destruct (C02_remove_node cap debug s a I) as [_ Hsome].
  destruct (nwo (sg s) a) as [w|] eqn:Ew; [|contradiction Ha; exact Ew].
  destruct (Hsome w eq_refl) as [s0 [E0 [I0 [_ [Hln [Hle [Hnw [Hew [Hep _]]]]]]]]].
  rewrite E0 in E. injection E as _ <-. split; [exact I0|]. split.
  { intros j. unfold slive. rewrite Hnw. destruct (Nat.eqb_spec j a) as [->|Hne].
    - split; [intros H; contradiction H; reflexivity | intros [_ H]; contradiction H; reflexivity].
    - split; [intros H; split; assumption | intros [H _]; exact H]. }
  split; [|split; assumption].
  apply sedge_same. intros x Hx. rewrite Hew in Hx. destruct (StableRN.incb (sg s) a x) eqn:Ei; [contradiction Hx; reflexivity|].
  split; [exact Hx | intros k; apply Hep, Ei].
Qed.

(* replacing the weight of a live edge *)
Lemma S_set_weight s ix ed w0 w g' : SI s ->
  nth_error (gedges (sg s)) ix = Some ed -> ewt ed = Some w0 ->
  upd_edge (sg s) ix (fun e => mkEdge (Some w) (enext e) (enode e)) = Ok g' ->
  SI (with_g s g') /\ gnodes g' = gnodes (sg s) /\
  length (gedges g') = length (gedges (sg s)) /\
  (forall x, ewo g' x <> None <-> ewo (sg s) x <> None) /\
  (forall k x, epo (gedges g') k x = epo (gedges (sg s)) k x).
Proof.
  intros I Eix Ew Eu. unfold upd_edge in Eu. rewrite Eix in Eu. injection Eu as <-.
  set (ed' := mkEdge (Some w) (enext ed) (enode ed)).
  set (g' := mkGraph (gnodes (sg s)) (upd (gedges (sg s)) ix ed')).
  assert (Hix : ix < length (gedges (sg s))) by (eapply nth_error_Some_lt; exact Eix).
  assert (Hnth : forall x, nth_error (gedges g') x =
            if Nat.eqb ix x then Some ed' else nth_error (gedges (sg s)) x).
  { intros x. cbn [g' gedges]. rewrite nth_error_upd. destruct (Nat.eqb ix x); [|reflexivity].
    destruct (Nat.ltb_spec ix (length (gedges (sg s)))); [reflexivity | lia]. }
  assert (Hew : forall x, ewo g' x <> None <-> ewo (sg s) x <> None).
  { intros x. unfold ewo. rewrite Hnth. destruct (Nat.eqb_spec ix x) as [<-|Hne]; [|reflexivity].
    rewrite Eix, Ew. cbn [ed' ewt]. split; intros _; discriminate. }
  assert (Hep : forall k x, epo (gedges g') k x = epo (gedges (sg s)) k x).
  { intros k x. unfold epo. rewrite Hnth. destruct (Nat.eqb_spec ix x) as [<-|Hne]; [|reflexivity].
    rewrite Eix. reflexivity. }
  assert (Hnx : forall k x, nxe (gedges g') k x = nxe (gedges (sg s)) k x).
  { intros k x. unfold nxe. rewrite Hnth. destruct (Nat.eqb_spec ix x) as [<-|Hne]; [|reflexivity].
    rewrite Eix. reflexivity. }
  assert (Hfx : forall x, fex g' x = fex (sg s) x).
  { intros x. unfold fex. rewrite Hnth. destruct (Nat.eqb_spec ix x) as [<-|Hne]; [|reflexivity].
    rewrite Eix, Ew. reflexivity. }
  assert (Hlen : length (gedges g') = length (gedges (sg s))) by (cbn [g' gedges]; apply upd_length).
  split; [|split; [reflexivity | split; [exact Hlen | split; [exact Hew | exact Hep]]]].
  apply C02_invariant_meaning in I. apply C02_invariant_meaning.
  destruct I as [H1 [H2 [H3 [H4 [H5 [H6 [H7 H8]]]]]]]. cbn [with_g sg ncount ecount free_node free_edge].
  split; [exact H1|]. split; [rewrite Hlen; exact H2|]. split.
  { intros k x i Hx Hi. rewrite Hep in Hi. apply Hew in Hx. exact (H3 k x i Hx Hi). }
  split.
  { intros k i Hi. destruct (H4 k i Hi) as [l [Hadj Hl]]. exists l. split.
    - destruct Hadj as [n [Hn Hseg]]. exists n. split; [exact Hn|].
      eapply lseg_ext; [|exact Hseg]. intros x. apply Hnx.
    - intros x. rewrite Hl, Hew, Hep. reflexivity. }
  split; [exact H5|]. split.
  { rewrite H6. cbn [g' gedges]. rewrite map_upd.
    pose proof (@nsome_upd nat (map (@ewt (option nat)) (gedges (sg s))) ix (Some w0) (Some w)) as Hns.
    rewrite nth_error_map, Eix in Hns. cbn [option_map] in Hns. rewrite Ew in Hns.
    specialize (Hns eq_refl). cbn [osome ed' ewt] in *. lia. }
  split.
  { destruct H7 as [l [Hseg [Hbk Hl]]]. exists l. split; [|split].
    - eapply lseg_ext; [|exact Hseg]. intros x. reflexivity.
    - eapply bkp_frame; [|exact Hbk]. intros x _. reflexivity.
    - exact Hl. }
  destruct H8 as [l [Hseg Hl]]. exists l. split.
  - eapply lseg_ext; [|exact Hseg]. intros x. apply Hfx.
  - intros x. rewrite Hl, Hlen. split; intros [Ha Hb]; (split; [exact Ha|]).
    + destruct (ewo g' x) eqn:E; [|reflexivity]. exfalso. assert (ewo g' x <> None) by congruence.
      apply Hew in H. contradiction.
    + destruct (ewo (sg s) x) eqn:E; [|reflexivity]. exfalso. assert (ewo (sg s) x <> None) by congruence.
      apply Hew in H. contradiction.
Qed.

Lemma S_update_edge s a b w r e s' : SI s -> sroom s 1 ->
  s_try_update_edge cap capcheck debug true s a b w = Ok r -> lift_idx r = Ok (e, s') ->
  SI s' /\ slive s a /\ slive s b /\ (forall j, slive s' j <-> slive s j) /\
  (forall x y, sedge s' x y -> sedge s x y \/ (x = a /\ y = b)) /\
  length (gnodes (sg s')) <= S (length (gnodes (sg s))) /\ length (gedges (sg s')) <= S (length (gedges (sg s))).
Proof.
  intros I Hroom E El. unfold s_try_update_edge in E.
  destruct (s_find_edge true s a b) as [o| |] eqn:Ef; cbn [rbind] in E; try discriminate E.
  destruct o as [ix|]; [|exact (S_add_edge s a b w r e s' I Hroom E El)].
  destruct (nth_error (gedges (sg s)) ix) as [ed|] eqn:Eix; [|discriminate E].
  destruct (ewt ed) as [w0|] eqn:Ew; [|discriminate E].
  destruct (upd_edge (sg s) ix _) as [g'| |] eqn:Eu; cbn [rmap] in E; try discriminate E.
  injection E as <-. cbn [lift_idx] in El. injection El as <- <-.
  destruct (S_set_weight s ix ed w0 w g' I Eix Ew Eu) as [I' [Hn [Hl [Hew Hep]]]].
  (* the endpoints are live *)
  unfold s_find_edge in Ef. destruct (get_node s a) as [na|] eqn:Ea; [|discriminate Ef].
  assert (Hla : slive s a) by (apply contains_node_iff; unfold contains_node; rewrite Ea; reflexivity).
  unfold find_edge in Ef. destruct (nth_error (gnodes (sg s)) a) as [n0|]; [|discriminate Ef].
  apply find_walk_some in Ef. destruct Ef as [ed2 [Eix2 Hb2]]. rewrite Eix in Eix2. injection Eix2 as <-.
  cbn [Nat.sub sel] in Hb2.
  assert (Hlb : slive s b).
  { pose proof I as I0. apply C02_invariant_meaning in I0. destruct I0 as [_ [_ [Hends _]]].
    apply (Hends 1 ix b).
    - unfold ewo. rewrite Eix, Ew. discriminate.
    - unfold epo. rewrite Eix. cbn [option_map sel]. rewrite Hb2. reflexivity. }
  split; [exact I'|]. split; [exact Hla|]. split; [exact Hlb|]. split.
  { intros j. unfold slive, nwo. cbn [with_g sg]. rewrite Hn. reflexivity. }
  split.
  { intros x y H. left. revert x y H. apply sedge_same. cbn [with_g sg]. intros x Hx.
    split; [apply Hew, Hx | intros k; apply Hep]. }
  cbn [with_g sg]. rewrite Hn, Hl. split; lia.
Qed.

End S.
