(* T4: StableGraph::remove_node.  The weight is taken first (the node becomes the pending node
   of the generalised invariant), both lists are drained with remove_edge, and the slot is
   pushed on the doubly linked free node list. *)
From PG Require Import Lib.ListArr Lib.ListExtra Lib.Walk Model.GraphM Model.StableM
  Proofs.GraphP Proofs.GraphRE Proofs.StableP Proofs.StableRE.
Set Implicit Arguments.

Definition memb (l : list nat) (x : nat) : bool := existsb (Nat.eqb x) l.

Lemma memb_In l x : memb l x = true <-> In x l.
Proof.
  unfold memb. rewrite existsb_exists. split.
  - intros [y [Hy E]]. apply Nat.eqb_eq in E. subst. auto.
  - intros H. exists x. split; auto. apply Nat.eqb_refl.
Qed.

Lemma memb_false l x : memb l x = false <-> ~ In x l.
Proof. rewrite <- memb_In. destruct (memb l x); split; congruence. Qed.

Lemma filter_filter {A} (f h : A -> bool) l :
  filter h (filter f l) = filter (fun x => andb (f x) (h x)) l.
Proof.
  induction l as [|x l IH]; simpl; auto.
  destruct (f x); simpl; [destruct (h x); simpl; rewrite IH; reflexivity|auto].
Qed.

Lemma filter_true {A} (f : A -> bool) l : (forall x, In x l -> f x = true) -> filter f l = l.
Proof.
  induction l as [|x l IH]; intros H; simpl; auto.
  rewrite (H x) by (simpl; auto). rewrite IH; auto. intros y Hy. apply H. simpl; auto.
Qed.

Lemma filter_length_le' {A} (f : A -> bool) l : length (filter f l) <= length l.
Proof. induction l as [|x l IH]; simpl; auto. destruct (f x); simpl; lia. Qed.

(* incident live edges of node a *)
Definition incb (g : IG) (a x : nat) : bool :=
  match nth_error (gedges g) x with
  | Some ed => match ewt ed with
               | Some _ => orb (Nat.eqb (fst (enode ed)) a) (Nat.eqb (snd (enode ed)) a)
               | None => false
               end
  | None => false
  end.

Lemma incb_true g a x :
  incb g a x = true <->
  (ewo g x <> None /\ (epo (gedges g) 0 x = Some a \/ epo (gedges g) 1 x = Some a)).
Proof.
  unfold incb, ewo, epo. destruct (nth_error (gedges g) x) as [ed|]; simpl.
  - destruct (ewt ed); simpl.
    + rewrite orb_true_iff, !Nat.eqb_eq. split.
      * intros [H|H]; (split; [discriminate|]); [left|right]; congruence.
      * intros [_ [H|H]]; [left|right]; congruence.
    + split; [discriminate|]. intros [H _]. congruence.
  - split; [discriminate|]. intros [H _]. congruence.
Qed.

Section StableRN.
  Variable cap : nat.
  Variable debug : bool.

  Notation adj := (@adj (option nat) (option nat) cap).

  Lemma Rm_lv p P s s' i : Rm cap p P s s' -> (lv p (sg s') i <-> lv p (sg s) i).
  Proof.
    intros R. unfold lv. rewrite (rm_nodes R), (rm_nlen R). tauto.
  Qed.

  Lemma Rm_refl p (P : nat -> bool) s : (forall x, P x = false) -> Rm cap p P s s.
  Proof.
    intros H. constructor; auto.
    - intros x. rewrite H. reflexivity.
    - intros k i l _ Hl. rewrite filter_true; auto. intros x _. rewrite H. reflexivity.
  Qed.

  Lemma Rm_ext p (P Q : nat -> bool) s s' : (forall x, P x = Q x) -> Rm cap p P s s' -> Rm cap p Q s s'.
  Proof.
    intros E R. constructor; try apply R.
    - intros x. rewrite <- E. apply (rm_ewo R).
    - intros k x Hx. apply (rm_epo R). rewrite E. auto.
    - intros k i l Li Hl. rewrite (filter_ext _ (fun x => negb (P x))).
      + apply (rm_adj R); auto.
      + intros x. rewrite E. reflexivity.
  Qed.

  Lemma Rm_trans p (P Q : nat -> bool) s s' s'' :
    Rm cap p P s s' -> Rm cap p Q s' s'' -> Rm cap p (fun x => orb (P x) (Q x)) s s''.
  Proof.
    intros R1 R2. constructor.
    - intros j. rewrite (rm_nodes R2), (rm_nodes R1). reflexivity.
    - rewrite (rm_nlen R2), (rm_nlen R1). reflexivity.
    - rewrite (rm_elen R2), (rm_elen R1). reflexivity.
    - intros x. rewrite (rm_ewo R2), (rm_ewo R1). destruct (P x), (Q x); reflexivity.
    - intros k x Hx. apply orb_false_iff in Hx. destruct Hx as [H1 H2].
      rewrite (rm_epo R2), (rm_epo R1); auto.
    - intros k i l Li Hl.
      rewrite (filter_ext _ (fun x => andb (negb (P x)) (negb (Q x)))).
      + rewrite <- filter_filter. apply (rm_adj R2).
        * apply (Rm_lv i R1). auto.
        * apply (rm_adj R1); auto.
      + intros x. apply negb_orb.
    - rewrite (rm_nc R2), (rm_nc R1). reflexivity.
    - intros j Hj. rewrite (rm_fn_nodes R2), (rm_fn_nodes R1); auto.
      intros H. apply Hj. apply (Rm_lv j R1). auto.
    - rewrite (rm_fn R2), (rm_fn R1). reflexivity.
  Qed.

  (* the loop of remove_node over one direction *)
  Lemma s_drain_spec p k a : forall l fuel s,
    SInvP cap p s -> lv p (sg s) a -> adj (sg s) k a l -> length l < fuel ->
    exists s', s_drain_dir cap debug fuel s a k = Ok s' /\ SInvP cap p s' /\
      Rm cap p (memb l) s s' /\ adj (sg s') k a [] /\
      length (gedges (sg s')) = length (gedges (sg s)).
  Proof.
    induction l as [|h t IH]; intros fuel s I La Hl Hf;
      (destruct fuel as [|f]; [simpl in Hf; lia|]); cbn [s_drain_dir].
    - pose proof Hl as [n [Hn Hls]]. rewrite Hn. apply lseg_nil_inv in Hls. rewrite Hls, Nat.eqb_refl.
      exists s. split; auto. split; auto. split; [apply Rm_refl; reflexivity|]. split; auto.
    - pose proof Hl as [n [Hn Hls]]. rewrite Hn.
      pose proof Hls as Hls'. apply lseg_cons_inv in Hls'. destruct Hls' as [Eh _].
      assert (Hin : In h (h :: t)) by (simpl; auto).
      assert (Hhlt : h < length (gedges (sg s))) by (apply (lseg_nxe_lt h Hls Hin)).
      pose proof (sgi_ecap (si_g I)) as Hecap.
      rewrite <- Eh. destruct (Nat.eqb_spec h cap) as [|_]; [lia|].
      apply (GI_adj_in h (si_g I) La Hl) in Hin. destruct Hin as [Hlive _].
      destruct (ewo (sg s) h) as [w|] eqn:Ew; [|congruence].
      destruct (@s_remove_edge_spec cap debug p s h w I Ew) as [s1 [Hrun [I1 [R1 Hec]]]].
      rewrite Hrun. cbn [rbind].
      pose proof (GI_adj_NoDup (si_g I) Hl) as Hnd. apply NoDup_cons_iff in Hnd. destruct Hnd as [Hht Hndt].
      assert (Hl1 : adj (sg s1) k a t).
      { pose proof (rm_adj R1 La Hl) as H. simpl in H. rewrite Nat.eqb_refl in H. simpl in H.
        rewrite filter_true in H; auto. intros x Hx.
        destruct (Nat.eqb_spec x h) as [->|]; [contradiction|reflexivity]. }
      assert (La1 : lv p (sg s1) a) by (apply (Rm_lv a R1); auto).
      destruct (IH f s1 I1 La1 Hl1) as [s' [Hrun' [I' [R' [He' Hlen']]]]]; [simpl in Hf; lia|].
      exists s'. split; auto. split; auto. split; [|split; auto].
      + eapply Rm_ext; [|eapply Rm_trans; [exact R1|exact R']].
        intros x. unfold memb. simpl. reflexivity.
      + rewrite Hlen'. apply (rm_elen R1).
  Qed.

  (* taking the weight: the node becomes pending *)
  Lemma take_weight s a n w :
    SInv cap s -> nth_error (gnodes (sg s)) a = Some n -> nwt n = Some w ->
    let g0 := mkGraph (upd (gnodes (sg s)) a (mkNode None (nnext n))) (gedges (sg s)) : IG in
    SInvP cap (Some a) (with_g s g0) /\
    (forall j, nwo g0 j = if Nat.eqb j a then None else nwo (sg s) j) /\
    (forall j, lv (Some a) g0 j <-> nwo (sg s) j <> None) /\
    (forall k j l, adj (sg s) k j l <-> adj g0 k j l).
  Proof.
    intros I Hn Hw g0. set (g := sg s) in *.
    assert (Ha : a < length (gnodes g)) by (eapply nth_error_Some_lt; eauto).
    assert (Hmw : map (@nwt _) (gnodes g0) = upd (map (@nwt _) (gnodes g)) a None).
    { unfold g0. cbn [gnodes]. rewrite map_upd. reflexivity. }
    assert (Hnw : forall j, nwo g0 j = if Nat.eqb j a then None else nwo g j).
    { intros j. rewrite (nwo_map g0 j), Hmw, nth_error_upd, map_length, (Nat.eqb_sym j a).
      destruct (Nat.eqb_spec a j) as [<-|Hne].
      - destruct (Nat.ltb_spec a (length (gnodes g))); [reflexivity|lia].
      - rewrite <- nwo_map. reflexivity. }
    assert (Hlen : length (gnodes g0) = length (gnodes g)).
    { unfold g0. cbn [gnodes]. apply upd_length. }
    assert (Hlv : forall j, lv (Some a) g0 j <-> nwo g j <> None).
    { intros j. unfold lv. rewrite Hnw, Hlen. destruct (Nat.eqb_spec j a) as [->|Hne].
      - rewrite (nwo_nth _ _ Hn), Hw. split; [discriminate|]. intros _. right. auto.
      - split; [intros [H|[H _]]; [auto|congruence]|auto]. }
    assert (Hhd : forall k j, hdn (gnodes g0) k j = hdn (gnodes g) k j).
    { intros k j. unfold g0, hdn. cbn [gnodes]. rewrite nth_error_upd.
      destruct (Nat.eqb_spec a j) as [<-|Hne]; auto.
      destruct (Nat.ltb_spec a (length (gnodes g))); [|lia]. rewrite Hn. reflexivity. }
    assert (Hadj : forall k j l, adj g k j l <-> adj g0 k j l).
    { intros k j l. rewrite !adj_hdn. unfold g0 at 2. cbn [gedges].
      split; intros [h [Hh Hl]]; exists h; split; auto; [rewrite Hhd|rewrite <- Hhd]; auto. }
    split; [|auto].
    constructor; cbn [with_g sg ncount ecount free_node free_edge]; fold g.
    - constructor.
      + rewrite Hlen. apply (sgi_ncap (si_g I)).
      + apply (sgi_ecap (si_g I)).
      + intros k x i Hx Hep. apply Hlv. apply lv_None. apply (sgi_ends (si_g I) k x); auto.
      + intros k i Li. apply Hlv in Li.
        destruct (sgi_adj (si_g I) k (proj2 (lv_None g i) Li)) as [l [Hl C]].
        exists l. split; [apply Hadj; auto|exact C].
    - intros a' [= <-]. rewrite Hlen, Hnw, Nat.eqb_refl. auto.
    - rewrite Hmw.
      assert (Hn0 : nth_error (map (@nwt _) (gnodes g)) a = Some (Some w)).
      { rewrite nth_error_map, Hn. simpl. congruence. }
      pose proof (@nsome_upd _ _ _ _ None Hn0) as Hc. cbn [osome] in Hc.
      rewrite (si_nc I). fold g. cbn [osome]. lia.
    - apply (si_ec I).
    - destruct (si_fn I) as [l [Hl [Hb C]]]. fold g in Hl, Hb, C. exists l.
      assert (Hal : forall x, In x l -> x <> a).
      { intros x Hx ->. apply C in Hx. destruct Hx as [_ [Hx _]].
        rewrite (nwo_nth _ _ Hn), Hw in Hx. discriminate. }
      assert (Fl : forall x, In x l -> nth_error (gnodes g0) x = nth_error (gnodes g) x).
      { intros x Hx. unfold g0. cbn [gnodes]. apply nth_error_upd_neq.
        intros E. apply (Hal x Hx). auto. }
      split; [|split].
      * eapply lseg_frame; [exact Hl|]. intros x Hx. apply fnx_same; auto.
      * eapply bkp_frame; [|exact Hb]. intros x Hx. apply hdn_same; auto.
      * intros i. rewrite C, Hlen, Hnw. destruct (Nat.eqb_spec i a) as [->|Hne].
        -- rewrite (nwo_nth _ _ Hn), Hw. split; [intros [_ [H _]]; discriminate|].
           intros [_ [_ H]]. congruence.
        -- split; intros [H1 [H2 _]]; (split; [auto|split; [auto|congruence]]).
    - apply (@FEL_same_edges cap g g0); [reflexivity|apply (si_fe I)].
  Qed.

  (* pushing the drained pending node on the free list *)
  Lemma push_free s a n2 :
    SInvP cap (Some a) s -> nth_error (gnodes (sg s)) a = Some n2 ->
    adj (sg s) 0 a [] -> adj (sg s) 1 a [] ->
    let ns3 := upd (gnodes (sg s)) a (set_nnext n2 (free_node s, cap)) in
    let g4 := mkGraph (set_hd ns3 1 (free_node s) a) (gedges (sg s)) : IG in
    SInv cap (mkSG g4 (ncount s - 1) (ecount s) a (free_edge s)) /\
    (forall j, nwo g4 j = nwo (sg s) j) /\
    (forall k j l, j <> a -> lv (Some a) (sg s) j -> adj (sg s) k j l -> adj g4 k j l).
  Proof.
    intros I Hn2 He0 He1 ns3 g4. set (g := sg s) in *. set (fn := free_node s) in *.
    pose proof (sgi_ncap (si_g I)) as Hncap. fold g in Hncap.
    destruct (si_p I eq_refl) as [Ha Hva]. fold g in Ha, Hva.
    destruct (si_fn I) as [fl [Hfl [Hfb Cf]]]. fold g fn in Hfl, Hfb, Cf.
    pose proof (FNL_NoDup Hncap Hfl) as Hnd.
    assert (Hafl : ~ In a fl).
    { intros Hin. apply Cf in Hin. destruct Hin as [_ [_ H]]. congruence. }
    assert (Hfn : (fn < length (gnodes g) /\ exists fl', fl = fn :: fl') \/ (fn = cap /\ fl = [])).
    { destruct fl as [|y fl'].
      - right. apply lseg_nil_inv in Hfl. auto.
      - left. pose proof Hfl as Hfl2. apply lseg_cons_inv in Hfl2. destruct Hfl2 as [-> _].
        split; [|eauto]. apply (lseg_fnx_in fn Hfl). simpl; auto. }
    assert (Hfna : fn <> a).
    { destruct Hfn as [[_ [fl' ->]]|[-> _]]; [|lia]. intros E. apply Hafl. rewrite E. simpl; auto. }
    assert (Hlen3 : length ns3 = length (gnodes g)) by (unfold ns3; apply upd_length).
    assert (Hlen4 : length (gnodes g4) = length (gnodes g)).
    { unfold g4. cbn [gnodes]. rewrite <- (map_length (@nwt _)), set_hd_nwt, map_length. auto. }
    assert (Hmw : map (@nwt _) (gnodes g4) = map (@nwt _) (gnodes g)).
    { unfold g4. cbn [gnodes]. rewrite set_hd_nwt. unfold ns3. rewrite map_upd.
      cbn [nwt set_nnext]. apply list_ext. intros j. rewrite nth_error_upd, map_length.
      destruct (Nat.eqb_spec a j) as [<-|]; auto.
      destruct (Nat.ltb_spec a (length (gnodes g))); [|lia].
      rewrite nth_error_map, Hn2. reflexivity. }
    assert (Hnw : forall j, nwo g4 j = nwo g j).
    { intros j. rewrite (nwo_map g4 j), Hmw, <- nwo_map. reflexivity. }
    assert (Hoth : forall j, j <> a -> j <> fn -> nth_error (gnodes g4) j = nth_error (gnodes g) j).
    { intros j H1 H2. unfold g4. cbn [gnodes]. unfold set_hd. destruct (nth_error ns3 fn) as [nn|].
      - rewrite nth_error_upd_neq by auto. unfold ns3. apply nth_error_upd_neq. auto.
      - unfold ns3. apply nth_error_upd_neq. auto. }
    assert (Hnodea : nth_error (gnodes g4) a = Some (set_nnext n2 (fn, cap))).
    { unfold g4. cbn [gnodes]. unfold set_hd. destruct (nth_error ns3 fn) as [nn|].
      - rewrite nth_error_upd_neq by auto. unfold ns3. apply nth_error_upd_eq. auto.
      - unfold ns3. apply nth_error_upd_eq. auto. }
    assert (Hh0 : forall j, j <> a -> hdn (gnodes g4) 0 j = hdn (gnodes g) 0 j).
    { intros j Hj. unfold g4. cbn [gnodes]. change 0 with (1 - 1) at 1. rewrite hdn_set_hd_other.
      simpl. apply hdn_same. unfold ns3. apply nth_error_upd_neq. auto. }
    assert (Hlv_oth : forall j, j <> a -> lv (Some a) g j -> j <> fn).
    { intros j Hja [Hj|[Hj _]]; [|congruence]. intros ->.
      destruct Hfn as [[_ [fl' ->]]|[-> _]].
      - destruct (lseg_fnx_in fn Hfl) as [_ Hv]; [simpl; auto|]. contradiction.
      - apply Hj. apply nwo_oob. auto. }
    assert (Hadj_oth : forall k j l, j <> a -> lv (Some a) g j -> adj g k j l -> adj g4 k j l).
    { intros k j l Hja Lj [n [Hn Hl]]. exists n. split; auto.
      rewrite Hoth; auto. }
    assert (Hno_inc : forall k x, ewo g x <> None -> epo (gedges g) k x <> Some a).
    { intros k x Hx Hep.
      assert (La : lv (Some a) g a) by (right; auto).
      assert (Hemp : adj g k a []) by (destruct k; auto).
      apply (proj2 (GI_adj_in x (si_g I) La Hemp)). auto. }
    split; [|split; auto].
    constructor; cbn [sg ncount ecount free_node free_edge].
    - constructor.
      + rewrite Hlen4. auto.
      + apply (sgi_ecap (si_g I)).
      + intros k x i Hx Hep. apply lv_None. rewrite Hnw.
        pose proof (sgi_ends (si_g I) k x Hx Hep) as [Hl|[Hl _]]; auto.
        injection Hl as ->. exfalso. apply (Hno_inc k x); auto.
      + intros k i Li. apply lv_None in Li. rewrite Hnw in Li.
        assert (Hia : i <> a) by (intros ->; contradiction).
        assert (Li' : lv (Some a) g i) by (left; auto).
        destruct (sgi_adj (si_g I) k Li') as [l [Hl C]].
        exists l. split; auto.
    - intros x H. discriminate.
    - rewrite Hmw. rewrite (si_nc I). fold g. cbn [osome]. lia.
    - apply (si_ec I).
    - exists (a :: fl). split; [|split].
      + econstructor.
        * unfold fnx. rewrite Hnodea. cbn [nwt set_nnext nnext fst].
          rewrite (nwo_nth _ _ Hn2) in Hva. rewrite Hva. reflexivity.
        * eapply lseg_frame; [exact Hfl|]. intros x Hx. apply fnx_same2.
          -- rewrite Hmw. reflexivity.
          -- apply Hh0. intros ->. contradiction.
      + split.
        * unfold hdn. rewrite Hnodea. reflexivity.
        * destruct Hfn as [[Hfnlt [fl' ->]]|[_ ->]]; [|exact Logic.I].
          destruct Hfb as [_ Hfb']. split.
          -- unfold g4. cbn [gnodes]. apply hdn_set_hd_same. rewrite Hlen3. auto.
          -- eapply bkp_frame; [|exact Hfb']. intros x Hx. apply hdn_same. apply Hoth.
             ++ intros ->. apply Hafl. simpl; auto.
             ++ intros ->. inversion Hnd; auto.
      + intros i. rewrite Hlen4, Hnw. pose proof (Cf i) as Ci. simpl.
        destruct (Nat.eq_dec a i) as [<-|Hne].
        * split; [|auto]. intros _. split; auto. split; auto. discriminate.
        * split.
          -- intros [H|H]; [contradiction|]. apply Ci in H. destruct H as [H1 [H2 _]].
             split; auto. split; auto. discriminate.
          -- intros [H1 [H2 _]]. right. apply Ci. split; auto. split; auto. congruence.
    - apply (@FEL_same_edges cap g g4); [reflexivity|apply (si_fe I)].
  Qed.

  Record rn_post (s : sgraph) (a : nat) (s' : sgraph) : Prop := {
    rn_nodes : forall j, nwo (sg s') j = if Nat.eqb j a then None else nwo (sg s) j;
    rn_nlen : length (gnodes (sg s')) = length (gnodes (sg s));
    rn_elen : length (gedges (sg s')) = length (gedges (sg s));
    rn_ewo : forall x, ewo (sg s') x = if incb (sg s) a x then None else ewo (sg s) x;
    rn_epo : forall k x, incb (sg s) a x = false ->
               epo (gedges (sg s')) k x = epo (gedges (sg s)) k x;
    rn_adj : forall k i l, i <> a -> nwo (sg s) i <> None -> adj (sg s) k i l ->
               adj (sg s') k i (filter (fun x => negb (incb (sg s) a x)) l);
    rn_nc : S (ncount s') = ncount s
  }.

  Lemma s_remove_node_none s a :
    nwo (sg s) a = None -> s_remove_node cap debug s a = Ok (None, s).
  Proof.
    intros H. unfold s_remove_node. unfold nwo in H.
    destruct (nth_error (gnodes (sg s)) a) as [n|]; auto. rewrite H. reflexivity.
  Qed.

  Theorem s_remove_node_spec s a w :
    SInv cap s -> nwo (sg s) a = Some w ->
    exists s', s_remove_node cap debug s a = Ok (Some w, s') /\ SInv cap s' /\ rn_post s a s'.
  Proof.
    intros I Hw. set (g := sg s) in *.
    assert (Hlive : nwo g a <> None) by congruence.
    pose proof (nwo_Some_lt g a Hlive) as Ha.
    destruct (nth_error_lt_Some _ Ha) as [n Hn].
    assert (Hwt : nwt n = Some w) by (rewrite <- (nwo_nth _ _ Hn); auto).
    destruct (@take_weight s a n w I Hn Hwt) as [I0 [Hnw0 [Hlv0 Hadj0]]]. fold g in I0, Hnw0, Hlv0, Hadj0.
    set (g0 := mkGraph (upd (gnodes g) a (mkNode None (nnext n))) (gedges g) : IG) in *.
    set (s0 := with_g s g0) in *.
    assert (La0 : lv (Some a) (sg s0) a) by (apply Hlv0; auto).
    (* the two lists of a *)
    destruct (sgi_adj (si_g I) 0 (proj2 (lv_None g a) Hlive)) as [l0 [Hl0 C0]]. fold g in Hl0, C0.
    destruct (sgi_adj (si_g I) 1 (proj2 (lv_None g a) Hlive)) as [l1 [Hl1 C1]]. fold g in Hl1, C1.
    pose proof (sgi_ecap (si_g I)) as Hecap. fold g in Hecap.
    assert (Hf0 : length l0 < S (length (gedges g0))).
    { pose proof (adj_length Hecap Hl0). unfold g0. cbn [gedges]. lia. }
    destruct (@s_drain_spec (Some a) 0 a l0 (S (length (gedges g0))) s0 I0 La0
                (proj1 (Hadj0 0 a l0) Hl0) Hf0) as [s1 [Hrun1 [I1 [R1 [He1 Hlen1]]]]].
    assert (La1 : lv (Some a) (sg s1) a) by (apply (Rm_lv a R1); auto).
    assert (Hl1' : adj (sg s1) 1 a (filter (fun x => negb (memb l0 x)) l1)).
    { apply (rm_adj R1); auto. apply Hadj0. auto. }
    assert (Hf1 : length (filter (fun x => negb (memb l0 x)) l1) < S (length (gedges g0))).
    { pose proof (adj_length Hecap Hl1). pose proof (filter_length_le' (fun x => negb (memb l0 x)) l1).
      unfold g0. cbn [gedges]. lia. }
    destruct (@s_drain_spec (Some a) 1 a _ (S (length (gedges g0))) s1 I1 La1 Hl1' Hf1)
      as [s2 [Hrun2 [I2 [R2 [He2 Hlen2]]]]].
    pose proof (Rm_trans R1 R2) as R12.
    assert (Hout2 : adj (sg s2) 0 a []).
    { pose proof (rm_adj R2 La1 He1) as H. simpl in H. exact H. }
    assert (Hnl2 : length (gnodes (sg s2)) = length (gnodes g)).
    { rewrite (rm_nlen R12). unfold s0, g0. cbn [with_g sg gnodes]. apply upd_length. }
    assert (Ha2 : a < length (gnodes (sg s2))) by lia.
    destruct (nth_error_lt_Some _ Ha2) as [n2 Hn2].
    destruct (@push_free s2 a n2 I2 Hn2 Hout2 He2) as [I' [Hnw' Hadj']].
    set (ns3 := upd (gnodes (sg s2)) a (set_nnext n2 (free_node s2, cap))) in *.
    set (g4 := mkGraph (set_hd ns3 1 (free_node s2) a) (gedges (sg s2)) : IG) in *.
    assert (Hrun : s_remove_node cap debug s a =
                   Ok (Some w, mkSG g4 (ncount s2 - 1) (ecount s2) a (free_edge s2))).
    { unfold s_remove_node. fold g. rewrite Hn, Hwt. unfold upd_node at 1. rewrite Hn. cbn [rbind].
      fold g0 s0. rewrite Hrun1. cbn [rbind]. rewrite Hrun2. cbn [rbind].
      unfold upd_node at 1. rewrite Hn2. cbn [rbind]. fold ns3.
      rewrite (@upd_back_ptr cap (mkGraph ns3 (gedges (sg s2))) (free_node s2) a).
      - cbn [rbind gnodes gedges]. reflexivity.
      - cbn [gnodes]. unfold ns3. rewrite upd_length. apply (sgi_ncap (si_g I2)).
      - cbn [gnodes]. unfold ns3. rewrite upd_length.
        destruct (si_fn I2) as [fl [Hfl _]].
        destruct fl as [|y fl'].
        + right. apply lseg_nil_inv in Hfl. auto.
        + left. pose proof Hfl as Hfl2. apply lseg_cons_inv in Hfl2. destruct Hfl2 as [-> _].
          apply (lseg_fnx_in (free_node s2) Hfl). simpl; auto. }
    rewrite Hrun. eexists; split; [reflexivity|]. split; [exact I'|].
    (* the removed set is the set of incident live edges *)
    assert (HP : forall x, orb (memb l0 x) (memb (filter (fun y => negb (memb l0 y)) l1) x) = incb g a x).
    { intros x. apply eq_true_iff_eq. rewrite orb_true_iff, !memb_In, filter_In, incb_true.
      rewrite negb_true_iff, memb_false, C0, C1. split.
      - intros [[H1 H2]|[[H1 H2] _]]; split; auto.
      - intros [H1 [H2|H2]]; [left; auto|].
        destruct (in_dec Nat.eq_dec x l0) as [Hin|Hin].
        + left. apply C0. auto.
        + right. split; auto. intros Hc. apply Hin. apply C0. auto. }
    pose proof (@Rm_ext _ _ (incb g a) _ _ HP R12) as R.
    constructor; cbn [sg ncount].
    - intros j. rewrite Hnw', (rm_nodes R). apply Hnw0.
    - unfold g4. cbn [gnodes]. rewrite <- (map_length (@nwt _)), set_hd_nwt, map_length.
      unfold ns3. rewrite upd_length. auto.
    - unfold g4. cbn [gedges]. rewrite (rm_elen R). reflexivity.
    - intros x. unfold g4 at 1. unfold ewo at 1. cbn [gedges]. fold (ewo (sg s2) x).
      rewrite (rm_ewo R). reflexivity.
    - intros k x Hx. unfold g4. cbn [gedges]. rewrite (rm_epo R); auto.
    - intros k i l Hia Li Hl. apply Hadj'; auto.
      + apply (Rm_lv i R). apply Hlv0. auto.
      + apply (rm_adj R).
        * apply Hlv0. auto.
        * apply Hadj0. auto.
    - rewrite (rm_nc R). unfold s0. cbn [with_g ncount].
      pose proof (si_nc I0) as H. unfold s0 in H. cbn [with_g ncount osome] in H. lia.
  Qed.
End StableRN.
