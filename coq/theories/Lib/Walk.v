(* Walks along a partial successor function [nx : nat -> option nat]:
   the explicit list of the slots visited by an intrusive singly linked list.
   [lseg nx h l t]  : starting at h, following nx, the slots visited are exactly l and
                      the pointer that comes after the last slot is t (t itself not visited).
   [chainP nx h l]  : the walk from h visits exactly l and then falls off ([nx] undefined). *)
From PG Require Import Lib.ListArr.
Set Implicit Arguments.

Inductive lseg (nx : nat -> option nat) : nat -> list nat -> nat -> Prop :=
| lseg_nil h : lseg nx h [] h
| lseg_cons h h' l t : nx h = Some h' -> lseg nx h' l t -> lseg nx h (h :: l) t.

Inductive chainP (nx : nat -> option nat) : nat -> list nat -> Prop :=
| chainP_nil h : nx h = None -> chainP nx h []
| chainP_cons h h' l : nx h = Some h' -> chainP nx h' l -> chainP nx h (h :: l).

Section Walk.
  Variable nx : nat -> option nat.

  Lemma lseg_nil_inv h t : lseg nx h [] t -> h = t.
  Proof. intros H; inversion H; auto. Qed.

  Lemma lseg_cons_inv h x l t :
    lseg nx h (x :: l) t -> x = h /\ exists h', nx h = Some h' /\ lseg nx h' l t.
  Proof. intros H; inversion H; subst; eauto. Qed.

  Lemma lseg_app h l1 m l2 t : lseg nx h l1 m -> lseg nx m l2 t -> lseg nx h (l1 ++ l2) t.
  Proof.
    intros H1 H2; induction H1 as [h | h h' l m Hh Hl IH]; simpl; auto.
    econstructor; eauto.
  Qed.

  Lemma lseg_split l1 : forall h l2 t,
    lseg nx h (l1 ++ l2) t -> exists m, lseg nx h l1 m /\ lseg nx m l2 t.
  Proof.
    induction l1 as [|x l1 IH]; intros h l2 t H; simpl in H.
    - exists h; split; auto. constructor.
    - apply lseg_cons_inv in H. destruct H as [-> [h' [Hh Hl]]].
      destruct (IH _ _ _ Hl) as [m [Hm1 Hm2]].
      exists m; split; auto. econstructor; eauto.
  Qed.

  Lemma lseg_snoc h l p t : lseg nx h l p -> nx p = Some t -> lseg nx h (l ++ [p]) t.
  Proof.
    intros H Hp. eapply lseg_app; eauto. econstructor; eauto. constructor.
  Qed.

  Lemma lseg_snoc_inv h l p t : lseg nx h (l ++ [p]) t -> lseg nx h l p /\ nx p = Some t.
  Proof.
    intros H. apply lseg_split in H. destruct H as [m [H1 H2]].
    apply lseg_cons_inv in H2. destruct H2 as [-> [h' [Hh Hn]]].
    apply lseg_nil_inv in Hn. subst h'. auto.
  Qed.

  Lemma lseg_in_some h l t x : lseg nx h l t -> In x l -> exists y, nx x = Some y.
  Proof.
    intros H; induction H as [h | h h' l t Hh Hl IH]; intros Hin; simpl in Hin.
    - contradiction.
    - destruct Hin as [<-|Hin]; eauto.
  Qed.

  Lemma lseg_stop_notin h l t : nx t = None -> lseg nx h l t -> ~ In t l.
  Proof.
    intros Ht H Hin. destruct (lseg_in_some t H Hin) as [y Hy]. congruence.
  Qed.

  Lemma lseg_det t : nx t = None ->
    forall h l1 l2, lseg nx h l1 t -> lseg nx h l2 t -> l1 = l2.
  Proof.
    intros Ht h l1 l2 H1; revert l2.
    induction H1 as [h | h h' l t Hh Hl IH]; intros l2 H2.
    - destruct l2 as [|x l2]; auto.
      apply lseg_cons_inv in H2. destruct H2 as [_ [h' [Hh _]]]. congruence.
    - destruct l2 as [|x l2].
      + apply lseg_nil_inv in H2. subst. congruence.
      + apply lseg_cons_inv in H2. destruct H2 as [-> [h2 [Hh2 Hl2]]].
        f_equal. apply IH; auto. congruence.
  Qed.

  Lemma lseg_suffix h l1 x l2 t : lseg nx h (l1 ++ x :: l2) t -> lseg nx x (x :: l2) t.
  Proof.
    intros H. apply lseg_split in H. destruct H as [m [_ H2]].
    pose proof (lseg_cons_inv H2) as [-> _]. auto.
  Qed.

  Lemma lseg_NoDup h l t : nx t = None -> lseg nx h l t -> NoDup l.
  Proof.
    intros Ht H; induction H as [h | h h' l t Hh Hl IH].
    - constructor.
    - constructor; auto.
      intros Hin. apply in_split in Hin. destruct Hin as [l1 [l2 ->]].
      pose proof (lseg_suffix l1 h l2 Hl) as Hs.
      assert (Hfull : lseg nx h (h :: l1 ++ h :: l2) t) by (econstructor; eauto).
      pose proof (lseg_det Ht Hs Hfull) as E.
      apply (f_equal (@length nat)) in E. simpl in E. rewrite app_length in E. simpl in E. lia.
  Qed.

  Lemma lseg_none_start h l t : nx h = None -> lseg nx h l t -> l = [] /\ t = h.
  Proof.
    intros Hh H. destruct l as [|x l].
    - apply lseg_nil_inv in H. auto.
    - apply lseg_cons_inv in H. destruct H as [_ [h' [Hh' _]]]. congruence.
  Qed.

  Lemma lseg_head_in h l t : lseg nx h l t -> l <> [] -> exists l', l = h :: l'.
  Proof.
    intros H Hn. destruct l as [|x l]; [congruence|].
    apply lseg_cons_inv in H. destruct H as [-> _]. eauto.
  Qed.

  Lemma chainP_lseg h l : chainP nx h l <-> exists t, lseg nx h l t /\ nx t = None.
  Proof.
    split.
    - intros H; induction H as [h Hh | h h' l Hh Hl [t [IH1 IH2]]].
      + exists h; split; auto. constructor.
      + exists t; split; auto. econstructor; eauto.
    - intros [t [H Ht]]. induction H as [h | h h' l t Hh Hl IH].
      + constructor; auto.
      + econstructor; eauto.
  Qed.

  Lemma chainP_det h l1 l2 : chainP nx h l1 -> chainP nx h l2 -> l1 = l2.
  Proof.
    intros H1; revert l2. induction H1 as [h Hh | h h' l Hh Hl IH]; intros l2 H2;
      inversion H2; subst; try congruence.
    f_equal. apply IH. congruence.
  Qed.

  Lemma chainP_NoDup h l : chainP nx h l -> NoDup l.
  Proof.
    intros H. apply chainP_lseg in H. destruct H as [t [H Ht]]. eapply lseg_NoDup; eauto.
  Qed.
End Walk.

(* Frame: a walk only depends on the successor function at the slots it visits. *)
Lemma lseg_frame nx nx' h l t :
  lseg nx h l t -> (forall x, In x l -> nx' x = nx x) -> lseg nx' h l t.
Proof.
  intros H; induction H as [h | h h' l t Hh Hl IH]; intros F.
  - constructor.
  - econstructor.
    + rewrite F; simpl; eauto.
    + apply IH. intros x Hx. apply F. simpl; auto.
Qed.

Lemma lseg_ext nx nx' h l t :
  (forall x, nx' x = nx x) -> lseg nx h l t -> lseg nx' h l t.
Proof. intros E H. eapply lseg_frame; eauto. Qed.

(* Unlinking / redirecting: the pointer that reaches [e] after the prefix l1 is redirected to v,
   from which l2 is walked.  Case "the pointer is a slot p = last l1". *)
Lemma lseg_redirect nx nx' h l1 p e v l2 t :
  lseg nx h (l1 ++ [p]) e -> lseg nx v l2 t ->
  ~ In p l1 -> ~ In p l2 ->
  nx' p = Some v -> (forall x, x <> p -> nx' x = nx x) ->
  lseg nx' h ((l1 ++ [p]) ++ l2) t.
Proof.
  intros H1 H2 N1 N2 Hp F.
  apply lseg_snoc_inv in H1. destruct H1 as [H1 _].
  eapply lseg_app.
  - eapply lseg_snoc; eauto.
    eapply lseg_frame; eauto. intros x Hx. apply F. intros ->; contradiction.
  - eapply lseg_frame; eauto. intros x Hx. apply F. intros ->; contradiction.
Qed.

(* Elements of a duplicate-free list of slots below n: at most n of them. *)
Lemma NoDup_bounded_length (l : list nat) n :
  NoDup l -> (forall x, In x l -> x < n) -> length l <= n.
Proof.
  intros Hnd Hb. rewrite <- (seq_length n 0).
  apply NoDup_incl_length; auto.
  intros x Hx. apply in_seq. specialize (Hb x Hx). lia.
Qed.

(* list surgery used by the removal theorems *)
Definition ren (m e x : nat) : nat := if Nat.eqb x m then e else x.

Lemma ren_same m x : ren m m x = x.
Proof. unfold ren. destruct (Nat.eqb_spec x m); congruence. Qed.

Lemma map_ren_notin m e l : ~ In m l -> map (ren m e) l = l.
Proof.
  induction l as [|x l IH]; intros Hn; simpl; auto.
  rewrite IH by (intros H; apply Hn; simpl; auto).
  unfold ren. destruct (Nat.eqb_spec x m) as [->|]; auto.
  exfalso; apply Hn; simpl; auto.
Qed.

Lemma map_ren_split m e l1 l2 :
  ~ In m l1 -> ~ In m l2 -> map (ren m e) (l1 ++ m :: l2) = l1 ++ e :: l2.
Proof.
  intros H1 H2. rewrite map_app. simpl. rewrite !map_ren_notin by auto.
  unfold ren. rewrite Nat.eqb_refl. auto.
Qed.

Lemma remove_notin (e : nat) l : ~ In e l -> remove Nat.eq_dec e l = l.
Proof. intros H. apply notin_remove; auto. Qed.

Lemma remove_split (e : nat) l1 l2 :
  ~ In e l1 -> ~ In e l2 -> remove Nat.eq_dec e (l1 ++ e :: l2) = l1 ++ l2.
Proof.
  intros H1 H2. rewrite remove_app. simpl.
  destruct (Nat.eq_dec e e) as [_|N]; [|congruence].
  rewrite !remove_notin; auto.
Qed.

Lemma NoDup_split_notin (x : nat) l1 l2 : NoDup (l1 ++ x :: l2) -> ~ In x l1 /\ ~ In x l2.
Proof.
  intros H. apply NoDup_remove_2 in H. split; intros Hin; apply H; apply in_or_app; auto.
Qed.

Lemma NoDup_insert (x : nat) l1 l2 :
  NoDup (l1 ++ l2) -> ~ In x l1 -> ~ In x l2 -> NoDup (l1 ++ x :: l2).
Proof.
  intros H H1 H2. apply (NoDup_Add (Add_app x l1 l2)). split; auto.
  intros Hin. apply in_app_or in Hin. tauto.
Qed.

Lemma NoDup_remove_nat (e : nat) l : NoDup l -> NoDup (remove Nat.eq_dec e l).
Proof.
  intros H. induction H as [|x l Hx Hl IH]; simpl; [constructor|].
  destruct (Nat.eq_dec e x); auto. constructor; auto.
  intros Hin. apply in_remove in Hin. tauto.
Qed.

Lemma NoDup_app_l {A} (l1 l2 : list A) : NoDup (l1 ++ l2) -> NoDup l1.
Proof.
  induction l1 as [|x l1 IH]; simpl; intros H; [constructor|].
  inversion H as [|y l Hy Hl]; subst. constructor; auto.
  intros Hin. apply Hy. apply in_or_app; auto.
Qed.

Lemma NoDup_app_r {A} (l1 l2 : list A) : NoDup (l1 ++ l2) -> NoDup l2.
Proof.
  induction l1 as [|x l1 IH]; simpl; intros H; auto.
  inversion H; subst. auto.
Qed.
