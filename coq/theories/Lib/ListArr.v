(* Lists used as arrays: checked get / set, results with panics and fuel. *)
From Coq Require Export List Arith Lia Bool.
Export ListNotations.

Set Implicit Arguments.

(* Outcome of a model function: a value, a panic (the Rust code would panic or
   index out of bounds), or fuel exhaustion (a model artefact that every
   theorem proves unreachable). *)
Inductive res (A : Type) : Type :=
| Ok (a : A)
| Panic
| OutOfFuel.
Arguments Panic {A}.
Arguments OutOfFuel {A}.

Definition rbind {A B} (r : res A) (f : A -> res B) : res B :=
  match r with Ok a => f a | Panic => Panic | OutOfFuel => OutOfFuel end.
Definition rmap {A B} (f : A -> B) (r : res A) : res B :=
  match r with Ok a => Ok (f a) | Panic => Panic | OutOfFuel => OutOfFuel end.

Fixpoint upd {A} (l : list A) (i : nat) (v : A) : list A :=
  match l, i with
  | [], _ => []
  | _ :: t, 0 => v :: t
  | h :: t, S j => h :: upd t j v
  end.

Lemma upd_length {A} (l : list A) i v : length (upd l i v) = length l.
Proof. revert i; induction l as [|h t IH]; intros [|i]; simpl; auto. Qed.

Lemma nth_error_upd_eq {A} (l : list A) i v :
  i < length l -> nth_error (upd l i v) i = Some v.
Proof.
  revert i; induction l as [|h t IH]; intros [|i] H; simpl in *; try lia; auto.
  apply IH; lia.
Qed.

Lemma nth_error_upd_neq {A} (l : list A) i j v :
  i <> j -> nth_error (upd l i v) j = nth_error l j.
Proof.
  revert i j; induction l as [|h t IH]; intros [|i] [|j] H; simpl; auto; try lia.
Qed.

Lemma nth_error_upd {A} (l : list A) i j v :
  nth_error (upd l i v) j =
  if Nat.eqb i j then (if Nat.ltb i (length l) then Some v else None) else nth_error l j.
Proof.
  destruct (Nat.eqb_spec i j) as [->|Hn].
  - destruct (Nat.ltb_spec j (length l)) as [Hl|Hl].
    + apply nth_error_upd_eq; auto.
    + apply nth_error_None. rewrite upd_length; auto.
  - apply nth_error_upd_neq; auto.
Qed.

Lemma upd_oob {A} (l : list A) i v : length l <= i -> upd l i v = l.
Proof.
  revert i; induction l as [|h t IH]; intros [|i] H; simpl in *; auto; try lia.
  f_equal; apply IH; lia.
Qed.

Lemma upd_same {A} (l : list A) i v : nth_error l i = Some v -> upd l i v = l.
Proof.
  revert i; induction l as [|h t IH]; intros [|i] H; simpl in *; auto; try discriminate.
  - congruence.
  - f_equal; auto.
Qed.

Lemma nth_error_Some_lt {A} (l : list A) i x : nth_error l i = Some x -> i < length l.
Proof. intros H; apply nth_error_Some; congruence. Qed.

Lemma nth_error_lt_Some {A} (l : list A) i : i < length l -> exists x, nth_error l i = Some x.
Proof.
  intros H. destruct (nth_error l i) eqn:E; eauto.
  apply nth_error_None in E; lia.
Qed.

Lemma nth_error_nth_default {A} (l : list A) i d x : nth_error l i = Some x -> nth i l d = x.
Proof. intros; apply nth_error_nth; auto. Qed.

Lemma nth_upd {A} (l : list A) i j v d :
  nth j (upd l i v) d = if andb (Nat.eqb i j) (Nat.ltb i (length l)) then v else nth j l d.
Proof.
  revert i j; induction l as [|h t IH]; intros [|i] [|j]; simpl; auto.
  - rewrite andb_false_r; auto.
  - rewrite IH. reflexivity.
Qed.

Lemma nth_error_seq0 n i : i < n -> nth_error (seq 0 n) i = Some i.
Proof.
  intros H. rewrite (nth_error_nth' _ 0) by (rewrite seq_length; auto).
  rewrite seq_nth; auto.
Qed.

Lemma nth_error_repeat {A} (a : A) n i : i < n -> nth_error (repeat a n) i = Some a.
Proof.
  revert i; induction n as [|n IH]; intros [|i] H; simpl; try lia; auto.
  apply IH; lia.
Qed.

Lemma list_max_nth l i : nth i l 0 <= list_max l.
Proof.
  revert i; induction l as [|h t IH]; intros [|i]; simpl; try lia.
  specialize (IH i); lia.
Qed.
