(* The line grammar shared by the Rust harness and the extracted models:
   an operation is (opcode, numbers), an observation line is (tag, numbers). *)
From Coq Require Export ZArith List.
From PG Require Export Lib.ListArr.

Definition line : Type := (nat * list Z)%type.

Definition zn (n : nat) : Z := Z.of_nat n.
Definition nz (z : Z) : nat := Z.to_nat z.
Definition zb (b : bool) : Z := if b then 1%Z else 0%Z.
Definition zns (l : list nat) : list Z := map zn l.

Definition arg (l : list Z) (i : nat) : nat := nz (nth i l 0%Z).
Definition argz (l : list Z) (i : nat) : Z := nth i l 0%Z.
