(* List lemmas used by the Csr / adj::List proofs: pointwise reasoning with
   nth_error, segments, insertion, strictly ascending lists. *)
From Coq Require Export List Arith Lia Bool Sorted.
From PG Require Export Lib.ListArr.
Export ListNotations.

(* ------------------------------------------------------------------ *)
(* case analysis on boolean comparisons                                *)

Ltac bcases :=
  repeat match goal with
  | |- context [Nat.ltb ?a ?b] => destruct (Nat.ltb_spec a b)
  | |- context [Nat.leb ?a ?b] => destruct (Nat.leb_spec a b)
  | |- context [Nat.eqb ?a ?b] => destruct (Nat.eqb_spec a b)
  end.

(* split conjunctions only (never a record such as an invariant) *)
Ltac splits := repeat match goal with |- _ /\ _ => split end.

(* injectivity of Some without the reductions [injection] performs *)
Lemma Some_inj {A} (a b : A) : Some a = Some b -> a = b.
Proof. congruence. Qed.

(* ------------------------------------------------------------------ *)
(* extensionality, firstn, skipn                                       *)

Lemma list_ext {A} (l1 l2 : list A) :
  (forall i, nth_error l1 i = nth_error l2 i) -> l1 = l2.
Proof.
  revert l2; induction l1 as [|h t IH]; intros [|h2 t2] H; auto.
  - specialize (H 0); discriminate.
  - specialize (H 0); discriminate.
  - f_equal.
    + specialize (H 0); simpl in H; congruence.
    + apply IH; intros i; apply (H (S i)).
Qed.

Lemma nth_error_firstn' {A} (l : list A) k i :
  nth_error (firstn k l) i = if Nat.ltb i k then nth_error l i else None.
Proof.
  revert k i; induction l as [|h t IH]; intros [|k] [|i]; simpl; auto.
  - destruct (Nat.ltb (S i) (S k)); auto.
  - rewrite IH. reflexivity.
Qed.

Lemma nth_error_skipn' {A} (l : list A) s i :
  nth_error (skipn s l) i = nth_error l (s + i).
Proof.
  revert l; induction s as [|s IH]; intros [|h t]; simpl; auto.
  destruct i; auto.
Qed.

Lemma nth_error_app {A} (l1 l2 : list A) i :
  nth_error (l1 ++ l2) i =
  if Nat.ltb i (length l1) then nth_error l1 i else nth_error l2 (i - length l1).
Proof.
  destruct (Nat.ltb_spec i (length l1)) as [H|H].
  - apply nth_error_app1; auto.
  - apply nth_error_app2; auto.
Qed.

Lemma nth_error_oob {A} (l : list A) i : length l <= i -> nth_error l i = None.
Proof. intros H; apply nth_error_None; auto. Qed.

Lemma nth_error_In' {A} (l : list A) x : In x l <-> exists i, nth_error l i = Some x.
Proof.
  split.
  - intros H; apply In_nth_error; auto.
  - intros [i H]; eapply nth_error_In; eauto.
Qed.

(* ------------------------------------------------------------------ *)
(* segments  l[s..e]                                                   *)

Definition seg {A} (l : list A) (s e : nat) : list A := firstn (e - s) (skipn s l).

Lemma nth_error_seg {A} (l : list A) s e i :
  nth_error (seg l s e) i = if Nat.ltb i (e - s) then nth_error l (s + i) else None.
Proof. unfold seg. rewrite nth_error_firstn', nth_error_skipn'. reflexivity. Qed.

Lemma seg_length {A} (l : list A) s e :
  s <= e -> e <= length l -> length (seg l s e) = e - s.
Proof.
  intros H1 H2. unfold seg. rewrite firstn_length, skipn_length. lia.
Qed.

Lemma seg_nil {A} (l : list A) s : seg l s s = [].
Proof. unfold seg. rewrite Nat.sub_diag. reflexivity. Qed.

Lemma seg_In {A} (l : list A) s e x : In x (seg l s e) -> In x l.
Proof.
  intros H. apply nth_error_In' in H. destruct H as [i H].
  rewrite nth_error_seg in H. destruct (Nat.ltb i (e - s)); try discriminate.
  eapply nth_error_In; eauto.
Qed.

(* ------------------------------------------------------------------ *)
(* insertion  Vec::insert(p, x)                                        *)

Definition ins {A} (l : list A) (p : nat) (x : A) : list A := firstn p l ++ x :: skipn p l.

Lemma ins_length {A} (l : list A) p x : length (ins l p x) = S (length l).
Proof.
  unfold ins. rewrite app_length. simpl.
  rewrite <- (firstn_skipn p l) at 3. rewrite app_length. lia.
Qed.

Lemma nth_error_ins {A} (l : list A) p x j : p <= length l ->
  nth_error (ins l p x) j =
  if Nat.ltb j p then nth_error l j else if Nat.eqb j p then Some x else nth_error l (j - 1).
Proof.
  intros Hp. unfold ins. rewrite nth_error_app, firstn_length.
  replace (Init.Nat.min p (length l)) with p by lia.
  destruct (Nat.ltb_spec j p) as [H|H].
  - rewrite nth_error_firstn'. destruct (Nat.ltb_spec j p); auto; lia.
  - destruct (Nat.eqb_spec j p) as [->|Hn].
    + rewrite Nat.sub_diag. reflexivity.
    + destruct (j - p) as [|k] eqn:E; try lia. simpl.
      rewrite nth_error_skipn'. f_equal; lia.
Qed.

Lemma In_ins {A} (l : list A) p x y : In y (ins l p x) <-> y = x \/ In y l.
Proof.
  unfold ins. rewrite in_app_iff. simpl.
  rewrite <- (firstn_skipn p l) at 3. rewrite in_app_iff.
  split; intros H; repeat destruct H as [H|H]; auto.
Qed.

Lemma map_ins {A B} (f : A -> B) (l : list A) p x : map f (ins l p x) = ins (map f l) p (f x).
Proof.
  unfold ins. rewrite map_app. simpl. rewrite firstn_map, skipn_map. reflexivity.
Qed.

Lemma seg_ins_before {A} (l : list A) p x s e :
  e <= p -> p <= length l -> seg (ins l p x) s e = seg l s e.
Proof.
  intros H1 H2. apply list_ext; intros i.
  rewrite !nth_error_seg, nth_error_ins by auto.
  bcases; auto; lia.
Qed.

Lemma seg_ins_after {A} (l : list A) p x s e :
  p <= s -> p <= length l -> seg (ins l p x) (S s) (S e) = seg l s e.
Proof.
  intros H1 H2. apply list_ext; intros i.
  rewrite !nth_error_seg, nth_error_ins by auto.
  bcases; auto; try lia. f_equal; lia.
Qed.

Lemma seg_ins_in {A} (l : list A) p x s e :
  s <= p -> p <= e -> e <= length l -> seg (ins l p x) s (S e) = ins (seg l s e) (p - s) x.
Proof.
  intros H1 H2 H3. apply list_ext; intros i.
  rewrite nth_error_ins by (rewrite seg_length; lia).
  rewrite !nth_error_seg, nth_error_ins by lia.
  bcases; auto; try lia. f_equal; lia.
Qed.

(* ------------------------------------------------------------------ *)
(* strictly ascending lists                                            *)

Notation ascending := (StronglySorted lt).

Lemma ascending_nth l : ascending l <->
  (forall i j x y, i < j -> nth_error l i = Some x -> nth_error l j = Some y -> x < y).
Proof.
  split.
  - intros H; induction H as [|a l Hs IH Hf]; intros i j x y Hij Hi Hj.
    + destruct i; discriminate.
    + destruct j as [|j]; try lia. simpl in Hj.
      destruct i as [|i]; simpl in Hi.
      * inversion Hi; subst. rewrite Forall_forall in Hf. apply Hf.
        eapply nth_error_In; eauto.
      * eapply IH; [| eauto | eauto]. lia.
  - induction l as [|a l IH]; intros H; constructor.
    + apply IH. intros i j x y Hij Hi Hj. apply (H (S i) (S j)); auto. lia.
    + rewrite Forall_forall. intros y Hy. apply nth_error_In' in Hy. destruct Hy as [j Hj].
      apply (H 0 (S j)); auto. lia.
Qed.

Lemma ascending_nil : ascending [].
Proof. constructor. Qed.

Lemma ascending_inj l i j x : ascending l ->
  nth_error l i = Some x -> nth_error l j = Some x -> i = j.
Proof.
  intros H Hi Hj. rewrite ascending_nth in H.
  destruct (Nat.lt_trichotomy i j) as [L|[E|L]]; auto.
  - specialize (H _ _ _ _ L Hi Hj). lia.
  - specialize (H _ _ _ _ L Hj Hi). lia.
Qed.

Lemma ascending_NoDup l : ascending l -> NoDup l.
Proof.
  intros H. apply NoDup_nth_error. intros i j Hi E.
  destruct (nth_error l i) as [x|] eqn:Ei.
  - eapply ascending_inj; eauto.
  - apply nth_error_None in Ei. lia.
Qed.

(* two strictly ascending lists with the same elements are equal *)
Lemma ascending_ext l1 l2 : ascending l1 -> ascending l2 ->
  (forall x, In x l1 <-> In x l2) -> l1 = l2.
Proof.
  intros H1; revert l2; induction H1 as [|a l1 Hs IH Hf]; intros l2 H2 E.
  - destruct l2 as [|b l2]; auto. destruct (proj2 (E b)); simpl; auto.
  - destruct H2 as [|b l2 Hs2 Hf2].
    + destruct (proj1 (E a)); simpl; auto.
    + rewrite Forall_forall in Hf, Hf2.
      assert (a = b) as ->.
      { destruct (proj1 (E a)) as [X|X]; simpl; auto.
        destruct (proj2 (E b)) as [Y|Y]; simpl; auto.
        specialize (Hf _ Y). specialize (Hf2 _ X). lia. }
      f_equal. apply IH; auto.
      intros x; split; intros Hx.
      * destruct (proj1 (E x)) as [X|X]; simpl; auto.
        subst x. specialize (Hf _ Hx). lia.
      * destruct (proj2 (E x)) as [X|X]; simpl; auto.
        subst x. specialize (Hf2 _ Hx). lia.
Qed.

Lemma ascending_seq a n : ascending (seq a n).
Proof.
  revert a; induction n as [|n IH]; intros a; simpl; constructor; auto.
  rewrite Forall_forall. intros x Hx. apply in_seq in Hx. lia.
Qed.

Lemma ascending_filter f l : ascending l -> ascending (filter f l).
Proof.
  induction 1 as [|a l Hs IH Hf]; simpl; [constructor|].
  destruct (f a); auto. constructor; auto.
  rewrite Forall_forall in *. intros x Hx. apply filter_In in Hx. apply Hf; tauto.
Qed.

(* insertion that keeps a list ascending *)
Lemma ascending_ins l i b : ascending l -> i <= length l ->
  (forall j x, j < i -> nth_error l j = Some x -> x < b) ->
  (forall j x, i <= j -> nth_error l j = Some x -> b < x) ->
  ascending (ins l i b).
Proof.
  intros H Hi Hlo Hhi. rewrite ascending_nth in *.
  intros j k x y Hjk. rewrite !nth_error_ins by auto.
  destruct (Nat.ltb_spec j i); destruct (Nat.ltb_spec k i); try lia.
  - apply H; auto.
  - destruct (Nat.eqb_spec k i).
    + intros Hj Hk; inversion Hk; subst. eapply Hlo; eauto.
    + intros Hj Hk. apply (H j (k - 1)); auto. lia.
  - destruct (Nat.eqb_spec j i); destruct (Nat.eqb_spec k i); try lia.
    + intros Hj Hk; inversion Hj; subst. apply (Hhi (k - 1)); auto. lia.
    + intros Hj Hk. apply (H (j - 1) (k - 1)); auto. lia.
Qed.

(* ------------------------------------------------------------------ *)
(* div2                                                                *)

Lemma div2_bounds n : 2 * Nat.div2 n <= n /\ n <= 2 * Nat.div2 n + 1.
Proof.
  pose proof (Nat.div2_odd n) as H. destruct (Nat.odd n); simpl in H; lia.
Qed.
